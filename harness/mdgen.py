"""
Grammar-directed generator of Markdown documents (block trees with inline trees) plus a layout
sampler, option sampler and a locator of non-prose spans.  All randomness comes from the rng passed in.

`clean=True` keeps generation inside the domain where the known findings (KNOWN_FINDINGS.json) do
not apply: no block-syntax look-alike words inside paragraphs, no nested list as first child of an
item, no adjacent same-family tags separated by one space, code content without trailing blank
lines/exotic separators.  A separate `dirty` stream lifts those restrictions.
"""
from __future__ import annotations

import random
import re

WORDS = ["alpha", "beta", "gamma", "delta", "it", "is", "a", "the", "quick", "brown", "fox", "jumps", "over", "lazy",
         "dog", "and", "then", "some", "more", "words", "follow", "here", "today", "we", "see", "that", "all", "goes", "well"]
END_WORDS = ["done.", "fine.", "really?", "yes!", "ends.", "works.", "now.", "(so).", "said.”"]
HAZARDS = ["-", "+", "*", "1.", "2)", "#", "##", ">", "---", "***", "===", "~~~", "```", "|", "=", "+x", "-x", "10.", ">x"]
URLS = ["http://example.com/a_b?c=1&d=2", "https://x.org/path/to/page.html#frag", "www.example.com/q"]
CODE_LINES = ["x = 1", "", "    indented", "```", "~~~", "````", "> quoted?", "- item?", "# not heading", "a  b   c", "\ttab", "end \\",
              "<!-- c -->", "{% t %}", "'q' \"dq\" ...", "*x*", "|a|b|", "Compiling...done", "it's \"x\"...y"]
CLOSING_TAGS = ["{% /tag %}", "<!-- /c -->"]
TAGS = ["{% tag a=1 %}", "{{ var }}", "{# note #}", "<!-- comment -->", "{% field kind=\"string\" label='x' %}",
        "{% t x=\"a...b\" %}", "{{ a...b }}", "<!-- wait... more -->", "{# it's \"q\" #}"]
INLINE_HTML = ["<b>", "</b>", "<span class=\"x\">", "<br/>"]


def words(rng: random.Random, n: int, quotes=False, ellipses=False, hazards=False) -> list[str]:
    out = []
    for _ in range(n):
        r = rng.random()
        if hazards and r < 0.12:
            out.append(rng.choice(HAZARDS))
        elif r < 0.22:
            out.append(rng.choice(END_WORDS))
        elif quotes and r < 0.34:
            out.append(rng.choice(['"quoted', 'text"', "'single'", "it's", "don't", "James'", '"one"', '("paren")', "x=\"v\"", "'tis", "\\\"esc\\\"", "“pre”", "\"foo\"...", "'bar'...and", "http://x.org/it's_a/\"q\"", "{% set l = \"50% off\" %}"]))
        elif ellipses and r < 0.44:
            out.append(rng.choice(["wait...", "...and", "so ... on", "hmm....", "a...b", "\"...\"", "end...)", "x . . .", "…already", "... ...",
                                   "\"yes\"... or", "'no'...", "said \"so\"...and"]))
        else:
            out.append(rng.choice(WORDS))
    return out


def inline(rng: random.Random, n: int, depth: int = 0, **kw) -> str:
    parts = []
    i = 0
    while i < n:
        r = rng.random()
        if r < 0.62 or depth > 1:
            k = rng.randint(1, 5)
            parts.append(" ".join(words(rng, k, quotes=kw.get("quotes"), ellipses=kw.get("ellipses"), hazards=kw.get("hazards"))))
            i += k
        elif r < 0.68:
            parts.append("*" + _emph_content(rng, **kw) + "*")
            i += 2
        elif r < 0.74:
            parts.append("**" + _emph_content(rng, **kw) + "**")
            i += 2
        elif r < 0.78:
            parts.append("~~" + " ".join(words(rng, 2)) + "~~")
            i += 2
        elif r < 0.84:
            c = rng.choice(["code", "a b", "'q'", "\"dq\" ...", "a  b", "f(x)", "end.", "x `y` z"])
            d = "``" if "`" in c else "`"
            parts.append(f"{d} {c} {d}" if "`" in c else f"`{c}`")
            i += 1
        elif r < 0.89:
            t = " ".join(words(rng, rng.randint(1, 3)))
            title = rng.choice(["", "", ' "Title"', " 'it''s'"]) if rng.random() < 0.4 else ""
            parts.append(f"[{t}]({rng.choice(URLS)}{title})")
            i += 2
        elif r < 0.91:
            parts.append(f"![alt text]({rng.choice(URLS)})")
            i += 1
        elif r < 0.93:
            parts.append(f"<{rng.choice(URLS[:2])}>")
            i += 1
        elif r < 0.95:
            parts.append(rng.choice(URLS))
            i += 1
        elif r < 0.97 and kw.get("tags"):
            parts.append(rng.choice(TAGS))
            i += 1
        elif r < 0.98 and kw.get("html"):
            parts.append(rng.choice(INLINE_HTML))
            i += 1
        else:
            esc = ["\\_", "&amp;", "a\\|b", "x\\*y"]
            if kw.get("hazards"):
                esc += ["\\*", "\\#", "1\\."]  # become bare markers once the formatter drops/keeps the escape
            parts.append(rng.choice(esc))
            i += 1
    return " ".join(parts)


def _emph_content(rng: random.Random, **kw) -> str:
    """Well-formed emphasis content: starts and ends with a plain word (so delimiter runs always match)."""
    mid = []
    if rng.random() < 0.3:
        mid = [rng.choice(["`code`", "[a link](http://example.com/a_b?c=1&d=2)", "~~gone~~"])]
    ws = [rng.choice(WORDS)] + words(rng, rng.randint(0, 2), quotes=kw.get("quotes"), ellipses=kw.get("ellipses")) + mid + [rng.choice(WORDS)]
    return " ".join(ws)


def lay_out(rng: random.Random, text: str, hard_breaks: bool = True) -> list[str]:
    """Re-break a one-line inline text into physical lines at random spaces (outside code spans/links/tags)."""
    toks = _split_keep_atoms(text)
    lines, cur = [], []
    for t in toks:
        cur.append(t)
        if rng.random() < 0.18 and len(cur) > 0:
            end = ""
            if hard_breaks and rng.random() < 0.12:
                end = rng.choice(["\\", "  "])
            lines.append(" ".join(cur) + end)
            cur = []
    if cur:
        lines.append(" ".join(cur))
    if lines and (lines[-1].endswith("\\") or lines[-1].endswith("  ")):
        lines[-1] = lines[-1].rstrip("\\ ")
    return [l for l in lines if l.strip()] or [text]


_ATOM = re.compile(r"(`+)(?:(?!\1).)+\1|!?\[[^\]]*\]\([^)]*\)|\{%.*?%\}|\{\{.*?\}\}|\{#.*?#\}|<!--.*?-->|<[^>\s][^>]*>|\S+")


def _split_keep_atoms(text: str) -> list[str]:
    return [m.group(0) for m in _ATOM.finditer(text)]


_HAZ_HEAD = re.compile(r"^(?:[-+*>=|#~`]|\d+[.)]|:-)")


def paragraph(rng, **kw) -> list[str]:
    t = inline(rng, rng.randint(3, 40), **kw)
    lines = lay_out(rng, t)
    if kw.get("hazards"):
        # hazard words are inert text in the INPUT: never at the start of a source line
        # (only the formatter's own line breaking may put them there)
        lines = [("so " + l) if _HAZ_HEAD.match(l) else l for l in lines]
    return lines


def code_block(rng, clean=True) -> list[str]:
    fence = rng.choice(["```", "~~~", "````", "~~~~"])
    info = rng.choice(["", "", "python", "sh -x", "text"])
    n = rng.randint(0, 6)
    body = [rng.choice(CODE_LINES) for _ in range(n)]
    ch = fence[0]
    body = [l for l in body if not (l.startswith(ch * 3) and len(l.rstrip()) >= len(fence) and set(l.strip()) == {ch})]
    if clean:
        while body and body[-1].strip() == "":
            body.pop()
    # a closing fence may be longer than the opening one
    return [fence + info] + body + [fence + ch * (rng.choice([0, 0, 0, 1, 2]) if len(body) != 1 or body[0].strip() else 0)]


def table(rng, **kw) -> list[str]:
    cols = rng.randint(1, 4)
    def row():
        return "| " + " | ".join(rng.choice(["x", "a b", "`c|d`".replace("|", "\\|"), "1\\|2", inline(rng, 2, depth=2, **kw)]) for _ in range(cols)) + " |"
    align = "| " + " | ".join(rng.choice(["---", ":---", "---:", ":---:"]) for _ in range(cols)) + " |"
    return [row(), align] + [row() for _ in range(rng.randint(0, 3))]


def blocks(rng: random.Random, depth: int, n: int, clean=True, **kw) -> list[list[str]]:
    """A list of blocks; each block is a list of physical lines (no trailing newline)."""
    out = []
    for _ in range(n):
        r = rng.random()
        if r < 0.42 or depth > 2:
            out.append(paragraph(rng, **kw))
        elif r < 0.52:
            lvl = rng.randint(1, 6)
            txt = inline(rng, rng.randint(1, 5), depth=1, **{**kw, "hazards": False})
            if kw.get("bold_headings") and rng.random() < 0.5:
                txt = rng.choice(["**" + " ".join(words(rng, 2)) + "**", "***" + " ".join(words(rng, 2)) + "***",
                                  "**bold** and plain", "*" + "**x y**" + "*"])
            if lvl <= 2 and rng.random() < 0.25 and "\n" not in txt and not kw.get("no_setext"):
                toks = _split_keep_atoms(txt)
                if len(toks) >= 3 and rng.random() < 0.35 and not any(_HAZ_HEAD.match(t) for t in toks):
                    k = rng.randint(1, len(toks) - 1)           # a setext heading may span several lines
                    out.append([" ".join(toks[:k]), " ".join(toks[k:]), ("=" if lvl == 1 else "-") * rng.randint(3, 8)])
                else:
                    out.append([txt, ("=" if lvl == 1 else "-") * rng.randint(3, 8)])   # setext form
            else:
                out.append(["#" * lvl + " " + txt])
        elif r < 0.66:
            out.append(list_block(rng, depth, ordered=False, clean=clean, **kw))
        elif r < 0.74:
            out.append(list_block(rng, depth, ordered=True, clean=clean, **kw))
        elif r < 0.81:
            inner = blocks(rng, depth + 1, rng.randint(1, 2), clean=clean, **kw)
            lines = join_blocks(inner)
            out.append(["> " + l if l else ">" for l in lines])
        elif r < 0.86:
            out.append(code_block(rng, clean))
        elif r < 0.88 and depth == 0 and out:  # never first: fill_markdown dedents/strips the document start (by design)
            body = [l for l in (rng.choice(CODE_LINES) for _ in range(rng.randint(1, 4))) if l.strip() and not l.startswith(" ")] or ["code"]
            out.append(["    " + l for l in body])
        elif r < 0.92 and depth == 0:
            out.append(table(rng, **kw))
        elif r < 0.95:
            out.append([rng.choice(["---", "***", "* * *", "___"])])
        elif r < 0.97 and depth == 0:
            out.append([f"[ref{rng.randint(1, 3)}]: {rng.choice(URLS[:2])}" + rng.choice(["", ' "A title"'])])
        elif depth == 0:
            k = rng.randint(1, 9)
            out.append([f"Text with a note[^n{k}] inside it.", "", f"[^n{k}]: " + " ".join(words(rng, rng.randint(2, 25)))])
        else:
            out.append(paragraph(rng, **kw))
    return out


def list_block(rng, depth, ordered, clean=True, **kw) -> list[str]:
    n = rng.randint(1, 4)
    loose = rng.random() < 0.4
    start = rng.choice([1, 1, 1, 3, 9, 98]) if ordered else 0
    bullet = rng.choice(["-", "*", "+"])
    lines = []
    for i in range(n):
        marker = f"{start + i}." if ordered else bullet
        nblocks = 1 if rng.random() < 0.7 else rng.randint(2, 3)
        inner = []
        for b in range(nblocks):
            r = rng.random()
            if b == 0 or r < 0.5 or depth > 1:
                if rng.random() < 0.15 and not ordered:
                    p = paragraph(rng, **kw)
                    p[0] = rng.choice(["[ ] ", "[x] "]) + p[0]
                    inner.append(p)
                else:
                    inner.append(paragraph(rng, **kw))
            elif r < 0.75:
                inner.append(list_block(rng, depth + 1, ordered=rng.random() < 0.3, clean=clean, **kw))
            elif r < 0.9:
                inner.append(code_block(rng, clean))
            elif r < 0.95:
                inner.append(["> " + l for l in paragraph(rng, **kw)])
            else:
                # a quote holding a (possibly loose) list, inside the list item
                q = list_block(rng, depth + 2, ordered=rng.random() < 0.3, clean=clean, **kw)
                inner.append([("> " + l) if l else ">" for l in q])
        body = join_blocks(inner, tight=(not loose and all(len(b_) >= 1 for b_ in inner) and nblocks == 1))
        if nblocks > 1 and not loose:
            body = join_blocks(inner)
        ind = " " * (len(marker) + 1)
        for j, l in enumerate(body):
            lines.append((marker + " " + l) if j == 0 else ((ind + l) if l else ""))
        if loose and i < n - 1:
            lines.append("")
    return lines


def join_blocks(bs: list[list[str]], tight: bool = False) -> list[str]:
    out: list[str] = []
    for i, b in enumerate(bs):
        if i and not tight:
            out.append("")
        out.extend(b)
    return out


def gen_document(rng: random.Random, clean: bool = True, max_blocks: int = 6, frontmatter: bool = False, **kw) -> str:
    bs = blocks(rng, 0, rng.randint(1, max_blocks), clean=clean, **kw)
    if bs and bs[0] == ["---"]:
        bs[0] = ["***"]  # a document whose first line is `---` is (unclosed) frontmatter, not a rule (C07)
    text = "\n".join(join_blocks(bs)) + "\n"
    if frontmatter and rng.random() < 0.3:
        text = "---\ntitle: \"T ... 'x'\"\n---\n" + text
    return text


def rand_opts(rng: random.Random, widths=(0, 20, 40, 88)) -> dict:
    from flowmark.formats.flowmark_markdown import ListSpacing
    return {
        "width": rng.choice(list(widths)),
        "semantic": rng.random() < 0.5,
        "cleanups": rng.random() < 0.5,
        "smartquotes": rng.random() < 0.5,
        "ellipses": rng.random() < 0.5,
        "list_spacing": rng.choice(list(ListSpacing)),
    }


# ------------------------------------------------------------------------------------------
# non-prose span locator on (formatted) Markdown text

_FENCE_OPEN = re.compile(r"^(?P<pre>(?:[ ]{0,3}>[ ]?|[ ]{0,8}|(?:[-*+]|\d+[.)])[ ]+)*)(?P<f>`{3,}|~{3,})(?P<info>.*)$")
_INLINE_PROTECT = re.compile(
    r"(`+)(?:(?!\1)[\s\S])+?\1(?!`)"            # code spans
    r"|\{%[\s\S]*?%\}|\{\{[\s\S]*?\}\}|\{#[\s\S]*?#\}|<!--[\s\S]*?-->"   # template tags / comments
    r"|</?[A-Za-z][^<>\n]*>"                      # inline HTML tags
    r"|<https?://[^>\s]*>"                        # autolinks
    r"|\]\([^()\s]*(?:\s+\"[^\"\n]*\"|\s+'[^'\n]*')?\)"   # link destination (+title)
    r"|(?:https?://|www\.)[^\s<>\"']*"            # bare URLs
    r"|\\[\"']"                                   # backslash-escaped quotes
)


def protected_spans(text: str) -> list[tuple[int, int]]:
    spans: list[tuple[int, int]] = []
    pos = 0
    in_code, fence = False, ""
    prose_chunks: list[tuple[int, int]] = []
    for line in text.split("\n"):
        a, b = pos, pos + len(line)
        pos = b + 1
        if in_code:
            spans.append((a, b))
            s = line.lstrip(" >")
            s2 = re.sub(r"^\s*", "", s)
            if s2.startswith(fence) and set(s2.strip()) == {fence[0]}:
                in_code = False
            continue
        m = _FENCE_OPEN.match(line)
        if m and not (m.group("f")[0] == "`" and "`" in m.group("info")):
            in_code, fence = True, m.group("f")
            spans.append((a, b))
            continue
        if re.match(r"^\s*(?:>\s*)*\[[^\]]+\]:\s", line):  # link reference / footnote definition label+dest
            mm = re.match(r"^\s*(?:>\s*)*\[[^\]]+\]:\s+\S+", line)
            if mm and not line.lstrip(" >").startswith("[^"):
                spans.append((a, a + mm.end()))
        prose_chunks.append((a, b))
    # inline constructs, searched per contiguous prose region (paragraphs may span lines)
    region_start = None
    regions: list[tuple[int, int]] = []
    last_end = None
    for a, b in prose_chunks:
        if region_start is None:
            region_start, last_end = a, b
        elif a == last_end + 1:
            last_end = b
        else:
            regions.append((region_start, last_end))
            region_start, last_end = a, b
    if region_start is not None:
        regions.append((region_start, last_end))
    for a, b in regions:
        for m in _INLINE_PROTECT.finditer(text, a, b):
            spans.append((m.start(), m.end()))
    return spans
