"""Codec round-trip and code-point class self-test (run by ./setup and by checks that need it)."""
from __future__ import annotations

import sys

from common import dec, dec_list, enc, enc_list, run_driver


def codec_selftest() -> list[str]:
    errs = []
    samples = ["", "a", "a b", "\x00\t\n\r", "λ→ \U0001F600", ";.;", "1.2;3"]
    outs = run_driver([f"echo\t{enc(s)}" for s in samples])
    for s, o in zip(samples, outs):
        if dec(o) != s:
            errs.append(f"echo {s!r} -> {o!r}")
    lists = [[], [""], ["", ""], ["a", "", "b c"], ["\x00"]]
    outs = run_driver([f"echol\t{enc_list(l)}" for l in lists])
    for l, o in zip(lists, outs):
        if dec_list(o) != l:
            errs.append(f"echol {l!r} -> {o!r}")
    if run_driver(["nonsense\tx"]) != ["bad-op"]:
        errs.append("unknown op not rejected")
    return errs


def codepoint_selftest() -> list[str]:
    """Model's isPySpace / isPyLineBreak vs the running interpreter, all code points."""
    cps = [i for i in range(0x110000) if not (0xD800 <= i <= 0xDFFF)]
    outs = run_driver([f"isspace\t{i}" for i in cps], workers=16)
    errs = []
    for i, o in zip(cps, outs):
        c = chr(i)
        sp = c.isspace()
        lb = len(("a" + c + "b").splitlines()) == 2
        if o != ("1" if sp else "0") + ("1" if lb else "0"):
            errs.append(f"U+{i:04X}: model {o} python {sp},{lb}")
    return errs[:10]


if __name__ == "__main__":
    e = codec_selftest() + codepoint_selftest()
    for x in e:
        print("SELFTEST-FAIL", x)
    sys.exit(1 if e else 0)
