"""Regenerates the data tables of DESIGN.md §12 (between the GENERATED markers) from KNOWN_FINDINGS.json and seeded/*/meta.json."""
import json
import re
from pathlib import Path

V = Path(__file__).resolve().parent.parent


def esc(s: str) -> str:
    return s.replace("|", "\\|").replace("\n", " ")


def tables() -> str:
    k = json.loads((V / "KNOWN_FINDINGS.json").read_text())["findings"]
    out = ["#### Defects repaired in flowmark (`fix:` commits in /repo, all 302 tests pass with each)", "",
           "| property | commit | what failed |", "|---|---|---|"]
    for e in k:
        if e["status"] == "fixed":
            line = re.sub(r"^fixed: property=\S+ \S+ ", "", e["line"])
            out.append(f"| {e['property']} | `{e['commit']}` | {esc(line)} |")
    out += ["", "#### Known findings (recorded, not repaired; each check prints a KNOWN-FINDING line and exits 0)", "",
            "| property | id | what fails | why not repaired | how a failure is attributed to it |", "|---|---|---|---|---|"]
    for e in k:
        if e["status"] == "known":
            out.append(f"| {e['property']} | `{e['id']}` | {esc(e['line'])} | {esc(e.get('what', ''))} | {esc(e.get('neutraliser', ''))} |")
    out += ["", "#### Seeded changes and the checks that catch them", "",
            "Each row is a change written by a sub-agent that saw only the property text and a scratch worktree; it passes the 302 tests, "
            "and its demo fails with the change and passes without (confirmed by `harness/confirm_mut.sh`). "
            "`harness/mutcheck.sh seeded/<id>/patch.diff <property>` applies it to /repo, runs the quick check, and reverts.", "",
            "| seeded change | breaks | needs, to manifest | caught by |", "|---|---|---|---|"]
    for d in sorted((V / "seeded").iterdir()):
        m = d / "meta.json"
        if m.exists():
            j = json.loads(m.read_text())
            out.append(f"| `{j['id']}` | {j['breaks_property']} | {esc(j['needs_to_manifest'])} | {esc(j['detected_by'])} |")
    return "\n".join(out) + "\n"


def main():
    p = V / "DESIGN.md"
    s = p.read_text()
    a, b = "<!-- GENERATED:tables -->", "<!-- /GENERATED:tables -->"
    if a in s and b in s:
        s = s[:s.index(a) + len(a)] + "\n" + tables() + s[s.index(b):]
        p.write_text(s)
        print("tables refreshed")
    else:
        print(tables()[:2000])


if __name__ == "__main__":
    main()
