"""
Reading a Markdown text "as a document": a canonical nested-tuple form of the Marko AST (flowmark's own
parser configuration), used by the meaning-preservation oracles (C01, C03, C04, C10).

Normalisation (what the property allows to differ): blank lines between blocks; soft line breaks vs
spaces; runs of whitespace in text; the Pangu space between CJK and Latin; setext vs ATX headings;
indented vs fenced code; bullet character; backslash escapes (a Literal is its character); an inline
link vs the same link by reference.
"""
from __future__ import annotations

import re
from typing import Any

from marko import block, inline
from marko.ext import footnote
from marko.ext.gfm import elements as gfm


def parse(text: str):
    from flowmark.formats.flowmark_markdown import flowmark_markdown
    from flowmark.linewrapping.line_wrappers import line_wrap_to_width
    m = flowmark_markdown(line_wrap_to_width(88, is_markdown=True))
    return m.parse(text)


def _ws(s: str) -> str:
    return re.sub(r"\s+", " ", s)


def norm_inlines(es, pangu: bool = True) -> tuple:
    from marko.ext.pangu import PANGU_RE
    out: list[Any] = []

    def text(s: str):
        if out and isinstance(out[-1], str):
            out[-1] += s
        else:
            out.append(s)

    for e in es:
        if isinstance(e, inline.RawText):
            text(e.children)
        elif isinstance(e, inline.Literal):
            text(e.children)
        elif isinstance(e, inline.LineBreak):
            if e.soft:
                text(" ")
            else:
                out.append(("hardbreak",))
        elif isinstance(e, inline.CodeSpan):
            out.append(("code", _ws(e.children).strip()))
        elif isinstance(e, inline.StrongEmphasis):
            out.append(("strong", norm_inlines(e.children, pangu)))
        elif isinstance(e, inline.Emphasis):
            out.append(("em", norm_inlines(e.children, pangu)))
        elif isinstance(e, gfm.Strikethrough):
            out.append(("strike", norm_inlines(e.children, pangu)))
        elif isinstance(e, inline.Image):
            out.append(("image", e.dest, e.title or None, norm_inlines(e.children, pangu)))
        elif isinstance(e, inline.Link):
            out.append(("link", e.dest, e.title or None, norm_inlines(e.children, pangu)))
        elif isinstance(e, gfm.Url):
            out.append(("url", e.dest))
        elif isinstance(e, inline.AutoLink):
            out.append(("autolink", e.dest))
        elif isinstance(e, inline.InlineHTML):
            out.append(("html", _ws(e.children)))
        elif isinstance(e, footnote.FootnoteRef):
            out.append(("fnref", e.label))
        else:
            out.append(("?", type(e).__name__))
    res = []
    for x in out:
        if isinstance(x, str):
            if pangu:
                x = re.sub(PANGU_RE, " ", x)
            x = _ws(x)
            if x:
                res.append(x)
        else:
            res.append(x)
    # trim edges of text (paragraph strip)
    if res and isinstance(res[0], str):
        res[0] = res[0].lstrip()
    if res and isinstance(res[-1], str):
        res[-1] = res[-1].rstrip()
    return tuple(x for x in res if x != "")


def _strip_hb_space(t: tuple) -> tuple:
    """whitespace directly around a hard break is layout"""
    res = list(t)
    for i, x in enumerate(res):
        if x == ("hardbreak",):
            if i > 0 and isinstance(res[i - 1], str):
                res[i - 1] = res[i - 1].rstrip()
            if i + 1 < len(res) and isinstance(res[i + 1], str):
                res[i + 1] = res[i + 1].lstrip()
    return tuple(x for x in res if x != "")


def norm_block(e) -> Any:
    if isinstance(e, block.BlankLine):
        return None
    if isinstance(e, block.Paragraph):
        chk = getattr(e, "checked", None)
        return ("para", chk, _strip_hb_space(norm_inlines(e.children)))
    if isinstance(e, (block.Heading, block.SetextHeading)):
        return ("heading", e.level, _strip_hb_space(norm_inlines(e.children)))
    if isinstance(e, block.List):
        return ("list", bool(e.ordered), e.start if e.ordered else None, bool(e.tight),
                tuple(norm_block(c) for c in e.children))
    if isinstance(e, block.ListItem):
        return ("item", norm_blocks(e.children))
    if isinstance(e, gfm.Alert):
        return ("alert", e.alert_type, norm_blocks(e.children))
    if isinstance(e, block.Quote):
        return ("quote", norm_blocks(e.children))
    if isinstance(e, block.FencedCode):
        lang = e.lang or ""
        return ("code", lang, (e.extra or "") if lang else "", e.children[0].children.rstrip("\n"))
    if isinstance(e, block.CodeBlock):
        return ("code", "", "", e.children[0].children.rstrip("\n"))
    if isinstance(e, block.ThematicBreak):
        return ("hr",)
    if isinstance(e, block.LinkRefDef):
        t = e.title or None
        if t and len(t) >= 2 and (t[0], t[-1]) in (('"', '"'), ("'", "'"), ("(", ")")):
            t = re.sub(r"\\(.)", r"\1", t[1:-1])  # delimiters and backslash escapes are spelling, not content
        return ("linkdef", e.label, e.dest, t)
    if isinstance(e, footnote.FootnoteDef):
        return ("fndef", e.label, norm_blocks(e.children))
    if isinstance(e, gfm.Table):
        rows = tuple(tuple(norm_inlines(c.children) for c in r.children) for r in e.children)
        al = tuple((d.startswith(":"), d.endswith(":")) for d in e.delimiters)
        return ("table", al, rows)
    if isinstance(e, block.HTMLBlock):
        return ("htmlblock", e.body)
    return ("?", type(e).__name__)


def norm_blocks(es) -> tuple:
    return tuple(x for x in (norm_block(c) for c in es) if x is not None)


def norm_doc(text: str) -> tuple:
    return norm_blocks(parse(text).children)


def first_diff(a: Any, b: Any, path: str = "") -> str | None:
    if a == b:
        return None
    if isinstance(a, tuple) and isinstance(b, tuple):
        if len(a) != len(b):
            k = next((i for i, (x, y) in enumerate(zip(a, b)) if x != y), min(len(a), len(b)))
            xa = a[k] if k < len(a) else "<end>"
            xb = b[k] if k < len(b) else "<end>"
            return f"{path}: {len(a)} vs {len(b)} children; first difference at [{k}]: {str(xa)[:160]!r} vs {str(xb)[:160]!r}"
            kinds_a = [x[0] if isinstance(x, tuple) and x else x for x in a]
            kinds_b = [x[0] if isinstance(x, tuple) and x else x for x in b]
            return f"{path}: {len(a)} vs {len(b)} children: {str(kinds_a)[:160]} vs {str(kinds_b)[:160]}"
        for i, (x, y) in enumerate(zip(a, b)):
            d = first_diff(x, y, f"{path}/{a[0] if a and isinstance(a[0], str) else ''}[{i}]")
            if d:
                return d
    return f"{path}: {str(a)[:120]!r} vs {str(b)[:120]!r}"
