"""
Shared machinery of the flowmark verification harness.

  * line-protocol codec + Lean driver client
  * Ctx: per-run bookkeeping (seeded PRNG, evidence counters, obligations, failing inputs,
    known findings, replay files, verdict)

Run with /venv/bin/python (flowmark is an editable install of /repo, so the working tree is
what gets imported).
"""
from __future__ import annotations

import hashlib
import json
import os
import random
import subprocess
import sys
import time
from concurrent.futures import ThreadPoolExecutor
from pathlib import Path
from typing import Any, Callable, Iterable, Sequence

VERIF = Path(__file__).resolve().parent.parent
LEAN_DIR = VERIF / "lean"
DRIVER = LEAN_DIR / ".lake" / "build" / "bin" / "driver"
REPO = Path(os.environ.get("FLOWMARK_REPO", "/repo"))
EVIDENCE_DIR = VERIF / "evidence"
REPLAY_DIR = VERIF / "replays"
KNOWN_FINDINGS = VERIF / "KNOWN_FINDINGS.json"

ALLOWED_AXIOMS = {"propext", "Classical.choice", "Quot.sound"}

TRUSTED_BASE = [
    "Lean 4.33.0 kernel; axioms per theorem audited by `#print axioms` ⊆ {propext, Classical.choice, Quot.sound}",
    "no sorry/admit/axiom/native_decide/bv_decide/implemented_by/unsafe in /verif/lean (grep on every run)",
    "harness/translate.py (generated tables say what the source says) and the correspondence harness + driver codec",
]


# --------------------------------------------------------------------------------------------
# codec


def enc(s: str) -> str:
    return ".".join(str(ord(c)) for c in s)


def dec(s: str) -> str:
    if s == "":
        return ""
    return "".join(chr(int(p)) for p in s.split("."))


def enc_list(xs: Iterable[str]) -> str:
    return "".join(enc(x) + ";" for x in xs)


def dec_list(s: str) -> list[str]:
    if s == "":
        return []
    parts = s.split(";")
    assert parts[-1] == "", s
    return [dec(p) for p in parts[:-1]]


def enc_bool(b: bool) -> str:
    return "1" if b else "0"


# --------------------------------------------------------------------------------------------
# Lean driver client


class DriverError(RuntimeError):
    pass


def run_driver(lines: Sequence[str], workers: int = 8) -> list[str]:
    """Send protocol lines to the compiled Lean driver, return one answer per line."""
    if not DRIVER.exists():
        raise DriverError(f"driver executable missing: {DRIVER} (run ./setup)")
    if not lines:
        return []
    for ln in lines:
        if "\n" in ln:
            raise DriverError("newline inside protocol line")

    def one(chunk: Sequence[str]) -> list[str]:
        p = subprocess.run(
            [str(DRIVER)],
            input=("\n".join(chunk) + "\n").encode(),
            stdout=subprocess.PIPE,
            stderr=subprocess.PIPE,
        )
        if p.returncode != 0:
            raise DriverError(f"driver exited {p.returncode}: {p.stderr.decode()[:500]}")
        out = p.stdout.decode().split("\n")
        if out and out[-1] == "":
            out.pop()
        if len(out) != len(chunk):
            raise DriverError(f"driver answered {len(out)} lines for {len(chunk)} ops")
        return out

    n = len(lines)
    if n < 2000 or workers <= 1:
        return one(lines)
    size = (n + workers - 1) // workers
    chunks = [lines[i : i + size] for i in range(0, n, size)]
    with ThreadPoolExecutor(max_workers=workers) as ex:
        res = list(ex.map(one, chunks))
    return [x for r in res for x in r]


# --------------------------------------------------------------------------------------------
# run context


def _short(x: Any, n: int = 300) -> Any:
    s = x if isinstance(x, str) else json.dumps(x, ensure_ascii=False, default=str)
    return s if len(s) <= n else s[:n] + "…"


class Ctx:
    def __init__(self, prop: str, tier: str, seed: int):
        self.prop = prop
        self.tier = tier
        self.seed = seed
        self.rng = random.Random(f"{prop}:{seed}")
        self.t0 = time.time()
        self.evaluations = 0
        self._distinct: set[bytes] = set()
        self.samples: list[Any] = []
        self.rules: list[str] = []
        self.obligations: list[dict[str, Any]] = []  # {name, kind, ok, detail}
        self.failing: list[dict[str, Any]] = []  # unlisted failing inputs (violations)
        self.known_hits: dict[str, str] = {}  # finding id -> what
        self.broken_inputs: list[dict[str, Any]] = []  # inputs on which a tie broke
        self.assumptions: list[str] = []
        self.extra: dict[str, Any] = {}
        self.dist: dict[str, int] = {}
        self.infra_errors: list[str] = []
        self.kf = load_known_findings(prop)
        self.kf_all = load_known_findings(None)  # a failure may be attributed to another property's finding

    # ---- budgets
    def scale(self, quick: int, thorough: int) -> int:
        return thorough if self.tier == "thorough" else quick

    # ---- counting
    def count(self, case: Any, nontrivial: bool = True, sample: bool = False, n: int = 1) -> None:
        self.evaluations += n
        if nontrivial:
            h = hashlib.blake2b(
                json.dumps(case, ensure_ascii=False, default=str, sort_keys=True).encode(),
                digest_size=8,
            ).digest()
            self._distinct.add(h)
        if sample and len(self.samples) < 12:
            self.samples.append(_short(case))

    def bump(self, key: str, n: int = 1) -> None:
        self.dist[key] = self.dist.get(key, 0) + n

    def rule(self, text: str) -> None:
        if text not in self.rules:
            self.rules.append(text)

    def assume(self, text: str) -> None:
        if text not in self.assumptions:
            self.assumptions.append(text)

    # ---- obligations (theorems, ties, monitors)
    def obligation(self, name: str, kind: str, ok: bool, detail: str = "") -> None:
        self.obligations.append({"name": name, "kind": kind, "ok": bool(ok), "detail": _short(detail, 600)})

    def guard(self, name: str, fn: Callable[..., Any], *args: Any) -> None:
        """Run a tie/monitor; if it cannot be evaluated (it raises), that is a broken obligation —
        handled by the verdict rule (search first) — not an infrastructure error."""
        try:
            fn(self, *args)
        except DriverError:
            raise
        except Exception as e:
            import traceback
            tb = traceback.format_exc().strip().splitlines()[-3:]
            self.obligation(f"{name} (could not be evaluated: {type(e).__name__}: {e})", "correspondence", False, " | ".join(tb))

    def tie_broken(self, name: str, case: Any, expected: Any, actual: Any) -> None:
        if len(self.broken_inputs) < 50:
            self.broken_inputs.append(
                {"tie": name, "case": case, "model": _short(expected, 2000), "impl": _short(actual, 2000)}
            )

    # ---- failing inputs on the real code
    def fail(self, clause: str, case: Any, detail: Any = None, known: str | None = None) -> None:
        """A concrete input on which the property fails on the real code.
        `known` = id of the KNOWN_FINDINGS entry it is attributed to (counterfactually), if any."""
        if known is not None and known in self.kf_all and self.kf_all[known].get("status") == "known":
            e = self.kf_all[known]
            self.known_hits.setdefault(known, e.get("line") or e.get("what", clause))
            return
        if len(self.failing) < 20:
            self.failing.append({"clause": clause, "case": case, "detail": _short(detail, 2000)})
        else:
            self.failing.append({})  # count only

    def known_replay(self, fid: str, still_fails: bool) -> None:
        e = self.kf.get(fid)
        if e is None:
            return
        if e.get("status") == "known":
            if still_fails:
                self.known_hits.setdefault(fid, e.get("line") or e.get("what", fid))
            else:
                self.extra.setdefault("known_findings_no_longer_failing", []).append(fid)
        elif e.get("status") == "fixed" and still_fails:
            self.fail(f"regression of fixed finding {fid}", e.get("input"), e.get("what"))

    # ---- wrap up
    def write_replay(self, kind: str, payload: dict[str, Any]) -> Path:
        REPLAY_DIR.mkdir(exist_ok=True)
        body = {
            "property": self.prop,
            "tier": self.tier,
            "seed": self.seed,
            "kind": kind,
            **payload,
            "replay_cmd": f"./check {self.prop} --replay <this file>",
        }
        blob = json.dumps(body, ensure_ascii=False, indent=1, default=str)
        h = hashlib.blake2b(blob.encode(), digest_size=6).hexdigest()
        p = REPLAY_DIR / f"{self.prop}-{h}.json"
        p.write_text(blob)
        return p

    def broken(self) -> list[dict[str, Any]]:
        return [o for o in self.obligations if not o["ok"]]

    def write_evidence(self, violations: int) -> None:
        EVIDENCE_DIR.mkdir(exist_ok=True)
        thms = [o for o in self.obligations if o["kind"] in ("theorem", "generated-obligation")]
        ties = [o for o in self.obligations if o["kind"] not in ("theorem", "generated-obligation")]
        cov: dict[str, Any] = {
            "obligations": len(self.obligations),
            "discharged": sum(1 for o in self.obligations if o["ok"]),
            "theorems": len(thms),
            "theorems_discharged": sum(1 for o in thms if o["ok"]),
            "ties_and_monitors": [{k: o[k] for k in ("name", "kind", "ok")} for o in ties],
            "theorem_list": [o["name"] + ("" if o["ok"] else " (BROKEN)") for o in thms],
            "checker_cmd": f"cd /verif/lean && lake build FM.Props.{self.prop} && lake env lean .audit/Audit_{self.prop}.lean  (kernel re-check; #print axioms per theorem)",
            "trusted_base": TRUSTED_BASE + self.assumptions,
            "evaluations": self.evaluations,
            "distinct_nontrivial": len(self._distinct),
            "rule": " | ".join(self.rules) or "n/a",
            "samples": self.samples or ["(no generated cases in this run)"],
            "input_distribution": self.dist,
            "known_findings_reported": sorted(self.known_hits),
            "broken_obligations": [o for o in self.obligations if not o["ok"]],
        }
        cov.update(self.extra)
        ev = {
            "property_id": self.prop,
            "tier": self.tier,
            "seed": self.seed,
            "level": "proof",
            "coverage": cov,
            "assumptions": self.assumptions,
            "wall_s": round(time.time() - self.t0, 2),
            "violations": violations,
        }
        (EVIDENCE_DIR / f"{self.prop}.json").write_text(json.dumps(ev, ensure_ascii=False, indent=1, default=str))


def load_known_findings(prop: str | None) -> dict[str, dict[str, Any]]:
    if not KNOWN_FINDINGS.exists():
        return {}
    data = json.loads(KNOWN_FINDINGS.read_text())
    return {e["id"]: e for e in data.get("findings", []) if prop is None or e.get("property") == prop}


def finish(ctx: Ctx, search: Callable[[Ctx], None] | None = None) -> int:
    """Apply the verdict rule (DESIGN §2.2) and print the result lines."""
    if ctx.infra_errors:
        for e in ctx.infra_errors:
            print(f"INFRA-ERROR: {e}")
        ctx.write_evidence(0)
        return 2
    broken = ctx.broken()
    if broken and not ctx.failing and search is not None:
        # A proof obligation or tie is broken: look for a concrete failing input on the real code,
        # starting from the disagreeing inputs, with an enlarged budget.
        print(f"[{ctx.prop}] {len(broken)} broken obligation(s): " + ", ".join(o["name"] for o in broken[:6]))
        ctx.extra["search_after_broken_obligation"] = True
        try:
            search(ctx)
        except Exception as e:  # search trouble must not mask the broken obligation
            print(f"[{ctx.prop}] search raised {type(e).__name__}: {e}")
    for fid, what in sorted(ctx.known_hits.items()):
        print(f"KNOWN-FINDING: property={ctx.prop} {fid}: {what}")
    n_fail = len(ctx.failing)
    if n_fail:
        first = next(f for f in ctx.failing if f)
        p = ctx.write_replay(
            "failing-input",
            {"clause": first["clause"], "input": first["case"], "detail": first["detail"],
             "more_failing_inputs": [f for f in ctx.failing[1:6] if f],
             "broken_obligations": broken},
        )
        ctx.write_evidence(n_fail)
        print(f"[{ctx.prop}] failing input: {first['clause']}: {_short(first['case'], 400)}")
        print(f"VIOLATION property={ctx.prop} replay={p}")
        return 1
    if broken:
        p = ctx.write_replay(
            "broken-obligation",
            {"broken_obligations": broken, "disagreeing_inputs": ctx.broken_inputs[:20]},
        )
        ctx.write_evidence(1)
        print(f"VIOLATION property={ctx.prop} replay={p} no-failing-input-found")
        return 1
    ctx.write_evidence(0)
    print(f"[{ctx.prop}] OK tier={ctx.tier} seed={ctx.seed} obligations={len(ctx.obligations)} "
          f"evaluations={ctx.evaluations} wall={time.time()-ctx.t0:.1f}s")
    return 0
