"""
Plumbing translator: reads cli.py, reformat_api.py, config.py, file_resolver/types.py with `ast`
(exactly what is on disk) and emits FM/Generated/Plumbing.lean — the option dataflow as data.
Fails closed (TranslateError) on any construct it does not expect.
"""
from __future__ import annotations

import ast
from pathlib import Path

from translate import SRC, TranslateError, lean_list, lean_str


def _parse(rel: str) -> ast.Module:
    p = SRC / rel
    try:
        return ast.parse(p.read_text(), filename=str(p))
    except (OSError, SyntaxError) as e:
        raise TranslateError(f"cannot parse {p}: {e}")


def _func(mod: ast.Module, name: str) -> ast.FunctionDef:
    for n in ast.walk(mod):
        if isinstance(n, ast.FunctionDef) and n.name == name:
            return n
    raise TranslateError(f"function {name} not found")


def _cls(mod: ast.Module, name: str) -> ast.ClassDef:
    for n in mod.body:
        if isinstance(n, ast.ClassDef) and n.name == name:
            return n
    raise TranslateError(f"class {name} not found")


def _dataclass_fields(c: ast.ClassDef) -> list[str]:
    return [s.target.id for s in c.body if isinstance(s, ast.AnnAssign) and isinstance(s.target, ast.Name)]


def _const(n: ast.AST):
    try:
        return ast.literal_eval(n)
    except Exception:
        return ast.unparse(n)


def pexpr(n: ast.AST, base_names: tuple[str, ...]) -> str:
    """Translate an argument expression into a Lean PExpr term."""
    if isinstance(n, ast.Attribute) and isinstance(n.value, ast.Name) and n.value.id in base_names:
        return f".var {lean_str(n.attr)}"
    if isinstance(n, ast.Name):
        return f".var {lean_str(n.id)}"
    if isinstance(n, ast.UnaryOp) and isinstance(n.op, ast.Not):
        inner = n.operand
        if isinstance(inner, ast.Attribute) and isinstance(inner.value, ast.Name) and inner.value.id in base_names:
            return f".notVar {lean_str(inner.attr)}"
        if isinstance(inner, ast.Name):
            return f".notVar {lean_str(inner.id)}"
    if isinstance(n, ast.Call) and isinstance(n.func, ast.Name) and len(n.args) == 1 and not n.keywords:
        a = n.args[0]
        if isinstance(a, ast.Attribute) and isinstance(a.value, ast.Name) and a.value.id in base_names:
            return f".ctor {lean_str(n.func.id)} {lean_str(a.attr)}"
        if isinstance(a, ast.Name):
            return f".ctor {lean_str(n.func.id)} {lean_str(a.id)}"
    if isinstance(n, ast.Constant):
        return f".const {lean_str(repr(n.value))}"
    if isinstance(n, ast.Attribute):  # e.g. Wrap.WRAP
        return f".const {lean_str(ast.unparse(n))}"
    if isinstance(n, ast.IfExp):
        # `X if X is not None else <default>`: X flows through when it is set
        t = n.test
        if (isinstance(t, ast.Compare) and len(t.ops) == 1 and isinstance(t.ops[0], ast.IsNot)
                and isinstance(t.comparators[0], ast.Constant) and t.comparators[0].value is None
                and ast.dump(t.left) == ast.dump(n.body)):
            return pexpr(n.body, base_names)
    if isinstance(n, ast.Subscript):  # e.g. files[0]
        return f".const {lean_str(ast.unparse(n))}"
    if isinstance(n, ast.Call):  # e.g. get_html_md_word_splitter()
        return f".const {lean_str(ast.unparse(n))}"
    raise TranslateError(f"unsupported argument expression: {ast.unparse(n)}")


def _kw_table(call: ast.Call, base_names: tuple[str, ...]) -> list[tuple[str, str]]:
    out = []
    for kw in call.keywords:
        if kw.arg is None:
            raise TranslateError(f"**kwargs in call {ast.unparse(call.func)}")
        out.append((kw.arg, pexpr(kw.value, base_names)))
    return out


def _calls(fn: ast.AST, name: str) -> list[ast.Call]:
    res = []
    for n in ast.walk(fn):
        if isinstance(n, ast.Call):
            f = n.func
            if (isinstance(f, ast.Name) and f.id == name) or (isinstance(f, ast.Attribute) and f.attr == name):
                res.append(n)
    res.sort(key=lambda c: (c.lineno, c.col_offset))
    return res


def _argparse_options(fn: ast.FunctionDef, parser_name: str) -> list[dict]:
    opts = []
    for c in _calls(fn, "add_argument"):
        if not (isinstance(c.func, ast.Attribute) and isinstance(c.func.value, ast.Name) and c.func.value.id == parser_name):
            continue
        flags = []
        for a in c.args:
            if not (isinstance(a, ast.Constant) and isinstance(a.value, str)):
                raise TranslateError("non-literal flag in add_argument")
            flags.append(a.value)
        kw = {k.arg: k.value for k in c.keywords}
        if "dest" in kw:
            dest = _const(kw["dest"])
        else:
            longs = [f for f in flags if f.startswith("--")]
            dest = (longs[0][2:] if longs else flags[0].lstrip("-")).replace("-", "_")
        action = _const(kw["action"]) if "action" in kw else "store"
        typ = ast.unparse(kw["type"]) if "type" in kw else ""
        default = ast.unparse(kw["default"]) if "default" in kw else ("False" if action == "store_true" else "None")
        opts.append({"flags": flags, "dest": dest, "action": action, "type": typ, "default": default})
    return opts


def _fmt_opts(opts: list[dict]) -> str:
    def one(o):
        return ("{ flags := " + lean_list(o["flags"]) + f", dest := {lean_str(o['dest'])}, action := {lean_str(o['action'])}, "
                f"type := {lean_str(o['type'])}, default := {lean_str(o['default'])} }}")
    return "[\n  " + ",\n  ".join(one(o) for o in opts) + "\n]"


def _fmt_table(t: list[tuple[str, str]]) -> str:
    return "[" + ", ".join(f"({lean_str(k)}, {v})" for k, v in t) + "]"


def generate() -> dict[str, str]:
    cli = _parse("cli.py")
    api = _parse("reformat_api.py")
    cfg = _parse("config.py")
    types = _parse("file_resolver/types.py")

    parse_args = _func(cli, "_parse_args")
    main_opts = _argparse_options(parse_args, "parser")
    sentinel_opts = _argparse_options(parse_args, "sentinel_parser")

    tracked = None
    for n in ast.walk(parse_args):
        if isinstance(n, (ast.Assign, ast.AnnAssign)):
            tgt = n.targets[0] if isinstance(n, ast.Assign) else n.target
            if isinstance(tgt, ast.Name) and tgt.id == "_tracked_flags" and isinstance(n.value, ast.Dict):
                tracked = [(_const(k), _const(v)) for k, v in zip(n.value.keys, n.value.values)]
    if tracked is None:
        raise TranslateError("_tracked_flags dict literal not found")

    append_dests = None
    for n in ast.walk(parse_args):
        if isinstance(n, ast.Compare) and isinstance(n.left, ast.Name) and n.left.id == "dest_name" and isinstance(n.ops[0], ast.In):
            append_dests = list(_const(n.comparators[0]))
    if append_dests is None:
        raise TranslateError("append-dest test in explicit flag detection not found")

    auto = None
    for n in ast.walk(parse_args):
        if isinstance(n, ast.If) and ast.unparse(n.test) == "opts.auto":
            auto = []
            for s in n.body:
                if not (isinstance(s, ast.Assign) and len(s.targets) == 1 and isinstance(s.targets[0], ast.Attribute)
                        and isinstance(s.targets[0].value, ast.Name) and s.targets[0].value.id == "opts"
                        and isinstance(s.value, ast.Constant)):
                    raise TranslateError("unexpected statement under `if opts.auto:`")
                auto.append((s.targets[0].attr, repr(s.value.value)))
            if n.orelse:
                raise TranslateError("else branch under `if opts.auto:`")
    if auto is None:
        raise TranslateError("`if opts.auto:` not found")

    octor = _calls(parse_args, "Options")
    if len(octor) != 1 or octor[0].args:
        raise TranslateError("expected exactly one keyword-only Options(...) construction")
    options_table = _kw_table(octor[0], ("opts",))
    options_fields = _dataclass_fields(_cls(cli, "Options"))

    main_fn = _func(cli, "main")
    rf_calls = _calls(main_fn, "reformat_files")
    if len(rf_calls) != 1 or rf_calls[0].args:
        raise TranslateError("expected exactly one keyword-only reformat_files(...) call in main")
    main_call = _kw_table(rf_calls[0], ("options",))
    # `files=resolved_files` is a local, keep as var
    resolve_fn = _func(cli, "_resolve_files")
    frc = _calls(resolve_fn, "FileResolverConfig")
    if len(frc) != 1 or frc[0].args:
        raise TranslateError("expected exactly one keyword-only FileResolverConfig(...) call")
    frc_table = _kw_table(frc[0], ("options",))

    reformat_files = _func(api, "reformat_files")
    rfile_calls = _calls(reformat_files, "reformat_file")
    if not rfile_calls or any(c.args for c in rfile_calls):
        raise TranslateError("reformat_file calls in reformat_files must be keyword-only")
    rfile_tables = [_kw_table(c, ()) for c in rfile_calls]
    reformat_files_params = [a.arg for a in reformat_files.args.args]

    reformat_file = _func(api, "reformat_file")
    rt_calls = _calls(reformat_file, "reformat_text")
    if len(rt_calls) != 1:
        raise TranslateError("expected exactly one reformat_text(...) call in reformat_file")
    rt_call = rt_calls[0]
    rt_pos = [pexpr(a, ()) for a in rt_call.args]
    rt_kw = _kw_table(rt_call, ())
    reformat_file_params = [a.arg for a in reformat_file.args.args]

    reformat_text = _func(api, "reformat_text")
    rt_params = [a.arg for a in reformat_text.args.args]
    fm_calls = _calls(reformat_text, "fill_markdown")
    ft_calls = _calls(reformat_text, "fill_text")
    if len(fm_calls) != 1 or len(ft_calls) != 1:
        raise TranslateError("expected one fill_markdown and one fill_text call in reformat_text")
    fm_pos = [pexpr(a, ()) for a in fm_calls[0].args]
    fm_kw = _kw_table(fm_calls[0], ())
    ft_pos = [pexpr(a, ()) for a in ft_calls[0].args]
    ft_kw = _kw_table(ft_calls[0], ())
    # which branch is taken
    branch = None
    for n in ast.walk(reformat_text):
        if isinstance(n, ast.If):
            branch = ast.unparse(n.test)
            break

    fill_markdown = _func(_parse("linewrapping/markdown_filling.py"), "fill_markdown")
    fm_params = [a.arg for a in fill_markdown.args.args]

    config_fields = _dataclass_fields(_cls(cfg, "FlowmarkConfig"))
    merge = _func(cfg, "merge_cli_with_config")
    auto_locked = None
    for n in ast.walk(merge):
        if isinstance(n, ast.Assign) and isinstance(n.targets[0], ast.Name) and n.targets[0].id == "auto_locked":
            auto_locked = sorted(_const(n.value))
    if auto_locked is None:
        raise TranslateError("auto_locked not found")
    frc_fields = _dataclass_fields(_cls(types, "FileResolverConfig"))

    L = []
    A = L.append
    A("/- GENERATED by harness/translate_plumbing.py from /repo (ast of cli.py, reformat_api.py, config.py,")
    A("   file_resolver/types.py, markdown_filling.py) — do not edit. -/")
    A("import FM.Model.Plumbing")
    A("namespace FM.Gen")
    A("open FM.Plumbing")
    A(f"def cliOptions : List ArgOpt := {_fmt_opts(main_opts)}")
    A(f"def sentinelOptions : List ArgOpt := {_fmt_opts(sentinel_opts)}")
    A("def trackedFlags : List (String × String) := " + lean_list(tracked, lambda p: f"({lean_str(p[0])}, {lean_str(p[1])})"))
    A(f"def appendDests : List String := {lean_list(append_dests)}")
    A("def autoAssignments : List (String × String) := " + lean_list(auto, lambda p: f"({lean_str(p[0])}, {lean_str(p[1])})"))
    A(f"def optionsFields : List String := {lean_list(options_fields)}")
    A(f"def optionsCtor : Layer := {_fmt_table(options_table)}")
    A(f"def mainCall : Layer := {_fmt_table(main_call)}")
    A(f"def resolverConfigCall : Layer := {_fmt_table(frc_table)}")
    A(f"def reformatFilesParams : List String := {lean_list(reformat_files_params)}")
    A("def reformatFileCalls : List Layer := [" + ", ".join(_fmt_table(t) for t in rfile_tables) + "]")
    A(f"def reformatFileParams : List String := {lean_list(reformat_file_params)}")
    A("def reformatTextPositional : List PExpr := [" + ", ".join(rt_pos) + "]")
    A(f"def reformatTextKeywords : Layer := {_fmt_table(rt_kw)}")
    A(f"def reformatTextParams : List String := {lean_list(rt_params)}")
    A(f"def reformatTextBranch : String := {lean_str(branch or '')}")
    A("def fillMarkdownPositional : List PExpr := [" + ", ".join(fm_pos) + "]")
    A(f"def fillMarkdownKeywords : Layer := {_fmt_table(fm_kw)}")
    A(f"def fillMarkdownParams : List String := {lean_list(fm_params)}")
    A("def fillTextPositional : List PExpr := [" + ", ".join(ft_pos) + "]")
    A(f"def fillTextKeywords : Layer := {_fmt_table(ft_kw)}")
    A(f"def configFields : List String := {lean_list(config_fields)}")
    A(f"def autoLocked : List String := {lean_list(auto_locked)}")
    A(f"def resolverConfigFields : List String := {lean_list(frc_fields)}")
    A("end FM.Gen")
    A("")
    return {"Plumbing.lean": "\n".join(L)}
