"""
Tie of the Lean render model (FM/Model/Render.lean) to MarkdownNormalizer: the real renderer and the
model both run with a *symbolic* line wrapper (the call's arguments are its result), on the Marko AST
of generated and corpus documents; outputs must be equal. Shared by C01, C04, C05, C10, C12.
"""
from __future__ import annotations

import glob

import astser
import mdgen
from common import REPO, Ctx, dec, run_driver


def corpus_docs() -> list[str]:
    docs = []
    for p in sorted(glob.glob(str(REPO / "tests" / "testdocs" / "*.orig.md"))) + [str(REPO / "README.md")]:
        try:
            docs.append(open(p).read())
        except OSError:
            pass
    return docs


SPECIAL_DOCS = [
    "1. a\n2. b\n", "9. item nine with enough words to wrap around the line end for sure yes\n10. item ten with enough words to wrap around the line end for sure yes\n",
    "- * a\n  * b\n", "- # h\n- b\n", "1. a\n1) b\n", "+\n", "> [!NOTE]\n> text\n", "- > [!TIP]\n  > x\n", "> | a |\n> |---|\n> | b |\n",
    "[^1]: note\n\n    more\n", "a[^1]\n\n[^1]: note\n", "```\ncode\n\n\n```\n", "~~~~ info extra\n~~~\n~~~~\n", "    indented\n\n    code\n",
    "# h\\\n", "Setext\n===\n\npara\n", "- [ ] task\n- [x] done\n", "[ ] not a task\n", "| a\\|b | `c\\|d` |\n|:--|--:|\n| 1. | x |\n",
    "1\\. not a list\n\ntext 1\\. mid\n\n# 1\\. head\n", "[x]: <http://a b> 'T'\n\n[y](http://q \"T \\\"q\\\"\")\n", "``a`b``\n", "<div>\nhtml\n</div>\n",
    "- > - a\n  >\n  > - b\n", "- x\n\n  > - a\n  >\n  > - b\n", "1. > 1. a\n   >\n   > 2. b\n", "> - > - a\n>   >\n>   > - b\n",
    "- x\n\n  > ```\n  > a\n  >\n  > b\n  > ```\n", "[^n]: > ```\n    > a\n    >\n    > b\n    > ```\n\nx[^n]\n", "1. > ~~~\n   > a\n   >\n   > ~~~\n",
    "| a |\n|---|\n| b |\n\n1\\. not a list\n", "| 12 |\n|---|\n| 3 |\n\n4\\. still text\n", "> see <https://x.y>\n", "> text <b>\n", "> [!NOTE]\n> ends with >\n", "> a >\n>\n> b <i>\n",
    "- a\n-\n- c\n", "-\n", "1.\n2. b\n", "> -\n", "- a\n\n-\n\n- c\n", "- x\n  -\n  - y\n",
    "> [!NOTE]\n", "- > [!TIP]\n- b\n", "> [!WARNING]\n\nafter\n",
    "* * *\n\n---\n", "- a\n\n  b\n- c\n", "- ```\n  code\n  ```\n\n- ```\n  x\n  ```\n", "- > q\n\n- > r\n", "- - a\n\n- - b\n", "- * * *\n\n- z\n",
    "- | a |\n  |---|\n  | 1 |\n\n- x\n", "* * w\n", "> * * w\n", "[^1]: - a\n    - b\n\nx[^1]\n", "- [ ]  two spaces\n", "[a]: http://x 'T'\n\n[a] [b][a]\n", "> - a\n>\n> - b\n",
    "[a]: http://u 'The \\\"Markdown\\\" spec'\n\n[b]: http://v (paren \"q\" x)\n\n[c]: http://w \"dq \\\"e\\\" q\"\n\nSee [a], [b] and [c].\n",
    "9. nine\n\n   second block of nine\n10. ten\n\n    second block of ten\n\n        code in ten\n",
    "```\n{% t %}\n```python\n- item\n{% /t %}\n```\n\n~~~text\n<!-- c -->\n~~~ jinja\n| a |\n~~~\n",
    "| a | `x \\| y` | *e \\| f* |\n|---|---|---|\n| 1 | `p\\|q` | r |\n", "98. x\n99. y\n100. z long enough to wrap " + "word " * 20 + "\n",
]


def tie_render(ctx: Ctx, n: int, extra_docs: list[str] | None = None, **genkw) -> None:
    """`extra_docs`: documents of a property's own input families (rendered in one sampled spacing mode, like generated ones)"""
    from flowmark.formats.flowmark_markdown import ListSpacing, flowmark_markdown
    rng = ctx.rng
    docs = [(d, "special") for d in SPECIAL_DOCS] + [(d, "corpus") for d in corpus_docs()]
    for i in range(n):
        docs.append((mdgen.gen_document(rng, quotes=True, tags=(i % 2 == 0), html=True, hazards=(i % 3 == 0),
                                        clean=(i % 4 != 0), bold_headings=True, **genkw), "generated"))
    # appended after the generated documents and given a fixed spacing mode, so the rng stream above is unchanged
    docs += [(d, "family") for d in (extra_docs or [])]
    ops, reals, cases = [], [], []
    unser = 0
    for doc, kind in docs:
        for sp in ([ListSpacing.preserve] if kind == "family" else list(ListSpacing) if kind != "generated" else [rng.choice(list(ListSpacing))]):
            m = flowmark_markdown(astser.symbolic_wrapper, sp)
            d = m.parse(doc.strip() + "\n")
            try:
                defs, body = astser.ser_doc(d)
            except astser.Unserialisable:
                unser += 1
                continue
            reals.append(m.render(d))
            ops.append(f"render\t{sp.value}\t{defs}\t{body}")
            cases.append((doc, sp.value, kind))
    outs = run_driver(ops, workers=16)
    bad = 0
    for (doc, sp, kind), o, real in zip(cases, outs, reals):
        got = None if o == "bad-op" else dec(o)
        ctx.count(["render", doc, sp], nontrivial=len(doc) > 20)
        ctx.bump("render:" + kind)
        if got != real:
            bad += 1
            ctx.tie_broken("render", {"doc": doc, "list_spacing": sp}, got, real)
    ctx.obligation(f"tie render: Lean render model = MarkdownNormalizer (symbolic wrapper) on {len(cases)} ASTs "
                   f"({len(SPECIAL_DOCS)} special + corpus ×3 spacing modes, {n} generated{f', {len(extra_docs)} of the property families' if extra_docs else ''}); {unser} not serialisable",
                   "correspondence", bad == 0 and unser <= len(cases) // 20, f"{bad} disagreement(s), {unser} unserialisable")
