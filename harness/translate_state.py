"""
Translator for C13: an inventory of where state lives in src/flowmark, regenerated from the source on every run into
FM/Generated/State.lean.  Purely syntactic (ast) and conservative: whatever is not recognised as immutable is `mutable`.

Cells:
  - every module-level binding (assignments, annotated assignments, augmented assignments);
  - every class-level binding in a class body;
  - every function default argument value that is not an immutable literal;
  - every function decorated with a cache decorator (kind pureCache, or mutable if its body writes globals);
  - every name declared `global` / `nonlocal` and written in a function (mutable);
  - every module-level name on which a mutating method/subscript-store/attribute-store is applied anywhere in the package.
Facts: fresh parser/renderer objects are constructed inside the call path (see `facts`).
"""
from __future__ import annotations

import ast
from pathlib import Path

from translate import SRC, TranslateError, lean_str

IMMUTABLE_CALLS = {"re.compile", "regex.compile", "frozenset", "tuple", "AtomicPattern", "TypeVar", "str", "int", "float", "bool",
                   "field", "Path", "NewType", "namedtuple", "object"}
CLOSURE_FACTORIES = {"line_wrap_by_sentence", "line_wrap_to_width", "add_tag_newline_handling", "_add_markdown_hard_break_handling",
                     "line_wrap_by_sentence_no_min", "split_sentences_regex"}
MUTATORS = {"append", "extend", "insert", "pop", "remove", "clear", "update", "add", "discard", "setdefault", "popitem", "sort", "reverse",
            "__setitem__", "__delitem__"}
CACHE_DECORATORS = {"cache", "lru_cache", "functools.cache", "functools.lru_cache", "cached_property"}
INSTANCE_CLASSES = {"Markdown", "Parser", "Renderer", "MarkdownNormalizer", "MarkdownRenderer", "FlowmarkMarkdown", "CustomParser", "CustomRenderer", "Marko"}


def dotted(n: ast.AST) -> str:
    if isinstance(n, ast.Name):
        return n.id
    if isinstance(n, ast.Attribute):
        return dotted(n.value) + "." + n.attr
    if isinstance(n, ast.Call):
        return dotted(n.func)
    if isinstance(n, ast.Subscript):
        return dotted(n.value)
    return "?"


def classify_value(v: ast.AST | None, consts: set[str]) -> str:
    """const | constCollection | pureClosure | mutable"""
    if v is None:
        return "const"            # annotation only
    if isinstance(v, ast.Constant):
        return "const"
    if isinstance(v, ast.JoinedStr):
        return "const"
    if isinstance(v, (ast.Tuple,)):
        ks = {classify_value(e, consts) for e in v.elts}
        return "const" if ks <= {"const"} else ("mutable" if "mutable" in ks else "constCollection")
    if isinstance(v, (ast.List, ast.Set, ast.Dict, ast.ListComp, ast.SetComp, ast.DictComp)):
        return "constCollection"  # downgraded to mutable below if any mutation of the name is found
    if isinstance(v, ast.Name):
        return "const"            # alias of another module-level object (classified under its own name) or a builtin
    if isinstance(v, ast.Attribute):
        return "const"
    if isinstance(v, (ast.BinOp, ast.UnaryOp, ast.BoolOp, ast.Compare, ast.IfExp)):
        ks = {classify_value(c, consts) for c in ast.iter_child_nodes(v) if isinstance(c, ast.expr)}
        return "mutable" if "mutable" in ks else ("constCollection" if "constCollection" in ks else "const")
    if isinstance(v, ast.Subscript):
        return "const"            # typing constructs such as Callable[[str], int]
    if isinstance(v, ast.Lambda):
        return "const"
    if isinstance(v, ast.Call):
        f = dotted(v.func)
        base = f.split(".")[-1]
        if f in IMMUTABLE_CALLS or base in IMMUTABLE_CALLS:
            return "const"
        if base in CLOSURE_FACTORIES:
            return "pureClosure"
        if base in ("list", "dict", "set", "sorted", "defaultdict", "OrderedDict", "Counter", "deque"):
            return "constCollection"
        return "mutable"          # an object we know nothing about (Markdown(), Parser(), …)
    return "mutable"


class Inventory(ast.NodeVisitor):
    def __init__(self, module: str):
        self.module = module
        self.cells: list[tuple[str, str, str]] = []      # (scope, name, kind)
        self.mutated: set[str] = set()                   # names a mutating operation is applied to, anywhere
        self.global_writes: set[str] = set()
        self.func_depth = 0
        self.class_stack: list[str] = []
        self.closure_factories_ok: dict[str, bool] = {}

    # ---- bindings
    def _bind(self, target: ast.AST, value: ast.AST | None):
        if self.func_depth > 0:
            return
        scope = self.module + ("." + ".".join(self.class_stack) if self.class_stack else "")
        if isinstance(target, ast.Name):
            self.cells.append((scope, target.id, classify_value(value, set())))
        elif isinstance(target, (ast.Tuple, ast.List)):
            for e in target.elts:
                self._bind(e, value)

    def visit_Assign(self, node: ast.Assign):
        for t in node.targets:
            self._bind(t, node.value)
            self._store(t)
        self.generic_visit(node)

    def visit_AnnAssign(self, node: ast.AnnAssign):
        self._bind(node.target, node.value)
        self._store(node.target)
        self.generic_visit(node)

    def visit_AugAssign(self, node: ast.AugAssign):
        if self.func_depth == 0 and isinstance(node.target, ast.Name):
            self.cells.append((self.module, node.target.id, "mutable"))
        self._store(node.target)
        self.generic_visit(node)

    def _store(self, t: ast.AST):
        """subscript / attribute stores on a bare name (module-level object mutated through it); a store through `cls`
        (or through a class name) inside a method writes a class attribute, which every instance and every call shares"""
        if isinstance(t, (ast.Subscript, ast.Attribute)) and isinstance(t.value, ast.Name) and t.value.id not in ("self", "cls"):
            self.mutated.add(t.value.id)
            if self.func_depth > 0 and isinstance(t, ast.Attribute) and t.value.id in ALL_CLASSES:
                self.cells.append((self.module + "." + t.value.id, t.attr + " (assigned in a method)", "mutable"))
        if self.func_depth > 0 and isinstance(t, ast.Attribute) and isinstance(t.value, ast.Name) and t.value.id == "cls":
            scope = self.module + ("." + ".".join(self.class_stack) if self.class_stack else "")
            self.cells.append((scope, t.attr + " (assigned through cls)", "mutable"))
        if self.func_depth > 0 and isinstance(t, ast.Subscript) and isinstance(t.value, ast.Attribute) and isinstance(t.value.value, ast.Name) and t.value.value.id == "cls":
            scope = self.module + ("." + ".".join(self.class_stack) if self.class_stack else "")
            self.cells.append((scope, t.value.attr + " (item assigned through cls)", "mutable"))

    def visit_Delete(self, node: ast.Delete):
        for t in node.targets:
            self._store(t)
        self.generic_visit(node)

    def visit_Call(self, node: ast.Call):
        if isinstance(node.func, ast.Attribute) and node.func.attr in MUTATORS and isinstance(node.func.value, ast.Name) and node.func.value.id not in ("self", "cls"):
            self.mutated.add(node.func.value.id)
        # cls.x.append(...), ClassName.x.update(...), self.__class__.x…: a class attribute mutated in place
        if isinstance(node.func, ast.Attribute) and node.func.attr in MUTATORS and isinstance(node.func.value, ast.Attribute):
            base = node.func.value
            root = dotted(base.value)
            if root == "cls" or root in ALL_CLASSES or root.endswith("__class__") or root.startswith("type("):
                self.cells.append((self.module, f"{root}.{base.attr} (mutated in place)", "mutable"))
            # self.x.append where x is a CLASS-level mutable (declared in the class body, never assigned in __init__) is caught
            # by the class-body classification below (constCollection + mutated)
            if root == "self":
                self.mutated.add(base.attr)
        self.generic_visit(node)

    # ---- scopes
    def visit_ClassDef(self, node: ast.ClassDef):
        if self.func_depth == 0 and not self.class_stack:
            self.cells.append((self.module, node.name, "code"))
        self.class_stack.append(node.name)
        self.generic_visit(node)
        self.class_stack.pop()

    def _func(self, node):
        decos = {dotted(d) for d in node.decorator_list}
        cached = any(d in CACHE_DECORATORS or d.split(".")[-1] in CACHE_DECORATORS for d in decos)
        writes_global = any(isinstance(n, (ast.Global, ast.Nonlocal)) for n in ast.walk(node))
        if self.func_depth == 0:
            scope = self.module + ("." + ".".join(self.class_stack) if self.class_stack else "")
            kind = "code"
            if cached:
                # a cache is harmless only if what it hands out to every caller is immutable or stateless
                kind = "mutable" if writes_global or not self._returns_stateless(node) else "pureCache"
            self.cells.append((scope, node.name, kind))
        for n in ast.walk(node):
            if isinstance(n, ast.Global):
                self.global_writes.update(n.names)
        # nonlocal rebinding inside a closure factory makes the closure stateful
        if node.name in CLOSURE_FACTORIES:
            self.closure_factories_ok[node.name] = (not any(isinstance(n, ast.Nonlocal) for n in ast.walk(node))
                                                    and self._factory_hands_out_stateless(node))
        for d in node.args.defaults + [d for d in node.args.kw_defaults if d is not None]:
            k = classify_value(d, set())
            if k in ("constCollection", "mutable") and not (isinstance(d, ast.Call) and dotted(d.func).split(".")[-1] in ("field",)):
                if isinstance(d, (ast.List, ast.Dict, ast.Set, ast.ListComp, ast.DictComp, ast.SetComp)) or (k == "mutable"):
                    self.cells.append((self.module + "." + node.name, "<default argument>", "mutable"))
        self.func_depth += 1
        self.generic_visit(node)
        self.func_depth -= 1

    @staticmethod
    def _own_nodes(fn):
        """nodes of a function body without the bodies of nested functions / classes / lambdas"""
        todo = list(fn.body)
        while todo:
            n = todo.pop()
            if isinstance(n, (ast.FunctionDef, ast.AsyncFunctionDef, ast.ClassDef, ast.Lambda)):
                continue
            yield n
            todo.extend(ast.iter_child_nodes(n))

    def _factory_hands_out_stateless(self, node) -> bool:
        """what a closure factory returns carries no state of its own: it returns nested functions, parameters, results of other
        closure factories or instances of stateless classes — not an instance whose methods store to self — and no nested
        function mutates, in place, a collection created in the factory's own body (a cell shared by all calls of the closure)"""
        own = list(self._own_nodes(node))
        nested = [n for n in node.body if isinstance(n, (ast.FunctionDef, ast.AsyncFunctionDef))]
        for n in own:
            if isinstance(n, ast.Return) and n.value is not None:
                v = n.value
                if isinstance(v, (ast.Name, ast.Constant, ast.Lambda)):
                    continue
                if isinstance(v, ast.Call):
                    base = dotted(v.func).split(".")[-1]
                    if base in CLOSURE_FACTORIES or base in STATELESS_CLASSES or base in ("partial",):
                        continue
                return False
        cells = set()
        for n in own:
            if isinstance(n, (ast.Assign, ast.AnnAssign)) and classify_value(getattr(n, "value", None), set()) in ("constCollection", "mutable"):
                for t in (n.targets if isinstance(n, ast.Assign) else [n.target]):
                    if isinstance(t, ast.Name):
                        cells.add(t.id)
        for f in nested:
            for n in ast.walk(f):
                if isinstance(n, ast.Call) and isinstance(n.func, ast.Attribute) and n.func.attr in MUTATORS and isinstance(n.func.value, ast.Name) and n.func.value.id in cells:
                    return False
                if isinstance(n, (ast.Assign, ast.AugAssign)):
                    for t in (n.targets if isinstance(n, ast.Assign) else [n.target]):
                        if isinstance(t, ast.Subscript) and isinstance(t.value, ast.Name) and t.value.id in cells:
                            return False
        return True

    def _returns_stateless(self, node) -> bool:
        rets = [n.value for n in ast.walk(node) if isinstance(n, ast.Return)]
        if not rets:
            return False
        for v in rets:
            if v is None or isinstance(v, ast.Constant):
                continue
            if isinstance(v, ast.Call) and isinstance(v.func, ast.Name) and v.func.id in STATELESS_CLASSES:
                continue
            if isinstance(v, ast.Call) and dotted(v.func) in IMMUTABLE_CALLS:
                continue
            return False
        return True

    visit_FunctionDef = _func
    visit_AsyncFunctionDef = _func


STATELESS_CLASSES: set[str] = set()
ALL_CLASSES: set[str] = set()


def find_stateless_classes() -> None:
    """classes of the package none of whose methods stores to an attribute of self (instances carry no state)"""
    STATELESS_CLASSES.clear()
    ALL_CLASSES.clear()
    for f in sorted(SRC.rglob("*.py")):
        tree = ast.parse(f.read_text())
        for c in ast.walk(tree):
            if isinstance(c, ast.ClassDef):
                ALL_CLASSES.add(c.name)
                stores = False
                for n in ast.walk(c):
                    if isinstance(n, (ast.Assign, ast.AnnAssign, ast.AugAssign)):
                        targets = n.targets if isinstance(n, ast.Assign) else [n.target]
                        for t in targets:
                            if isinstance(t, ast.Attribute) and isinstance(t.value, ast.Name) and t.value.id == "self":
                                stores = True
                            if isinstance(t, ast.Subscript) and isinstance(t.value, ast.Attribute) and dotted(t.value).startswith("self."):
                                stores = True
                    if isinstance(n, ast.Call) and isinstance(n.func, ast.Attribute) and n.func.attr in MUTATORS and dotted(n.func.value).startswith("self."):
                        stores = True
                if not stores and not c.bases:
                    STATELESS_CLASSES.add(c.name)


def inventory() -> tuple[list[tuple[str, str, str]], dict[str, bool]]:
    find_stateless_classes()
    cells: list[tuple[str, str, str]] = []
    mutated: set[str] = set()
    global_writes: set[str] = set()
    factories: dict[str, bool] = {}
    per_module: dict[str, Inventory] = {}
    for f in sorted(SRC.rglob("*.py")):
        mod = "flowmark." + ".".join(f.relative_to(SRC).with_suffix("").parts)
        try:
            tree = ast.parse(f.read_text())
        except SyntaxError as e:
            raise TranslateError(f"cannot parse {f}: {e}")
        inv = Inventory(mod)
        inv.visit(tree)
        per_module[mod] = inv
        mutated |= inv.mutated
        global_writes |= inv.global_writes
        factories.update(inv.closure_factories_ok)
    seen: dict[tuple[str, str], int] = {}
    for mod, inv in per_module.items():
        for scope, name, kind in inv.cells:
            if kind == "code":
                continue
            if name in global_writes:
                kind = "mutable"
            if kind == "constCollection" and name in mutated:
                kind = "mutable"
            if kind == "pureClosure":
                # the closure is stateless only if no factory rebinds an enclosing variable
                if not all(factories.values()):
                    kind = "mutable"
            key = (scope, name)
            seen[key] = seen.get(key, 0) + 1
            cells.append((scope, name, kind))
    # a module-level name bound twice is rebound state unless both bindings are constants of an if/else or try/except
    out = []
    for scope, name, kind in cells:
        out.append((scope, name, kind))
    return out, factories


def _contains_call(fn: ast.AST, callee: str) -> bool:
    return any(isinstance(n, ast.Call) and dotted(n.func).split(".")[-1] == callee for n in ast.walk(fn))


def _find_def(tree: ast.AST, name: str):
    for n in ast.walk(tree):
        if isinstance(n, (ast.FunctionDef, ast.ClassDef)) and n.name == name:
            return n
    return None


def facts() -> list[tuple[str, bool]]:
    mf = ast.parse((SRC / "linewrapping" / "markdown_filling.py").read_text())
    fm = ast.parse((SRC / "formats" / "flowmark_markdown.py").read_text())
    out: list[tuple[str, bool]] = []
    fill = _find_def(mf, "fill_markdown")
    out.append(("fill_markdown builds its Markdown object by calling flowmark_markdown() inside its body", bool(fill) and _contains_call(fill, "flowmark_markdown")))
    fac = _find_def(fm, "flowmark_markdown")
    ret_new = False
    if fac:
        for n in ast.walk(fac):
            if isinstance(n, ast.Return) and isinstance(n.value, ast.Call) and dotted(n.value.func) == "FlowmarkMarkdown":
                ret_new = True
    out.append(("flowmark_markdown() returns a FlowmarkMarkdown() constructed in the call", ret_new))
    setup = _find_def(fac, "_setup_extensions") if fac else None
    out.append(("_setup_extensions constructs a new CustomParser() and a new CustomRenderer()", bool(setup) and _contains_call(setup, "CustomParser") and _contains_call(setup, "CustomRenderer")))
    # no module-level instance of a parser / renderer / Markdown object anywhere in the package
    clean = True
    for f in sorted(SRC.rglob("*.py")):
        tree = ast.parse(f.read_text())
        for node in tree.body:
            for n in ast.walk(node) if isinstance(node, (ast.Assign, ast.AnnAssign, ast.Expr)) else []:
                if isinstance(n, ast.Call) and dotted(n.func).split(".")[-1] in INSTANCE_CLASSES | {"flowmark_markdown"}:
                    clean = False
    out.append(("no module-level Markdown / Parser / Renderer / MarkdownNormalizer instance in the package", clean))
    # the renderer's fields are instance fields set in __init__ (not class attributes holding mutable objects)
    norm = _find_def(fm, "MarkdownNormalizer")
    inst = True
    if norm:
        for n in norm.body:
            if isinstance(n, (ast.Assign, ast.AnnAssign)) and classify_value(getattr(n, "value", None), set()) in ("constCollection", "mutable"):
                inst = False
    out.append(("MarkdownNormalizer holds its render state in instance fields set by __init__, none in mutable class attributes", bool(norm) and inst))
    # parse() and render() of the per-call object are what fill_markdown uses
    out.append(("fill_markdown parses and renders with the object it has just built (marko.parse / marko.render)",
                bool(fill) and any(isinstance(n, ast.Attribute) and n.attr == "parse" for n in ast.walk(fill)) and any(isinstance(n, ast.Attribute) and n.attr == "render" for n in ast.walk(fill))))
    return out


def generate() -> dict[str, str]:
    cells, factories = inventory()
    fs = facts()
    lines = ["/- GENERATED by harness/translate_state.py from /repo/src/flowmark — do not edit. -/", "namespace FM.Gen", "",
             "inductive CellKind where | const | constCollection | pureCache | pureClosure | mutable", "deriving DecidableEq, Repr", "",
             "/-- every module-level and class-level binding, cached function and non-literal default argument of the package:",
             "(scope, name, kind) -/", "def stateCells : List (String × String × CellKind) := ["]
    rows = [f"  ({lean_str(scope)}, {lean_str(name)}, .{kind})" for scope, name, kind in cells]
    lines.append(",\n".join(rows))
    lines += ["]", "", "/-- construction facts of the call path -/", "def callPathFacts : List (String × Bool) := ["]
    lines.append(",\n".join(f"  ({lean_str(t)}, {'true' if ok else 'false'})" for t, ok in fs))
    lines += ["]", "", "end FM.Gen", ""]
    return {"State.lean": "\n".join(lines)}


if __name__ == "__main__":
    cells, fac = inventory()
    from collections import Counter
    print(Counter(k for _, _, k in cells))
    for c in cells:
        if c[2] in ("mutable", "constCollection", "pureCache", "pureClosure"):
            print(c)
    for f in facts():
        print(f)
