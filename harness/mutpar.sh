#!/bin/bash
# Isolated variant of mutcheck.sh, safe to run in parallel and while /verif is being edited:
#   mutpar.sh --refresh                      build the golden copy of /verif HEAD (committed files + ./setup) in $GOLD
#   mutpar.sh <patch.diff> <prop> [<prop>..] apply the patch in a scratch worktree of /repo HEAD, run the checks from a
#                                            scratch copy of the golden /verif with FLOWMARK_REPO / PYTHONPATH pointing
#                                            at that worktree; remove both afterwards.
# Nothing in /repo or /verif is touched.  The stored result of a seeded change is still produced with mutcheck.sh
# (patch applied to /repo itself); this script is for sweeps.
GOLD=${GOLD:-/tmp/vgold}
if [ "$1" = "--refresh" ]; then
  rm -rf "$GOLD"; mkdir -p "$GOLD"
  git -C /verif archive HEAD | tar -x -C "$GOLD" || exit 2
  (cd "$GOLD" && ./setup >/tmp/vgold.setup.log 2>&1) || { echo "golden setup failed (see /tmp/vgold.setup.log)"; exit 2; }
  echo "golden at $GOLD = $(git -C /verif rev-parse --short HEAD)"; exit 0
fi
patch="$1"; shift; [ "$patch" = none ] || patch=$(readlink -f "$patch")
[ -d "$GOLD/lean/.lake" ] || { echo "no golden copy: run mutpar.sh --refresh"; exit 2; }
wt=$(mktemp -d /tmp/mw.XXXXXX); vc=$(mktemp -d /tmp/mv.XXXXXX)
trap 'git -C /repo worktree remove --force "$wt" 2>/dev/null; rm -rf "$wt" "$vc"' EXIT
git -C /repo worktree add -q --detach "$wt" HEAD || exit 2
if [ "$patch" != "none" ]; then git -C "$wt" apply "$patch" || { echo "patch does not apply"; exit 2; }; fi
rsync -a "$GOLD"/ "$vc"/
cd "$vc"
for p in "$@"; do
  out=$(FLOWMARK_REPO="$wt" PYTHONPATH="$wt/src" ./check "$p" --tier "${TIER:-quick}" 2>&1); rc=$?
  echo "== $(basename "$(dirname "$patch")") $p rc=$rc :: $(echo "$out" | grep -E 'VIOLATION|failing input|broken obligation' | head -3 | tr '\n' ' ')"
done
