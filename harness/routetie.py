"""
Tie of the routing model (lean/FM/Model/Route.lean, driver op `route`) to the real `reformat_api.reformat_files`, plus
the property-level oracles that can be read off the same observations (C14, C15):

  * a refused run (ValueError) has written nothing and printed nothing;
  * without inplace no input file changes unless it is the output path;
  * with inplace every named file holds the formatted text of its OWN old content (never another file's), with a
    `.orig` holding the old bytes unless nobackup; a file named twice (any spelling) keeps the backup of the original;
  * standard output is the concatenation, in argument order, of each input's formatted text.

The real function is called in-process on a scratch directory with sys.stdin / sys.stdout replaced; every source has a
distinct marker so that whose text went where can be read off the result.
"""
from __future__ import annotations

import io
import itertools
import os
import shutil
import sys
import tempfile
from pathlib import Path

from common import Ctx, run_driver

IDS = {"a": 0, "a2": 0, "b": 1, "c": 2}
TOKENS = ["-", "a", "a2", "b", "c"]
OUTS = ["none", "-", "o", "b"]            # no output, stdout, a new path (id 9), the input file b
OUT_ID = {"o": 9, "b": 1}


def src_text(tok: str) -> str:
    name = {"-": "stdin", "a": "a", "a2": "a", "b": "b", "c": "c"}[tok]
    return f"source   {name}   text\n\n\n* item   of {name}\n"


def spelled(d: Path, tok: str) -> str:
    if tok == "-":
        return "-"
    if tok == "a2":
        return str(d / "sub" / ".." / "a.md")
    return str(d / f"{tok}.md")


def observe(files: list[str], out: str, inplace: bool, nobackup: bool):
    """run the real reformat_files; return (error kind or None, stdout, {name: bytes} before, after)"""
    from flowmark.reformat_api import reformat_files

    d = Path(tempfile.mkdtemp(prefix="route_", dir="/tmp"))
    try:
        (d / "sub").mkdir()
        for t in ("a", "b", "c"):
            (d / f"{t}.md").write_text(src_text(t))
        before = {p.name: p.read_bytes() for p in d.iterdir() if p.is_file()}
        output = None if out == "none" else ("-" if out == "-" else str(d / ("o.md" if out == "o" else "b.md")))
        old_in, old_out = sys.stdin, sys.stdout
        sys.stdin, sys.stdout = io.StringIO(src_text("-")), io.StringIO()
        err = None
        try:
            reformat_files(files=[spelled(d, t) for t in files], output=output, inplace=inplace, nobackup=nobackup)
        except ValueError as e:
            m = str(e)
            err = "E:inplaceStdin" if "inplace" in m and "stdin" in m else ("E:outputMulti" if "multiple files" in m else f"E:{m[:60]}")
        except Exception as e:  # noqa: BLE001
            err = f"X:{type(e).__name__}:{str(e)[:80]}"
        finally:
            printed = sys.stdout.getvalue()
            sys.stdin, sys.stdout = old_in, old_out
        after = {p.name: p.read_bytes() for p in d.iterdir() if p.is_file()}
        return err, printed, before, after
    finally:
        shutil.rmtree(d, ignore_errors=True)


def formatted(tok: str) -> str:
    from flowmark import reformat_text
    return reformat_text(src_text(tok))


def canon_model(ans: str) -> tuple:
    if ans.startswith("E:"):
        return (ans,)
    acts = [a for a in ans.split(";") if a]
    return (tuple(a for a in acts if a.startswith("S")), tuple(sorted(a for a in acts if a.startswith("F"))))


def canon_real(err, printed: str, before, after) -> tuple:
    if err:
        return (err,)
    fm = {formatted(t): t for t in ("-", "a", "b", "c")}
    # stdout: a sequence of formatted sources
    s_acts, rest = [], printed
    while rest:
        for text, t in fm.items():
            if rest.startswith(text):
                s_acts.append("S" + ("-" if t == "-" else str(IDS[t])))
                rest = rest[len(text):]
                break
        else:
            s_acts.append("S?" + rest[:40])
            break
    f_acts = []
    for name, ident in (("a.md", 0), ("b.md", 1), ("c.md", 2), ("o.md", 9)):
        cur = after.get(name)
        if cur is None or cur == before.get(name):
            continue
        src = fm.get(cur.decode(errors="replace"))
        b = "b" if (name + ".orig") in after else "n"
        f_acts.append(f"F{'?' if src is None else ('-' if src == '-' else IDS[src])}>{ident}:{b}")
    return (tuple(s_acts), tuple(sorted(f_acts)))


def oracles(ctx: Ctx, case, files, out, inplace, nobackup, err, printed, before, after) -> None:
    changed = sorted(k for k in set(before) | set(after) if before.get(k) != after.get(k))
    if err:
        if changed or printed:
            ctx.fail("ROUTE_USAGE: a refused run has already written or printed something", case,
                     {"error": err, "changed": changed, "printed": printed[:200]})
        return
    if not inplace:
        allowed = {"o.md"} if out == "o" else ({"b.md"} if out == "b" else set())
        bad = [k for k in changed if k not in allowed]
        if bad:
            ctx.fail("ROUTE_INPUT_UNTOUCHED: a file other than the output path changed without --inplace", case, {"changed": bad})
        want = "" if out in ("o", "b") else "".join(formatted(t) for t in files)
        if printed != want:
            ctx.fail("ROUTE_STDOUT: standard output is not the concatenation of each input's own result", case,
                     {"printed": printed[:300], "want": want[:300]})
        if out in ("o", "b"):
            name = out + ".md"
            if after.get(name) != formatted(files[0]).encode() or (name + ".orig") in after:
                ctx.fail("ROUTE_OUTPUT: the output path does not hold the formatted input (or a backup was made)", case,
                         {"holds": (after.get(name) or b"")[:120].decode(errors="replace")})
        return
    for t in dict.fromkeys("a" if x == "a2" else x for x in files):
        name = f"{t}.md"
        want = formatted(t).encode()
        if after.get(name) != want:
            ctx.fail("ROUTE_OWN_TEXT: an in-place file does not hold the formatted text of its own content", case,
                     {"file": name, "holds": (after.get(name) or b"")[:120].decode(errors="replace")})
        orig = after.get(name + ".orig")
        if not nobackup and orig != before[name]:
            ctx.fail("ROUTE_BACKUP: with backups on, the .orig file does not hold the old content", case,
                     {"file": name, "orig": None if orig is None else orig[:120].decode(errors="replace")})
        if nobackup and orig is not None:
            ctx.fail("ROUTE_BACKUP: --nobackup left a backup file", case, {"file": name})
    extra = [k for k in changed if k.split(".orig")[0] not in {f"{'a' if x == 'a2' else x}.md" for x in files}]
    if extra:
        ctx.fail("ROUTE_OWN_TEXT: an in-place run changed a file that was not named", case, {"changed": extra})


def cases(ctx: Ctx, n_random: int):
    small = [list(p) for k in range(0, 3) for p in itertools.product(TOKENS, repeat=k)]
    out = [(f, o, ip, nb) for f in small for o in OUTS for ip in (False, True) for nb in (False, True)]
    rng = ctx.rng
    for _ in range(n_random):
        k = rng.choice([3, 3, 4])
        out.append(([rng.choice(TOKENS) for _ in range(k)], rng.choice(OUTS), rng.random() < 0.6, rng.random() < 0.5))
    # standard input can be read once: a second "-" reads nothing (not a routing matter) — at most one per list
    return [c for c in out if c[0].count("-") <= 1]


def tie_route(ctx: Ctx, driver_ok: bool = True) -> None:
    cs = cases(ctx, ctx.scale(150, 3000))
    lines = []
    for files, out, ip, nb in cs:
        toks = ",".join("-" if t == "-" else str(IDS[t]) for t in files)
        o = out if out in ("none", "-") else str(OUT_ID[out])
        lines.append(f"route\t{toks}\t{o}\t{int(ip)}\t{int(nb)}")
    model = run_driver(lines, workers=1) if driver_ok else [None] * len(lines)
    bad = 0
    for (files, out, ip, nb), ans in zip(cs, model):
        # a stdin input with an explicit input file b as output path etc. are all legal argument shapes
        case = {"files": [{"a2": "sub/../a.md", "-": "-"}.get(t, t + ".md") for t in files],
                "output": {"none": None, "-": "-", "o": "o.md", "b": "b.md"}[out], "inplace": ip, "nobackup": nb}
        err, printed, before, after = observe(files, out, ip, nb)
        ctx.count(["route", len(files), out, ip, nb], nontrivial=bool(files))
        ctx.bump("route:" + ("refused" if err else ("inplace" if ip else ("file" if out in ("o", "b") else "stdout"))))
        oracles(ctx, case, files, out, ip, nb, err, printed, before, after)
        if ans is not None:
            exp, got = canon_model(ans), canon_real(err, printed, before, after)
            if exp != got:
                bad += 1
                ctx.tie_broken("route", case, list(exp), list(got))
    if driver_ok:
        ctx.obligation(f"tie route: Lean model of reformat_file(s) routing = the real reformat_files on {len(cs)} argument shapes "
                       "(all lists of ≤2 inputs over {stdin, a.md, sub/../a.md, b.md, c.md} × {no output, '-', new path, an input file} × inplace × nobackup, "
                       "plus random longer lists): refusals, whose text goes to stdout in which order, which files are written from which source, backups",
                       "correspondence", bad == 0, f"{bad} disagreement(s)")
