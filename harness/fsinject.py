"""
Run flowmark's CLI in this process with a fault injected at the k-th mutating file-system operation on a path under
a sandbox directory.  Usage:  fsinject.py <mode> <k> <sandbox> -- <cli args…>
  mode: count   — inject nothing; print "OPS <n>" and the op log at the end (stderr)
        fail    — the k-th operation raises OSError(EIO) instead of happening
        die     — the process dies (os._exit(137)) just before the k-th operation
        partial — if the k-th operation is a write, half of the data is written and flushed, then the process dies;
                  otherwise like die
Interposed at the Python level: open() for writing (and the write()/truncate() of the file it returns), os.replace, os.rename,
os.unlink/remove, os.mkdir, os.rmdir, os.truncate, os.link, os.symlink, shutil.copyfile.
"""
import builtins
import errno
import io
import os
import shutil
import sys

mode, k, sandbox = sys.argv[1], int(sys.argv[2]), os.path.realpath(sys.argv[3])
cli_args = sys.argv[sys.argv.index("--") + 1:]
count = 0
log = []


def inside(p) -> bool:
    try:
        return os.path.realpath(os.fspath(p)).startswith(sandbox + os.sep)
    except Exception:
        return False


def tick(what: str, data=None, fobj=None):
    """called before a mutating operation; returns normally if it may proceed"""
    global count
    count += 1
    log.append(what)
    if mode == "count" or count != k:
        return
    if mode == "fail":
        raise OSError(errno.EIO, f"injected failure at operation {k}: {what}")
    if mode == "partial" and data is not None and fobj is not None:
        half = data[: len(data) // 2]
        fobj.write(half)
        fobj.flush()
    sys.stdout.flush()
    os._exit(137)


class FileProxy:
    def __init__(self, f, name):
        object.__setattr__(self, "_f", f)
        object.__setattr__(self, "_name", name)

    def write(self, data):
        tick(f"write {self._name}", data, self._f)
        return self._f.write(data)

    def writelines(self, lines):
        for l in lines:
            self.write(l)

    def truncate(self, *a):
        tick(f"truncate {self._name}")
        return self._f.truncate(*a)

    def __enter__(self):
        self._f.__enter__()
        return self

    def __exit__(self, *a):
        return self._f.__exit__(*a)

    def __iter__(self):
        return iter(self._f)

    def __getattr__(self, n):
        return getattr(self._f, n)

    def __setattr__(self, n, v):
        setattr(self._f, n, v)


real_open = builtins.open


def open_(file, mode_="r", *a, **kw):
    if not isinstance(file, int) and inside(file) and any(c in mode_ for c in "wax+"):
        tick(f"open[{mode_}] {os.path.basename(os.fspath(file))}")
        return FileProxy(real_open(file, mode_, *a, **kw), os.path.basename(os.fspath(file)))
    return real_open(file, mode_, *a, **kw)


builtins.open = open_
io.open = open_


def wrap2(mod, name):
    real = getattr(mod, name)

    def f(a, b, *rest, **kw):
        if inside(a) or inside(b):
            tick(f"{name} {os.path.basename(os.fspath(a))} -> {os.path.basename(os.fspath(b))}")
        return real(a, b, *rest, **kw)
    setattr(mod, name, f)


def wrap1(mod, name):
    real = getattr(mod, name)

    def f(a, *rest, **kw):
        if not isinstance(a, int) and inside(a):
            tick(f"{name} {os.path.basename(os.fspath(a))}")
        return real(a, *rest, **kw)
    setattr(mod, name, f)


for n in ("replace", "rename", "link", "symlink"):
    wrap2(os, n)
for n in ("unlink", "remove", "rmdir", "truncate", "mkdir"):
    wrap1(os, n)
wrap2(shutil, "copyfile")

from flowmark.cli import main  # noqa: E402

rc = 1
try:
    rc = main(cli_args)
except SystemExit as e:
    rc = e.code if isinstance(e.code, int) else 1
except BaseException as e:  # noqa: BLE001
    sys.stderr.write(f"UNCAUGHT {type(e).__name__}: {e}\n")
    rc = 70
sys.stdout.flush()
if mode == "count":
    sys.stderr.write(f"OPS {count}\n" + "\n".join(log) + "\n")
sys.exit(rc or 0)
