"""
Lean side of every check: regenerate Generated/*.lean from /repo, build the property's modules
(serialised by a lock file), hygiene grep, axiom audit.  Results become obligations in the Ctx.
"""
from __future__ import annotations

import fcntl
import re
import subprocess
from pathlib import Path

from common import ALLOWED_AXIOMS, LEAN_DIR, VERIF, Ctx

LOCK = LEAN_DIR / ".build.lock"

FORBIDDEN = re.compile(
    r"\bsorry\b|\badmit\b|^\s*axiom\s|\bnative_decide\b|\bbv_decide\b|implemented_by|\bunsafe\s|maxHeartbeats\s+0\b",
    re.M,
)


def _strip_comments(src: str) -> str:
    # block comments (possibly nested) and line comments, string literals kept
    out = []
    i, depth, n = 0, 0, len(src)
    while i < n:
        if src.startswith("/-", i):
            depth += 1
            i += 2
        elif depth and src.startswith("-/", i):
            depth -= 1
            i += 2
        elif depth:
            if src[i] == "\n":
                out.append("\n")
            i += 1
        elif src.startswith("--", i):
            while i < n and src[i] != "\n":
                i += 1
        elif src[i] == '"':
            j = i + 1
            while j < n and src[j] != '"':
                j += 2 if src[j] == "\\" else 1
            out.append('""')
            i = j + 1
        else:
            out.append(src[i])
            i += 1
    return "".join(out)


def hygiene() -> list[str]:
    hits = []
    for p in sorted(list((LEAN_DIR / "FM").rglob("*.lean")) + list((LEAN_DIR / "Driver").rglob("*.lean"))):
        code = _strip_comments(p.read_text())
        for m in FORBIDDEN.finditer(code):
            line = code.count("\n", 0, m.start()) + 1
            hits.append(f"{p.relative_to(LEAN_DIR)}:{line}: {m.group(0).strip()}")
        if "partial def" in code and "Driver/Main.lean" not in str(p):
            hits.append(f"{p.relative_to(LEAN_DIR)}: partial def outside the driver loop")
    return hits


def lake(args: list[str], timeout: int = 1500) -> tuple[int, str]:
    LOCK.parent.mkdir(exist_ok=True)
    with open(LOCK, "w") as lk:
        fcntl.flock(lk, fcntl.LOCK_EX)
        p = subprocess.run(["lake", *args], cwd=LEAN_DIR, stdout=subprocess.PIPE, stderr=subprocess.STDOUT,
                           timeout=timeout)
    return p.returncode, p.stdout.decode(errors="replace")


def regenerate() -> tuple[bool, str]:
    import translate

    try:
        changed = translate.main(quiet=True)
        return True, f"regenerated ({len(changed)} file(s) changed)"
    except translate.TranslateError as e:
        return False, str(e)


THEOREM_RE = re.compile(r"^\s*(?:@\[[^\]]*\]\s*)?theorem\s+([A-Za-z_][A-Za-z0-9_'.]*)", re.M)
NAMESPACE_RE = re.compile(r"^namespace\s+(\S+)", re.M)


def prop_theorems(prop: str) -> list[str]:
    p = LEAN_DIR / "FM" / "Props" / f"{prop}.lean"
    src = _strip_comments(p.read_text())
    ns = NAMESPACE_RE.search(src)
    prefix = (ns.group(1) + ".") if ns else ""
    return [prefix + m.group(1) for m in THEOREM_RE.finditer(src)]


def audit(prop: str) -> dict[str, tuple[bool, str]]:
    names = prop_theorems(prop)
    d = LEAN_DIR / ".audit"
    d.mkdir(exist_ok=True)
    f = d / f"Audit_{prop}.lean"
    f.write_text(f"import FM.Props.{prop}\n" + "".join(f"#print axioms {n}\n" for n in names))
    rc, out = lake(["env", "lean", str(f)])
    res: dict[str, tuple[bool, str]] = {}
    for n in names:
        m = re.search(r"'" + re.escape(n) + r"' (does not depend on any axioms|depends on axioms: \[([^\]]*)\])", out)
        if not m:
            res[n] = (False, "no #print axioms output: " + out[-300:])
            continue
        axs = set(a.strip() for a in (m.group(2) or "").replace("\n", " ").split(",") if a.strip())
        bad = axs - ALLOWED_AXIOMS
        res[n] = (not bad, "axioms: " + (", ".join(sorted(axs)) or "none"))
    return res


def lean_obligations(ctx: Ctx, prop: str | None = None, need_driver: bool = True) -> bool:
    """Regenerate, build Props/<prop> (+ driver), hygiene, audit. Returns True if the driver is usable."""
    prop = prop or ctx.prop
    ok, msg = regenerate()
    ctx.obligation("translator: Generated/*.lean regenerated from /repo working tree", "translator", ok, msg)
    targets = [f"FM.Props.{prop}"]
    rc, out = lake(["build", *targets])
    built = rc == 0
    if not built:
        errs = [l for l in out.splitlines() if l.startswith("error:")][:8]
        ctx.obligation(f"lake build FM.Props.{prop}", "build", False, "\n".join(errs) or out[-600:])
    driver_ok = True
    if need_driver:
        rc2, out2 = lake(["build", "driver"])
        driver_ok = rc2 == 0
        if not driver_ok:
            errs = [l for l in out2.splitlines() if l.startswith("error:")][:8]
            ctx.obligation("lake build driver", "build", False, "\n".join(errs) or out2[-600:])
    hits = hygiene()
    ctx.obligation("hygiene grep (sorry/admit/axiom/native_decide/bv_decide/implemented_by/unsafe/partial)",
                   "hygiene", not hits, "; ".join(hits[:10]))
    names = prop_theorems(prop)
    if built:
        res = audit(prop)
        for n in names:
            okn, detail = res.get(n, (False, "missing"))
            ctx.obligation(n, "theorem", okn, detail)
        if ctx.tier == "thorough":
            # independent re-check of the compiled module (and everything it imports) by leanchecker
            rc3, out3 = lake(["env", "leanchecker", f"FM.Props.{prop}"])
            ctx.obligation(f"leanchecker FM.Props.{prop} (independent replay of the compiled declarations)", "recheck", rc3 == 0, out3[-400:] if rc3 else "")
    else:
        for n in names:
            ctx.obligation(n, "theorem", False, "module does not build")
    return driver_ok
