#!/bin/bash
# usage: mutcheck.sh <patch.diff> <prop> [<prop>...]   — apply to /repo, run quick checks, always revert
patch="$1"; shift
cd /repo || exit 2
if ! git diff --quiet; then echo "/repo is dirty"; exit 2; fi
git apply "$patch" || { echo "patch does not apply"; exit 2; }
# afterwards: restore /repo and regenerate lean/FM/Generated from the restored tree (the run against the change rewrote it)
trap 'git -C /repo checkout -- . ; git -C /repo clean -fdq src tests 2>/dev/null; (cd /verif && PYTHONPATH=/verif/harness /venv/bin/python harness/translate.py >/dev/null 2>&1)' EXIT
cd /verif
for p in "$@"; do
  # the evidence file must keep describing the unchanged tree: save it and put it back after the run against the change
  cp -f "evidence/$p.json" "/tmp/evidence.$p.$$.json" 2>/dev/null
  out=$(./check "$p" --tier "${TIER:-quick}" 2>&1); rc=$?
  if [ -f "/tmp/evidence.$p.$$.json" ]; then mv -f "/tmp/evidence.$p.$$.json" "evidence/$p.json"; fi
  echo "== $p rc=$rc :: $(echo "$out" | grep -E 'VIOLATION|failing input|broken obligation' | head -3 | tr '\n' ' ')"
done
