"""
Tie of the resolver model (FM/Model/Resolver.lean) to file_resolver.FileResolver: scenarios are built on disk, the real
resolver runs on them, and the same scenario — tree, arguments, and the answers pathspec gives to every question the
model may ask — goes to the driver's `resolve` op.
"""
from __future__ import annotations

import os
from pathlib import Path

import fstree
from common import Ctx, run_driver


def S(s: str) -> str:
    return "s" + ".".join(str(ord(c)) for c in s)


def path_sexp(parts) -> str:
    return "( path " + " ".join(S(p) for p in parts) + " )" if parts else "( path )"


def abs_parts(p) -> list[str]:
    return str(p).split("/")


def scan(d: Path, rel: tuple, nodes_out: list) -> str:
    """S-expression of the children of d as os.walk classifies them; every node's relative path goes to nodes_out"""
    out = []
    for e in sorted(os.scandir(d), key=lambda e: e.name):
        r = rel + (e.name,)
        try:
            isdir = e.is_dir()
        except OSError:
            isdir = False
        link = e.is_symlink()
        if isdir:
            nodes_out.append((r, True))
            kids = "" if link else scan(Path(e.path), r, nodes_out)
            out.append(f"( d {S(e.name)} {int(link)} {kids} )")
        else:
            nodes_out.append((r, False))
            try:
                size = os.stat(e.path).st_size
            except OSError:
                size = 0
            out.append(f"( f {S(e.name)} {size} {int(link)} )")
    return " ".join(out)


def env_sexp(root: Path, settings: dict, nodes: list) -> str:
    from flowmark.file_resolver.gitignore import load_gitignore, load_tool_ignore
    tool = load_tool_ignore("flowmark", root)
    queries = set()
    for r, _ in nodes:
        queries.add("/".join(r))
        queries.add("/".join(r) + "/")
    if tool is None:
        tool_s = "-"
    else:
        tool_s = "( " + " ".join(f"( {S(q)} {int(bool(tool.match_file(q)))} )" for q in sorted(queries)) + " )"
    gis = []
    rroot = root.resolve()
    dirs = [()] + [r for r, isdir in nodes if isdir]
    for dr in dirs:
        dpath = rroot.joinpath(*dr)
        if dpath.is_symlink():
            continue
        spec = load_gitignore(dpath)
        if spec is None:
            continue
        rows = []
        for r, isdir in nodes:
            if r[:len(dr)] == dr and len(r) > len(dr):
                rel = "/".join(r[len(dr):])
                for q in (rel, rel + "/"):
                    v = spec.check_file(q).include
                    rows.append(f"( {S(q)} {'n' if v is None else int(v)} )")
        gis.append(f"( {path_sexp(dr)} ( {' '.join(rows)} ) )")
    return f"( env {int(settings.get('respect_gitignore', True))} {tool_s} ( gi {' '.join(gis)} ) )"


def scenario(settings: dict, args: list[str]) -> str | None:
    """the `resolve` op line for this scenario (None if an argument is something the model does not cover)"""
    import pathspec
    inc, exc = fstree.effective(settings)
    inc_s = pathspec.PathSpec.from_lines("gitignore", inc)
    exc_s = pathspec.PathSpec.from_lines("gitignore", exc)
    names, excl_q = set(), set()
    arg_sx = []
    for a in args:
        p = Path(a)
        if p.is_file():
            parts = p.parts[:-1]
            names.add(p.name)
            excl_q.add(p.name)
            excl_q.update(x + "/" for x in parts)
            arg_sx.append(f"( file {path_sexp(parts)} {S(p.name)} {p.stat().st_size} {path_sexp(abs_parts(p.resolve()))} )")
        elif p.is_dir():
            nodes: list = []
            kids = scan(p, (), nodes)
            for r, _ in nodes:
                names.add(r[-1])
                excl_q.add("/".join(r) + "/")
            arg_sx.append(f"( dir {path_sexp(abs_parts(p.resolve()))} {env_sexp(p, settings, nodes)} {kids} )")
        elif any(c in a for c in "*?["):
            root, part = fstree.glob_root(a)
            nodes = []
            if root.is_dir():
                scan(root, (), nodes)
            cands = []
            for g in (root.glob(part) if root.is_dir() else []):
                if g.is_file():
                    rel = g.relative_to(root).parts
                    names.add(rel[-1])
                    for k in range(1, len(rel)):
                        excl_q.add("/".join(rel[:k]) + "/")
                    cands.append(f"( cand {path_sexp(rel)} {g.stat().st_size} {path_sexp(abs_parts(g.resolve()))} )")
            for r, _ in nodes:
                excl_q.add("/".join(r) + "/")
            env = env_sexp(root, settings, nodes) if root.is_dir() else f"( env {int(settings.get('respect_gitignore', True))} - ( gi ) )"
            arg_sx.append(f"( glob {path_sexp(abs_parts(root.resolve()))} {env} {' '.join(cands)} )")
        else:
            return None
    incl_t = " ".join(f"( {S(n)} {int(bool(inc_s.match_file(n)))} )" for n in sorted(names))
    excl_t = " ".join(f"( {S(q)} {int(bool(exc_s.match_file(q)))} )" for q in sorted(excl_q))
    return f"resolve\t{int(bool(settings.get('force_exclude', False)))}\t{settings.get('files_max_size', 1_048_576)}\t{incl_t}\t{excl_t}\t{' '.join(arg_sx)}"


def dec_paths(o: str) -> list[str]:
    out = []
    for item in o.split(";"):
        if item == "":
            continue
        out.append("/".join("".join(chr(int(c)) for c in comp.split(".") if c != "") for comp in item.split("/")))
    return out


def tie_resolve(ctx: Ctx, n: int, git: bool = True) -> None:
    rng = ctx.rng
    lines, cases = [], []
    for i in range(n):
        t = fstree.gen_tree(rng, git=git and (i % 3 != 2), links=(i % 2 == 0))
        try:
            s = fstree.gen_settings(rng)
            args = [a for a in fstree.gen_args(rng, t) if Path(a).exists() or any(c in a for c in "*?[")]
            if not args:
                continue
            args, wd = fstree.relativise(rng, t, args)
            os.chdir(wd)
            try:
                real = fstree.real_resolve(s, args)
            except Exception as e:
                ctx.tie_broken("resolve", {"settings": s, "args": [a.replace(str(t.base), "") for a in args]}, "<model>", repr(e))
                continue
            line = scenario(s, args)
            if line is None:
                continue
            lines.append(line)
            cases.append(({"settings": s, "args": [a.replace(str(t.base), "") for a in args], "cwd": wd.replace(str(t.base), ""), "tree": listing(t)}, real, str(t.base)))
            ctx.count(["resolve", s, len(args)], nontrivial=len(real) > 0)
            for a in args:
                ctx.bump("arg:" + ("file" if Path(a).is_file() else "dir" if Path(a).is_dir() else "glob"))
        finally:
            os.chdir("/")
            t.close()
    outs = run_driver(lines, workers=8)
    bad = 0
    for (case, real, base), o in zip(cases, outs):
        got = None if o == "bad-op" else dec_paths(o)
        if got != real:
            bad += 1
            ctx.tie_broken("resolve", case, None if got is None else [g.replace(base, "") for g in got], [r.replace(base, "") for r in real])
    ctx.obligation(f"tie resolve: Lean resolver model = FileResolver.resolve on {len(cases)} scenarios (trees with links, ignore files, "
                   f"settings, file/dir/glob argument mixes; pathspec answers supplied as tables)", "correspondence", bad == 0, f"{bad} disagreement(s)")


def listing(t) -> list[str]:
    out = []
    for dp, dns, fns in os.walk(t.base):
        for n in dns + fns:
            p = Path(dp) / n
            rel = str(p).replace(str(t.base), "")
            if p.is_symlink():
                out.append(f"{rel} -> {os.readlink(p)}")
            elif p.is_dir():
                out.append(rel + "/")
            elif n in (".gitignore", ".flowmarkignore"):
                out.append(f"{rel}: {p.read_text()!r}")
            else:
                out.append(f"{rel} ({p.stat().st_size})")
    return sorted(out)[:200]
