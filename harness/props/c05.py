"""
C05 — Wrapping is lossless, width-bounded and maximal.

Ring 1: theorems of FM/Props/C05.lean about the exact model `fill`/`wrapLines`/`wrapParagraph`.
Ring 2: equality of model and `wrap_paragraph_lines` / `wrap_paragraph` / `markdown_escape_word`
        on bounded-exhaustive and random operations.
Ring 3: the five clauses checked directly on the real functions (and on captured renderer calls).
"""
from __future__ import annotations

import itertools
import json

import gen
from common import Ctx, dec, dec_list, enc, enc_bool, enc_list, run_driver
from leanbuild import lean_obligations

ESC_ALPHABET = ["-", "*", "+", ">", "#", "0", "7", ".", ")", "a", "\\", "="]


def _flowmark():
    from flowmark.linewrapping import text_wrapping as tw
    return tw


# ------------------------------------------------------------------------------------------
# Ring 2: correspondence


def tie_escape(ctx: Ctx) -> None:
    tw = _flowmark()
    maxlen = ctx.scale(4, 5)
    words = ["".join(t) for n in range(0, maxlen + 1) for t in itertools.product(ESC_ALPHABET, repeat=n)]
    words += gen.HAZARD_WORDS + ["1" * 12 + ".", "٣.", "１.", "#" * 9]
    outs = run_driver([f"escape\t{enc(w)}" for w in words], workers=16)
    bad = 0
    for w, o in zip(words, outs):
        exp = tw.markdown_escape_word(w)
        if o == "bad-op" or dec(o) != exp:
            bad += 1
            ctx.tie_broken("escape", {"word": w}, o if o == "bad-op" else dec(o), exp)
    ctx.count({"op": "escape", "alphabet": ESC_ALPHABET, "maxlen": maxlen}, n=len(words))
    ctx.obligation(f"tie escape: model escapeWord = markdown_escape_word on all {len(words)} words (alphabet^≤{maxlen} + hazards)",
                   "correspondence", bad == 0, f"{bad} disagreement(s)")


def _py_fill(tw, ws, W, c0, c1, md):
    return tw.wrap_paragraph_lines(" ".join(ws), W, initial_column=c0, subsequent_offset=c1,
                                   splitter=tw.simple_word_splitter, is_markdown=md)


def fill_cases(ctx: Ctx):
    """Bounded-exhaustive word-length vectors × (W, c0, c1, md), then random hazard sequences."""
    rng = ctx.rng
    maxw, maxlen, maxW = (4, 5, 6) if ctx.tier == "quick" else (5, 6, 8)
    for W in range(1, maxW + 1):
        for c0 in range(0, 4):
            for c1 in range(0, 4):
                for lens in gen.length_vectors(maxw, min(maxlen, W + 2)):
                    ws = ["abcdefghijkl"[:n] for n in lens]
                    yield (ws, W, c0, c1, False, "exh")
    # hazard words at every position, small widths (escape interplay with accounting)
    hz = ["-", "1.", "#", ">", "##", "12)", "x", "yy", "---"]
    for W in (3, 4, 6, 9):
        for c0 in (0, 2, 5):
            for c1 in (0, 2):
                for n in range(1, 5):
                    for ws in itertools.product(hz, repeat=n) if n <= 3 else []:
                        yield (list(ws), W, c0, c1, True, "hazard-exh")
    for _ in range(ctx.scale(20000, 300000)):
        n = rng.randint(0, 40) if rng.random() < 0.9 else rng.randint(40, 200)
        ws = gen.rand_words(rng, n, hazard=rng.choice([0.0, 0.3, 0.8]))
        W = rng.choice([1, 2, 5, 8, 10, 13, 20, 40, 88, rng.randint(1, 120)])
        c0 = rng.choice([0, 0, 2, 4, 7, rng.randint(0, W + 3)])
        c1 = rng.choice([0, 2, 4, rng.randint(0, 12)])
        yield (ws, W, c0, c1, rng.random() < 0.7, "random")


def tie_fill(ctx: Ctx) -> None:
    tw = _flowmark()
    cases = list(fill_cases(ctx))
    ops = [f"fill\t{W}\t{c0}\t{c1}\t{enc_bool(md)}\t{enc_list(ws)}" for ws, W, c0, c1, md, _ in cases]
    outs = run_driver(ops, workers=16)
    bad = 0
    for (ws, W, c0, c1, md, kind), o in zip(cases, outs):
        exp = _py_fill(tw, ws, W, c0, c1, md)
        got = None if o == "bad-op" else dec_list(o)
        ctx.bump("fill:" + kind)
        nontriv = len(exp) > 1
        ctx.count([ws, W, c0, c1, md], nontrivial=nontriv, sample=(kind == "random" and nontriv and len(ws) < 8))
        if got != exp:
            bad += 1
            ctx.tie_broken("fill", {"words": ws, "W": W, "c0": c0, "c1": c1, "md": md}, got, exp)
        check_clauses(ctx, ws, W, c0, c1, md, exp, "wrap_paragraph_lines")
    ctx.rule("fill: bounded-exhaustive word-length vectors × W × c0 × c1, hazard-word products, random "
             "hazard-vocabulary sequences ≤200 words; non-trivial = more than one output line")
    ctx.obligation(f"tie fill: model fill = wrap_paragraph_lines (simple splitter) on {len(cases)} ops",
                   "correspondence", bad == 0, f"{bad} disagreement(s)")


def tie_wraplines_para(ctx: Ctx) -> None:
    tw = _flowmark()
    rng = ctx.rng
    cases = []
    for _ in range(ctx.scale(6000, 80000)):
        ws = gen.rand_words(rng, rng.randint(0, 25), hazard=rng.choice([0.0, 0.4]))
        text = gen.layout(rng, ws, exotic=rng.random() < 0.3)
        if rng.random() < 0.2:
            text = rng.choice([" ", "\n", "\t "]) + text + rng.choice([" ", "\n", ""])
        W = rng.choice([-5, 0, 0, 1, 4, 10, 20, 88, rng.randint(-3, 100)])
        cases.append((text, W, rng.choice([0, 0, 3, 9]), rng.choice([0, 2, 4]), rng.random() < 0.6))
    ops = [f"wrapLines\t{enc(t)}\t{W}\t{c0}\t{c1}\t{enc_bool(md)}" for t, W, c0, c1, md in cases]
    outs = run_driver(ops, workers=16)
    bad = 0
    for (t, W, c0, c1, md), o in zip(cases, outs):
        exp = tw.wrap_paragraph_lines(t, W, initial_column=c0, subsequent_offset=c1,
                                      splitter=tw.simple_word_splitter, is_markdown=md)
        got = None if o == "bad-op" else dec_list(o)
        ctx.count(["wrapLines", t, W, c0, c1, md], nontrivial=len(exp) > 1 or W <= 0)
        ctx.bump("wrapLines:W<=0" if W <= 0 else "wrapLines:W>0")
        if got != exp:
            bad += 1
            ctx.tie_broken("wrapLines", {"text": t, "W": W, "c0": c0, "c1": c1, "md": md}, got, exp)
        if W <= 0 and len(exp) > 1:
            ctx.fail("NOWRAP: width<=0 must give at most one line per segment",
                     {"fn": "wrap_paragraph_lines", "text": t, "W": W}, exp)
    ctx.obligation(f"tie wrapLines: model = wrap_paragraph_lines on {len(cases)} texts (random whitespace, W incl. ≤0)",
                   "correspondence", bad == 0, f"{bad} disagreement(s)")

    cases2 = []
    tagw = ["{%", "a", "%}", "{%", "/a", "%}", "{{x}}", "}}", "{{", "-->", "<!--", "#}", "{#"]
    for _ in range(ctx.scale(6000, 80000)):
        if rng.random() < 0.3:
            ws = [rng.choice(tagw + gen.PLAIN_WORDS[:6]) for _ in range(rng.randint(0, 14))]
        else:
            ws = gen.rand_words(rng, rng.randint(0, 25), hazard=0.3)
        text = gen.layout(rng, ws)
        W = rng.choice([0, 3, 8, 15, 30, 88, rng.randint(-2, 60)])
        i0 = rng.choice(["", "", "- ", "> ", "1. ", "    ", "[^n]: "])
        s0 = rng.choice(["", "", "  ", "> ", "   ", "    "])
        ic = rng.choice([0, 0, 0, 5])
        cases2.append((text, W, i0, s0, ic, rng.random() < 0.6))
    ops = [f"wrapPara\t{enc(t)}\t{W}\t{enc(i0)}\t{enc(s0)}\t{ic}\t{enc_bool(md)}" for t, W, i0, s0, ic, md in cases2]
    outs = run_driver(ops, workers=16)
    bad = 0
    for (t, W, i0, s0, ic, md), o in zip(cases2, outs):
        exp = tw.wrap_paragraph(t, W, initial_indent=i0, subsequent_indent=s0, initial_column=ic,
                                word_splitter=tw.simple_word_splitter, is_markdown=md)
        got = None if o == "bad-op" else dec(o)
        ctx.count(["wrapPara", t, W, i0, s0, ic, md], nontrivial="\n" in exp)
        if got != exp:
            bad += 1
            ctx.tie_broken("wrapPara", {"text": t, "W": W, "i0": i0, "s0": s0, "ic": ic, "md": md}, got, exp)
    ctx.obligation(f"tie wrapPara: model wrapParagraph = wrap_paragraph on {len(cases2)} calls (indents, initial column, tags)",
                   "correspondence", bad == 0, f"{bad} disagreement(s)")


FT_MODES = ["none", "wrap", "wrap_full", "wrap_indent", "indent_only", "hanging_indent", "markdown_item"]


def filltext_cases(ctx: Ctx, n: int):
    rng = ctx.rng
    for _ in range(n):
        paras = []
        for _ in range(rng.randint(0, 4)):
            ws = gen.rand_words(rng, rng.randint(0, 14), hazard=0.1)
            paras.append(gen.layout(rng, ws, exotic=rng.random() < 0.15))
        text = rng.choice(["\n\n", "\n\n\n", "\n \n", "\n\n\n\n"]).join(paras)
        if rng.random() < 0.2:
            text = rng.choice(["\n", "\n\n", "  "]) + text + rng.choice(["\n", "\n\n", ""])
        mode = rng.choice(FT_MODES)
        W = rng.choice([-3, 0, 0, 1, 5, 12, 20, 40, 88])
        extra = rng.choice(["", "", "  ", "> "])
        empty = rng.choice(["", "", "  ", ">", " # "])
        ic = rng.choice([0, 0, 0, 4])
        yield text, mode, W, extra, empty, ic


def tie_filltext(ctx: Ctx) -> None:
    from flowmark.linewrapping import text_filling as tf
    tw = _flowmark()
    cases = list(filltext_cases(ctx, ctx.scale(6000, 80000)))
    ops = [f"fillText\t{m}\t{enc(t)}\t{W}\t{enc(ex)}\t{enc(em)}\t{ic}" for t, m, W, ex, em, ic in cases]
    outs = run_driver(ops, workers=16)
    bad = 0
    for (t, m, W, ex, em, ic), o in zip(cases, outs):
        exp = tf.fill_text(t, tf.Wrap(m), W, ex, em, ic, word_splitter=tw.simple_word_splitter)
        got = None if o == "bad-op" else dec(o)
        ctx.count(["fillText", t, m, W, ex, em, ic], nontrivial="\n" in exp)
        ctx.bump("fillText:" + m)
        if got != exp:
            bad += 1
            ctx.tie_broken("fillText", {"text": t, "mode": m, "W": W, "extra": ex, "empty": em, "ic": ic}, got, exp)
        check_filltext_clauses(ctx, t, m, W, ex, em, ic, exp)
    ctx.obligation(f"tie fillText: model fillText = fill_text on {len(cases)} calls (7 Wrap modes, W incl. ≤0, indents, paragraphs)",
                   "correspondence", bad == 0, f"{bad} disagreement(s)")


def check_filltext_clauses(ctx: Ctx, text, mode, W, extra, empty, ic, out: str) -> None:
    """NOWRAP / BOUND / LOSSLESS for the public fill_text in the wrapping modes."""
    import re
    if mode in ("none", "indent_only"):
        return
    case = {"fn": "fill_text", "text": text, "mode": mode, "W": W, "extra": extra, "empty": empty, "ic": ic}
    paras = [p for p in (p.strip() for p in re.split(r"\n{2,}", text)) if p]   # whitespace-only stretches are not paragraphs
    sep = "\n" + empty.strip() + "\n"
    if [w for p in paras for w in p.split()] != out.replace(sep, " ").split() and extra.strip() == "" and empty.strip() == "":
        ctx.fail("FT_LOSSLESS: fill_text changed the word sequence", case, out)
        return
    sub = extra + {"markdown_item": "  ", "wrap_indent": "    ", "hanging_indent": "    "}.get(mode, "")
    # INDENT: every line carries the configured first-line or continuation indent (extra_indent included); in the hanging modes
    # only the very first paragraph starts at the first-line indent
    if empty.strip() == "" and paras and W - len(sub) > 0:      # (width ≤ 0 is the NOWRAP clause below, with its known finding)
        pieces = out.split(sep)
        if len(pieces) == len(paras):
            first = extra + ("    " if mode == "wrap_indent" else "")
            for i, pc in enumerate(pieces):
                ls = pc.split("\n")
                want0 = sub if (mode in ("hanging_indent", "markdown_item") and i > 0) else first
                bad = [l for l in ls[1:] if not l.startswith(sub)]
                if ic == 0 and not ls[0].startswith(want0):
                    bad.append(ls[0])
                if bad:
                    ctx.fail("FT_INDENT: a line of fill_text's output does not carry its configured indent", case,
                             {"paragraph": i, "line": bad[0], "first_indent": want0, "continuation_indent": sub, "out": out})
                    return
    if W - len(sub) <= 0:
        # exactly one line per paragraph: pieces between separators are the paragraphs, none multi-line
        pieces = out.split(sep) if paras else ([] if out.strip() == "" else [out])
        if len(pieces) != len(paras) or any("\n" in pc for pc in pieces):
            multi = any("\n" in p for p in paras)
            known = "C05-plaintext-nowrap-keeps-newlines" if (multi and mode in ("wrap", "markdown_item")) else None
            ctx.fail("FT_NOWRAP: width<=0 must give exactly one line per paragraph in fill_text", case,
                     {"pieces": len(pieces), "paragraphs": len(paras), "out": out}, known=known)


# ------------------------------------------------------------------------------------------
# Ring 3: the clauses on the real function's output


def check_clauses(ctx: Ctx, ws, W, c0, c1, md, lines, fn) -> None:
    """LOSSLESS / NONEMPTY / BOUND / MAXIMAL on an actual output of wrap_paragraph_lines (W>0)."""
    tw = _flowmark()
    case = {"fn": fn, "words": ws, "W": W, "c0": c0, "c1": c1, "md": md}
    out_words = [l.split(" ") for l in lines]
    if any(l == "" for l in lines):
        ctx.fail("NONEMPTY: empty output line", case, lines)
        return
    flat = [w for l in out_words for w in l]
    # lossless up to escape at heads of non-first lines
    heads = set()
    k = 0
    for i, l in enumerate(out_words):
        if i > 0:
            heads.add(k)
        k += len(l)
    ok = len(flat) == len(ws)
    if ok:
        for j, (a, b) in enumerate(zip(flat, ws)):
            if a == b:
                continue
            if md and j in heads and a == tw.markdown_escape_word(b):
                continue
            ok = False
            break
    if not ok:
        ctx.fail("LOSSLESS: output words differ from input words (beyond an escape at a wrapped line head)", case, lines)
        return
    # bound (true columns) and maximality
    for i, l in enumerate(lines):
        col = c0 if i == 0 else c1
        if col + len(l) > W and len(out_words[i]) > 1:
            ctx.fail("BOUND: breakable line longer than width", case, {"line": l, "index": i, "col": col})
            return
    k = 0
    for i in range(len(lines) - 1):
        k += len(out_words[i])
        acc = c0 if i == 0 else c1
        nxt = ws[k]
        if acc + len(lines[i]) + 1 + len(nxt) <= W:
            ctx.fail("MAXIMAL: next word would have fit on the previous line", case, {"line": lines[i], "next": nxt})
            return


def check_sentence_clauses(ctx: Ctx, ws, W, i0, s0, ml, md, out: str) -> None:
    """Sentence mode on the real wrapper: lossless, indents, bound (true columns)."""
    from flowmark.linewrapping import sentence_split_regex as ss
    tw = _flowmark()
    case = {"fn": "line_wrap_by_sentence", "text": " ".join(ws), "W": W, "i0": i0, "s0": s0, "minLen": ml, "md": md}
    lines = out.split("\n") if out else []
    body = []
    for i, l in enumerate(lines):
        ind = i0 if i == 0 else s0
        if not l.startswith(ind):
            ctx.fail("INDENTS: line does not carry the configured indent", case, out)
            return
        body.append(l[len(ind):])
    flat = [w for l in body for w in l.split(" ")] if body else []
    ok = len(flat) == len(ws) and all(a == b or (md and a == tw.markdown_escape_word(b)) for a, b in zip(flat, ws))
    if ws and not ok:
        ctx.fail("S_LOSSLESS: sentence-mode output words differ from input words", case, out)
        return
    for i, l in enumerate(lines):
        toks = body[i].split(" ")
        if len(l) > W and len(toks) > 1:
            merged = any(ss.heuristic_end_of_sentence(t) for t in toks[:-1])
            known = "C05-semantic-merge-ignores-indent" if (merged and len(body[i]) <= W) else None
            ctx.fail("S_BOUND: breakable line longer than width in sentence mode", case, {"line": l, "index": i}, known=known)
            return


def sentence_oracle(ctx: Ctx, n: int) -> None:
    from flowmark.linewrapping import line_wrappers as lw
    from props import c11
    for _ in range(n):
        ws, W, i0, s0, ml, md = c11.rand_case(ctx)
        s0 = " " * len(i0) if ctx.rng.random() < 0.7 else s0
        out = lw.line_wrap_by_sentence(width=W, min_line_len=ml, is_markdown=md)(" ".join(ws), i0, s0)
        ctx.count(["sentence-oracle", ws, W, i0, s0, ml, md], nontrivial="\n" in out)
        check_sentence_clauses(ctx, ws, W, i0, s0, ml, md, out)


def nowrap_and_lenfn_oracle(ctx: Ctx, n: int) -> None:
    """two corners of the public wrappers: every non-positive width means "do not wrap" in BOTH wrappers (one line per
    paragraph), and a custom length function measures the indents too (BOUND / MAXIMAL in display columns)"""
    from flowmark.linewrapping import line_wrappers as lw
    from flowmark.linewrapping import text_wrapping as tw
    rng = ctx.rng

    def wide(s: str) -> int:
        return sum(2 if ord(c) > 0x2E80 else 1 for c in s)
    for _ in range(n):
        ws = gen.rand_words(rng, rng.randint(1, 30), hazard=0.0)
        text = " ".join(ws)
        W = rng.choice([0, -1, -2, -7, -88])
        for name, w in (("line_wrap_by_sentence", lw.line_wrap_by_sentence(width=W, is_markdown=True)),
                        ("line_wrap_to_width", lw.line_wrap_to_width(width=W, is_markdown=True))):
            out = w(text, "- ", "  ")
            ctx.count(["nowrap", name, text, W], nontrivial=True)
            ctx.bump("nowrap:" + name)
            if "\n" in out:
                ctx.fail("NOWRAP: width<=0 must give exactly one line per paragraph", {"fn": name, "text": text, "W": W}, out)
                return
    cjk = ["漢字", "かな", "文字列", "語", "ａｂ", "word", "x", "latin", "長い言葉です"]
    for _ in range(n):
        ws = [rng.choice(cjk) for _ in range(rng.randint(2, 25))]
        text = " ".join(ws)
        W = rng.choice([10, 16, 24, 40])
        i0 = rng.choice(["", "・ ", "　", "- "])
        s0 = rng.choice(["", "　　", "　", "  "])
        for name, out in (("wrap_paragraph", tw.wrap_paragraph(text, width=W, initial_indent=i0, subsequent_indent=s0, len_fn=wide)),
                          ("line_wrap_to_width", lw.line_wrap_to_width(width=W, len_fn=wide)(text, i0, s0))):
            lines = out.split("\n")
            ctx.count(["len_fn", name, text, W, i0, s0], nontrivial=len(lines) > 1)
            ctx.bump("len_fn:" + name)
            for k, l in enumerate(lines):
                ind = i0 if k == 0 else s0
                body = l[len(ind):]
                if wide(l) > W and " " in body.strip():
                    ctx.fail("BOUND (custom len_fn): a breakable line is wider than the width in the caller's own measure",
                             {"fn": name, "text": text, "W": W, "i0": i0, "s0": s0}, {"line": l, "columns": wide(l)})
                    return
                if k + 1 < len(lines):
                    nxt = lines[k + 1][len(s0):].split(" ")[0]
                    if wide(l) + 1 + wide(nxt) <= W:
                        ctx.fail("MAXIMAL (custom len_fn): the next word would have fitted in the caller's own measure",
                                 {"fn": name, "text": text, "W": W, "i0": i0, "s0": s0}, {"line": l, "next": nxt})
                        return


def doc_indent_oracle(ctx: Ctx, n: int) -> None:
    """Renderer side of INDENTS/BOUND: the prefixes the renderer hands to the wrapper at every container
    nesting (recorded through the public line_wrapper parameter), and the real wrapper's output for them."""
    import mdgen
    import rendertie
    from flowmark.linewrapping.markdown_filling import fill_markdown
    from flowmark.linewrapping.line_wrappers import line_wrap_to_width
    rng = ctx.rng
    docs = list(rendertie.SPECIAL_DOCS) + [mdgen.gen_document(rng, hazards=False) for _ in range(n)]
    for doc in docs:
        W = rng.choice([20, 30, 50, 88])
        real = line_wrap_to_width(width=W, is_markdown=True)
        calls = []

        def rec(text, i0, s0):
            out = real(text, i0, s0)
            calls.append((text, i0, s0, out))
            return out
        try:
            fill_markdown(doc, width=W, line_wrapper=rec)
        except Exception as e:
            ctx.fail("format raised", {"doc": doc, "W": W}, repr(e))
            continue
        ctx.count(["doc-indent", doc, W], nontrivial=len(calls) > 1)
        for text, i0, s0, out in calls:
            case = {"doc": doc, "W": W, "paragraph": text[:80], "i0": i0, "s0": s0}
            if "[^" not in i0 and len(i0) != len(s0):
                ctx.fail("INDENTS: continuation indent handed to the wrapper does not line up with the first-line prefix", case, None)
                break
            lines = out.split("\n")
            for k, l in enumerate(lines):
                ind = i0 if k == 0 else s0
                if l.strip() and not l.startswith(ind) and not l.lstrip().startswith(("{%", "{#", "{{", "<!--")):
                    ctx.fail("INDENTS: output line does not carry the configured indent", case, {"line": l, "index": k})
                    break


def replay_findings(ctx: Ctx) -> None:
    tw = _flowmark()
    for fid, e in ctx.kf.items():
        c = e.get("input") or {}
        if c.get("fn") == "wrap_paragraph_lines":
            n0 = len(ctx.failing)
            check_clauses(ctx, c["words"], c["W"], c["c0"], c["c1"], c["md"],
                          _py_fill(tw, c["words"], c["W"], c["c0"], c["c1"], c["md"]), "wrap_paragraph_lines")
            ctx.count(["finding-replay", fid])
        elif c.get("fn") == "reformat_text_plain":
            from flowmark import reformat_text
            out = reformat_text(c["text"], width=c["W"], plaintext=True)
            ctx.known_replay(fid, any("\n" in p for p in out.split("\n\n")))
            ctx.count(["finding-replay", fid])
        elif c.get("fn") == "fill_text":
            from flowmark.linewrapping import text_filling as tf
            out = tf.fill_text(c["text"], tf.Wrap(c["mode"]), c["W"], c["extra"], c["empty"], c["ic"], word_splitter=tw.simple_word_splitter)
            ctx.known_replay(fid, "\n" in out)
            ctx.count(["finding-replay", fid])
        elif c.get("fn") == "line_wrap_by_sentence":
            from flowmark.linewrapping import line_wrappers as lw
            out = lw.line_wrap_by_sentence(width=c["W"], min_line_len=c["minLen"], is_markdown=c["md"])(c["text"], c["i0"], c["s0"])
            still = any(len(l) > c["W"] and " " in l.strip() for l in out.split("\n"))
            ctx.known_replay(fid, still)
            ctx.count(["finding-replay", fid])


def run(ctx: Ctx) -> None:
    driver_ok = lean_obligations(ctx)
    replay_findings(ctx)
    if driver_ok:
        ctx.guard("tie escape", tie_escape)
        ctx.guard("tie fill", tie_fill)
        ctx.guard("tie wrapLines/wrapPara", tie_wraplines_para)
        ctx.guard("tie fillText", tie_filltext)
    else:
        search(ctx)
    sentence_oracle(ctx, ctx.scale(4000, 60000))
    nowrap_and_lenfn_oracle(ctx, ctx.scale(400, 6000))
    if driver_ok:
        import rendertie
        ctx.guard("tie render", rendertie.tie_render, ctx.scale(150, 3000))
    doc_indent_oracle(ctx, ctx.scale(150, 3000))
    ctx.assume("word splitting of Markdown-aware splitter is C06's tie; here the simple splitter and supplied words")


def search(ctx: Ctx) -> None:
    """Failing-input search on the real code only (used when an obligation or tie is broken)."""
    tw = _flowmark()
    seen = 0
    for b in ctx.broken_inputs:
        c = b["case"]
        if b["tie"] == "fill":
            check_clauses(ctx, c["words"], c["W"], c["c0"], c["c1"], c["md"],
                          _py_fill(tw, c["words"], c["W"], c["c0"], c["c1"], c["md"]), "wrap_paragraph_lines")
    doc_indent_oracle(ctx, 1500)
    old = ctx.tier
    ctx.tier = "thorough"
    try:
        for ws, W, c0, c1, md, kind in fill_cases(ctx):
            check_clauses(ctx, ws, W, c0, c1, md, _py_fill(tw, ws, W, c0, c1, md), "wrap_paragraph_lines")
            seen += 1
            if len(ctx.failing) >= 5 or seen > 400000:
                break
    finally:
        ctx.tier = old


def replay(ctx: Ctx, path: str) -> int:
    tw = _flowmark()
    r = json.loads(open(path).read())
    c = r.get("input") or {}
    if "words" in c:
        lines = _py_fill(tw, c["words"], c["W"], c["c0"], c["c1"], c["md"])
        print("output:", lines)
        check_clauses(ctx, c["words"], c["W"], c["c0"], c["c1"], c["md"], lines, "wrap_paragraph_lines")
    for f in ctx.failing:
        print("still fails:", f.get("clause"))
    return 1 if ctx.failing else 0
