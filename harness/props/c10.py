"""
C10 — Cleanups and list-spacing options do exactly what they say and nothing else.

Ring 1: FM/Props/C10.lean — UNBOLD_EXACT on the transform model, item separator lemmas and mode lemmas on the render model.
Ring 2: tie transform (doc_cleanups on Marko trees), tie render in the three spacing modes.
Ring 3: cleanups on vs off differ only in all-bold headings; loose/tight vs preserve differ only in blank lines between
        list items; loose separates every pair of items, tight removes separators from lists whose items hold one block.
"""
from __future__ import annotations

import json
import re

import mdast
import mdgen
import rendertie
from common import Ctx
from leanbuild import lean_obligations

HEADING_DOCS = [
    "# **All bold**\n\ntext\n", "## ***bold italic***\n", "### **partly** bold\n", "# *just italic*\n", "#### **a** **b**\n",
    "# **x `code` y**\n", "> # **in quote**\n", "- # **in list**\n", "[^n]: # **in note**\n\ntext[^n]\n", "# ~~**struck bold**~~\n",
    "## ***Note:** read this part first*\n", "## *read this **part***\n", "# ***a** b **c***\n", "## ***a***b\n", "# **a***b*\n", "## _**Note:** rest_\n",
    "### __*x*__ y\n", "# *a **b** c*\n", "Setext ***Note:** more*\n---\n", "# ** **\n", "# **a**\\\nb\n", "## **a** \n",
    "**not a heading**\n", "**Setext Title**\n===\n\ntext\n", "***Setext two***\n---\n", "# **[link](http://u)**\n", "###### **six**\n", "# *** *\n",
]
LIST_DOCS = [
    "- a\n- b\n- c\n", "- a\n\n- b\n\n- c\n", "1. a\n2. b\n", "1. a\n\n2. b\n", "- a\n  - x\n  - y\n- b\n", "- a\n\n  - x\n\n  - y\n\n- b\n",
    "- a\n\n  second para\n- b\n", "> - q1\n> - q2\n", "> - q1\n>\n> - q2\n", "[^n]: - f1\n    - f2\n\nx[^n]\n", "- a\n  ```\n  code\n  ```\n- b\n",
    "- a\n  > quote\n- b\n", "- ```\n  code\n  ```\n\n- ```\n  x\n  ```\n", "- > q\n\n- > r\n", "- - a\n\n- - b\n", "1. ```\n   c\n   ```\n2. p\n",
    "- | a | b |\n  |---|---|\n  | 1 | 2 |\n\n- x\n", "- <div>\n  html\n  </div>\n\n- y\n", "- * * *\n\n- z\n", "- [r]: http://u\n\n- w\n", "* x\n* y\n\n+ p\n+ q\n", "- [ ] t1\n- [x] t2\n", "3. c\n4. d\n\n   more\n5. e\n", "- a\n\n\n- b\n",
]


def fmt(doc, **o):
    from flowmark import reformat_text
    base = dict(width=40, semantic=False, cleanups=False, smartquotes=False, ellipses=False)
    base.update(o)
    return reformat_text(doc, **base)


def unbold_ast(t):
    """expected effect of cleanups on a canonical AST: headings whose whole content is strong lose it"""
    if isinstance(t, tuple) and t and t[0] == "heading":
        kids = t[2]
        if len(kids) == 1 and isinstance(kids[0], tuple) and kids[0][0] == "strong":
            return ("heading", t[1], kids[0][1])
        if len(kids) == 1 and isinstance(kids[0], tuple) and kids[0][0] == "em" and len(kids[0][1]) == 1 and isinstance(kids[0][1][0], tuple) and kids[0][1][0][0] == "strong":
            return ("heading", t[1], (("em", kids[0][1][0][1]),))
        return t
    if isinstance(t, tuple):
        return tuple(unbold_ast(x) for x in t)
    return t


def cleanup_oracle(ctx: Ctx, docs, label) -> None:
    from flowmark.formats.flowmark_markdown import ListSpacing
    for i, doc in enumerate(docs):
        for W, sem, sp in ((40, False, ListSpacing.preserve), (0, True, ListSpacing.loose)):
            o = dict(width=W, semantic=sem, list_spacing=sp)
            try:
                off, on = fmt(doc, cleanups=False, **o), fmt(doc, cleanups=True, **o)
                a, b = mdast.norm_doc(off), mdast.norm_doc(on)
            except Exception as e:
                ctx.fail("format raised", {"doc": doc, "opts": str(o)}, repr(e))
                continue
            ctx.count(["cleanups", doc, W, sem], nontrivial=on != off, sample=(i % 97 == 1))
            ctx.bump(label)
            case = {"doc": doc, "width": W, "semantic": sem, "list_spacing": sp.value}
            if unbold_ast(a) != b:
                setext = re.search(r"^[ >]*\*\*[^\n]*\*\*[ ]*\n[ >]*(=+|-+)[ ]*$", doc, re.M) is not None
                ctx.fail("CLEANUPS: cleanups on/off differ in something other than all-bold headings losing their bold", case,
                         {"diff": mdast.first_diff(unbold_ast(a), b), "off": off, "on": on},
                         known="C10-setext-heading-not-unbolded" if setext else None)
                continue
            # textual: only heading lines may differ
            lo, ln = off.split("\n"), on.split("\n")
            if len(lo) == len(ln):
                for x, y in zip(lo, ln):
                    if x != y and not re.match(r"^[ >\-*+0-9.)\[\]^a-z:]*#{1,6} ", x):
                        ctx.fail("CLEANUPS: a non-heading line changed", case, {"off": x, "on": y})
                        break


def strip_item_blanks(text: str) -> list[str]:
    return [l for l in text.split("\n") if l.strip(" >") != ""]


def retight(t, f):
    if isinstance(t, tuple) and t and t[0] == "list":
        return ("list", t[1], t[2], f(t), tuple(retight(x, f) for x in t[4]))
    if isinstance(t, tuple):
        return tuple(retight(x, f) for x in t)
    return t


def spacing_oracle(ctx: Ctx, docs, label) -> None:
    from flowmark.formats.flowmark_markdown import ListSpacing
    for i, doc in enumerate(docs):
        for W, sem in ((40, False), (0, True)):
            try:
                pres = fmt(doc, width=W, semantic=sem, list_spacing=ListSpacing.preserve)
                outs = {m: fmt(doc, width=W, semantic=sem, list_spacing=m) for m in (ListSpacing.loose, ListSpacing.tight)}
                ap = mdast.norm_doc(pres)
            except Exception as e:
                ctx.fail("format raised", {"doc": doc}, repr(e))
                continue
            for m in (ListSpacing.preserve, ListSpacing.loose, ListSpacing.tight):
                # the mode is also carried as its plain string value (config files, the documented API form)
                ref = pres if m == ListSpacing.preserve else outs[m]
                if label.endswith("special") and fmt(doc, width=W, semantic=sem, list_spacing=m.value) != ref:
                    ctx.fail("MODE_AS_STRING: the mode given as its string value formats differently from the enum member",
                             {"doc": doc, "width": W, "semantic": sem, "mode": m.value})
            for m, out in outs.items():
                case = {"doc": doc, "width": W, "semantic": sem, "mode": m.value}
                ctx.count(["spacing", doc, W, sem, m.value], nontrivial=out != pres, sample=(i % 97 == 2))
                ctx.bump(label)
                if strip_item_blanks(out) != strip_item_blanks(pres):
                    ctx.fail("SPACING_ONLY: list-spacing mode changed something other than blank lines", case, {"preserve": pres, "mode": out})
                    continue
                try:
                    am = mdast.norm_doc(out)
                except Exception as e:
                    ctx.fail("re-parse raised", case, repr(e))
                    continue
                if retight(am, lambda t: None) != retight(ap, lambda t: None):
                    ctx.fail("SPACING_ONLY: the document structure changed (beyond tight/loose)", case,
                             {"diff": mdast.first_diff(retight(ap, lambda t: None), retight(am, lambda t: None))})
                    continue
                lists = []

                def collect(t):
                    if isinstance(t, tuple) and t and t[0] == "list":
                        lists.append(t)
                    if isinstance(t, tuple):
                        for x in t:
                            collect(x)
                collect(am)
                for l in lists:
                    single = all(len(it[1]) <= 1 for it in l[4])
                    nonempty = all(len(it[1]) >= 1 for it in l[4])
                    has_heading_child = any(b and b[0][0] in ("heading",) for b in (it[1] for it in l[4]))
                    if m == ListSpacing.loose and l[3] and len(l[4]) > 1:
                        ctx.fail("LOOSE_ALL: a list with several items reads back tight in loose mode", case, {"out": out})
                        break
                    if m == ListSpacing.tight and single and nonempty and not l[3] and not has_heading_child:
                        ctx.fail("TIGHT_WHEN_POSSIBLE: a list whose items hold one block each reads back loose in tight mode", case, {"out": out})
                        break


def replay_findings(ctx: Ctx) -> None:
    for fid, e in ctx.kf.items():
        c = e.get("input") or {}
        if "doc" in c:
            off, on = fmt(c["doc"], cleanups=False), fmt(c["doc"], cleanups=True)
            ctx.known_replay(fid, unbold_ast(mdast.norm_doc(off)) != mdast.norm_doc(on))


def run(ctx: Ctx) -> None:
    driver_ok = lean_obligations(ctx)
    replay_findings(ctx)
    if driver_ok:
        from props import c04
        ctx.guard("tie render", rendertie.tie_render, ctx.scale(200, 3000))
        ctx.guard("tie transform", c04.tie_transform, ctx.scale(150, 2000))
    rng = ctx.rng
    gen_docs = [mdgen.gen_document(rng, bold_headings=True, quotes=(i % 4 == 0)) for i in range(ctx.scale(300, 5000))]
    cleanup_oracle(ctx, HEADING_DOCS, "cleanups:special")
    cleanup_oracle(ctx, gen_docs, "cleanups:generated")
    spacing_oracle(ctx, LIST_DOCS, "spacing:special")
    spacing_oracle(ctx, gen_docs, "spacing:generated")
    ctx.rule("special heading/list documents + generated documents with every mix of emphasis in headings, nested/mixed lists, lists in "
             "quotes and footnotes × {cleanups on/off} × {preserve, loose, tight} × two wrap settings")


def search(ctx: Ctx) -> None:
    rng = ctx.rng
    for b in ctx.broken_inputs:
        doc = b["case"].get("doc")
        if doc:
            cleanup_oracle(ctx, [doc], "from-broken-tie")
            spacing_oracle(ctx, [doc], "from-broken-tie")
    docs = [mdgen.gen_document(rng, bold_headings=True) for _ in range(3000)]
    cleanup_oracle(ctx, docs, "search")
    spacing_oracle(ctx, docs, "search")


def replay(ctx: Ctx, path: str) -> int:
    r = json.loads(open(path).read())
    print(json.dumps(r.get("input"), ensure_ascii=False)[:1500])
    print(str(r.get("detail"))[:1500])
    return 0
