"""
C10 — Cleanups and list-spacing options do exactly what they say and nothing else.

Ring 1: FM/Props/C10.lean — UNBOLD_EXACT on the transform model, item separator lemmas and mode lemmas on the render model.
Ring 2: tie transform (doc_cleanups on Marko trees), tie render in the three spacing modes.
Ring 3: cleanups on vs off differ only in all-bold headings; loose/tight vs preserve differ only in blank lines between
        list items; loose separates every pair of items, tight removes separators from lists whose items hold one block.
"""
from __future__ import annotations

import json
import re

import mdast
import mdgen
import rendertie
from common import Ctx
from leanbuild import lean_obligations

HEADING_DOCS = [
    "# **All bold**\n\ntext\n", "## ***bold italic***\n", "### **partly** bold\n", "# *just italic*\n", "#### **a** **b**\n",
    "# **x `code` y**\n", "> # **in quote**\n", "- # **in list**\n", "[^n]: # **in note**\n\ntext[^n]\n", "# ~~**struck bold**~~\n",
    "## ***Note:** read this part first*\n", "## *read this **part***\n", "# ***a** b **c***\n", "## ***a***b\n", "# **a***b*\n", "## _**Note:** rest_\n",
    "### __*x*__ y\n", "# *a **b** c*\n", "Setext ***Note:** more*\n---\n", "# ** **\n", "# **a**\\\nb\n", "## **a** \n",
    "**not a heading**\n", "**Setext Title**\n===\n\ntext\n", "***Setext two***\n---\n", "# **[link](http://u)**\n", "###### **six**\n", "# *** *\n",
    # the same shapes with the bold spelled with underscores (documents holding no asterisk at all)
    "# __All bold__\n\ntext with _emphasis_ only\n", "## ___bold italic___\n", "__Setext Title__\n---\n\ntext\n", "### __partly__ bold\n", "# _just italic_\n",
    "## __*mixed*__\n", "# _**mixed**_\n", "> ## __in quote__\n", "1. # __in list__ #\n",
]
LIST_DOCS = [
    "- a\n- b\n- c\n", "- a\n\n- b\n\n- c\n", "1. a\n2. b\n", "1. a\n\n2. b\n", "- a\n  - x\n  - y\n- b\n", "- a\n\n  - x\n\n  - y\n\n- b\n",
    "- a\n\n  second para\n- b\n", "> - q1\n> - q2\n", "> - q1\n>\n> - q2\n", "[^n]: - f1\n    - f2\n\nx[^n]\n", "- a\n  ```\n  code\n  ```\n- b\n",
    "- a\n  > quote\n- b\n", "- ```\n  code\n  ```\n\n- ```\n  x\n  ```\n", "- > q\n\n- > r\n", "- - a\n\n- - b\n", "1. ```\n   c\n   ```\n2. p\n",
    "- | a | b |\n  |---|---|\n  | 1 | 2 |\n\n- x\n", "- <div>\n  html\n  </div>\n\n- y\n", "- * * *\n\n- z\n", "- [r]: http://u\n\n- w\n", "* x\n* y\n\n+ p\n+ q\n", "- [ ] t1\n- [x] t2\n", "3. c\n4. d\n\n   more\n5. e\n", "- a\n\n\n- b\n",
    # items that start with a nested list, items holding a rule only or nothing, tight inside loose and loose inside tight
    "- - ***\n\n- next\n", "- - ***\n- next\n", "* 1. ---\n\n* next\n", "- -\n\n- next\n", "- a\n\n- - ***\n  - ***\n\n- c\n", "- - x\n  - y\n\n- next\n",
    "- - x\n\n  - y\n- next\n", "1. - a\n   - b\n\n2. - c\n", "> - - ***\n>\n> - next\n", "[^n]: - - ***\n\n    - next\n\nx[^n]\n", "- ***\n- ___\n", "-\n-\n", "-\n\n-\n",
]


# ------------------------------------------------------------------------------------------
# generated families of C10's own (the shared document generator spells emphasis with asterisks only and, in its
# clean domain, never starts an item with a nested list nor writes items without a paragraph)

_HWORDS = ["Release", "Notes", "Overview", "Note:", "alpha", "beta", "part", "two", "setup", "guide", "x", "API"]


def _hw(rng, lo=1, hi=3) -> str:
    return " ".join(rng.choice(_HWORDS) for _ in range(rng.randint(lo, hi)))


def _S(rng, inner: str) -> str:
    d = rng.choice(["**", "__"])
    return d + inner + d


def _E(rng, inner: str) -> str:
    d = rng.choice(["*", "_"])
    return d + inner + d


def heading_content(rng) -> tuple[str, str]:
    """(shape name, inline source) of a heading: every mix of bold/italic, each delimiter spelled `*` or `_` at random.
    Emphasis content starts and ends with a word and emphasis is set off by spaces, so both spellings are emphasis."""
    shapes = {
        "all-bold": lambda: _S(rng, _hw(rng)),
        "bold-italic(em outside)": lambda: _E(rng, _S(rng, _hw(rng))),
        "bold-italic(strong outside)": lambda: _S(rng, _E(rng, _hw(rng))),
        "all-bold with inner markup": lambda: _S(rng, _hw(rng) + " " + rng.choice(["`code`", "[a link](http://u/v)", _E(rng, _hw(rng)), "~~gone~~"]) + " " + _hw(rng)),
        "all-bold link": lambda: _S(rng, "[" + _hw(rng) + "](http://u/v)"),
        "bold then plain": lambda: _S(rng, _hw(rng)) + " " + _hw(rng),
        "plain then bold": lambda: _hw(rng) + " " + _S(rng, _hw(rng)),
        "two bold runs": lambda: _S(rng, _hw(rng)) + " " + _S(rng, _hw(rng)),
        "italic only": lambda: _E(rng, _hw(rng)),
        "italic starting bold": lambda: _E(rng, _S(rng, _hw(rng)) + " " + _hw(rng)),
        "italic ending bold": lambda: _E(rng, _hw(rng) + " " + _S(rng, _hw(rng))),
        "struck bold": lambda: "~~" + _S(rng, _hw(rng)) + "~~",
        "bold in link": lambda: "[" + _S(rng, _hw(rng)) + "](http://u/v)",
        "plain": lambda: _hw(rng, 1, 4),
    }
    name = rng.choice(list(shapes))
    return name, shapes[name]()


def _side_paragraph(rng) -> list[str]:
    """a paragraph next to the heading: without markup, or with emphasis in one of the spellings"""
    k = rng.randrange(6)
    w = " ".join(rng.choice(mdgen.WORDS) for _ in range(rng.randint(2, 9)))
    return [[w], [w + " _emphasis_ only"], [w + " *emphasis* only"], [w + " **bold** here"], [w + " __bold__ here"], ["**Whole paragraph bold**"]][k]


def gen_heading_doc(rng) -> tuple[str, str]:
    """One heading (ATX, ATX with closing hashes, setext) at top level / in a quote / list item / footnote, optionally
    between paragraphs.  Returns (family label, document)."""
    shape, txt = heading_content(rng)
    form = rng.choice(["atx", "atx", "atx-closed", "setext"])
    if form == "setext":
        lines = [txt, rng.choice(["=", "-"]) * rng.randint(3, 7)]
    else:
        lines = ["#" * rng.randint(1, 6) + " " + txt + (" " + "#" * rng.randint(1, 3) if form == "atx-closed" else "")]
    where = rng.choice(["top", "top", "top", "quote", "item", "ordered item", "footnote"])
    if where == "quote":
        lines = ["> " + l for l in lines]
    elif where in ("item", "ordered item", "footnote"):
        m = {"item": rng.choice("-*+") + " ", "ordered item": "1. ", "footnote": "[^n]: "}[where]
        ind = " " * (4 if where == "footnote" else len(m))
        lines = [m + lines[0]] + [ind + l for l in lines[1:]]
    blocks = []
    if rng.random() < 0.4:
        blocks.append(_side_paragraph(rng))
    blocks.append(lines)
    if rng.random() < 0.6:
        blocks.append(_side_paragraph(rng))
    if where == "footnote":
        blocks.append(["see[^n]"])
    return f"{shape}/{form}/{where}", "\n".join(mdgen.join_blocks(blocks)) + "\n"


def _shape_list(rng, depth: int, bullet_pool: str = "-*+", bare_ok: bool = True) -> list[str]:
    """A list whose items hold anything an item can hold — nothing, a paragraph, a rule, code, a quote, a nested list
    (also as the FIRST block), several blocks — authored tight or loose independently at each level.

    Kept away from two behaviours of the pinned formatter (reported; not attributed here):
      (1) [repaired in flowmark, see KNOWN_FINDINGS C10-item-break-flag-leaks: after a blank line inside an item the
          item-break flag stayed set until a paragraph, code block or quote was written; an item ending in a rule, a table
          or an empty item lost the blank line before the NEXT item in every mode.  Rules and bare items are now allowed at
          every block position.]
      (2) [repaired in flowmark, see KNOWN_FINDINGS C01-rule-under-star-bullet: '* ___' was written '* * * *', which reads
          back as a rule, not an item.  Rules are now allowed under every bullet.]
      (3) lists in footnote definitions: Marko reads every following item of a list in a footnote as nested in the
          previous one ('[^n]: - a\n    - b'), and with empty items the formatter's output differs between the modes
          beyond blank lines ('[^n]: 7.\n\n    8.\n').  Hence: no footnote container in this family (the special
          documents have lists in footnotes)."""
    ordered = rng.random() < 0.25
    bullet = rng.choice(bullet_pool)
    loose = rng.random() < 0.5
    n = rng.randint(1, 3) if depth else rng.randint(2, 4)
    start = rng.choice([1, 1, 7])
    style = rng.choice(["mixed", "mixed", "mixed", "plain"] + (["bare"] if bare_ok else []))
    out: list[str] = []
    for i in range(n):
        marker = f"{start + i}." if ordered else bullet
        kinds = []
        nblocks = 1 if style != "mixed" else rng.choice([0, 1, 1, 1, 1, 1, 2, 2, 3] if depth == 0 else [0, 1, 1, 1, 1, 2])
        for b in range(max(nblocks, 0 if bare_ok else 1)):
            pool = ["para", "para", "para", "code", "quote"] + (["list", "list"] if depth == 0 else ["list"] if depth == 1 else [])
            if style == "plain":
                pool = ["para"]
            elif style == "bare":      # items without any text block: a rule, nothing, or a list of such
                pool = ["empty"] + (["list"] if depth < 2 else [])
            if bare_ok and style != "plain":
                pool += ["rule", "rule"]
            kinds.append(rng.choice(pool))
        kinds = [k for k in kinds if k != "empty"]
        body: list[str] = []
        for b, kind in enumerate(kinds):
            if kind == "para":
                blk = [" ".join(rng.choice(mdgen.WORDS) for _ in range(rng.randint(1, 6)))]
            elif kind == "rule":
                # spelled with another character than the bullet ('- ---' is itself a rule, not an item)
                blk = [rng.choice(["***", "___"] + (["---"] if ordered or bullet != "-" else []))]
            elif kind == "code":
                blk = ["```", "code", "```"]
            elif kind == "quote":
                blk = ["> " + rng.choice(mdgen.WORDS)]
            else:
                blk = _shape_list(rng, depth + 1, bullet_pool="".join(c for c in "-*+" if c != bullet) if not ordered else "-*+",
                                  bare_ok=bare_ok)
            # blocks of one item: blank line between them, except that a nested list / code / quote may follow a paragraph directly
            # (not a bare '-': under a paragraph that is a setext underline)
            if b and not (kinds[b - 1] == "para" and kind in ("list", "code", "quote") and blk[0] != "-" and rng.random() < 0.5):
                body.append("")
            body.extend(blk)
        ind = " " * (len(marker) + 1)
        if not body:
            out.append(marker)
        for j, l in enumerate(body):
            out.append((marker + " " + l) if j == 0 else ((ind + l) if l else ""))
        if loose and i < n - 1:
            out.append("")
    return out


def gen_list_shape_doc(rng) -> tuple[str, str]:
    lines = _shape_list(rng, 0)
    where = rng.choice(["top", "top", "after paragraph", "quote"])
    if where == "quote":
        lines = [("> " + l) if l else ">" for l in lines]
    elif where == "footnote":
        lines = ["[^n]: " + lines[0]] + [("    " + l) if l else "" for l in lines[1:]] + ["", "see[^n]"]
    elif where == "after paragraph":
        lines = ["intro text", ""] + lines
    return where, "\n".join(lines) + "\n"


def fmt(doc, **o):
    from flowmark import reformat_text
    base = dict(width=40, semantic=False, cleanups=False, smartquotes=False, ellipses=False)
    base.update(o)
    return reformat_text(doc, **base)


def unbold_ast(t):
    """expected effect of cleanups on a canonical AST: headings whose whole content is strong lose it"""
    if isinstance(t, tuple) and t and t[0] == "heading":
        kids = t[2]
        if len(kids) == 1 and isinstance(kids[0], tuple) and kids[0][0] == "strong":
            return ("heading", t[1], kids[0][1])
        if len(kids) == 1 and isinstance(kids[0], tuple) and kids[0][0] == "em" and len(kids[0][1]) == 1 and isinstance(kids[0][1][0], tuple) and kids[0][1][0][0] == "strong":
            return ("heading", t[1], (("em", kids[0][1][0][1]),))
        return t
    if isinstance(t, tuple):
        return tuple(unbold_ast(x) for x in t)
    return t


def cleanup_oracle(ctx: Ctx, docs, label) -> None:
    from flowmark.formats.flowmark_markdown import ListSpacing
    for i, doc in enumerate(docs):
        for W, sem, sp in ((40, False, ListSpacing.preserve), (0, True, ListSpacing.loose)):
            o = dict(width=W, semantic=sem, list_spacing=sp)
            try:
                off, on = fmt(doc, cleanups=False, **o), fmt(doc, cleanups=True, **o)
                a, b = mdast.norm_doc(off), mdast.norm_doc(on)
            except Exception as e:
                ctx.fail("format raised", {"doc": doc, "opts": str(o)}, repr(e))
                continue
            ctx.count(["cleanups", doc, W, sem], nontrivial=on != off, sample=(i % 97 == 1))
            ctx.bump(label)
            case = {"doc": doc, "width": W, "semantic": sem, "list_spacing": sp.value}
            if unbold_ast(a) != b:
                setext = re.search(r"^[ >]*\*\*[^\n]*\*\*[ ]*\n[ >]*(=+|-+)[ ]*$", doc, re.M) is not None
                ctx.fail("CLEANUPS: cleanups on/off differ in something other than all-bold headings losing their bold", case,
                         {"diff": mdast.first_diff(unbold_ast(a), b), "off": off, "on": on},
                         known="C10-setext-heading-not-unbolded" if setext else None)
                continue
            # textual: only heading lines may differ
            lo, ln = off.split("\n"), on.split("\n")
            if len(lo) == len(ln):
                for x, y in zip(lo, ln):
                    if x != y and not re.match(r"^[ >\-*+0-9.)\[\]^a-z:]*#{1,6} ", x):
                        ctx.fail("CLEANUPS: a non-heading line changed", case, {"off": x, "on": y})
                        break


def strip_item_blanks(text: str) -> list[str]:
    return [l for l in text.split("\n") if l.strip(" >") != ""]


def retight(t, f):
    if isinstance(t, tuple) and t and t[0] == "list":
        return ("list", t[1], t[2], f(t), tuple(retight(x, f) for x in t[4]))
    if isinstance(t, tuple):
        return tuple(retight(x, f) for x in t)
    return t


def spacing_oracle(ctx: Ctx, docs, label) -> None:
    from flowmark.formats.flowmark_markdown import ListSpacing
    for i, doc in enumerate(docs):
        try:
            src_ast = mdast.norm_doc(doc)
        except Exception as e:
            ctx.fail("parse raised", {"doc": doc}, repr(e))
            continue
        for W, sem in ((40, False), (0, True)):
            try:
                pres = fmt(doc, width=W, semantic=sem, list_spacing=ListSpacing.preserve)
                outs = {m: fmt(doc, width=W, semantic=sem, list_spacing=m) for m in (ListSpacing.loose, ListSpacing.tight)}
                ap = mdast.norm_doc(pres)
            except Exception as e:
                ctx.fail("format raised", {"doc": doc}, repr(e))
                continue
            preserve_check(ctx, doc, src_ast, pres, ap, {"doc": doc, "width": W, "semantic": sem}, label.replace("spacing", "preserve"))
            for m in (ListSpacing.preserve, ListSpacing.loose, ListSpacing.tight):
                # the mode is also carried as its plain string value (config files, the documented API form)
                ref = pres if m == ListSpacing.preserve else outs[m]
                if label.endswith("special") and fmt(doc, width=W, semantic=sem, list_spacing=m.value) != ref:
                    ctx.fail("MODE_AS_STRING: the mode given as its string value formats differently from the enum member",
                             {"doc": doc, "width": W, "semantic": sem, "mode": m.value})
            for m, out in outs.items():
                case = {"doc": doc, "width": W, "semantic": sem, "mode": m.value}
                ctx.count(["spacing", doc, W, sem, m.value], nontrivial=out != pres, sample=(i % 97 == 2))
                ctx.bump(label)
                if strip_item_blanks(out) != strip_item_blanks(pres):
                    ctx.fail("SPACING_ONLY: list-spacing mode changed something other than blank lines", case, {"preserve": pres, "mode": out})
                    continue
                try:
                    am = mdast.norm_doc(out)
                except Exception as e:
                    ctx.fail("re-parse raised", case, repr(e))
                    continue
                if retight(am, lambda t: None) != retight(ap, lambda t: None):
                    ctx.fail("SPACING_ONLY: the document structure changed (beyond tight/loose)", case,
                             {"diff": mdast.first_diff(retight(ap, lambda t: None), retight(am, lambda t: None))})
                    continue
                lists = []

                def collect(t):
                    if isinstance(t, tuple) and t and t[0] == "list":
                        lists.append(t)
                    if isinstance(t, tuple):
                        for x in t:
                            collect(x)
                collect(am)
                for l in lists:
                    single = all(len(it[1]) <= 1 for it in l[4])
                    nonempty = all(len(it[1]) >= 1 for it in l[4])
                    has_heading_child = any(b and b[0][0] in ("heading",) for b in (it[1] for it in l[4]))
                    if m == ListSpacing.loose and l[3] and len(l[4]) > 1:
                        ctx.fail("LOOSE_ALL: a list with several items reads back tight in loose mode", case, {"out": out})
                        break
                    if m == ListSpacing.tight and single and nonempty and not l[3] and not has_heading_child:
                        ctx.fail("TIGHT_WHEN_POSSIBLE: a list whose items hold one block each reads back loose in tight mode", case, {"out": out})
                        break


def lists_of(t, acc=None) -> list:
    acc = [] if acc is None else acc
    if isinstance(t, tuple) and t and t[0] == "list":
        acc.append(t)
    if isinstance(t, tuple):
        for x in t:
            lists_of(x, acc)
    return acc


def preserve_check(ctx: Ctx, doc: str, src_ast, pres: str, pres_ast, case: dict, label: str) -> None:
    """'preserve keeps every list as authored': the lists of the formatted text, read back, are tight/loose exactly as
    the lists of the source read by the same parser.  Compared only where source and output are the same document up
    to tightness (whether the formatter keeps the document is C01/C04's question, with its own known findings)."""
    a, b = src_ast, pres_ast
    if retight(a, lambda t: None) != retight(b, lambda t: None):
        ctx.bump(label + ":document-differs(not compared)")
        return
    la, lb = lists_of(a), lists_of(b)
    ctx.count(["preserve", doc, case["width"], case["semantic"]], nontrivial=any(not l[3] for l in la) and any(l[3] for l in la))
    ctx.bump(label)
    for x, y in zip(la, lb):
        # Not compared: a tight list one of whose items holds a loose list after another block.  The pinned
        # formatter writes the loose inner list's leading item break there ('1. a\n2. b\n   + c\n\n     d\n' ->
        # '1. a\n2. b\n\n   + c\n\n     d\n'), so the outer list reads back loose although no blank line
        # separates ITS items (reported; the property speaks of blank lines between items).
        if x[3] and any(k and blk[0] == "list" and not blk[3] for it in x[4] for k, blk in enumerate(it[1])):
            ctx.bump(label + ":tight-around-loose(not compared)")
            continue
        if x[3] != y[3]:
            ctx.fail("PRESERVE: a list authored %s reads back %s in preserve mode" % (("tight", "loose")[not x[3]], ("tight", "loose")[not y[3]]),
                     {**case, "mode": "preserve"}, {"out": pres, "list": str(x)[:300]})
            break

def tie_render_shapes(ctx: Ctx, docs) -> None:
    """The render tie (rendertie.tie_render: Lean render model = MarkdownNormalizer under the symbolic wrapper) on the
    ASTs of the list-shape family, in all three spacing modes."""
    import astser
    from common import dec, run_driver
    from flowmark.formats.flowmark_markdown import ListSpacing, flowmark_markdown
    ops, reals, cases = [], [], []
    unser = 0
    for doc in docs:
        for sp in ListSpacing:
            m = flowmark_markdown(astser.symbolic_wrapper, sp)
            d = m.parse(doc.strip() + "\n")
            try:
                defs, body = astser.ser_doc(d)
            except astser.Unserialisable:
                unser += 1
                continue
            reals.append(m.render(d))
            ops.append(f"render\t{sp.value}\t{defs}\t{body}")
            cases.append((doc, sp.value))
    outs = run_driver(ops, workers=16)
    bad = 0
    for (doc, sp), o, real in zip(cases, outs, reals):
        got = None if o == "bad-op" else dec(o)
        ctx.count(["render", doc, sp], nontrivial=len(doc) > 20)
        ctx.bump("render:list-shapes")
        if got != real:
            bad += 1
            ctx.tie_broken("render", {"doc": doc, "list_spacing": sp}, got, real)
    ctx.obligation(f"tie render (list-shape family): Lean render model = MarkdownNormalizer (symbolic wrapper) on {len(cases)} ASTs "
                   f"({len(docs)} documents ×3 spacing modes); {unser} not serialisable",
                   "correspondence", bad == 0 and unser <= len(cases) // 20, f"{bad} disagreement(s), {unser} unserialisable")


def replay_findings(ctx: Ctx) -> None:
    for fid, e in ctx.kf.items():
        c = e.get("input") or {}
        if "doc" in c:
            off, on = fmt(c["doc"], cleanups=False), fmt(c["doc"], cleanups=True)
            ctx.known_replay(fid, unbold_ast(mdast.norm_doc(off)) != mdast.norm_doc(on))
        if "spacing_docs" in c:
            ctx.known_replay(fid, any(fmt(d, list_spacing=sp) != want for d, sp, want in c["spacing_docs"]))


def run(ctx: Ctx) -> None:
    driver_ok = lean_obligations(ctx)
    replay_findings(ctx)
    if driver_ok:
        from props import c04
        ctx.guard("tie render", rendertie.tie_render, ctx.scale(200, 3000))
        ctx.guard("tie transform", c04.tie_transform, ctx.scale(150, 2000))
    rng = ctx.rng
    gen_docs = [mdgen.gen_document(rng, bold_headings=True, quotes=(i % 4 == 0)) for i in range(ctx.scale(300, 5000))]
    cleanup_oracle(ctx, HEADING_DOCS, "cleanups:special")
    cleanup_oracle(ctx, gen_docs, "cleanups:generated")
    spacing_oracle(ctx, LIST_DOCS, "spacing:special")
    spacing_oracle(ctx, gen_docs, "spacing:generated")
    # C10's own families: headings with each emphasis delimiter spelled either way; lists of every item shape
    hdocs = [gen_heading_doc(rng) for _ in range(ctx.scale(150, 3000))]
    cleanup_oracle(ctx, [d for _, d in hdocs], "cleanups:heading-family")
    for lab, _ in hdocs:
        ctx.bump("heading-family:" + lab.split("/")[0])
    ldocs = [gen_list_shape_doc(rng) for _ in range(ctx.scale(320, 5000))]
    if driver_ok:
        ctx.guard("tie render (list-shape family)", tie_render_shapes, [d for _, d in ldocs])
    spacing_oracle(ctx, [d for _, d in ldocs], "spacing:list-shapes")
    for lab, _ in ldocs:
        ctx.bump("list-shapes:" + lab)
    ctx.rule("heading family: {all bold, bold-italic both nestings, partly bold, italic, struck, linked, plain} × each delimiter spelled "
             "* or _ × {ATX, closed ATX, setext} × {top, quote, item, footnote} × neighbouring paragraphs with/without emphasis of either spelling")
    ctx.rule("list-shape family: items holding nothing / a paragraph / a rule / code / a quote / a nested list (also as first block) / "
             "several blocks, tight or loose per level, top level / after a paragraph / in a quote; preserve compared with the source's own tightness")
    ctx.rule("special heading/list documents + generated documents with every mix of emphasis in headings, nested/mixed lists, lists in "
             "quotes and footnotes × {cleanups on/off} × {preserve, loose, tight} × two wrap settings")


def search(ctx: Ctx) -> None:
    rng = ctx.rng
    for b in ctx.broken_inputs:
        doc = b["case"].get("doc")
        if doc:
            cleanup_oracle(ctx, [doc], "from-broken-tie")
            spacing_oracle(ctx, [doc], "from-broken-tie")
    cleanup_oracle(ctx, [gen_heading_doc(rng)[1] for _ in range(2000)], "search:heading-family")
    spacing_oracle(ctx, [gen_list_shape_doc(rng)[1] for _ in range(2000)], "search:list-shapes")
    docs = [mdgen.gen_document(rng, bold_headings=True) for _ in range(3000)]
    cleanup_oracle(ctx, docs, "search")
    spacing_oracle(ctx, docs, "search")


def replay(ctx: Ctx, path: str) -> int:
    r = json.loads(open(path).read())
    print(json.dumps(r.get("input"), ensure_ascii=False)[:1500])
    print(str(r.get("detail"))[:1500])
    return 0
