"""
C09 — Ellipsis conversion touches only three-dot runs in prose.

Ring 1: FM/Props/C09.lean about the model `ellipses` (E_SHAPE, E_NO_DOTS, …).
Ring 2: equality of model and `ellipses()` on all short strings over a 10-symbol alphabet + sampled longer strings;
        idempotence of both on the same strings (exhaustive test, labelled as a test).
Ring 3: document level — ellipses on vs off: same text up to whitespace and …/..., non-prose spans identical,
        applying it again changes nothing.
"""
from __future__ import annotations

import itertools
import json
import random
import re

from common import Ctx, dec, enc, run_driver
from leanbuild import lean_obligations

ALPHABET = ["a", ".", " ", "'", '"', ",", ")", "-", "\n", "…"]
EXTRA = ["“", "‘", "”", "’", "1", "_", "?", "!", ":", ";", "—", "(", "\t", "é", "x"]
TAG_DELIMS = [("{%", "%}"), ("{#", "#}"), ("{{", "}}"), ("<!--", "-->")]
TAG_FRAGS = ["a...b", "wait...", "...and", " ", " ", "\n", "\n", "x", "word", "...", '"..."', "(x) ...", ". ...", "…", "x=\"a...b\"", "..", "%", "#", "}", "-", "..."]
# the tags of a text: leftmost, shortest, across newlines (the property's "tags"; independent of the implementation's pattern)
TAG_RE = re.compile(r"\{%[\s\S]*?%\}|\{#[\s\S]*?#\}|\{\{[\s\S]*?\}\}|<!--[\s\S]*?-->")


def word_flags(t: str) -> str:
    return "".join("1" if re.match(r"\w", c) else "0" for c in t)


def squash(t: str) -> str:
    return re.sub(r"\s+", "", t).replace("…", "...")


def tie_ellipses(ctx: Ctx) -> None:
    from flowmark.typography.ellipses import ellipses
    rng = ctx.rng
    maxlen = ctx.scale(5, 7)
    texts = ["".join(t) for n in range(0, maxlen + 1) for t in itertools.product(ALPHABET, repeat=n)]
    if ctx.tier == "quick":  # one more length over the core alphabet
        texts += ["".join(t) for t in itertools.product(["a", ".", " ", "\n", "'", "…"], repeat=6)]
    n_exh = len(texts)
    frags = ["...", "....", " ... ", "wait...", "...and", "a...b", '"..."', "'...", "...)", "...,", "x ...", "…", "\n...", "...\n", "..", ".",
             " ", "word", "\n\n", "“...", "‘...", "...”", "...’", "1...", "_...", "...-", "...—", "(...)", "!...", "...?", "é...é"]
    for _ in range(ctx.scale(30000, 300000)):
        if rng.random() < 0.6:
            t = "".join(rng.choice(frags) for _ in range(rng.randint(1, 10)))
        else:
            t = "".join(rng.choice(ALPHABET + EXTRA) for _ in range(rng.randint(7, 40)))
        texts.append(t)
    # strings with template tags / comments, also spanning line breaks (text nodes are coalesced across soft breaks with "\n");
    # drawn from a generator of their own so that the streams above and below are what they were
    n_plain = len(texts)
    trng = random.Random(f"C09:tags:{ctx.seed}")
    n_tag = ctx.scale(6000, 60000)
    for k in range(n_tag):
        sep = " " if k < n_tag // 4 else trng.choice(["", "", " "])   # spaced-out (readable) strings first, then dense ones
        t = []
        for _ in range(trng.randint(1, 3)):
            op, cl = trng.choice(TAG_DELIMS)
            t += [trng.choice(TAG_FRAGS) for _ in range(trng.randint(0, 3))]
            t += [op] + [trng.choice(TAG_FRAGS) for _ in range(trng.randint(1, 6))] + ([cl] if trng.random() < 0.9 else [])
        texts.append(sep.join(t + [trng.choice(TAG_FRAGS) for _ in range(trng.randint(0, 3))]))
    outs = run_driver([f"ellipses\t{enc(t)}\t{word_flags(t)}\t1" for t in texts], workers=16)
    outs2 = run_driver([f"ellipses\t{enc(t)}\t{word_flags(t)}\t2" for t in texts], workers=16)
    bad = nonidem_model = 0
    for i, (t, o, o2) in enumerate(zip(texts, outs, outs2)):
        exp = ellipses(t)
        got = None if o == "bad-op" else dec(o)
        ctx.count(["ellipses", t], nontrivial=exp != t, sample=(i % 200003 == 11))
        if got != exp:
            bad += 1
            ctx.tie_broken("ellipses", {"text": t}, got, exp)
        if o2 != o:
            nonidem_model += 1
        e2 = ellipses(exp)
        if e2 != exp:
            ctx.fail("E_IDEM: applying ellipses again changes the text", {"text": t}, {"once": exp, "twice": e2})
        if squash(exp) != squash(t):
            ctx.fail("E_SHAPE: ellipses changed something other than '...'→'…' and whitespace", {"text": t}, exp)
        if i >= n_plain and TAG_RE.findall(exp) != TAG_RE.findall(t):
            ctx.fail("E_TAGS: ellipses changed a template tag / HTML comment", {"text": t}, exp)
    ctx.bump("ellipses:exhaustive", n_exh)
    ctx.bump("ellipses:sampled", n_plain - n_exh)
    ctx.bump("ellipses:sampled with tags", len(texts) - n_plain)
    ctx.bump("ellipses:sampled with a tag spanning lines", sum(1 for t in texts[n_plain:] if any("\n" in g for g in TAG_RE.findall(t))))
    ctx.obligation(f"tie ellipses: model = ellipses() on all {n_exh} strings over a {len(ALPHABET)}-symbol alphabet ≤{maxlen} and "
                   f"{len(texts) - n_exh} sampled longer strings", "correspondence", bad == 0, f"{bad} disagreement(s)")
    ctx.obligation(f"E_IDEM on the model: ellipses∘ellipses = ellipses on the same {len(texts)} strings (exhaustive TEST over the "
                   f"bounded set, not a theorem)", "model-test", nonidem_model == 0, f"{nonidem_model} non-idempotent string(s)")
    ctx.rule("ellipses: exhaustive short strings over {a . space ' \" , ) - newline …}; fragments/random longer; strings with "
             "{% %} {# #} {{ }} <!-- --> tags (also unclosed, also spanning newlines) around '...' fragments, tags compared "
             "before/after; non-trivial = output differs from input")


def doc_oracle(ctx: Ctx, n: int) -> None:
    import mdgen
    rng = ctx.rng
    for i in range(n):
        doc = mdgen.gen_document(rng, ellipses=True, tags=(i % 3 == 0), quotes=(i % 2 == 0))
        o = mdgen.rand_opts(rng)
        o.pop("ellipses", None)
        o["smartquotes"] = False  # smart quotes have their own (known) non-idempotence; keep C09's oracle about ellipses
        check_doc(ctx, "doc", doc, o, sample=(i % 977 == 3))


def check_doc(ctx: Ctx, family: str, doc: str, o: dict, sample: bool = False) -> bool:
    """The document-level oracle on one document and option set (ellipses excluded from `o`, smart quotes off).
    Returns True when every comparison was made and held."""
    import mdgen
    from flowmark import reformat_text
    try:
        off = reformat_text(doc, ellipses=False, **o)
        on = reformat_text(doc, ellipses=True, **o)
    except Exception as e:
        ctx.fail("format raised", {"doc": doc, "opts": o}, repr(e))
        return False
    ctx.count([family, doc, o], nontrivial=on != off, sample=sample)
    case = {"doc": doc, "opts": o}
    # text comparison without wrapping (so container prefixes such as '>' sit at the same words)
    o0 = dict(o, width=0)
    off0, on0 = reformat_text(doc, ellipses=False, **o0), reformat_text(doc, ellipses=True, **o0)
    if squash(on0) != squash(off0) or on0.count("\n") != off0.count("\n"):
        ctx.fail("E_DOC: ellipses on/off differ in more than '...'→'…' and whitespace (width 0)", case, {"off": off0, "on": on0})
        return False
    sp_off = [re.sub(r"\s+", " ", off[a:b]) for a, b in mdgen.protected_spans(off)]
    sp_on = [re.sub(r"\s+", " ", on[a:b]) for a, b in mdgen.protected_spans(on)]
    if sp_off != sp_on:
        diff = next(((x, y) for x, y in zip(sp_off, sp_on) if x != y), (None, None))
        known = None
        if diff[0] and re.match(r"^(\{%|\{\{|\{#|<!--)", diff[0]):
            known = "C09-ellipses-inside-template-tags"
        ctx.fail("E_PROTECTED: code/tag/HTML/URL span changed by the ellipses option", case, {"off": diff[0], "on": diff[1]}, known=known)
        return False
    # with smart quotes also on: the two options must not interfere (quotes are decided on the same text)
    osq = dict(o0, smartquotes=True)
    off_sq, on_sq = reformat_text(doc, ellipses=False, **osq), reformat_text(doc, ellipses=True, **osq)
    if squash(on_sq) != squash(off_sq):
        ctx.fail("E_DOC: with smart quotes on, ellipses on/off differ in more than '...'→'…' and whitespace", case, {"off": off_sq, "on": on_sq})
        return False
    # second pass, without wrapping (wrap-induced non-idempotence is C02's subject, not the ellipsis rule's)
    o1 = dict(o0, semantic=False)
    on1 = reformat_text(doc, ellipses=True, **o1)
    again = reformat_text(on1, ellipses=True, **o1)
    first_off = reformat_text(doc, ellipses=False, **o1)
    first = reformat_text(first_off, ellipses=False, **o1)
    on, off = on1, first_off
    if again != on and first == off:
        ctx.fail("E_AGAIN: formatting again with ellipses on changes the document (and it does not with ellipses off)", case,
                 {"once": on, "twice": again})
        return False
    return True


# ------------------------------------------------------------------------------------------
# Second document family: three-dot runs in and next to non-prose constructs, inside nested inline
# containers, and in source layouts that break lines inside those containers and inside tags.
#
# A paragraph is a list of tokens `(text, brk)`: `text` is never broken; `brk` says which line break the
# layout may put BEFORE the token: "any" (soft or hard), "soft", "none".

_BEFORE_DOTS = ["(so)", "done.", "fine,", "really?", "yes!", "note:", "input)", "first;"]
_DOT_WORDS = ["...and", "...then", "...but", "...", "....", "...or", "...so"]
_PROSE_DOTS = [["wait..."], ["a...b"], ["so", "...", "on"], ["hmm...."], ["end...)"], ['"yes"...', "or"], ["...and"], ["…already"],
               ["'no'..."], ["well...,", "then"], ["x", "...?"]]
_DOT_URLS = ["https://github.com/o/r/compare/v0.5.0...v0.6.0", "http://example.com/a...b?c=1", "https://x.org/path...more/page.html#frag"]
_DOT_CODE = ["`a...b`", "`wait... (x) ...and`", "``x...`y`...z``", "`...`"]
_DOT_HTML = ['<span title="a...b">', "</span>", '<a href="https://x.org/a...b">', "</a>", "<br/>"]
# tag content: no inline Markdown syntax (see the note on genuine findings in dots_documents)
_TAG_PLAIN = ["field", 'kind="string"', "id=notes", "TODO:", "retry", "items", "x=1", "the", "loop", "/field"]
_TAG_DOTS = [["a...b"], ['x="a...b"'], ["wait...", "more"], ["backoff...", "later"], ['join("...")'], ["(x)", "...and"],
             ['placeholder="Anything', "else...", "tell", 'us"'], ["so", "...", "on"], ["v1...v2"]]
# a source line must not start with these: '<!--' starts an HTML block (structure, not the ellipsis rule), the rest are block markers
_NO_LINE_START = re.compile(r"^(?:<!--|[-+*>=|#~`]|\d+[.)]|:-)")


def _tag_tokens(rng, multiline: bool) -> list[tuple[str, str]]:
    op, cl = rng.choice(TAG_DELIMS)
    inner: list[str] = []
    for _ in range(rng.randint(1, 5)):
        inner += rng.choice(_TAG_DOTS) if rng.random() < 0.5 else [rng.choice(_TAG_PLAIN)]
    if not any("..." in t for t in inner):
        inner += rng.choice(_TAG_DOTS)
    if not multiline:
        return [(" ".join([op] + inner + [cl]), "any")]
    return [(op, "any")] + [(t, "soft") for t in inner + [cl]]


def _dot_pieces(rng, n: int, depth: int, used: frozenset, cell: bool = False) -> list[tuple[str, str]]:
    """`n` pieces of inline content; `used` = kinds of enclosing inline containers (no nesting of the same kind,
    no link or URL inside link text)."""
    import mdgen
    out: list[tuple[str, str]] = []
    after_url = False
    for _ in range(n):
        r = rng.random()
        piece: list[tuple[str, str]]
        url = False
        if r < 0.30:
            piece = [(rng.choice(mdgen.WORDS), "any") for _ in range(rng.randint(1, 4))]
        elif r < 0.42:
            piece = [(t, "any") for t in rng.choice(_PROSE_DOTS)]
        elif r < 0.56:   # a three-dot word after a word that ends in a non-word, non-quote character: only a line/node start would convert it
            piece = [(rng.choice(_BEFORE_DOTS), "any"), (rng.choice(_DOT_WORDS), "any"), (rng.choice(mdgen.WORDS), "any")]
        elif r < 0.62:
            piece = [(rng.choice(_DOT_CODE), "any")]
        elif r < 0.70 and "link" not in used:
            u = rng.choice(_DOT_URLS)
            piece = [(rng.choice([f"<{u}>", u, u, "www.example.com/a...b"]), "any")]
            url = True
        elif r < 0.74:
            piece = [(rng.choice(_DOT_HTML), "any")]
        elif r < 0.77 and "link" not in used:
            piece = [(f"![alt text]({rng.choice(_DOT_URLS)})", "any")]
        elif r < 0.87:
            piece = _tag_tokens(rng, multiline=(not cell and rng.random() < 0.6))
        elif depth < 2:
            kinds = [k for k in ("em", "strong", "strike", "link") if k not in used]
            k = rng.choice(kinds)
            inner = ([(rng.choice(mdgen.WORDS), "any")] + _dot_pieces(rng, rng.randint(1, 5), depth + 1, used | {k}, cell)
                     + [(rng.choice(mdgen.WORDS), "any")])
            if k == "link":
                # no link titles here: a link whose text holds a hard break or a sentence end is wrapped word by word
                # (C06-sentence-split-inside-atom), also between destination and title, and the span locator does not follow
                # a destination+title across a line break / quote prefix (titles with '...' are in the reference definitions)
                op, cl = "[", f"]({rng.choice(_DOT_URLS)})"
            else:
                op = cl = {"em": "*", "strong": "**", "strike": "~~"}[k]
            inner[0] = (op + inner[0][0], "any")
            inner[-1] = (inner[-1][0] + cl, inner[-1][1])
            piece = inner
        else:
            piece = [(rng.choice(mdgen.WORDS), "any")]
        if after_url and piece[0][1] == "any":
            # a hard break directly after a bare URL joins the URL (known finding C01-hardbreak-after-bare-url)
            piece[0] = (piece[0][0], "soft")
        after_url = url
        out += piece
    return out


def _lay_dots(rng, toks: list[tuple[str, str]], p_break: float) -> list[str]:
    lines, cur = [], toks[0][0]
    for s, brk in toks[1:]:
        if brk != "none" and rng.random() < p_break and not _NO_LINE_START.match(s):
            if brk == "any" and rng.random() < 0.1:
                cur += rng.choice(["\\", "  "])
            lines.append(cur)
            cur = s
        else:
            cur += " " + s
    return lines + [cur]


def dots_document(rng, max_blocks: int = 3, max_pieces: int = 6) -> str:
    """One document of the family.

    Kept out of the family, because clean flowmark changes these (reported as genuine findings, not silenced):
      * a template tag / comment whose content holds inline Markdown syntax (`{% x="*a* wait...now" %}`,
        `{{ "<b>wait...now</b>" }}`): the tag is split over several text nodes and its '...' is converted;
      * a hard line break inside a tag (`{% a␠␠⏎b="x...y" %}`): same, the tag spans two text nodes.
    """
    import mdgen
    blocks: list[list[str]] = []
    for _ in range(rng.randint(1, max_blocks)):
        kind = rng.choice(["para", "para", "para", "ul", "ol", "quote", "quote-list", "atx", "setext", "table", "footnote"])
        if kind == "table":
            cols = rng.randint(1, 3)

            def row() -> str:
                return "| " + " | ".join(" ".join(t for t, _ in [(rng.choice(mdgen.WORDS), "")] + _dot_pieces(rng, rng.randint(1, 3), 1, frozenset(), cell=True))
                                         for _ in range(cols)) + " |"
            blocks.append([row(), "| " + " | ".join("---" for _ in range(cols)) + " |"] + [row() for _ in range(rng.randint(1, 2))])
            continue
        toks = [(rng.choice(mdgen.WORDS), "any")] + _dot_pieces(rng, rng.randint(2, max_pieces), 0, frozenset())
        if rng.random() < 0.5:
            toks.append((rng.choice(mdgen.END_WORDS[:8]), "any"))
        lines = _lay_dots(rng, toks, 0.0 if kind == "atx" else rng.choice([0.0, 0.15, 0.3, 0.5]))
        first, cont = {"para": ("", ""), "ul": ("- ", "  "), "ol": ("1. ", "   "), "quote": ("> ", "> "), "quote-list": ("> - ", ">   "),
                       "atx": ("## ", ""), "setext": ("", ""), "footnote": ("[^n1]: ", "    ")}[kind]
        lines = [(first if j == 0 else cont) + l for j, l in enumerate(lines)]
        if kind == "setext":
            lines.append(rng.choice(["====", "----"]))
        if kind == "footnote":
            lines = ["Text with a note[^n1] inside it.", ""] + lines
        blocks.append(lines)
    r = rng.random()
    if r < 0.15:
        blocks.append([f"[ref1]: {rng.choice(_DOT_URLS)}" + rng.choice(["", ' "A title...x"'])])
        blocks.append(["See [the text...here][ref1] and [ref1] for more..."])
    elif r < 0.3:
        blocks.append(["```text", "Compiling...done", "x ...and y", "```"])
    return "\n".join(mdgen.join_blocks(blocks)) + "\n"


_DOTS_AFTER_SPACE = re.compile(r"(?<=\S) (?=\.\.\.)")
_DOT_RUNS = re.compile(r"…|\.{3,}")


def dots_oracle(ctx: Ctx, n: int) -> None:
    """check_doc on the second family, plus the second-pass clause WITH wrapping, at widths aimed at the three-dot words:
    for a word starting with '...' at column c of the unwrapped output, width c breaks the line right before it."""
    import mdgen
    from flowmark import reformat_text
    rng = ctx.rng
    for i in range(n):
        doc = dots_document(rng, 1, 3) if i < n // 4 else dots_document(rng)   # small documents first (readable failing inputs)
        o = mdgen.rand_opts(rng, widths=(0, 20, 40, 88, rng.randint(15, 100)))
        o.pop("ellipses", None)
        o["smartquotes"] = False
        ctx.bump("dots-family:documents")
        if "\n" in doc.split("\n\n")[0].strip("\n"):
            ctx.bump("dots-family:multi-line first block")
        if not check_doc(ctx, "dots-doc", doc, o, sample=(i % 97 == 5)):
            continue
        ow = dict(o, semantic=False)
        off0 = reformat_text(doc, ellipses=False, **dict(ow, width=0))
        cols = sorted({m.start() for line in off0.split("\n") for m in _DOTS_AFTER_SPACE.finditer(line) if m.start() >= 8})
        widths = rng.sample(cols, min(len(cols), 3))
        runs = [dict(ow, width=w) for w in widths]
        if o["width"] > 0:
            runs.append(dict(o))   # the drawn width, with the drawn `semantic` (sentence breaks also move words to line starts)
        for oo in runs:
            once = reformat_text(doc, ellipses=True, **oo)
            twice = reformat_text(once, ellipses=True, **oo)
            ctx.count(["dots-doc-wrapped", doc, oo], nontrivial=bool(re.search(r"(?m)^[\s>]*(?:[-*+] |\d+\. )?\.\.\.", once)))
            ctx.bump("dots-family:second pass with wrapping")
            if twice == once:
                continue
            off1 = reformat_text(doc, ellipses=False, **oo)
            if reformat_text(off1, ellipses=False, **oo) != off1:
                ctx.bump("dots-family:second pass skipped (not a fixed point with ellipses off either)")
                continue
            if _DOT_RUNS.findall(once) == _DOT_RUNS.findall(twice):
                # the second pass moved or restructured text without touching any '...'/'…': wrapping's own instability
                # (e.g. a '<!--' comment wrapped to a line start becomes an HTML block), the subject of C02/C03, not of the ellipsis rule
                ctx.bump("dots-family:second pass differs with every '...'/'…' unchanged (left to C02)")
                continue
            ctx.fail("E_AGAIN: formatting the wrapped document again with ellipses on converts a '...' that the first pass left "
                     "(and the document is a fixed point with ellipses off)", {"doc": doc, "opts": oo}, {"once": once, "twice": twice})
            break
    ctx.rule("dots-doc: paragraphs/items/quotes/headings/cells/footnotes of words, '...' words after punctuation, code spans, "
             "URLs/autolinks/destinations/titles, inline HTML and (multi-line) tags with '...', nested in emphasis/strong/strike/links, "
             "source lines broken inside them; dots-doc-wrapped: second pass at widths that wrap right before a '...' word "
             "(non-trivial = a line of the output starts with '...')")


def replay_findings(ctx: Ctx) -> None:
    from flowmark import reformat_text
    for fid, e in ctx.kf.items():
        inp = e.get("input") or {}
        if "text" in inp:
            w = (inp.get("opts") or {}).get("width", 88)
            out = reformat_text(inp["text"], ellipses=True, semantic=False, cleanups=False, width=w)
            out2 = reformat_text(out, ellipses=True, semantic=False, cleanups=False, width=w)
            ctx.known_replay(fid, (out2 != out) if inp.get("kind") == "idem" else (inp["must_contain"] not in out))


def run(ctx: Ctx) -> None:
    driver_ok = lean_obligations(ctx)
    replay_findings(ctx)
    if driver_ok:
        ctx.guard("tie ellipses", tie_ellipses)
    doc_oracle(ctx, ctx.scale(400, 6000))
    dots_oracle(ctx, ctx.scale(200, 4000))
    ctx.assume("`\\w` of Python's re is a parameter (flags per character computed by re itself)")
    ctx.assume("rewrite_text_content / Marko inline parsing are covered by the document-level oracle")


def search(ctx: Ctx) -> None:
    from flowmark.typography.ellipses import ellipses
    for b in ctx.broken_inputs:
        t = b["case"].get("text")
        if t is None:
            continue
        out = ellipses(t)
        if squash(out) != squash(t):
            ctx.fail("E_SHAPE: ellipses changed something other than '...'→'…' and whitespace", {"text": t}, out)
        elif ellipses(out) != out:
            ctx.fail("E_IDEM: applying ellipses again changes the text", {"text": t}, {"once": out, "twice": ellipses(out)})
        elif TAG_RE.findall(out) != TAG_RE.findall(t):
            ctx.fail("E_TAGS: ellipses changed a template tag / HTML comment", {"text": t}, out)
    doc_oracle(ctx, 6000)
    dots_oracle(ctx, 4000)


def replay(ctx: Ctx, path: str) -> int:
    r = json.loads(open(path).read())
    print(json.dumps(r.get("input"), ensure_ascii=False))
    return 0
