"""
C09 — Ellipsis conversion touches only three-dot runs in prose.

Ring 1: FM/Props/C09.lean about the model `ellipses` (E_SHAPE, E_NO_DOTS, …).
Ring 2: equality of model and `ellipses()` on all short strings over a 10-symbol alphabet + sampled longer strings;
        idempotence of both on the same strings (exhaustive test, labelled as a test).
Ring 3: document level — ellipses on vs off: same text up to whitespace and …/..., non-prose spans identical,
        applying it again changes nothing.
"""
from __future__ import annotations

import itertools
import json
import re

from common import Ctx, dec, enc, run_driver
from leanbuild import lean_obligations

ALPHABET = ["a", ".", " ", "'", '"', ",", ")", "-", "\n", "…"]
EXTRA = ["“", "‘", "”", "’", "1", "_", "?", "!", ":", ";", "—", "(", "\t", "é", "x"]


def word_flags(t: str) -> str:
    return "".join("1" if re.match(r"\w", c) else "0" for c in t)


def squash(t: str) -> str:
    return re.sub(r"\s+", "", t).replace("…", "...")


def tie_ellipses(ctx: Ctx) -> None:
    from flowmark.typography.ellipses import ellipses
    rng = ctx.rng
    maxlen = ctx.scale(5, 7)
    texts = ["".join(t) for n in range(0, maxlen + 1) for t in itertools.product(ALPHABET, repeat=n)]
    if ctx.tier == "quick":  # one more length over the core alphabet
        texts += ["".join(t) for t in itertools.product(["a", ".", " ", "\n", "'", "…"], repeat=6)]
    n_exh = len(texts)
    frags = ["...", "....", " ... ", "wait...", "...and", "a...b", '"..."', "'...", "...)", "...,", "x ...", "…", "\n...", "...\n", "..", ".",
             " ", "word", "\n\n", "“...", "‘...", "...”", "...’", "1...", "_...", "...-", "...—", "(...)", "!...", "...?", "é...é"]
    for _ in range(ctx.scale(30000, 300000)):
        if rng.random() < 0.6:
            t = "".join(rng.choice(frags) for _ in range(rng.randint(1, 10)))
        else:
            t = "".join(rng.choice(ALPHABET + EXTRA) for _ in range(rng.randint(7, 40)))
        texts.append(t)
    outs = run_driver([f"ellipses\t{enc(t)}\t{word_flags(t)}\t1" for t in texts], workers=16)
    outs2 = run_driver([f"ellipses\t{enc(t)}\t{word_flags(t)}\t2" for t in texts], workers=16)
    bad = nonidem_model = 0
    for i, (t, o, o2) in enumerate(zip(texts, outs, outs2)):
        exp = ellipses(t)
        got = None if o == "bad-op" else dec(o)
        ctx.count(["ellipses", t], nontrivial=exp != t, sample=(i % 200003 == 11))
        if got != exp:
            bad += 1
            ctx.tie_broken("ellipses", {"text": t}, got, exp)
        if o2 != o:
            nonidem_model += 1
        e2 = ellipses(exp)
        if e2 != exp:
            ctx.fail("E_IDEM: applying ellipses again changes the text", {"text": t}, {"once": exp, "twice": e2})
        if squash(exp) != squash(t):
            ctx.fail("E_SHAPE: ellipses changed something other than '...'→'…' and whitespace", {"text": t}, exp)
    ctx.bump("ellipses:exhaustive", n_exh)
    ctx.bump("ellipses:sampled", len(texts) - n_exh)
    ctx.obligation(f"tie ellipses: model = ellipses() on all {n_exh} strings over a {len(ALPHABET)}-symbol alphabet ≤{maxlen} and "
                   f"{len(texts) - n_exh} sampled longer strings", "correspondence", bad == 0, f"{bad} disagreement(s)")
    ctx.obligation(f"E_IDEM on the model: ellipses∘ellipses = ellipses on the same {len(texts)} strings (exhaustive TEST over the "
                   f"bounded set, not a theorem)", "model-test", nonidem_model == 0, f"{nonidem_model} non-idempotent string(s)")
    ctx.rule("ellipses: exhaustive short strings over {a . space ' \" , ) - newline …}; fragments/random longer; "
             "non-trivial = output differs from input")


def doc_oracle(ctx: Ctx, n: int) -> None:
    import mdgen
    from flowmark import reformat_text
    rng = ctx.rng
    for i in range(n):
        doc = mdgen.gen_document(rng, ellipses=True, tags=(i % 3 == 0), quotes=(i % 2 == 0))
        o = mdgen.rand_opts(rng)
        o.pop("ellipses", None)
        o["smartquotes"] = False  # smart quotes have their own (known) non-idempotence; keep C09's oracle about ellipses
        try:
            off = reformat_text(doc, ellipses=False, **o)
            on = reformat_text(doc, ellipses=True, **o)
        except Exception as e:
            ctx.fail("format raised", {"doc": doc, "opts": o}, repr(e))
            continue
        ctx.count(["doc", doc, o], nontrivial=on != off, sample=(i % 977 == 3))
        case = {"doc": doc, "opts": o}
        # text comparison without wrapping (so container prefixes such as '>' sit at the same words)
        o0 = dict(o, width=0)
        off0, on0 = reformat_text(doc, ellipses=False, **o0), reformat_text(doc, ellipses=True, **o0)
        if squash(on0) != squash(off0) or on0.count("\n") != off0.count("\n"):
            ctx.fail("E_DOC: ellipses on/off differ in more than '...'→'…' and whitespace (width 0)", case, {"off": off0, "on": on0})
            continue
        sp_off = [re.sub(r"\s+", " ", off[a:b]) for a, b in mdgen.protected_spans(off)]
        sp_on = [re.sub(r"\s+", " ", on[a:b]) for a, b in mdgen.protected_spans(on)]
        if sp_off != sp_on:
            diff = next(((x, y) for x, y in zip(sp_off, sp_on) if x != y), (None, None))
            known = None
            if diff[0] and re.match(r"^(\{%|\{\{|\{#|<!--)", diff[0]):
                known = "C09-ellipses-inside-template-tags"
            ctx.fail("E_PROTECTED: code/tag/HTML/URL span changed by the ellipses option", case, {"off": diff[0], "on": diff[1]}, known=known)
            continue
        # with smart quotes also on: the two options must not interfere (quotes are decided on the same text)
        osq = dict(o0, smartquotes=True)
        off_sq, on_sq = reformat_text(doc, ellipses=False, **osq), reformat_text(doc, ellipses=True, **osq)
        if squash(on_sq) != squash(off_sq):
            ctx.fail("E_DOC: with smart quotes on, ellipses on/off differ in more than '...'→'…' and whitespace", case, {"off": off_sq, "on": on_sq})
            continue
        # second pass, without wrapping (wrap-induced non-idempotence is C02's subject, not the ellipsis rule's)
        o1 = dict(o0, semantic=False)
        on1 = reformat_text(doc, ellipses=True, **o1)
        again = reformat_text(on1, ellipses=True, **o1)
        first_off = reformat_text(doc, ellipses=False, **o1)
        first = reformat_text(first_off, ellipses=False, **o1)
        on, off = on1, first_off
        if again != on and first == off:
            ctx.fail("E_AGAIN: formatting again with ellipses on changes the document (and it does not with ellipses off)", case,
                     {"once": on, "twice": again})


def replay_findings(ctx: Ctx) -> None:
    from flowmark import reformat_text
    for fid, e in ctx.kf.items():
        inp = e.get("input") or {}
        if "text" in inp:
            w = (inp.get("opts") or {}).get("width", 88)
            out = reformat_text(inp["text"], ellipses=True, semantic=False, cleanups=False, width=w)
            out2 = reformat_text(out, ellipses=True, semantic=False, cleanups=False, width=w)
            ctx.known_replay(fid, (out2 != out) if inp.get("kind") == "idem" else (inp["must_contain"] not in out))


def run(ctx: Ctx) -> None:
    driver_ok = lean_obligations(ctx)
    replay_findings(ctx)
    if driver_ok:
        ctx.guard("tie ellipses", tie_ellipses)
    doc_oracle(ctx, ctx.scale(400, 6000))
    ctx.assume("`\\w` of Python's re is a parameter (flags per character computed by re itself)")
    ctx.assume("rewrite_text_content / Marko inline parsing are covered by the document-level oracle")


def search(ctx: Ctx) -> None:
    from flowmark.typography.ellipses import ellipses
    for b in ctx.broken_inputs:
        t = b["case"].get("text")
        if t is None:
            continue
        out = ellipses(t)
        if squash(out) != squash(t):
            ctx.fail("E_SHAPE: ellipses changed something other than '...'→'…' and whitespace", {"text": t}, out)
        elif ellipses(out) != out:
            ctx.fail("E_IDEM: applying ellipses again changes the text", {"text": t}, {"once": out, "twice": ellipses(out)})
    doc_oracle(ctx, 6000)


def replay(ctx: Ctx, path: str) -> int:
    r = json.loads(open(path).read())
    print(json.dumps(r.get("input"), ensure_ascii=False))
    return 0
