"""
C02 — Formatting is idempotent.

Ring 1: FM/Props/C02.lean — WRAP_FIX (greedy fill is a fixed point on its own output, escapes included), ESCAPE_IDEM,
        FM_FIX, TRANSFORM_IDEM_false witnesses.
Ring 2: the ties of the layers involved (fullwrap, render, fill) — shared with C01/C05/C06.
Ring 3: fmt(fmt(x)) == fmt(x), byte for byte, Markdown and plaintext, over the generator × the option product,
        with counterfactual attribution to KNOWN_FINDINGS.
"""
from __future__ import annotations

import json
import re

import mdgen
import rendertie
from common import Ctx
from leanbuild import lean_obligations

SPECIAL = [
    # reference links whose text is laid out over lines / with runs of spaces (shortcut, collapsed and full forms)
    "See the [foo\nbar] page and [baz   qux][] and [the\ntext][foo bar].\n\n[foo bar]: http://x.y/z\n[baz qux]: http://x.y/q 'T'\n",
    "- item with [a\n  b] ref\n\n[a b]: <http://x.y/a b>\n",
    # a rule as the first thing of a '*' item whose marker shares its line with other container markers
    "> * ---\n> * b\n", "- * ___\n  * x\n", "1. * ***\n   * y\n", "* * ---\n", "> - * ___\n", "* + ---\n* - ___\n", "10. * ---\n",

    "```\ncode\n````\n\n{% t %}\n- a\n- b\n{% /t %}\n", "~~~\nx\n~~~~~\n\n<!-- t -->\n| a | b |\n|---|---|\n<!-- /t -->\n", "> ```\n> q\n> `````\n\n{% t %}\n1. a\n{% /t %}\n",
    "> ## H\n\n> q2\n", "> - a\n>\n> # h\n\n> next\n", "- a\n\n  # h\n\n- b\n",
    "x 'a \"b' c\" y\n", "He said \"yes\" \"no\" and 'a' 'b'.\n", "# ****x****\n", "**Title**\n===\n", "Title...\n=====\n", "---\nfoo: bar\n", "+\n", "- # h\n- b\n", "1. a\n1) b\n",
    "aaaa bbbb ---\n", "aaaa bbbb cccc dddd eeee ffff gggg hhhh * ...and that ends here\n", "- item {% t %} text {% /t %} more words here to wrap around the line\n",
    "> quote\n> - list\n>\n> more\n", "para one  \nhard break\n\npara\\\ntwo\n", "| a | b |\n|--|--|\n| `x\\|y` | z |\n", "[a]: http://x 'T'\n\n[a]\n",
    "text[^1]\n\n[^1]: A note that is long enough to wrap around when the width is as narrow as twenty.\n\n    Second paragraph of note.\n",
    "```\ncode\n\n```\n\n    indented\n", "<div>\nblock html\n</div>\n\nafter\n", "a  \n", "Setext\n---\n", "* * *\n", "- [ ] task\n  continued\n- [x] done\n",
]


def option_sets(ctx: Ctx, k: int):
    from flowmark.formats.flowmark_markdown import ListSpacing
    allo = [dict(width=w, semantic=s, cleanups=c, smartquotes=q, ellipses=e, list_spacing=ls)
            for w in (0, 12, 30, 88) for s in (False, True) for c in (False, True) for q in (False, True) for e in (False, True)
            for ls in ListSpacing]
    return allo if k <= 0 else ctx.rng.sample(allo, k)


def fmt(doc, o):
    from flowmark import reformat_text
    return reformat_text(doc, **o)


def neutralise(doc: str, o: dict) -> str:
    from props import c01
    d = c01.neutralise(doc)
    if o.get("smartquotes") and "'" in d and '"' in d:
        d = d.replace("'", "")                                       # overlapping single/double pairs
    if o.get("cleanups"):
        d = re.sub(r"^([ >]*#{1,6} +)[*_]{4,}", r"\1**", d, flags=re.M)  # nested strong in a heading
        d = re.sub(r"^([ >]*)[*_]{4,}(?=.*\n[ >]*(=+|-+) *$)", r"\1**", d, flags=re.M)
    return d


def neutralise_hard(doc: str, o: dict) -> str:
    """hazard stream only: every hazard word outside the line heads goes, code or not"""
    from props import c01
    out = []
    for line in neutralise(doc, o).split("\n"):
        m = re.match(r"^([ >]*(?:(?:[-*+]|\d+[.)])[ ]+(?:\[[ xX]\][ ]+)?)*(?:#{1,6}[ ]+)?)(.*)$", line)
        out.append(m.group(1) + c01._haz_sub(m.group(2), False))
    d = "\n".join(out)
    d = re.sub(r"\.\.\.+", "w", d)
    return re.sub(r"(?<!\S)\d+\.(?!\S)", "w", d)


def attribute(doc: str, o: dict, hard: bool = False) -> str | None:
    if hard and not _idem(doc, o) and _idem(neutralise_hard(doc, o), o):
        from props import c01
        return next((fid for fid, rx in c01.TRIGGERS if rx.search(doc)), "C01-unescaped-line-head-hazards")
    return attribute_soft(doc, o)


def _unquote(t: str) -> str:
    return t.translate({0x2018: "'", 0x2019: "'", 0x201C: '"', 0x201D: '"'})


def attribute_soft(doc: str, o: dict) -> str | None:
    """single-cause attributions first (each with its own shape or counterfactual), the generic trigger removal last"""
    from props import c01
    if o.get("semantic") and o["width"] > 0 and _idem(doc, dict(o, semantic=False)) and short_fill_shape(fmt(doc, o), o["width"]):
        return "C11-unmerged-first-line-filled-short"
    if re.search(r"\{%|\{\{|\{#|<!--", doc) and re.search(r"(?<!\S)\d+\.(?!\S)", doc) and _idem(re.sub(r"(?<!\S)\d+\.(?!\S)", "w", doc), o):
        return "C02-escaped-marker-line-with-tag"
    if o.get("smartquotes") and "'" in doc and '"' in doc:
        # nested / overlapping pairs of the two kinds: run 2 differs from run 1 in quote characters only, and not at all once
        # one kind is taken out of the input
        try:
            a = fmt(doc, o)
            b2 = fmt(a, o)
            b2 = undo_quote_breaks(a, b2)
            if _unquote(a) == _unquote(b2) and (_idem_mod_breaks(doc.replace("'", ""), o) or _idem_mod_breaks(doc.replace('"', ""), o)):
                return "C02-smartquotes-overlapping-pairs"
        except Exception:
            pass
    if o.get("cleanups") and re.search(r"^[ >]*(#{1,6} +)?[*_]{4,}", doc, re.M) and _idem(neutralise(doc, dict(o, smartquotes=False)), o):
        return "C02-unbold-nested-strong"
    nd = neutralise(doc, o)
    if re.search(r"\{%|\{\{|\{#|<!--", doc):
        nd = re.sub(r"(?<!\S)\d+\.(?!\S)", "w", nd)
    if nd == doc or not _idem(nd, o):
        return None
    if c01.neutralise(doc) != doc:
        for fid, rx in c01.TRIGGERS:
            if rx.search(doc):
                return fid
        if o.get("ellipses"):
            return "C09-ellipses-after-introduced-escape"
        return "C01-unescaped-line-head-hazards"
    return None


def _idem_mod_breaks(doc: str, o: dict) -> bool:
    try:
        a = fmt(doc, o)
        b = fmt(a, o)
        return undo_quote_breaks(a, b) == a
    except Exception:
        return False


def _idem(doc: str, o: dict) -> bool:
    try:
        a = fmt(doc, o)
        return fmt(a, o) == a
    except Exception:
        return False


def short_fill_shape(a: str, W: int) -> bool:
    """run 1 holds a line that is not filled although the next word fits, right after a line shorter than the
    sentence-merge threshold (the shape of C11-unmerged-first-line-filled-short)"""
    la = a.split("\n")
    for i in range(1, len(la) - 1):
        prev, cur, nxt = la[i - 1].strip(" >"), la[i], la[i + 1].strip(" >")
        if not prev or not cur.strip() or not nxt:
            continue
        first = nxt.split()[0] if nxt.split() else ""
        if len(prev) < 20 and first and len(cur) + 1 + len(first) <= W:
            return True
    return False


def quote_break_only(a: str, b: str) -> bool:
    la, lb = a.split("\n"), b.split("\n")
    if len(la) != len(lb):
        return False
    for x, y in zip(la, lb):
        if x != y and not (re.fullmatch(r"[ >]*>", x) and y.rstrip(" ") == x):
            return False
    return True


def undo_quote_breaks(a: str, b: str) -> str:
    """b with the lines that only re-spell a bare quote prefix of a ('>' -> '> ') put back as in a"""
    la, lb = a.split("\n"), b.split("\n")
    if len(la) != len(lb):
        return b
    return "\n".join(x if (x != y and re.fullmatch(r"[ >]*>", x) and y.rstrip(" ") == x) else y for x, y in zip(la, lb))


def oracle(ctx: Ctx, docs, label: str, k: int) -> None:
    for i, doc in enumerate(docs):
        for o in option_sets(ctx, k):
            try:
                a = fmt(doc, o)
                b = fmt(a, o)
            except Exception as e:
                ctx.fail("format raised", {"doc": doc, "opts": {x: str(y) for x, y in o.items()}}, repr(e))
                continue
            ctx.count(["idem", doc, str(o)], nontrivial=a != doc, sample=(i % 131 == 7))
            ctx.bump(label)
            if a != b and quote_break_only(a, b):
                ctx.fail("IDEMPOTENT: item break in a quote re-spelled", {"doc": doc, "opts": {x: str(y) for x, y in o.items()}}, None,
                         known="C02-quote-item-break-spelling")
            elif a != b and _unquote(undo_quote_breaks(a, b)) == _unquote(a) and undo_quote_breaks(a, b) != a and \
                    attribute(doc, o, hard=(label == "generated-hazards")) == "C02-smartquotes-overlapping-pairs":
                # both known effects in one document: the quote-prefix spelling and a nested quote pair
                ctx.fail("IDEMPOTENT: item break in a quote re-spelled and a nested quote pair converted", {"doc": doc, "opts": {x: str(y) for x, y in o.items()}}, None,
                         known="C02-smartquotes-overlapping-pairs")
            elif a != b:
                import difflib
                diff = [l for l in difflib.unified_diff(a.split("\n"), b.split("\n"), lineterm="", n=0)][2:8]
                ctx.fail("IDEMPOTENT: formatting the formatted output again changes it", {"doc": doc, "opts": {x: str(y) for x, y in o.items()}},
                         {"diff": diff}, known=attribute(doc, o, hard=(label == "generated-hazards")))


def plaintext_oracle(ctx: Ctx, n: int) -> None:
    from flowmark import reformat_text
    import gen
    rng = ctx.rng
    for _ in range(n):
        paras = [gen.layout(rng, gen.rand_words(rng, rng.randint(0, 30), 0.2)) for _ in range(rng.randint(1, 4))]
        # separators drawn per gap, including whitespace-only lines between blank lines (an "empty paragraph") and at the ends
        seps = ["\n\n", "\n\n\n", "\n \n", "\n\n \n\n", "\n\n\t\n\n", "\n\n  \n \n\n", "\n \n\n"]
        text = paras[0] + "".join(rng.choice(seps) + p for p in paras[1:])
        if rng.random() < 0.2:
            text = rng.choice(["\n", " \n\n", "\n\n \n\n"]) + text
        if rng.random() < 0.2:
            text = text + rng.choice(["\n", "\n\n \n", "\n\n \n\n"])
        W = rng.choice([0, -1, 10, 30, 88])
        a = reformat_text(text, width=W, plaintext=True)
        b = reformat_text(a, width=W, plaintext=True)
        ctx.count(["plain", text, W], nontrivial=a != text)
        ctx.bump("plaintext")
        if a != b:
            ctx.fail("IDEMPOTENT (plaintext): formatting again changes the text", {"text": text, "width": W}, {"once": a, "twice": b})


def replay_findings(ctx: Ctx) -> None:
    from flowmark.formats.flowmark_markdown import ListSpacing
    for fid, e in ctx.kf.items():
        c = e.get("input") or {}
        if "doc" in c:
            o = dict(width=88, semantic=False, cleanups=False, smartquotes=False, ellipses=False, list_spacing=ListSpacing.preserve)
            o.update({k: (ListSpacing(v) if k == "list_spacing" else v) for k, v in c.get("opts", {}).items()})
            a = fmt(c["doc"], o)
            ctx.known_replay(fid, fmt(a, o) != a)


def run(ctx: Ctx) -> None:
    driver_ok = lean_obligations(ctx)
    replay_findings(ctx)
    if driver_ok:
        from props import c06
        ctx.guard("tie fullwrap", c06.tie_fullwrap, ctx.scale(5000, 60000))
        ctx.guard("tie layers", c06.tie_layers)
        ctx.guard("tie render", rendertie.tie_render, ctx.scale(150, 2000))
    oracle(ctx, SPECIAL + rendertie.SPECIAL_DOCS, "special", 6)
    rng = ctx.rng
    docs = [mdgen.gen_document(rng, quotes=(i % 2 == 0), ellipses=(i % 3 == 0), tags=(i % 5 == 0), html=(i % 4 == 0), bold_headings=True, frontmatter=True)
            for i in range(ctx.scale(350, 6000))]
    oracle(ctx, docs, "generated-clean", 3)
    docs = [mdgen.gen_document(rng, quotes=True, ellipses=True, hazards=True, clean=False, bold_headings=True) for i in range(ctx.scale(25, 1500))]
    oracle(ctx, docs, "generated-hazards", 2)
    plaintext_oracle(ctx, ctx.scale(800, 20000))
    ctx.rule("special documents × 6 sampled option sets; generated documents (clean and hazard streams) × sampled points of the option product "
             "{W∈0,12,30,88}×{fill,semantic}×2^3 typography/cleanups×3 list-spacing; plaintext paragraphs × widths")
    ctx.assume("Marko's parse of the formatted output is what pass 2 sees (P-par); document-level idempotence is decided end-to-end, "
               "only its wrapper/shell layers by theorem")


def search(ctx: Ctx) -> None:
    for b in ctx.broken_inputs:
        c = b["case"]
        doc = c.get("doc") or c.get("text")
        if doc:
            oracle(ctx, [doc if doc.endswith("\n") else doc + "\n"], "from-broken-tie", 12)
    rng = ctx.rng
    docs = [mdgen.gen_document(rng, quotes=True, ellipses=True, bold_headings=True) for _ in range(2500)]
    oracle(ctx, docs, "search", 3)


def replay(ctx: Ctx, path: str) -> int:
    r = json.loads(open(path).read())
    print(json.dumps(r.get("input"), ensure_ascii=False)[:1500])
    print(str(r.get("detail"))[:800])
    return 0
