"""
C13 — Each formatting call is isolated from other calls.

Ring 1: FM/Props/C13.lean — ISO (threads of a process whose shared state is constants and pure caches end, under every
        schedule and history, where they end alone), INV_ALWAYS, INVENTORY_CLEAN and CALL_PATH_FRESH over the table that
        the translator regenerates from /repo/src/flowmark on every run.
Ring 2: the translator itself (harness/translate_state.py): a changed classification of any shared cell breaks
        INVENTORY_CLEAN; the search below then looks for a concrete history / schedule.
Ring 3: histories (a call after k random earlier calls = the same call alone, in a fresh process too) and schedules (several
        threads formatting different documents with forced switching at function calls = each alone).
"""
from __future__ import annotations

import json
import random
import re
import subprocess
import sys
import threading

import mdgen
from common import Ctx
from leanbuild import lean_obligations

DOCS = [
    "[a]: http://one.example 'T'\n\nsee [a] and [b]\n\n[b]: http://two.example\n",
    "[a]: http://OTHER.example\n\nsee [a]\n",
    "text[^1] and[^n]\n\n[^1]: first note\n[^n]: second note\n",
    "text[^1]\n\n[^1]: a different first note\n",
    "> - deep\n>   1. prefix\n>      > quote in list\n",
    "- loose\n\n- list\n\n  with blocks\n",
    "- tight\n- list\n",
    "# Heading\n\n**bold** _it_ `code`\n",
    "1. one\n2. two\n\n   ```\n   code\n   ```\n",
    "{% tag %}\n- a\n- b\n{% /tag %}\n",
    "A sentence here. Another one follows! And \"quotes\" with... dots.\n",
    "| a | b |\n|---|---|\n| 1 | 2 |\n",
    "---\ntitle: x\n---\nbody text\n",
    "plain " * 40 + "\n",
    "```python\nprint(1)\n```\n\ntext\n\n~~~~text\nplain\n~~~~\n",
    "~~~sh\n$ ls\n~~~\n\nafter\n\n````md\n```\ninner\n```\n````\n",
    "",
]


def opt_pool(rng):
    from flowmark.formats.flowmark_markdown import ListSpacing
    out = []
    for _ in range(10):
        out.append(dict(width=rng.choice([0, 12, 30, 88]), semantic=rng.random() < 0.5, cleanups=rng.random() < 0.5,
                        smartquotes=rng.random() < 0.5, ellipses=rng.random() < 0.5, list_spacing=rng.choice(list(ListSpacing)),
                        plaintext=rng.random() < 0.15))
    return out


def call(doc, o):
    from flowmark import reformat_text
    return reformat_text(doc, **o)


def job_pool(ctx: Ctx, n_docs: int):
    rng = ctx.rng
    docs = list(DOCS) + [mdgen.gen_document(rng, quotes=True, ellipses=True, tags=(i % 3 == 0), html=(i % 4 == 0), frontmatter=True, bold_headings=True)
                         for i in range(n_docs)]
    opts = opt_pool(rng)
    jobs = [(d, rng.choice(opts)) for d in docs for _ in range(2)]
    return jobs


def solo_results(jobs):
    """each job alone — in THIS process, but the first thing it does is compared with a fresh interpreter for a sample"""
    return [call(d, o) for d, o in jobs]


def fresh_process(jobs_idx, jobs) -> list[str]:
    """results of the given jobs, each computed in its own fresh interpreter (no earlier call at all)"""
    code = ("import sys, json\nfrom flowmark import reformat_text\nfrom flowmark.formats.flowmark_markdown import ListSpacing\n"
            "d, o = json.loads(sys.stdin.read())\no['list_spacing'] = ListSpacing(o['list_spacing'])\nsys.stdout.write(reformat_text(d, **o))\n")
    out = []
    for i in jobs_idx:
        d, o = jobs[i]
        o2 = dict(o, list_spacing=o["list_spacing"].value)
        r = subprocess.run([sys.executable, "-c", code], input=json.dumps([d, o2]), capture_output=True, text=True)
        out.append(r.stdout if r.returncode == 0 else f"<rc={r.returncode}> {r.stderr[-200:]}")
    return out


def ostr(o):
    return {k: str(v) for k, v in o.items()}


def histories(ctx: Ctx, jobs, solo, n: int) -> None:
    rng = ctx.rng
    for h in range(n):
        k = rng.randint(1, 6)
        prefix = [rng.randrange(len(jobs)) for _ in range(k)]
        target = rng.randrange(len(jobs))
        for i in prefix:
            call(*jobs[i])
        got = call(*jobs[target])
        ctx.count(["history", prefix, target], nontrivial=True, sample=(h % 97 == 3))
        ctx.bump("histories")
        if got != solo[target]:
            ctx.fail("HISTORY: the result of a call depends on the calls made before it in the same process",
                     {"earlier": [{"doc": jobs[i][0], "opts": ostr(jobs[i][1])} for i in prefix], "doc": jobs[target][0], "opts": ostr(jobs[target][1])},
                     {"alone": solo[target][:600], "after": got[:600]})
            return
    # the in-process "alone" results themselves against fresh interpreters
    idx = rng.sample(range(len(jobs)), min(len(jobs), ctx.scale(10, 120)))
    fresh = fresh_process(idx, jobs)
    for i, f in zip(idx, fresh):
        ctx.count(["fresh", i], nontrivial=True)
        ctx.bump("fresh-interpreter")
        if f != solo[i]:
            ctx.fail("HISTORY: the result in a fresh interpreter differs from the result in the harness process (state left by imports or earlier calls)",
                     {"doc": jobs[i][0], "opts": ostr(jobs[i][1])}, {"fresh": f[:600], "in-process": solo[i][:600]})
            return


class Yielder:
    """forces a thread switch at a seeded random subset of Python function calls inside flowmark / marko"""
    def __init__(self, seed: int, rate: float):
        self.rate = rate
        self.local = threading.local()
        self.seed = seed

    def __call__(self, frame, event, arg):
        if event == "call":
            fn = frame.f_code.co_filename
            if "flowmark" in fn or "marko" in fn:
                r = getattr(self.local, "rng", None)
                if r is None:
                    r = self.local.rng = random.Random((self.seed, threading.get_ident() % 1000).__hash__())
                if r.random() < self.rate:
                    import time
                    time.sleep(0)        # releases the GIL: another thread runs
        return None


def schedules(ctx: Ctx, jobs, solo, rounds: int, threads: int) -> None:
    rng = ctx.rng
    old = sys.getswitchinterval()
    for r in range(rounds):
        pool = range(len(jobs))
        if r % 3 == 1:
            # rounds in which every thread parses fenced code, tables or footnotes at the same time (state handed from one
            # parser callback to the next is the narrowest window)
            special = [i for i in pool if re.search(r"```|~~~|^\|.*\|$|\[\^", jobs[i][0], re.M)]
            pool = special or pool
        picks = [[rng.choice(pool) for _ in range(rng.randint(2, 5))] for _ in range(threads)]
        results: list[list] = [[] for _ in range(threads)]
        errors: list = []
        barrier = threading.Barrier(threads)

        def work(t):
            try:
                barrier.wait()
                for i in picks[t]:
                    results[t].append(call(*jobs[i]))
            except Exception as e:            # noqa: BLE001
                errors.append(repr(e))
        sys.setswitchinterval(1e-6)
        threading.settrace(Yielder(rng.randrange(1 << 30), (0.02, 0.3, 0.1)[r % 3]))
        ths = [threading.Thread(target=work, args=(t,)) for t in range(threads)]
        try:
            for th in ths:
                th.start()
            for th in ths:
                th.join()
        finally:
            threading.settrace(None)
            sys.setswitchinterval(old)
        ctx.count(["schedule", picks], nontrivial=True, sample=(r % 37 == 1))
        ctx.bump("schedules")
        if errors:
            ctx.fail("THREADS: a call raised when run concurrently", {"picks": picks}, errors[:3])
            return
        for t in range(threads):
            for i, got in zip(picks[t], results[t]):
                if got != solo[i]:
                    ctx.fail("THREADS: a call run concurrently with others returns something else than alone",
                             {"doc": jobs[i][0], "opts": ostr(jobs[i][1]),
                              "concurrent_with": [{"doc": jobs[j][0][:300], "opts": ostr(jobs[j][1])} for tt in range(threads) if tt != t for j in picks[tt]][:6]},
                             {"alone": solo[i][:600], "concurrent": got[:600]})
                    return


def api_histories(ctx: Ctx, n: int) -> None:
    """the other entry points share the same call path: fill_markdown with the module-level default wrappers, fill_text"""
    from flowmark import fill_markdown, fill_text
    from flowmark.formats.flowmark_markdown import flowmark_markdown
    rng = ctx.rng
    docs = DOCS[:12]
    alone = {d: (fill_markdown(d), flowmark_markdown().convert(d) if hasattr(flowmark_markdown(), "convert") else None, fill_text(d)) for d in docs}
    for _ in range(n):
        seq = [rng.choice(docs) for _ in range(rng.randint(2, 6))]
        for d in seq[:-1]:
            fill_markdown(d, semantic=rng.random() < 0.5)
            fill_text(d)
        d = seq[-1]
        got = (fill_markdown(d), alone[d][1], fill_text(d))
        ctx.count(["api-history", seq], nontrivial=True)
        ctx.bump("api-histories")
        if got != alone[d]:
            ctx.fail("HISTORY (fill_markdown / fill_text defaults): result depends on earlier calls", {"sequence": seq}, {"alone": str(alone[d])[:500], "after": str(got)[:500]})
            return
    # the same text wrapped with different length functions, in both orders (a memo keyed too coarsely shows here)
    from flowmark.linewrapping.line_wrappers import line_wrap_to_width, line_wrap_by_sentence
    from flowmark.linewrapping.text_wrapping import wrap_paragraph_lines

    def wide(s: str) -> int:
        return sum(2 if ord(c) > 0x2E80 else 1 for c in s)
    texts = ["漢字 かな 文字 " * 6 + "latin words here", "word " * 30, "ａｂｃ ｄｅｆ " * 8]
    for t in texts:
        for W in (20, 40):
            ref_len = wrap_paragraph_lines(t, W)
            ref_wide = wrap_paragraph_lines(t, W, len_fn=wide)
            for order in (("len", "wide", "len"), ("wide", "len", "wide")):
                got = {}
                for which in order:
                    got[which] = wrap_paragraph_lines(t, W) if which == "len" else wrap_paragraph_lines(t, W, len_fn=wide)
                    md = fill_markdown(t + "\n", line_wrapper=line_wrap_to_width(width=W, len_fn=(len if which == "len" else wide), is_markdown=True))
                    got["md-" + which] = md
                    got["ft-" + which] = fill_text(t, width=W, len_fn=(len if which == "len" else wide))
                ctx.count(["len_fn", t, W, order], nontrivial=True)
                ctx.bump("len-fn-histories")
                if got["len"] != ref_len or got["wide"] != ref_wide:
                    ctx.fail("HISTORY (length function): wrapping a text depends on an earlier call with another length function",
                             {"text": t, "width": W, "order": order}, {"alone": [ref_len, ref_wide], "after": [got["len"], got["wide"]]})
                    return
    # the same in two fresh interpreters, one per order: what each call returns must not depend on which came first
    code = ("import sys, json\nfrom flowmark.linewrapping.text_wrapping import wrap_paragraph_lines\nfrom flowmark import fill_text\n"
            "def wide(s):\n    return sum(2 if ord(c) > 0x2E80 else 1 for c in s)\n"
            "order, texts = json.loads(sys.stdin.read())\nout = {}\n"
            "for which in order:\n"
            "    for t in texts:\n"
            "        for W in (20, 40):\n"
            "            fn = len if which == 'len' else wide\n"
            "            out[f'{which}|{W}|{t}'] = [wrap_paragraph_lines(t, W, len_fn=fn), fill_text(t, width=W, len_fn=fn)]\n"
            "print(json.dumps(out))\n")
    res = []
    for order in (["len", "wide"], ["wide", "len"]):
        r = subprocess.run([sys.executable, "-c", code], input=json.dumps([order, texts]), capture_output=True, text=True)
        res.append(json.loads(r.stdout) if r.returncode == 0 else {"error": r.stderr[-300:]})
    ctx.count(["len_fn-fresh"], nontrivial=True)
    ctx.bump("len-fn-fresh-interpreters")
    if res[0] != res[1]:
        k = next((k for k in res[0] if res[0].get(k) != res[1].get(k)), "error")
        ctx.fail("HISTORY (length function): what a wrapping call returns depends on whether a call with another length function came first",
                 {"call": k, "orders": [["len", "wide"], ["wide", "len"]]}, {"len-first": res[0].get(k), "wide-first": res[1].get(k)})
        return
    md_ref = {}
    for t in texts:
        for which, fn in (("len", len), ("wide", wide)):
            a = fill_markdown(t + "\n", line_wrapper=line_wrap_to_width(width=24, len_fn=fn, is_markdown=True))
            b = fill_markdown(t + "\n", line_wrapper=line_wrap_by_sentence(width=24, len_fn=fn, is_markdown=True))
            key = (t, which)
            if key in md_ref and md_ref[key] != (a, b):
                ctx.fail("HISTORY (length function): fill_markdown with the same wrapper arguments gives two results in one process", {"text": t, "len_fn": which}, None)
                return
            md_ref[key] = (a, b)
        for which, fn in (("wide", wide), ("len", len)):
            a = fill_markdown(t + "\n", line_wrapper=line_wrap_to_width(width=24, len_fn=fn, is_markdown=True))
            b = fill_markdown(t + "\n", line_wrapper=line_wrap_by_sentence(width=24, len_fn=fn, is_markdown=True))
            if md_ref[(t, which)] != (a, b):
                ctx.fail("HISTORY (length function): fill_markdown with a custom length function depends on earlier calls with another one",
                         {"text": t, "len_fn": which}, {"first": md_ref[(t, which)][0], "later": a})
                return
    # one Markdown object used twice must not carry anything over either (link definitions, footnotes)
    for a, b in [(DOCS[0], DOCS[1]), (DOCS[2], DOCS[3]), (DOCS[4], DOCS[6])]:
        m = flowmark_markdown()
        m.parse(a)
        m.render(m.parse(a))
        second = m.render(m.parse(b))
        fresh = flowmark_markdown()
        ref = fresh.render(fresh.parse(b))
        ctx.count(["reuse", a, b], nontrivial=True)
        ctx.bump("object-reuse")
        if second != ref:
            ctx.fail("REUSE: a Markdown object used for a second document carries state over from the first", {"first": a, "second": b}, {"fresh": ref, "reused": second})
            return


def run(ctx: Ctx) -> None:
    lean_obligations(ctx, need_driver=False)
    jobs = job_pool(ctx, ctx.scale(40, 400))
    solo = solo_results(jobs)
    histories(ctx, jobs, solo, ctx.scale(250, 5000))
    schedules(ctx, jobs, solo, ctx.scale(40, 1000), threads=4)
    api_histories(ctx, ctx.scale(60, 1000))
    ctx.rule("documents with colliding link-definition and footnote labels, deep prefixes, loose/tight lists, tags, frontmatter + generated "
             "documents × 10 option sets; histories of 1–6 earlier calls; 4 threads × 2–5 calls each with a 1 µs switch interval and "
             "seeded yields at 2% of the function calls inside flowmark/marko; fresh-interpreter results for a sample")
    ctx.assume("the reading of the inventory's kinds — a module-level constant is never written, functools.cache returns what the "
               "function would compute, objects built inside a call are not reachable from another call — is Python's semantics and "
               "Marko's object confinement (monitored by the history/thread oracle, not proved)")


def search(ctx: Ctx) -> None:
    jobs = job_pool(ctx, 300)
    solo = solo_results(jobs)
    histories(ctx, jobs, solo, 4000)
    schedules(ctx, jobs, solo, 400, threads=6)
    api_histories(ctx, 600)


def replay(ctx: Ctx, path: str) -> int:
    r = json.loads(open(path).read())
    print(json.dumps(r.get("input"), ensure_ascii=False)[:3000])
    print(str(r.get("detail"))[:1200])
    return 0
