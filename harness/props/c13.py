"""
C13 — Each formatting call is isolated from other calls.

Ring 1: FM/Props/C13.lean — ISO (threads of a process whose shared state is constants and pure caches end, under every
        schedule and history, where they end alone), INV_ALWAYS, INVENTORY_CLEAN and CALL_PATH_FRESH over the table that
        the translator regenerates from /repo/src/flowmark on every run.
Ring 2: the translator itself (harness/translate_state.py): a changed classification of any shared cell breaks
        INVENTORY_CLEAN; the search below then looks for a concrete history / schedule.
Ring 3: histories (a call after k random earlier calls = the same call alone, in a fresh process too) and schedules (several
        threads formatting different documents with forced switching at function calls = each alone); shared values (one
        flowmark_markdown() object formatting several documents in turn = each on a new object; several threads whose calls were
        given one and the same line wrapper value — a module-level default or a wrapper built once — = each with its own).
"""
from __future__ import annotations

import json
import random
import re
import subprocess
import sys
import threading

import mdgen
from common import Ctx
from leanbuild import lean_obligations

DOCS = [
    "[a]: http://one.example 'T'\n\nsee [a] and [b]\n\n[b]: http://two.example\n",
    "[a]: http://OTHER.example\n\nsee [a]\n",
    "text[^1] and[^n]\n\n[^1]: first note\n[^n]: second note\n",
    "text[^1]\n\n[^1]: a different first note\n",
    "> - deep\n>   1. prefix\n>      > quote in list\n",
    "- loose\n\n- list\n\n  with blocks\n",
    "- tight\n- list\n",
    "# Heading\n\n**bold** _it_ `code`\n",
    "1. one\n2. two\n\n   ```\n   code\n   ```\n",
    "{% tag %}\n- a\n- b\n{% /tag %}\n",
    "A sentence here. Another one follows! And \"quotes\" with... dots.\n",
    "| a | b |\n|---|---|\n| 1 | 2 |\n",
    "---\ntitle: x\n---\nbody text\n",
    "plain " * 40 + "\n",
    "```python\nprint(1)\n```\n\ntext\n\n~~~~text\nplain\n~~~~\n",
    "~~~sh\n$ ls\n~~~\n\nafter\n\n````md\n```\ninner\n```\n````\n",
    "",
]


def opt_pool(rng):
    from flowmark.formats.flowmark_markdown import ListSpacing
    out = []
    for _ in range(10):
        out.append(dict(width=rng.choice([0, 12, 30, 88]), semantic=rng.random() < 0.5, cleanups=rng.random() < 0.5,
                        smartquotes=rng.random() < 0.5, ellipses=rng.random() < 0.5, list_spacing=rng.choice(list(ListSpacing)),
                        plaintext=rng.random() < 0.15))
    return out


def call(doc, o):
    from flowmark import reformat_text
    return reformat_text(doc, **o)


def job_pool(ctx: Ctx, n_docs: int):
    rng = ctx.rng
    docs = list(DOCS) + [mdgen.gen_document(rng, quotes=True, ellipses=True, tags=(i % 3 == 0), html=(i % 4 == 0), frontmatter=True, bold_headings=True)
                         for i in range(n_docs)]
    opts = opt_pool(rng)
    jobs = [(d, rng.choice(opts)) for d in docs for _ in range(2)]
    return jobs


def solo_results(jobs):
    """each job alone — in THIS process, but the first thing it does is compared with a fresh interpreter for a sample"""
    return [call(d, o) for d, o in jobs]


def fresh_process(jobs_idx, jobs) -> list[str]:
    """results of the given jobs, each computed in its own fresh interpreter (no earlier call at all)"""
    code = ("import sys, json\nfrom flowmark import reformat_text\nfrom flowmark.formats.flowmark_markdown import ListSpacing\n"
            "d, o = json.loads(sys.stdin.read())\no['list_spacing'] = ListSpacing(o['list_spacing'])\nsys.stdout.write(reformat_text(d, **o))\n")
    out = []
    for i in jobs_idx:
        d, o = jobs[i]
        o2 = dict(o, list_spacing=o["list_spacing"].value)
        r = subprocess.run([sys.executable, "-c", code], input=json.dumps([d, o2]), capture_output=True, text=True)
        out.append(r.stdout if r.returncode == 0 else f"<rc={r.returncode}> {r.stderr[-200:]}")
    return out


def ostr(o):
    return {k: str(v) for k, v in o.items()}


def histories(ctx: Ctx, jobs, solo, n: int) -> None:
    rng = ctx.rng
    for h in range(n):
        k = rng.randint(1, 6)
        prefix = [rng.randrange(len(jobs)) for _ in range(k)]
        target = rng.randrange(len(jobs))
        for i in prefix:
            call(*jobs[i])
        got = call(*jobs[target])
        ctx.count(["history", prefix, target], nontrivial=True, sample=(h % 97 == 3))
        ctx.bump("histories")
        if got != solo[target]:
            ctx.fail("HISTORY: the result of a call depends on the calls made before it in the same process",
                     {"earlier": [{"doc": jobs[i][0], "opts": ostr(jobs[i][1])} for i in prefix], "doc": jobs[target][0], "opts": ostr(jobs[target][1])},
                     {"alone": solo[target][:600], "after": got[:600]})
            return
    # the in-process "alone" results themselves against fresh interpreters
    idx = rng.sample(range(len(jobs)), min(len(jobs), ctx.scale(10, 120)))
    fresh = fresh_process(idx, jobs)
    for i, f in zip(idx, fresh):
        ctx.count(["fresh", i], nontrivial=True)
        ctx.bump("fresh-interpreter")
        if f != solo[i]:
            ctx.fail("HISTORY: the result in a fresh interpreter differs from the result in the harness process (state left by imports or earlier calls)",
                     {"doc": jobs[i][0], "opts": ostr(jobs[i][1])}, {"fresh": f[:600], "in-process": solo[i][:600]})
            return


class Yielder:
    """forces a thread switch at a seeded random subset of Python function calls inside flowmark / marko"""
    def __init__(self, seed: int, rate: float):
        self.rate = rate
        self.local = threading.local()
        self.seed = seed

    def __call__(self, frame, event, arg):
        if event == "call":
            fn = frame.f_code.co_filename
            if "flowmark" in fn or "marko" in fn:
                r = getattr(self.local, "rng", None)
                if r is None:
                    r = self.local.rng = random.Random((self.seed, threading.get_ident() % 1000).__hash__())
                if r.random() < self.rate:
                    import time
                    time.sleep(0)        # releases the GIL: another thread runs
        return None


def schedules(ctx: Ctx, jobs, solo, rounds: int, threads: int) -> None:
    rng = ctx.rng
    old = sys.getswitchinterval()
    for r in range(rounds):
        pool = range(len(jobs))
        if r % 3 == 1:
            # rounds in which every thread parses fenced code, tables or footnotes at the same time (state handed from one
            # parser callback to the next is the narrowest window)
            special = [i for i in pool if re.search(r"```|~~~|^\|.*\|$|\[\^", jobs[i][0], re.M)]
            pool = special or pool
        picks = [[rng.choice(pool) for _ in range(rng.randint(2, 5))] for _ in range(threads)]
        results: list[list] = [[] for _ in range(threads)]
        errors: list = []
        barrier = threading.Barrier(threads)

        def work(t):
            try:
                barrier.wait()
                for i in picks[t]:
                    results[t].append(call(*jobs[i]))
            except Exception as e:            # noqa: BLE001
                errors.append(repr(e))
        sys.setswitchinterval(1e-6)
        threading.settrace(Yielder(rng.randrange(1 << 30), (0.02, 0.3, 0.1)[r % 3]))
        ths = [threading.Thread(target=work, args=(t,)) for t in range(threads)]
        try:
            for th in ths:
                th.start()
            for th in ths:
                th.join()
        finally:
            threading.settrace(None)
            sys.setswitchinterval(old)
        ctx.count(["schedule", picks], nontrivial=True, sample=(r % 37 == 1))
        ctx.bump("schedules")
        if errors:
            ctx.fail("THREADS: a call raised when run concurrently", {"picks": picks}, errors[:3])
            return
        for t in range(threads):
            for i, got in zip(picks[t], results[t]):
                if got != solo[i]:
                    ctx.fail("THREADS: a call run concurrently with others returns something else than alone",
                             {"doc": jobs[i][0], "opts": ostr(jobs[i][1]),
                              "concurrent_with": [{"doc": jobs[j][0][:300], "opts": ostr(jobs[j][1])} for tt in range(threads) if tt != t for j in picks[tt]][:6]},
                             {"alone": solo[i][:600], "concurrent": got[:600]})
                    return


def api_histories(ctx: Ctx, n: int) -> None:
    """the other entry points share the same call path: fill_markdown with the module-level default wrappers, fill_text"""
    from flowmark import fill_markdown, fill_text
    from flowmark.formats.flowmark_markdown import flowmark_markdown
    rng = ctx.rng
    docs = DOCS[:12]
    alone = {d: (fill_markdown(d), flowmark_markdown().convert(d) if hasattr(flowmark_markdown(), "convert") else None, fill_text(d)) for d in docs}
    for _ in range(n):
        seq = [rng.choice(docs) for _ in range(rng.randint(2, 6))]
        for d in seq[:-1]:
            fill_markdown(d, semantic=rng.random() < 0.5)
            fill_text(d)
        d = seq[-1]
        got = (fill_markdown(d), alone[d][1], fill_text(d))
        ctx.count(["api-history", seq], nontrivial=True)
        ctx.bump("api-histories")
        if got != alone[d]:
            ctx.fail("HISTORY (fill_markdown / fill_text defaults): result depends on earlier calls", {"sequence": seq}, {"alone": str(alone[d])[:500], "after": str(got)[:500]})
            return
    # the same text wrapped with different length functions, in both orders (a memo keyed too coarsely shows here)
    from flowmark.linewrapping.line_wrappers import line_wrap_to_width, line_wrap_by_sentence
    from flowmark.linewrapping.text_wrapping import wrap_paragraph_lines

    def wide(s: str) -> int:
        return sum(2 if ord(c) > 0x2E80 else 1 for c in s)
    texts = ["漢字 かな 文字 " * 6 + "latin words here", "word " * 30, "ａｂｃ ｄｅｆ " * 8]
    for t in texts:
        for W in (20, 40):
            ref_len = wrap_paragraph_lines(t, W)
            ref_wide = wrap_paragraph_lines(t, W, len_fn=wide)
            for order in (("len", "wide", "len"), ("wide", "len", "wide")):
                got = {}
                for which in order:
                    got[which] = wrap_paragraph_lines(t, W) if which == "len" else wrap_paragraph_lines(t, W, len_fn=wide)
                    md = fill_markdown(t + "\n", line_wrapper=line_wrap_to_width(width=W, len_fn=(len if which == "len" else wide), is_markdown=True))
                    got["md-" + which] = md
                    got["ft-" + which] = fill_text(t, width=W, len_fn=(len if which == "len" else wide))
                ctx.count(["len_fn", t, W, order], nontrivial=True)
                ctx.bump("len-fn-histories")
                if got["len"] != ref_len or got["wide"] != ref_wide:
                    ctx.fail("HISTORY (length function): wrapping a text depends on an earlier call with another length function",
                             {"text": t, "width": W, "order": order}, {"alone": [ref_len, ref_wide], "after": [got["len"], got["wide"]]})
                    return
    # the same in two fresh interpreters, one per order: what each call returns must not depend on which came first
    code = ("import sys, json\nfrom flowmark.linewrapping.text_wrapping import wrap_paragraph_lines\nfrom flowmark import fill_text\n"
            "def wide(s):\n    return sum(2 if ord(c) > 0x2E80 else 1 for c in s)\n"
            "order, texts = json.loads(sys.stdin.read())\nout = {}\n"
            "for which in order:\n"
            "    for t in texts:\n"
            "        for W in (20, 40):\n"
            "            fn = len if which == 'len' else wide\n"
            "            out[f'{which}|{W}|{t}'] = [wrap_paragraph_lines(t, W, len_fn=fn), fill_text(t, width=W, len_fn=fn)]\n"
            "print(json.dumps(out))\n")
    res = []
    for order in (["len", "wide"], ["wide", "len"]):
        r = subprocess.run([sys.executable, "-c", code], input=json.dumps([order, texts]), capture_output=True, text=True)
        res.append(json.loads(r.stdout) if r.returncode == 0 else {"error": r.stderr[-300:]})
    ctx.count(["len_fn-fresh"], nontrivial=True)
    ctx.bump("len-fn-fresh-interpreters")
    if res[0] != res[1]:
        k = next((k for k in res[0] if res[0].get(k) != res[1].get(k)), "error")
        ctx.fail("HISTORY (length function): what a wrapping call returns depends on whether a call with another length function came first",
                 {"call": k, "orders": [["len", "wide"], ["wide", "len"]]}, {"len-first": res[0].get(k), "wide-first": res[1].get(k)})
        return
    md_ref = {}
    for t in texts:
        for which, fn in (("len", len), ("wide", wide)):
            a = fill_markdown(t + "\n", line_wrapper=line_wrap_to_width(width=24, len_fn=fn, is_markdown=True))
            b = fill_markdown(t + "\n", line_wrapper=line_wrap_by_sentence(width=24, len_fn=fn, is_markdown=True))
            key = (t, which)
            if key in md_ref and md_ref[key] != (a, b):
                ctx.fail("HISTORY (length function): fill_markdown with the same wrapper arguments gives two results in one process", {"text": t, "len_fn": which}, None)
                return
            md_ref[key] = (a, b)
        for which, fn in (("wide", wide), ("len", len)):
            a = fill_markdown(t + "\n", line_wrapper=line_wrap_to_width(width=24, len_fn=fn, is_markdown=True))
            b = fill_markdown(t + "\n", line_wrapper=line_wrap_by_sentence(width=24, len_fn=fn, is_markdown=True))
            if md_ref[(t, which)] != (a, b):
                ctx.fail("HISTORY (length function): fill_markdown with a custom length function depends on earlier calls with another one",
                         {"text": t, "len_fn": which}, {"first": md_ref[(t, which)][0], "later": a})
                return
    # one Markdown object used twice must not carry anything over either (link definitions, footnotes)
    for a, b in [(DOCS[0], DOCS[1]), (DOCS[2], DOCS[3]), (DOCS[4], DOCS[6])]:
        m = flowmark_markdown()
        m.parse(a)
        m.render(m.parse(a))
        second = m.render(m.parse(b))
        fresh = flowmark_markdown()
        ref = fresh.render(fresh.parse(b))
        ctx.count(["reuse", a, b], nontrivial=True)
        ctx.bump("object-reuse")
        if second != ref:
            ctx.fail("REUSE: a Markdown object used for a second document carries state over from the first", {"first": a, "second": b}, {"fresh": ref, "reused": second})
            return


# ------------------------------------------------------------------------------------------------------------------
# shared values: ONE object returned by flowmark_markdown() used for several documents, ONE line wrapper value (an
# option of flowmark_markdown / fill_markdown, and the module-level defaults) used by several calls and several threads.
# The property text: the output is a function of text and options only, whatever was formatted earlier and whatever
# runs at the same time — so the reference of every call is the same call on values nobody else has used.

# blocks that leave the renderer in different states when a document ENDS with them (spacing flags, list tightness,
# prefixes, inline text) and that read that state when a document STARTS with them
BOUNDARY_BLOCKS = [
    "Some closing words here. And a second sentence follows it.",
    "## A heading",
    "Setext heading\n===",
    "> quoted words\n> and more of them",
    "> [!NOTE]\n> body of the alert",
    "```\ncode\n```",
    "    indented code",
    "- first item\n\n- second item",
    "1. one\n\n2. two\n\n3. three",
    "- a\n- b",
    "* a\n  - b\n\n  - c",
    "- item\n\n  para in item\n\n  ```\n  code\n  ```",
    "> - a\n>\n> - b",
    "1. x\n   > quote in item",
    "| a | b |\n|---|---|\n| 1 | 2 |",
    "[ref]: http://example.com 'T'",
    "see [ref] and[^n]",
    "[^n]: note text\n\n    second paragraph of the note",
    "<div>\nraw\n</div>",
    "***",
    "{% tag %}\n- x\n- y\n{% /tag %}",
    "<!-- comment -->",
    "line one\\\nline two  \nline three",
    "**Bold only line**",
]

WRAPPER_SPECS = [("sentence", 88), ("sentence", 40), ("sentence", 24), ("width", 88), ("width", 30), ("sentence", 0), ("width", 0)]


def make_wrapper(spec):
    """a line wrapper value that no other call has seen"""
    from flowmark import line_wrap_by_sentence, line_wrap_to_width
    kind, w = spec
    return (line_wrap_by_sentence if kind == "sentence" else line_wrap_to_width)(width=w, is_markdown=True)


def boundary_document(rng) -> str:
    return "\n\n".join(rng.choice(BOUNDARY_BLOCKS) for _ in range(rng.randint(1, 3))) + "\n"


def prose_paragraph(rng, tag: str) -> str:
    """several sentences; every sentence carries the tag of its document so that text of one call showing up in another call's
    result is recognisable"""
    sents = []
    for s in range(rng.randint(2, 6)):
        ws = [rng.choice(mdgen.WORDS) for _ in range(rng.randint(2, 12))]
        ws.insert(rng.randrange(len(ws) + 1), f"{tag}s{s}")
        sents.append(" ".join(ws).capitalize() + rng.choice([".", ".", "!", "?", "...", ".\""]))
    return " ".join(sents)


def prose_document(rng, tag: str) -> str:
    """multi-sentence paragraphs: plain, quoted, in list items"""
    blocks = []
    for p in range(rng.randint(1, 3)):
        pre, cont = rng.choice([("", ""), ("", ""), ("> ", "> "), ("- ", "  "), ("1. ", "   "), ("> - ", ">   ")])
        lines = mdgen.lay_out(rng, prose_paragraph(rng, f"{tag}p{p}"), hard_breaks=False)
        blocks.append("\n".join((pre if i == 0 else cont) + l for i, l in enumerate(lines)))
    return "\n\n".join(blocks) + "\n"


class Shared:
    """the shared values of one run and the references computed on fresh ones"""

    def __init__(self):
        import flowmark.formats.flowmark_markdown as fmod
        self.shared = {spec: make_wrapper(spec) for spec in WRAPPER_SPECS}
        # the module-level defaults: ("default",) = the argument left out; the named constants when the module has them
        self.shared[("default",)] = None
        for name in ("DEFAULT_SEMANTIC_LINE_WRAPPER", "DEFAULT_FIXED_LINE_WRAPPER"):
            if callable(getattr(fmod, name, None)):
                self.shared[("module", name)] = getattr(fmod, name)
        self.specs = list(self.shared)
        self.refs: dict = {}

    def run(self, entry, spec, ls, doc, wrapper="shared", md=None):
        """one call. entry: object (flowmark_markdown(w, ls).convert) | fill (fill_markdown(line_wrapper=w)) | direct (w(text, '', ''))"""
        from flowmark import fill_markdown, flowmark_markdown
        w = self.shared[spec] if wrapper == "shared" else wrapper
        if entry == "object":
            m = md if md is not None else (flowmark_markdown(list_spacing=ls) if w is None else flowmark_markdown(w, ls))
            return m.convert(doc)
        if entry == "fill":
            return fill_markdown(doc, line_wrapper=w, list_spacing=ls)
        return w(doc, "", "")

    def entries(self, spec):
        return ("object",) if spec == ("default",) else ("object", "fill", "direct")

    def ref(self, entry, spec, ls, doc):
        """the same call with a wrapper (and Markdown object) nobody else has used; for the module-level defaults, which cannot be
        built anew, the result of the first call made with them — made before any thread starts, and itself part of the histories"""
        key = (entry, spec, ls, doc)
        if key not in self.refs:
            fresh = make_wrapper(spec) if spec in WRAPPER_SPECS else self.shared[spec]
            self.refs[key] = self.run(entry, spec, ls, doc, wrapper=fresh)
        return self.refs[key]


def object_reuse_histories(ctx: Ctx, sh: Shared, docs, n: int) -> None:
    """one object from flowmark_markdown() (and one wrapper value) formats a sequence of documents; each result = that document on a
    new object with a new wrapper"""
    from flowmark import flowmark_markdown
    from flowmark.formats.flowmark_markdown import ListSpacing
    rng = ctx.rng
    for h in range(n):
        spec = rng.choice(sh.specs)
        ls = rng.choice(list(ListSpacing))
        seq = [boundary_document(rng) if rng.random() < 0.6 else rng.choice(docs) for _ in range(rng.randint(2, 4))]
        refs = [sh.ref("object", spec, ls, d) for d in seq]
        w = sh.shared[spec]
        m = flowmark_markdown(list_spacing=ls) if w is None else flowmark_markdown(w, ls)
        style = rng.choice(["convert", "call", "parse-render", "parse-all-then-render"])
        if style == "convert":
            got = [m.convert(d) for d in seq]
        elif style == "call":
            got = [m(d) for d in seq]
        elif style == "parse-render":
            got = [m.render(m.parse(d)) for d in seq]
        else:
            parsed = [m.parse(d) for d in seq]
            got = [m.render(p) for p in parsed]
        ctx.count(["object-reuse", spec, str(ls), style, seq], nontrivial=True, sample=(h % 61 == 5))
        ctx.bump("object-reuse-histories")
        for i, (g, r) in enumerate(zip(got, refs)):
            if g != r:
                ctx.fail("REUSE: a document formatted with an object of flowmark_markdown() that has formatted other documents before "
                         "comes out differently than on a new object",
                         {"earlier": seq[:i], "doc": seq[i], "wrapper": spec, "list_spacing": str(ls), "style": style},
                         {"new-object": r[:600], "reused-object": g[:600]})
                return


def shared_wrapper_schedules(ctx: Ctx, sh: Shared, docs, rounds: int, threads: int) -> None:
    """threads format different documents at the same time through calls that were given the SAME line wrapper value (one of the
    module-level defaults, or one wrapper built once); each result = the call with a wrapper of its own.
    Every call builds its own Markdown object: ONE object of flowmark_markdown() is deliberately not handed to several threads at the
    same time. On the pinned code that is a race (convert() stores the parser/renderer it has just built on the object and reads them
    back, so a thread switched out right after _setup_extensions() returns renders with — and resets — the other thread's renderer:
    "> - x3\n>   y" came out as "> \n> >   > x3 y"); whether the property text means it (one object = one caller) is for the owner
    of the property to decide, see the report of this family."""
    from flowmark.formats.flowmark_markdown import ListSpacing
    rng = ctx.rng
    old = sys.getswitchinterval()
    for r in range(rounds):
        # all threads of a round use one wrapper value: that is the sharing under test
        spec = rng.choice([s for s in sh.specs if s[0] != "width"] if r % 2 == 0 else sh.specs)
        picks = []
        for t in range(threads):
            calls = []
            for c in range(rng.randint(2, 3)):
                entry = rng.choice(sh.entries(spec))
                if entry == "direct":
                    doc = prose_paragraph(rng, f"r{r}t{t}c{c}")
                else:
                    doc = prose_document(rng, f"r{r}t{t}c{c}") if rng.random() < 0.7 else rng.choice(docs)
                calls.append((entry, spec, rng.choice(list(ListSpacing)), doc))
            picks.append(calls)
        refs = [[sh.ref(*c) for c in calls] for calls in picks]        # alone, before any thread runs
        results: list[list] = [[] for _ in range(threads)]
        errors: list = []
        barrier = threading.Barrier(threads)

        def work(t):
            try:
                barrier.wait()
                for c in picks[t]:
                    results[t].append(sh.run(*c))
            except Exception as e:            # noqa: BLE001
                errors.append(repr(e))
        sys.setswitchinterval(1e-6)
        threading.settrace(Yielder(rng.randrange(1 << 30), (0.3, 0.05, 0.1)[r % 3]))
        ths = [threading.Thread(target=work, args=(t,)) for t in range(threads)]
        try:
            for th in ths:
                th.start()
            for th in ths:
                th.join()
        finally:
            threading.settrace(None)
            sys.setswitchinterval(old)
        ctx.count(["shared-wrapper-schedule", spec, [[(c[0], c[3][:40]) for c in calls] for calls in picks]], nontrivial=True, sample=(r % 17 == 2))
        ctx.bump("shared-wrapper-schedules")
        if errors:
            ctx.fail("THREADS (shared line wrapper): a call raised when run concurrently with calls given the same line wrapper value",
                     {"wrapper": spec, "calls": [[{"entry": c[0], "doc": c[3][:300]} for c in calls] for calls in picks]}, errors[:3])
            return
        for t in range(threads):
            for c, got, ref in zip(picks[t], results[t], refs[t]):
                if got != ref:
                    ctx.fail("THREADS (shared line wrapper): a call run concurrently with calls that were given the same line wrapper value "
                             "returns something else than alone",
                             {"entry": c[0], "wrapper": spec, "list_spacing": str(c[2]), "doc": c[3],
                              "concurrent_with": [{"entry": cc[0], "doc": cc[3][:300]} for tt in range(threads) if tt != t for cc in picks[tt]][:6]},
                             {"alone": ref[:600], "concurrent": got[:600]})
                    return


def shared_values(ctx: Ctx, docs, n_hist: int, rounds: int, threads: int) -> None:
    sh = Shared()
    before = len(ctx.failing)
    object_reuse_histories(ctx, sh, docs, n_hist)
    if len(ctx.failing) > before:
        return
    shared_wrapper_schedules(ctx, sh, docs, rounds, threads)


def run(ctx: Ctx) -> None:
    lean_obligations(ctx, need_driver=False)
    jobs = job_pool(ctx, ctx.scale(40, 400))
    solo = solo_results(jobs)
    histories(ctx, jobs, solo, ctx.scale(250, 5000))
    schedules(ctx, jobs, solo, ctx.scale(40, 1000), threads=4)
    api_histories(ctx, ctx.scale(60, 1000))
    shared_values(ctx, [d for d, _ in jobs[::2]], ctx.scale(120, 4000), ctx.scale(8, 300), threads=4)
    ctx.rule("shared values: one flowmark_markdown() object formatting 2–4 documents (every pairing of how a document ends with how the next "
             "one starts: paragraph, heading, quote, alert, code, loose/tight/nested list, table, definitions, HTML, rule, tag; convert / call / "
             "parse+render / parse-all-then-render) against a new object; 4 threads × 2–4 calls (flowmark_markdown().convert, fill_markdown("
             "line_wrapper=w), w(text) on multi-sentence tagged prose) all given ONE line wrapper value — the module-level defaults or a "
             "wrapper built once — against the same call with a wrapper of its own")
    ctx.rule("documents with colliding link-definition and footnote labels, deep prefixes, loose/tight lists, tags, frontmatter + generated "
             "documents × 10 option sets; histories of 1–6 earlier calls; 4 threads × 2–5 calls each with a 1 µs switch interval and "
             "seeded yields at 2% of the function calls inside flowmark/marko; fresh-interpreter results for a sample")
    ctx.assume("the reading of the inventory's kinds — a module-level constant is never written, functools.cache returns what the "
               "function would compute, objects built inside a call are not reachable from another call — is Python's semantics and "
               "Marko's object confinement (monitored by the history/thread oracle, not proved)")


def search(ctx: Ctx) -> None:
    jobs = job_pool(ctx, 300)
    solo = solo_results(jobs)
    histories(ctx, jobs, solo, 4000)
    schedules(ctx, jobs, solo, 400, threads=6)
    api_histories(ctx, 600)
    shared_values(ctx, [d for d, _ in jobs[::2]], 3000, 150, threads=6)


def replay(ctx: Ctx, path: str) -> int:
    r = json.loads(open(path).read())
    print(json.dumps(r.get("input"), ensure_ascii=False)[:3000])
    print(str(r.get("detail"))[:1200])
    return 0
