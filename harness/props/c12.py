"""
C12 — Formatting always terminates with well-formed output.

Ring 1: FM/Props/C12.lean (ENDS_NL_partial + witness, NO_ASSERT, CODE_BLANK); all model functions are total.
Ring 2: tie render (the renderer model); the other ties live with their properties.
Ring 3 / runtime monitor: malformed stream + structured generator × random option values (any width ∈ ℤ): no exception,
        str result, final newline (Markdown), no NUL / C0 control byte that was not in the input, no trailing space on blank
        code lines, per-call CPU watchdog; pumped families prefix·unit^n·suffix for growth.
The model cannot exhibit an exponential regex or a hang inside Marko; that part of the property is monitored, not proved.
"""
from __future__ import annotations

import json
import math
import re
import signal
import time

import mdgen
import rendertie
from common import Ctx, run_driver
from leanbuild import lean_obligations

SOUP = list("*_`~[]()<>!#-+=|\\:\"'{}%&;.,/ \n\t") + ["\r\n", "\r", "\x0b", "\x0c", "\x1c", "\x85", " ", " ", "é", "中", "\U0001F600", "\x01", "\x7f",
                                                      "```", "~~~", "---", "***", "> ", "- ", "1. ", "    ", "[^1]", "[^1]: ", "{%", "%}", "{{", "}}", "<!--", "-->", "http://",
                                                      "www.", "&amp;", "&#", "\\\n", "  \n", "| a | b |\n|---|---|\n",
                                                      "\x00", "\x00AC0\x00", "\x00AC7\x00", "\x00AC", "`c`", "[l](u)", "{% t %}", "[^a.b]:", "[^a b]:", "[^n1]: "]
PUMPS = [
    ("", "a ", ""), ("", "*a ", ""), ("", "[", ""), ("", "[a](", ""), ("", "`", ""), ("", "` a", ""), ("", "{% a ", ""), ("", "<!-- ", ""),
("", "- a\n", ""), ("", "  - a\n", ""), ("", "1. a\n\n", ""), ("", "\\", ""), ("", "a\\\n", ""), ("", "<a ", ">"), ("", "**a** ", ""),
    ("", "| a ", "|\n|---|\n"), ("", "a. B", ""), ("", "\"a\" ", ""), ("", "... ", ""), ("", "[^a] ", "\n\n[^a]: x\n"), ("", "{{ a }}{{ /a }}", ""),
    ("", "a\n", ""), ("", "\n", ""), ("```\n", "```` \n", "```\n"), ("", "![", ""), ("", "<http://a.b> ", ""), ("", "www.a.b/c ", ""), ("", "~a~ ", ""),
    ("---\n", "a: b\n", "---\nbody\n"), ("", "\t", "x"), ("", "&amp;", ""),

    # around the atomic-construct patterns: unmatched openers followed by escapes / nested openers
    ("[", "\\", ""), ("[a", "\\]", ""), ("[", "\\[", "]"), ("`", "\\`", ""), ("<a ", "\\\"", ">"), ("{% ", "\\%", ""), ("[a](", "\\)", ""),
    ("[a](", "(", ""), ("![", "\\", "]"), ("[", "]", "("), ("<!-- ", "-", ""), ("{{ ", "}", ""), ("x ", "<", ""), ("[a](u \"", "\\\"", ""),
]

# many blocks: per-block passes (typography, cleanups, transforms, rendering) must not walk the whole document once per block
BLOCK_UNITS = ["a \"b\" c.\n\n", "# **h**\n\ntext...\n\n", "- it's\n\n", "| a | \"b\" |\n|---|---|\n\npara\n\n", "> q \"x\"\n\n",
               "para one.\n\n```\ncode\n```\n\n", "[a]: http://x.y\n\nsee [a]...\n\n"]

# many inline constructs in ONE paragraph (2048 vs 8192 copies): per-construct scanning must not rescan the rest of the paragraph
INLINE_UNITS = ["~5 km, ", "a*b ", "x_y ", "`a ", "\\( ", "&x ", "~~a ", "**b ", "www.a ", "a... ", "\"q ", "it's ", "<b>x</b> ", "{{ v }} ",
                "{% a ", "<!-- ", "{# c ", "{{ v "]
UNCLOSED_TAG_OPENERS = {"{% a ", "<!-- ", "{# c ", "{{ v "}

FN_LABELS = ["1", "a.b", "a b", "n1", "note-1", "a*b", "x(y)", "é", "+", "a.b.c.d", "a?", "a|b", "^", "a$"]
FN_SEPS = ["\t", " \t", "  \t", "   \t", "\t\t", " ", "   ", "\t ", ""]
FN_BODIES = ["x", "x\n\ty", "- a", "\tcode", "x\n\n    more", ""]


class Timeout(Exception):
    pass


def _alarm(signum, frame):
    raise Timeout()


def call(fn, limit: float):
    signal.signal(signal.SIGALRM, _alarm)
    signal.setitimer(signal.ITIMER_REAL, limit)
    t0 = time.process_time()
    try:
        return fn(), time.process_time() - t0, None
    except Timeout:
        return None, limit, "timeout"
    except RecursionError as e:
        return None, time.process_time() - t0, e
    except Exception as e:
        return None, time.process_time() - t0, e
    finally:
        signal.setitimer(signal.ITIMER_REAL, 0)


def rand_opts(rng):
    from flowmark.formats.flowmark_markdown import ListSpacing
    return dict(width=rng.choice([88, 0, -1, 1, 2, 5, 20, 1000, -10 ** 9, 10 ** 9, rng.randint(-50, 200)]),
                plaintext=rng.random() < 0.15, semantic=rng.random() < 0.5, cleanups=rng.random() < 0.5,
                smartquotes=rng.random() < 0.5, ellipses=rng.random() < 0.5, list_spacing=rng.choice(list(ListSpacing)))


def well_formed(ctx: Ctx, text: str, o: dict, out, err, secs: float, limit: float) -> None:
    case = {"text": text if len(text) < 2000 else text[:2000] + "…", "opts": {k: str(v) for k, v in o.items()}}
    if err == "timeout":
        deep = any(l.count(">") >= 15 for l in text.split("\n"))
        ctx.fail(f"TERMINATES: no result within the {limit}s CPU watchdog", case, None,
                 known="C12-nested-quotes-exponential" if deep else None)
        return
    if err is not None:
        known = None
        if isinstance(err, RecursionError):
            known = "C12-deep-nesting-recursion"
        ctx.fail("NO_RAISE: the formatter raised", case, repr(err)[:300], known=known)
        return
    if not isinstance(out, str):
        ctx.fail("RESULT_STR: result is not a str", case, type(out).__name__)
        return
    if not o["plaintext"]:
        if not out.endswith("\n"):
            ctx.fail("ENDS_NL: Markdown-mode result does not end in a newline", case, repr(out[-40:]))
            return
    bad = [c for c in set(out) if (ord(c) < 32 and c not in "\n\t" or c == "\x7f") and c not in text and not (c == "�")]
    if "\x00" in out and "\x00" not in text:
        bad.append("\x00")
    if bad:
        ctx.fail("NO_CONTROL: control byte in the output that was not in the input", case, [hex(ord(c)) for c in bad])
        return
    if "\x00AC" in out and "\x00AC" not in text:
        ctx.fail("NO_PLACEHOLDER: internal placeholder survived", case, None)


def code_blank_check(ctx: Ctx, text: str, out: str) -> None:
    if "```" not in out and "~~~" not in out:
        return
    fence = None
    for l in out.split("\n"):
        s = l.lstrip(" >")
        m = re.match(r"^(`{3,}|~{3,})", s)
        if fence is None and m:
            fence = m.group(1)
        elif fence is not None and m and m.group(1)[0] == fence[0] and len(m.group(1)) >= len(fence) and set(s.strip()) == {fence[0]}:
            fence = None
        elif fence is not None and l.strip(" >") == "" and (l.endswith(" ") or l.endswith("\t")):
            ctx.fail("CODE_BLANK: blank line inside a code block carries trailing whitespace", {"text": text[:1500]}, repr(l))
            return


def monitor(ctx: Ctx, n_soup: int, n_docs: int, limit: float) -> None:
    from flowmark import reformat_text
    rng = ctx.rng
    worst = 0.0
    for i in range(n_soup):
        k = rng.choice([1, 3, 8, 20, 60, 200])
        text = "".join(rng.choice(SOUP) for _ in range(rng.randint(0, k)))
        o = rand_opts(rng)
        out, secs, err = call(lambda: reformat_text(text, **o), limit)
        worst = max(worst, secs)
        ctx.count(["soup", text, str(o)], nontrivial=len(text) > 3, sample=(i % 1999 == 5))
        ctx.bump("soup")
        well_formed(ctx, text, o, out, err, secs, limit)
    stuck = 0
    for lab in FN_LABELS:
        for sep in FN_SEPS:
            for body in FN_BODIES:
                if stuck >= 3:
                    break
                lead = ("", "> ", "- ", " ", "1. ", "> > ", "   ")[(len(lab) + len(sep) + len(body)) % 7]
                text = f"ref[^{lab}]\n\n{lead}[^{lab}]:{sep}{body}\n"
                o = dict(width=88, plaintext=False, semantic=False, cleanups=False, smartquotes=False, ellipses=False)
                out, secs, err = call(lambda: reformat_text(text, **{k: v for k, v in o.items()}), min(limit, 3))
                ctx.count(["footnote", text], nontrivial=True)
                ctx.bump("footnote-def")
                stuck += err == "timeout"
                well_formed(ctx, text, o, out, err, secs, min(limit, 3))
    for t in ("", "\n", "\t", "\r\n", " \n \n", "\x0c", "\u00a0", "---\n---\n"):
        for pt in (False, True):
            o = dict(width=88, plaintext=pt, semantic=True, cleanups=True, smartquotes=True, ellipses=True)
            out, secs, err = call(lambda: reformat_text(t, **o), limit)
            ctx.count(["empty", t, pt], nontrivial=False)
            ctx.bump("empty-input")
            well_formed(ctx, t, o, out, err, secs, limit)
    for i in range(n_docs):
        dirty = i % 2 == 0
        text = mdgen.gen_document(rng, quotes=True, ellipses=True, tags=True, html=True, hazards=dirty, clean=not dirty, frontmatter=True, bold_headings=True)
        if i % 7 == 0:
            text = text.replace("\n", "\r\n")
        o = rand_opts(rng)
        out, secs, err = call(lambda: reformat_text(text, **o), limit)
        worst = max(worst, secs)
        ctx.count(["doc", text, str(o)], nontrivial=True)
        ctx.bump("generated-doc")
        well_formed(ctx, text, o, out, err, secs, limit)
        if out and not o["plaintext"] and not dirty:
            code_blank_check(ctx, text, out)   # fences are well formed in clean documents, so the line tracker is reliable
    ctx.extra["worst_cpu_seconds_single_call"] = round(worst, 3)


def _nest(lines: list[str], kind: str) -> list[str]:
    if kind == "quote":
        return [("> " + l) if l else ">" for l in lines]
    if kind == "alert":
        return ["> [!NOTE]"] + [("> " + l) if l else ">" for l in lines]
    marker = {"bullet": "- ", "ordered": "1. ", "ordered10": "10. ", "plus": "+ "}[kind]
    pad = " " * len(marker)
    return [marker + lines[0]] + [(pad + l) if l else "" for l in lines[1:]]


def code_in_containers(ctx: Ctx, n: int) -> None:
    """CODE_BLANK in every nesting: code blocks (fenced and indented) with interior blank lines inside 1–3 nested containers
    (quote, alert, bullet / ordered / wide-marker list items), optionally after a paragraph in the same container."""
    from flowmark import reformat_text
    rng = ctx.rng
    kinds = ["quote", "alert", "bullet", "ordered", "ordered10", "plus"]
    chains = [[a] for a in kinds] + [[a, b] for a in kinds for b in kinds if not (a == "alert" and b == "alert")]
    extra = [[a, b, c] for a in kinds for b in kinds for c in kinds]
    rng.shuffle(extra)
    for chain in chains + extra[:n]:
        fenced = rng.random() < 0.7
        body = ["code line", "", "  indented code", "", "", "last"] if rng.random() < 0.5 else ["x = 1", "", "y = 2"]
        block = (["```py", *body, "```"] if fenced else ["    " + b if b else "" for b in body])
        lines = (["lead paragraph", ""] if (rng.random() < 0.5 or not fenced) else []) + block
        for kind in reversed(chain):          # innermost first
            lines = _nest(lines, kind)
        text = "\n".join(lines) + "\n"
        for o in (dict(width=88), dict(width=30, semantic=True, list_spacing="loose"), dict(width=0, list_spacing="tight")):
            out, secs, err = call(lambda: reformat_text(text, **o), 5)
            ctx.count(["code-in-containers", chain, fenced, str(o)], nontrivial=True)
            ctx.bump("code-in-containers")
            well_formed(ctx, text, dict(plaintext=False, **o), out, err, secs, 5)
            if out:
                code_blank_check(ctx, text, out)


def block_growth(ctx: Ctx) -> None:
    """time in the NUMBER OF BLOCKS: 4× the blocks may cost about 4× the CPU time; 9× and more than half a second is reported.
    (CPU time of this process, best of two runs, so that machine load does not matter.)"""
    from flowmark import reformat_text
    n0, n1 = (256, 1024) if ctx.tier == "quick" else (512, 4096)
    res = []
    for unit in BLOCK_UNITS:
        for o in (dict(width=88, semantic=True, cleanups=True, smartquotes=True, ellipses=True), dict(width=40, list_spacing="loose")):
            ts = []
            for n in (n0, n1):
                best = None
                for _ in range(2):
                    out, secs, err = call(lambda: reformat_text(unit * n, **o), 60)
                    if err is not None:
                        best = None
                        break
                    best = secs if best is None else min(best, secs)
                ts.append(best)
            ctx.count(["block-growth", unit, str(o)], nontrivial=True)
            ctx.bump("block-growth")
            case = {"unit": unit, "blocks": [n0, n1], "opts": {k: str(v) for k, v in o.items()}}
            if None in ts:
                ctx.fail("GROWTH: a document of many small blocks raised or did not finish within 60 s", case, None)
                continue
            ratio = ts[1] / max(ts[0], 1e-3)
            res.append({"unit": unit, "seconds": [round(t, 3) for t in ts], "ratio": round(ratio, 1)})
            if ts[1] > 0.5 and ratio > 2.25 * (n1 / n0):
                ctx.fail(f"GROWTH: {n1 // n0}× the blocks cost {ratio:.1f}× the time (running time does not grow gently with the number of blocks)",
                         case, {"cpu_seconds": ts})
    ctx.extra["block_growth"] = res
    m0, m1 = (2048, 8192) if ctx.tier == "quick" else (4096, 32768)
    res2 = []
    o = dict(width=88, semantic=True, cleanups=True, smartquotes=True, ellipses=True)
    for unit in INLINE_UNITS:
        ts = []
        # the four unclosed openers are known to be quadratic: half the sizes keep the quick tier short
        sizes = (m0 // 2, m1 // 2) if unit in UNCLOSED_TAG_OPENERS else (m0, m1)
        for n in sizes:
            best = None
            for _ in range(2):
                out, secs, err = call(lambda: reformat_text(unit * n, **o), 120)
                if err is not None:
                    best = None
                    break
                best = secs if best is None else min(best, secs)
            ts.append(best)
        ctx.count(["inline-growth", unit], nontrivial=True)
        ctx.bump("inline-growth")
        case = {"unit": unit, "copies in one paragraph": list(sizes), "opts": {k: str(v) for k, v in o.items()}}
        known = "C12-unclosed-tag-openers-quadratic" if unit in UNCLOSED_TAG_OPENERS else None
        if None in ts:
            ctx.fail("GROWTH: a paragraph of many small inline constructs raised or did not finish within 120 s", case, None, known=known)
            continue
        ratio = ts[1] / max(ts[0], 1e-3)
        res2.append({"unit": unit, "seconds": [round(t, 3) for t in ts], "ratio": round(ratio, 1)})
        if ts[1] > 0.5 and ratio > 2.25 * (m1 / m0):
            ctx.fail(f"GROWTH: {m1 // m0}× the inline constructs cost {ratio:.1f}× the time (running time does not grow gently with the length of a paragraph)",
                     case, {"cpu_seconds": ts}, known=known)
    ctx.extra["inline_growth"] = res2


def pumps(ctx: Ctx, sizes, top_limit: float, max_exp: float) -> None:
    from flowmark import reformat_text
    growth = []
    for pre, unit, suf in PUMPS:
        times = []
        for n in sizes:
            text = pre + unit * n + suf
            for o in (dict(width=88, semantic=True, cleanups=True, smartquotes=True, ellipses=True), dict(width=20, semantic=False)):
                out, secs, err = call(lambda: reformat_text(text, **o), top_limit)
                ctx.count(["pump", unit, n, o["width"]], nontrivial=True)
                case = {"family": [pre, unit, suf], "n": n, "opts": o}
                if err == "timeout":
                    linkish = re.search(r"\]\(|\]\[|\[\^|!\[", unit) is not None and len(text) > 16384
                    ctx.fail(f"GROWTH: pumped input of size {len(text)} did not finish within {top_limit}s", case, None,
                             known="C12-marko-quadratic-inline-links" if linkish else None)
                    break
                if err is not None:
                    ctx.fail("NO_RAISE: the formatter raised on a pumped input", case, repr(err)[:300],
                             known="C12-deep-nesting-recursion" if isinstance(err, RecursionError) else None)
                    break
                times.append((len(text), max(secs, 1e-4), o["width"]))
        ts = [(L, s) for L, s, w in times if w == 88]
        if len(ts) >= 3 and ts[-1][1] > 0.05:
            (l0, s0), (l1, s1) = ts[-3], ts[-1]
            exp = math.log(s1 / s0) / math.log(l1 / l0)
            growth.append({"unit": unit, "exponent": round(exp, 2), "top_seconds": round(s1, 3), "top_chars": l1})
            if exp > max_exp and s1 > 1.0:
                ctx.fail(f"GROWTH: running time grows faster than size^{max_exp} on a pumped family", {"family": [pre, unit, suf]},
                         {"exponent": round(exp, 2), "top_seconds": round(s1, 2)})
    ctx.extra["pump_growth"] = growth


PH_ATOMS = ["`a`", "`b c`", "``x`y``", "[l](u)", "[a b][r]", "{% t %}", "{% if x %}{% /if %}", "{{ v }}", "{# c #}", "<!-- c -->", "<b>", "</b>",
            "<a href=\"u\">", "`AC0`", "[AC1](AC2)", "`\x00`", "`\x00AC0\x00`"]
PH_TEXTS = ["", " ", "word", " and ", "AC0", "AC1", "AC12", "AC", "0", "7\x00", "AC01", "ac0", "AC0 ", ",", "\n", "AC٣", "x\x00AC0\x00y", "\x00", "\x00AC",
            "\x00AC0", "AC0\x00", "\x00AC99\x00", "\x00AC00\x00", "\x00AC1x\x00", "é", "AC2`"]


def tie_placeholder(ctx: Ctx, n: int) -> None:
    """model of the placeholder scheme (extract ∘ restore) = _extract_atomic_constructs / _restore_atomic_constructs, on texts built
    from constructs and fragments that look like pieces of placeholders (AC<i>, digits, NUL); the segmentation the model is given is
    the real regex's.  The NO_LEAK oracle runs on the NUL-free ones."""
    from flowmark.linewrapping.atomic_patterns import ATOMIC_CONSTRUCT_PATTERN
    from flowmark.linewrapping.text_wrapping import _extract_atomic_constructs, _restore_atomic_constructs, get_html_md_word_splitter
    from common import enc, enc_list, dec
    rng = ctx.rng
    texts = ["`a` `b`AC0`c`", "x `a`AC1`b` {% t %}{% /t %}<b>AC0</b>", "`a`AC0`b`", "{{ a }}AC1{{ b }}AC0{{ c }}", "`a``b`"]
    for _ in range(n):
        k = rng.choice([1, 2, 3, 5, 8, 14])
        texts.append("".join(rng.choice(PH_ATOMS) if rng.random() < 0.5 else rng.choice(PH_TEXTS) for _ in range(k)))
    lines, real = [], []
    for t in texts:
        pieces, kinds, pos = [], [], 0
        for m in ATOMIC_CONSTRUCT_PATTERN.finditer(t):
            if m.start() > pos:
                pieces.append(t[pos:m.start()]); kinds.append("t")
            pieces.append(m.group(0)); kinds.append("a")
            pos = m.end()
        if pos < len(t):
            pieces.append(t[pos:]); kinds.append("t")
        cmap, twp = _extract_atomic_constructs(t)
        real.append((twp, _restore_atomic_constructs([twp], cmap)[0]))
        lines.append(f"placeholder\t{''.join(kinds)}\t{enc_list(pieces)}")
    outs = run_driver(lines)
    bad = 0
    splitter = get_html_md_word_splitter()
    for t, (twp, restored), ans in zip(texts, real, outs):
        ctx.count(["placeholder", t], nontrivial="\x00" in twp, sample=False)
        ctx.bump("placeholder" + (":with-NUL-in-input" if "\x00" in t else ""))
        try:
            a, b = ans.split("/")
            got = (dec(a), dec(b))
        except Exception:
            got = ans
        if got != (twp, restored):
            bad += 1
            ctx.tie_broken("placeholder", {"text": t}, got, [twp, restored])
        if "\x00" not in t:
            words = splitter(t)
            if restored != t or any("\x00" in w for w in words):
                ctx.fail("NO_PLACEHOLDER: restoring the placeholders does not give the text back (NUL-free input)", {"text": t},
                         {"restored": restored, "words": words})
    ctx.obligation(f"tie placeholder: Lean model of the placeholder scheme (extractText, roundTrip) = _extract_atomic_constructs / "
                   f"_restore_atomic_constructs on {len(texts)} texts of constructs and placeholder-like fragments (AC<i>, digits, NUL)",
                   "correspondence", bad == 0, f"{bad} disagreement(s)")


def replay_findings(ctx: Ctx) -> None:
    from flowmark import reformat_text
    for fid, e in ctx.kf.items():
        t = (e.get("input") or {}).get("text")
        if t is not None:
            out, secs, err = call(lambda: reformat_text(t), 5)
            ctx.known_replay(fid, err is not None or ("\x00" in (out or "") and "\x00" not in t))
        fam = (e.get("input") or {}).get("family")
        if fam:
            i = e["input"]
            _, s1, _ = call(lambda: reformat_text(fam[0] + fam[1] * i["n_small"] + fam[2]), 30)
            _, s2, _ = call(lambda: reformat_text(fam[0] + fam[1] * i["n_large"] + fam[2]), 30)
            ctx.known_replay(fid, s2 > 8 * max(s1, 0.002))


def run(ctx: Ctx) -> None:
    driver_ok = lean_obligations(ctx)
    replay_findings(ctx)
    if driver_ok:
        ctx.guard("tie render", rendertie.tie_render, ctx.scale(150, 2000))
        ctx.guard("tie placeholder", tie_placeholder, ctx.scale(3000, 60000))
    monitor(ctx, ctx.scale(2500, 100000), ctx.scale(250, 5000), limit=ctx.scale(5, 10))
    code_in_containers(ctx, ctx.scale(40, 216))
    block_growth(ctx)
    pumps(ctx, [2 ** k for k in (range(4, 10, 2) if ctx.tier == "quick" else range(4, 15, 2))], top_limit=ctx.scale(20, 60), max_exp=2.2)
    ctx.assume("exceptions inside Marko, catastrophic regex backtracking and wall-clock growth cannot be exhibited by the Lean model: "
               "they are monitored under a CPU watchdog, not proved")
    ctx.rule("malformed stream: random sequences over a punctuation/control/delimiter soup (length ≤200) × random option values "
             "(any width ∈ ℤ, all switches, plaintext); structured documents (dirty mode, CRLF variants); pumped families unit^n; code blocks with blank "
             "lines in 1–3 nested containers; documents of 256 vs 1024 (thorough 512 vs 4096) small blocks for growth in the number of blocks")


def search(ctx: Ctx) -> None:
    monitor(ctx, 60000, 2000, limit=10)


def replay(ctx: Ctx, path: str) -> int:
    r = json.loads(open(path).read())
    print(json.dumps(r.get("input"), ensure_ascii=False)[:1500])
    print(str(r.get("detail"))[:800])
    return 0
