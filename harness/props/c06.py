"""
C06 — Template tags and other atomic constructs are never split or displaced.

Ring 1: FM/Props/C06.lean (SPAN_INTACT, ALONE, BLOCKGAP/NOGAP, PRE_GAP, PRE_CODE_UNTOUCHED, SEP_false).
Ring 2: ties — atoms (scanner models = ATOMIC_CONSTRUCT_PATTERN, bounded-exhaustive), mdsplit (word splitter),
        norm/denorm (adjacent tags), mdwrap (hard-break + tag-newline layers around a symbolic base wrapper),
        preprocess (preprocess_tag_block_spacing), fullwrap (the two complete Markdown wrappers).
Ring 3: on the real wrappers / formatter: every construct lies within one output line at every width ≥ 1 in both
        modes, spacing between constructs is kept, tag-only lines stay alone and unindented, enclosed lists/tables
        stay lists/tables separated by a blank line.
"""
from __future__ import annotations

import itertools
import json
import re

import gen
from common import Ctx, dec, dec_list, enc, run_driver
from leanbuild import lean_obligations

ALPHA = ["{", "%", "#", "}", "<", "!", "-", ">", "[", "]", "(", ")", "`", "/", "\"", " ", "a", "\n"]
FRAGS = ["{% a %}", "{% /a %}", "{{ v }}", "{# c #}", "<!-- x -->", "<!-- /x -->", "<b>", "</b>", "`c d`", "``e ` f``", "[l k](u v)",
         "[r][s]", "[t]", " ", "\n", "w", "%}", "{%", "-->", "<!--", "``", "`", "(", ")", "[", "]", "{% a b=\"c d\" %}", "<a href=\"x y\">"]
ATOMS = ["`code span here`", "[a link](http://x.y/z)", "[multi word link text](u)", "{% tag a=1 b=\"two words\" %}", "<b>", "</b>",
         "`x`", "[ref text][r]", "<!-- a comment here -->", "{{ some var }}", "{# a note #}", "<span class=\"x y\">", "``a ` b``",
         "{% a %}{% /a %}", "{% field %}{% /field %}", "![alt text](http://i.mg \"T t\")",
         "<use xlink:href=\"#a b\">", "<p xml:lang=\"en us\">", "<button v-on:click=\"go now\">", "<a x-on:click.prevent=\"do it\">", "<input data-a.b=\"1 2\" disabled>"]
LINES = ["{% field %}", "{% /field %}", "text here", "- item one", "  - nested", "| a | b |", "|---|---|", "<!-- c -->", "<!-- /c -->",
         "  <!-- ind -->", "word {% t %}", "{% t %} word", "", "  ", "1. one", "10) ten", "x {% a %}{% /a %} y", "{% a b=1", "c=2 %}{% /a %}",
         "c=2 %} {% /a %} tail", "{{ v }}", "{# n #}", "plain  ", "hard\\", "two  ", "* star", "+plus", "1.x", "-- x", "{{ /x }}", "{# /y #}", "  {% /z %}"]


def _real():
    from flowmark.linewrapping import atomic_patterns as ap, line_wrappers as lw, tag_handling as th, text_wrapping as tw
    return ap, lw, th, tw


def tie_scanners(ctx: Ctx) -> None:
    ap, lw, th, tw = _real()
    rng = ctx.rng
    maxlen = ctx.scale(4, 5)
    texts = ["".join(t) for n in range(0, maxlen + 1) for t in itertools.product(ALPHA, repeat=n)]
    n_exh = len(texts)
    for _ in range(ctx.scale(40000, 400000)):
        texts.append("".join(rng.choice(FRAGS) for _ in range(rng.randint(1, 9))))
    split = tw.get_html_md_word_splitter()
    outs = run_driver([f"atoms\t{enc(t)}" for t in texts], workers=16)
    outs2 = run_driver([f"mdsplit\t{enc(t)}" for t in texts], workers=16)
    outs3 = run_driver([f"norm\t{enc(t)}" for t in texts], workers=16)
    outs4 = run_driver([f"denorm\t{enc(t)}" for t in texts], workers=16)
    bad = [0, 0, 0]
    for t, o, o2, o3, o4 in zip(texts, outs, outs2, outs3, outs4):
        exp = ",".join(f"{m.start()}-{m.end()}" for m in ap.ATOMIC_CONSTRUCT_PATTERN.finditer(t))
        ctx.count(["atoms", t], nontrivial=bool(exp))
        if o != exp:
            bad[0] += 1
            ctx.tie_broken("atoms", {"text": t}, o, exp)
        exp2 = split(t)
        if o2 == "bad-op" or dec_list(o2) != exp2:
            bad[1] += 1
            ctx.tie_broken("mdsplit", {"text": t}, o2, exp2)
        if dec(o3) != th.normalize_adjacent_tags(t) or dec(o4) != th.denormalize_adjacent_tags(t):
            bad[2] += 1
            ctx.tie_broken("norm/denorm", {"text": t}, [dec(o3), dec(o4)], [th.normalize_adjacent_tags(t), th.denormalize_adjacent_tags(t)])
    ctx.obligation(f"tie atoms: scanner models = ATOMIC_CONSTRUCT_PATTERN.finditer on all {n_exh} strings over an {len(ALPHA)}-symbol alphabet ≤{maxlen} "
                   f"and {len(texts) - n_exh} fragment strings", "correspondence", bad[0] == 0, f"{bad[0]} disagreement(s)")
    ctx.obligation(f"tie mdsplit: model mdSplit = _HtmlMdWordSplitter on the same {len(texts)} strings", "correspondence", bad[1] == 0, f"{bad[1]} disagreement(s)")
    ctx.obligation(f"tie norm/denorm: adjacent-tag (de)normalisation on the same {len(texts)} strings", "correspondence", bad[2] == 0, f"{bad[2]} disagreement(s)")


def tie_layers(ctx: Ctx) -> None:
    import astser
    ap, lw, th, tw = _real()
    rng = ctx.rng
    real = lw._add_markdown_hard_break_handling(th.add_tag_newline_handling(astser.symbolic_wrapper))
    cases = []
    for _ in range(ctx.scale(15000, 150000)):
        n = rng.randint(1, 7)
        cases.append(("\n".join(rng.choice(LINES) for _ in range(n)), rng.choice(["", "- ", "> "]), rng.choice(["", "  ", "> "])))
    outs = run_driver([f"mdwrap\t{enc(t)}\t{enc(i)}\t{enc(s)}" for t, i, s in cases], workers=16)
    bad = 0
    for (t, i, s), o in zip(cases, outs):
        exp = real(t, i, s)
        ctx.count(["mdwrap", t, i, s], nontrivial="\n" in t)
        if o == "bad-op" or dec(o) != exp:
            bad += 1
            ctx.tie_broken("mdwrap", {"text": t, "i0": i, "s0": s}, o if o == "bad-op" else dec(o), exp)
    ctx.obligation(f"tie mdwrap: hard-break + tag-newline layers (symbolic base wrapper) on {len(cases)} multi-line texts",
                   "correspondence", bad == 0, f"{bad} disagreement(s)")
    docs = []
    for _ in range(ctx.scale(15000, 150000)):
        n = rng.randint(1, 8)
        docs.append("\n".join(rng.choice(LINES + ["```", "~~~", "````", "> ```", "    ```", "   ~~~ x", "```py", "> > ~~~"]) for _ in range(n)))
    outs = run_driver([f"preprocess\t{enc(t)}" for t in docs], workers=16)
    bad = 0
    for t, o in zip(docs, outs):
        exp = th.preprocess_tag_block_spacing(t)
        ctx.count(["preprocess", t], nontrivial=exp != t)
        if o == "bad-op" or dec(o) != exp:
            bad += 1
            ctx.tie_broken("preprocess", {"text": t}, o if o == "bad-op" else dec(o), exp)
    ctx.obligation(f"tie preprocess: model = preprocess_tag_block_spacing on {len(docs)} line sequences (tags, lists, tables, fences)",
                   "correspondence", bad == 0, f"{bad} disagreement(s)")


def rich_text(rng, atoms=True, hazards=True, breaks=True) -> str:
    voc = gen.PLAIN_WORDS + (gen.HAZARD_WORDS[:30] if hazards else []) + (ATOMS if atoms else []) + ["café.", "done.", "yes!", "e.g.", "end.”"]
    parts = []
    for _ in range(rng.randint(0, 30)):
        parts.append(rng.choice(voc))
        parts.append(rng.choice([" ", " ", " ", "  ", "\n", "\n", " \n", "\\\n", "  \n", "\n  "] if breaks else [" ", " ", "  ", "\n"]))
    return "".join(parts)


def tie_fullwrap(ctx: Ctx, n: int | None = None) -> None:
    from props.c11 import char_flags
    ap, lw, th, tw = _real()
    rng = ctx.rng
    cases = []
    for _ in range(n or ctx.scale(12000, 150000)):
        t = rich_text(rng)
        W = rng.choice([0, -1, 8, 15, 20, 30, 40, 60, 88])
        i0 = rng.choice(["", "- ", "> ", "1. ", "[^n]: "])
        s0 = rng.choice(["", " " * len(i0), "> ", "    "]) if i0 else rng.choice(["", "  "])
        cases.append((rng.choice(["fill", "sentence"]), W, rng.choice([20, 20, 10, 0]), i0, s0, t))
    outs = run_driver([f"fullwrap\t{m}\t{W}\t{ml}\t{enc(i0)}\t{enc(s0)}\t{enc(t)}\t{char_flags(t)}" for m, W, ml, i0, s0, t in cases], workers=16)
    bad = 0
    for (m, W, ml, i0, s0, t), o in zip(cases, outs):
        if m == "fill":
            exp = lw.line_wrap_to_width(width=W, is_markdown=True)(t, i0, s0)
        else:
            exp = lw.line_wrap_by_sentence(width=W, min_line_len=ml, is_markdown=True)(t, i0, s0)
        ctx.count(["fullwrap", m, W, ml, i0, s0, t], nontrivial="\n" in exp)
        ctx.bump("fullwrap:" + m)
        if o == "bad-op" or dec(o) != exp:
            bad += 1
            ctx.tie_broken("fullwrap", {"mode": m, "W": W, "minLen": ml, "i0": i0, "s0": s0, "text": t}, o if o == "bad-op" else dec(o), exp)
    ctx.obligation(f"tie fullwrap: Lean models of line_wrap_to_width / line_wrap_by_sentence (is_markdown=True) = the real wrappers on "
                   f"{len(cases)} rich paragraphs (atoms, tags, hazards, hard breaks, newlines; W incl. ≤0; indents)",
                   "correspondence", bad == 0, f"{bad} disagreement(s)")


# ------------------------------------------------------------------------------------------
# Ring 3


def atoms_intact(ctx: Ctx, n: int) -> None:
    ap, lw, th, tw = _real()
    rng = ctx.rng
    for _ in range(n):
        words = []
        for _ in range(rng.randint(2, 25)):
            words.append(rng.choice(ATOMS) if rng.random() < 0.35 else rng.choice(gen.PLAIN_WORDS + ["end.", "Yes!", "so?"]))
        text = " ".join(words)
        W = rng.choice(list(range(1, 21)) + [88])
        sem = rng.random() < 0.5
        i0 = rng.choice(["", "- ", "> "])
        s0 = " " * len(i0) if i0 != "> " else "> "
        w = lw.line_wrap_by_sentence(width=W, is_markdown=True) if sem else lw.line_wrap_to_width(width=W, is_markdown=True)
        out = w(text, i0, s0)
        case = {"text": text, "W": W, "semantic": sem, "i0": i0, "s0": s0}
        ctx.count(["atoms-intact", text, W, sem], nontrivial="\n" in out)
        lines = out.split("\n")
        body = [l[len(i0 if k == 0 else s0):] if l.startswith(i0 if k == 0 else s0) else l for k, l in enumerate(lines)]
        joined = " ".join(body)
        # every atom of the input occurs whole inside one output line, in order
        pos = 0
        ok = True
        for a in [x for x in words if x in ATOMS]:
            found = False
            for k in range(pos, len(body)):
                if a in body[k]:
                    pos = k
                    found = True
                    break
            if not found:
                ok = False
                known = None
                if sem and any(re.search(r"[.?!][\"'”’)]?( |$)", part) for part in [a]):
                    known = "C06-sentence-split-inside-atom"
                ctx.fail("INTACT: an atomic construct was broken across lines (or altered)", case, {"atom": a, "out": out}, known=known)
                break
        if ok:
            exp_words = text.replace("%}{%", "%} {%").split(" ")
            if re.sub(r"\s+", " ", joined).replace("%} {%", "%}{%") != re.sub(r"\s+", " ", text).replace("%} {%", "%}{%") and not any(
                    w_ in ("-", "+", "*", "#", ">") for w_ in words):
                sep = re.search(r"%\} \{%|\}\} \{\{|#\} \{#|--> <!--", text) is not None
                ctx.fail("SPACING: text between constructs changed beyond whitespace runs", case, out,
                         known="C06-separated-tags-lose-space" if sep else None)


GLUED_PAIR = re.compile(r"\{% [^%/][^%]*%\}\{% /[^%]*%\}|\{\{ [^}/][^}]*\}\}\{\{ /[^}]*\}\}|\{# [^#/][^#]*#\}\{# /[^#]*#\}|<!-- [^/](?:(?!-->).)*--><!-- /(?:(?!-->).)*-->")


def glued_pairs_intact(ctx: Ctx, n: int) -> None:
    """adjacent tags stay adjacent: tag-dense lines (about one token in four a tag construct: glued open/close pairs, pairs around
    words, single tags, also several on one line — props.c03.tag_line) wrapped at the widths where a glued pair starts or ends a
    line, in both modes and three containers; every glued pair must come out whole on one line and the text must be unchanged up
    to whitespace"""
    from props import c03
    ap, lw, th, tw = _real()
    rng = ctx.rng
    for _ in range(n):
        text = c03.tag_line(rng, rng.randint(5, 24))
        pairs = [m for m in GLUED_PAIR.finditer(text)]
        if not pairs:
            continue
        i0 = rng.choice(["", "- ", "> "])
        s0 = " " * len(i0) if i0 != "> " else "> "
        widths = {rng.randint(8, 100), 88}
        for m in pairs:
            for w in (m.start() - 1, m.start() + len(i0), m.end() + len(i0) - 1, m.end() + len(i0), (m.start() + m.end()) // 2):
                if w > 0:
                    widths.add(w)
                    widths.add(max(1, w - (text.rfind(" ", 0, max(m.start() - 1, 0)) + 1)))   # the same column on a later line
        for W in sorted(widths):
            for sem in (False, True):
                w = lw.line_wrap_by_sentence(width=W, is_markdown=True) if sem else lw.line_wrap_to_width(width=W, is_markdown=True)
                out = w(text, i0, s0)
                ctx.count(["glued-pairs", text, W, sem], nontrivial="\n" in out, sample=False)
                ctx.bump("glued-pairs")
                lines = out.split("\n")
                body = [l[len(i0 if k == 0 else s0):] if l.startswith(i0 if k == 0 else s0) else l for k, l in enumerate(lines)]
                case = {"text": text, "W": W, "semantic": sem, "i0": i0, "s0": s0}
                missing = [m.group(0) for m in pairs if not any(m.group(0) in b for b in body)]
                if missing:
                    ctx.fail("INTACT: a glued open/close tag pair was split or displaced", case, {"pair": missing[0], "out": out})
                    break
                if re.sub(r"\s+", " ", " ".join(body)).strip() != re.sub(r"\s+", " ", text).strip():
                    ctx.fail("SPACING: text between constructs changed beyond whitespace runs", case, out)
                    break


TAG_DOCS = [
    "```\ncode\n````\n\n{% t %}\n- a\n- b\n{% /t %}\n", "~~~\nx\n~~~~~\n\n<!-- t -->\n| a | b |\n|---|---|\n| 1 | 2 |\n<!-- /t -->\n",
    "{% field %}\n- item 1\n- item 2\n{% /field %}\n",
    "{% field %}\n| a | b |\n|---|---|\n| 1 | 2 |\n{% /field %}\n",
    "<!-- start -->\n1. one\n2. two\n<!-- /start -->\n",
    "{% a %}\nSome prose that is long enough to be wrapped at narrow widths, really it is long enough.\n{% /a %}\n",
    "Intro text.\n\n{% note %}\n\n- a\n- b\n\n{% /note %}\n\nOutro.\n",
    "{# comment #}\n* x\n* y\n{# /comment #}\n",
]


TAG_FAMS = [("{% field %}", "{% /field %}"), ("{% t a=1 %}", "{% /t %}"), ("<!-- start -->", "<!-- /start -->"), ("{# c #}", "{# /c #}"),
            ("{{ v }}", "{{ /v }}"), ("<!-- x:y k=\"v w\" -->", "<!-- /x:y -->"),
            # closers that are not spelled with a slash
            ("{% for x in items %}", "{% endfor %}"), ("{% if a %}", "{% endif %}"), ("{# begin #}", "{# end #}")]
TAG_BODIES = [
    ("list", "- item 1\n- item 2"), ("list", "* x\n* y\n* z"), ("list", "+ a\n+ b"), ("list", "1. one\n2. two"), ("list", "3) c\n4) d"),
    ("list", "- a\n  - nested\n- b"), ("list", "- a\n  - b\n    - c"), ("list", "1. a\n   - b\n     - c\n       - d"), ("list", "- a\n\n  - b\n\n    - c"),
    ("list", "- a long item that will need to be wrapped at narrow widths for sure\n- b"),
    ("table", "| a | b |\n|---|---|\n| 1 | 2 |"), ("table", "| a | b\n|---|---\n| 1 | 2"), ("table", "| a | b |\n|:--|--:|\n| 1 | 2 |\n| 3 | 4"),
    ("table", "|a|b|\n|-|-|\n|1|2|"), ("para", "Some prose that is long enough to be wrapped at narrow widths, really it is long enough."),
]


def gen_tag_docs(ctx: Ctx):
    """tag-delimited blocks: family × body × blank lines written or not × uniform indentation of the whole document × context"""
    docs = [(d, ("list" if re.search(r"^(- |\* |\d+\. )", d, re.M) else "table" if "|---|" in d else "para")) for d in TAG_DOCS]
    for (o, c) in TAG_FAMS:
        for kind, body in TAG_BODIES:
            for gap, trail in (("\n", ""), ("\n\n", ""), ("\n", " "), ("\n", "\t"), ("\n\n", "  ")):
                # `trail`: blanks after the tag on its line (the line is still a tag alone on its line)
                core = o + trail + gap + body + gap + c + trail + "\n"
                for ind in ("", "  ", "    "):
                    for ctxt in ("", "Intro text.\n\n"):
                        doc = ctxt + core + ("\nOutro.\n" if ctxt else "")
                        docs.append(("".join(ind + l if l.strip() else l for l in doc.splitlines(True)), kind))
    return docs


def tag_blocks(ctx: Ctx) -> None:
    import mdast
    from flowmark import reformat_text
    docs = gen_tag_docs(ctx)
    if ctx.tier == "quick":
        docs = docs[:len(TAG_DOCS)] + ctx.rng.sample(docs[len(TAG_DOCS):], 160)
    for doc, kind in docs:
        for W in (10, 20, 40, 88) if ctx.tier == "thorough" else ctx.rng.sample((10, 20, 40, 88), 2):
            for sem in (False, True):
                out = reformat_text(doc, width=W, semantic=sem, cleanups=False)
                case = {"doc": doc, "W": W, "semantic": sem}
                ctx.count(["tag-block", doc, W, sem])
                ctx.bump("tag-block:" + kind)
                in_tags = [l.strip() for l in doc.split("\n") if re.match(r"^(\{%|\{#|\{\{|<!--).*(%\}|#\}|\}\}|-->)$", l.strip())]
                out_lines = out.split("\n")
                for t in in_tags:
                    if t not in out_lines:
                        ctx.fail("ALONE: a tag that stood alone on an unindented line does not any more", case, {"tag": t, "out": out})
                        break
                else:
                    ast = mdast.norm_doc(out)
                    kinds = [b[0] for b in ast]
                    if kind in ("list", "table") and kind not in kinds:
                        ctx.fail("BLOCKGAP: a list/table enclosed by tag lines is no longer a list/table", case, {"kinds": kinds, "out": out})
                        continue
                    bad = False
                    for k, l in enumerate(out_lines):
                        if l in in_tags:
                            nb = [out_lines[j] for j in (k - 1, k + 1) if 0 <= j < len(out_lines)]
                            if any(re.match(r"^([-*+] |\d+[.)] |\|)", x) for x in nb):
                                ctx.fail("BLOCKGAP: tag line directly adjacent to a list/table line (no blank line)", case, out)
                                bad = True
                                break
                    if not bad and reformat_text(out, width=W, semantic=sem, cleanups=False) != out:
                        ctx.fail("tag-delimited block is not stable under re-formatting", case, out)


def replay_findings(ctx: Ctx) -> None:
    ap, lw, th, tw = _real()
    for fid, e in ctx.kf.items():
        c = e.get("input") or {}
        if "text" in c:
            w = lw.line_wrap_by_sentence(width=c["W"], is_markdown=True) if c.get("semantic") else lw.line_wrap_to_width(width=c["W"], is_markdown=True)
            out = w(c["text"], "", "")
            ctx.known_replay(fid, c["atom"] not in out if "atom" in c else c["must_contain"] not in out)
        elif "doc" in c:
            from flowmark import reformat_text
            out = reformat_text(c["doc"], width=c.get("W", 88), semantic=c.get("semantic", False), cleanups=False)
            ctx.known_replay(fid, c.get("must_contain", "\x00") not in out)


def run(ctx: Ctx) -> None:
    driver_ok = lean_obligations(ctx)
    replay_findings(ctx)
    if driver_ok:
        ctx.guard("tie scanners", tie_scanners)
        ctx.guard("tie layers", tie_layers)
        ctx.guard("tie fullwrap", tie_fullwrap)
    atoms_intact(ctx, ctx.scale(6000, 80000))
    glued_pairs_intact(ctx, ctx.scale(250, 6000))
    tag_blocks(ctx)
    ctx.assume("which strings are constructs is what ATOMIC_CONSTRUCT_PATTERN recognises (scanner models tied by enumeration, not proof); "
               "the placeholder encoding of _extract/_restore_atomic_constructs is covered by the mdsplit tie only")
    ctx.rule("scanners: all strings over an 18-symbol delimiter alphabet ≤4 (quick) + fragment strings; wrappers: random rich paragraphs; "
             "intactness: atoms vocabulary × widths 1..20,88 × both modes")


def search(ctx: Ctx) -> None:
    atoms_intact(ctx, 60000)
    glued_pairs_intact(ctx, 4000)
    ctx.tier = "thorough"      # the whole tag-block family, every width
    tag_blocks(ctx)


def replay(ctx: Ctx, path: str) -> int:
    r = json.loads(open(path).read())
    print(json.dumps(r.get("input"), ensure_ascii=False)[:2000])
    return 0
