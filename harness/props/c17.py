"""
C17 — File discovery returns exactly the wanted files, deterministically.

Ring 1: FM/Props/C17.lean — EXACT (traversal = its membership-only specification), SOUND, NO_LINKS, PRUNED, LISTING_ORDER,
        EXPLICIT, GLOB_FILTERED, MEMBERS, SORTED, NODUP, ARG_ORDER on the resolver model.
Ring 2: tie resolve — the model against FileResolver.resolve on generated trees (links, ignore files, settings, argument
        mixes), pathspec's answers supplied as tables.
Ring 3: an independent reference walk (os.scandir, never os.walk; own glob expansion) giving must/may sets; shape of the
        result (absolute, resolved, sorted, duplicate-free); independence of argument order and of directory listing order;
        `flowmark --list-files` = the API.
"""
from __future__ import annotations

import json
import os
import random
import subprocess
import sys
from pathlib import Path

import fstree
import resolvetie
from common import Ctx
from leanbuild import lean_obligations


class ShuffledScandir:
    """os.scandir that lists entries in a random order (what a different file system would do)"""
    def __init__(self, real, rng):
        self.real, self.rng = real, rng

    def __call__(self, path="."):
        it = self.real(path)
        entries = list(it)
        it.close()
        self.rng.shuffle(entries)
        return _Ctx(entries)


class _Ctx:
    """iterator + context manager, like the object os.scandir returns"""
    def __init__(self, entries):
        self.it = iter(entries)

    def __iter__(self):
        return self

    def __next__(self):
        return next(self.it)

    def __enter__(self):
        return self

    def __exit__(self, *a):
        return False

    def close(self):
        pass


def short(t, paths):
    return sorted(p.replace(str(t.base), "") for p in paths)


def oracle(ctx: Ctx, n: int, git: bool) -> None:
    rng = ctx.rng
    for i in range(n):
        t = fstree.gen_tree(rng, git=git and i % 4 == 0, links=(i % 2 == 0))
        try:
            s = fstree.gen_settings(rng)
            args = [a for a in fstree.gen_args(rng, t) if Path(a).exists() or any(c in a for c in "*?[")]
            if not args:
                continue
            args, wd = fstree.relativise(rng, t, args)
            os.chdir(wd)
            case = {"settings": s, "args": [a.replace(str(t.base), "") for a in args], "cwd": wd.replace(str(t.base), ""), "tree": resolvetie.listing(t)}
            try:
                real = fstree.real_resolve(s, args)
            except Exception as e:
                ctx.fail("resolve raised", case, repr(e))
                continue
            must, may = fstree.wanted(s, args)
            rs = set(real)
            ctx.count(["resolve", s, len(args)], nontrivial=len(must) > 0, sample=(i % 61 == 3))
            ctx.bump("trees")
            if rs - may:
                ctx.fail("SOUND: a listed file fails a filter (include / excluded directory / ignore rule / size / link)", case,
                         {"unexpected": short(t, rs - may)})
                continue
            if must - rs:
                ctx.fail("COMPLETE: a file that passes every filter is missing", case, {"missing": short(t, must - rs)})
                continue
            if len(rs) != len(real) or real != [str(p) for p in sorted(Path(x) for x in real)]:
                ctx.fail("SORTED_NODUP: result is not sorted or has duplicates", case, short(t, real))
                continue
            if any(not os.path.isabs(p) or os.path.realpath(p) != p for p in real):
                ctx.fail("ABSOLUTE: a result path is not absolute and resolved", case, short(t, real))
                continue
            # argument order / repetition
            args2 = args[:] + [rng.choice(args)]
            rng.shuffle(args2)
            r2 = fstree.real_resolve(s, args2)
            if r2 != real:
                ctx.fail("ARG_ORDER: the result depends on the order (or repetition) of the arguments", dict(case, args2=[a.replace(str(t.base), "") for a in args2]),
                         {"first": short(t, real), "second": short(t, r2)})
                continue
            # listing order
            real_scandir = os.scandir
            os.scandir = ShuffledScandir(real_scandir, random.Random(rng.random()))
            try:
                r3 = fstree.real_resolve(s, args)
            finally:
                os.scandir = real_scandir
            if r3 != real:
                ctx.fail("LISTING_ORDER: the result depends on the order in which directories list their entries", case,
                         {"first": short(t, real), "second": short(t, r3)})
        finally:
            os.chdir("/")
            t.close()


def cli_oracle(ctx: Ctx, n: int) -> None:
    rng = ctx.rng
    for i in range(n):
        t = fstree.gen_tree(rng, git=(i % 2 == 0), links=(i % 2 == 1))
        try:
            s = fstree.gen_settings(rng)
            args = [a for a in fstree.gen_args(rng, t) if Path(a).exists() or any(c in a for c in "*?[")]
            if not args:
                continue
            flags = ["--list-files"]
            if "include" in s:
                continue        # the include list itself is a config-file key, not a flag
            for k in ("extend_include", "exclude", "extend_exclude"):
                for v in s.get(k, []) or []:
                    flags += ["--" + k.replace("_", "-"), v]
            if s.get("exclude") == []:
                continue        # "no excludes at all" cannot be said on the command line
            if not s.get("respect_gitignore", True):
                flags.append("--no-respect-gitignore")
            if s.get("force_exclude"):
                flags.append("--force-exclude")
            flags += ["--files-max-size", str(s.get("files_max_size", 1_048_576))]
            r = subprocess.run([sys.executable, "-m", "flowmark.cli", *flags, *args], capture_output=True, text=True, cwd=str(t.base))
            api = fstree.real_resolve(s, args)
            ctx.count(["cli", s, len(args)], nontrivial=len(api) > 0)
            ctx.bump("cli")
            got = [l for l in r.stdout.split("\n") if l]
            if r.returncode != 0 or got != api:
                ctx.fail("CLI: flowmark --list-files differs from FileResolver.resolve", {"settings": s, "args": [a.replace(str(t.base), "") for a in args], "flags": flags},
                         {"rc": r.returncode, "cli": short(t, got), "api": short(t, api), "stderr": r.stderr[-300:]})
        finally:
            t.close()


def build(spec: dict) -> fstree.Tree:
    import tempfile
    t = fstree.Tree(Path(tempfile.mkdtemp(prefix="fmtree.")))
    t.root.mkdir(parents=True)
    t.outside.mkdir()
    for rel, content in spec.get("files", {}).items():
        p = t.base / rel
        p.parent.mkdir(parents=True, exist_ok=True)
        p.write_text(content)
    for rel, target in spec.get("links", {}).items():
        p = t.base / rel
        p.parent.mkdir(parents=True, exist_ok=True)
        p.symlink_to(t.base / target)
    return t


# fixed scenarios for the corners a random tree reaches only now and then: (files, links, settings, args, absent, present)
SPECIAL = [
    ({"outer/root/docs/api/ref.md": "x", "outer/root/docs/guide.md": "x", "outer/root/pkg/out/readme.md": "x", "outer/root/out/top.md": "x"}, {},
     {"extend_exclude": ["docs/api/", "/out/"]}, ["outer/root/**/*.md"],
     ["/outer/root/docs/api/ref.md", "/outer/root/out/top.md"], ["/outer/root/docs/guide.md", "/outer/root/pkg/out/readme.md"]),
    ({"outer/root/docs/api/ref.md": "x", "outer/root/docs/guide.md": "x", "outer/root/pkg/out/readme.md": "x", "outer/root/out/top.md": "x"}, {},
     {"extend_exclude": ["docs/api/", "/out/"]}, ["outer/root"],
     ["/outer/root/docs/api/ref.md", "/outer/root/out/top.md"], ["/outer/root/docs/guide.md", "/outer/root/pkg/out/readme.md"]),
    ({"outer/root/a/.flowmarkignore": "sub/x.md\n", "outer/root/a/sub/x.md": "x", "outer/root/a/sub/y.md": "x", "outer/root/a/x.md": "x"}, {},
     {}, ["outer/root/a/**/*.md", "outer/root/a"], ["/outer/root/a/sub/x.md"], ["/outer/root/a/sub/y.md", "/outer/root/a/x.md"]),
    ({"outer/root/alpha/z.md": "x", "outer/root/beta/a.md": "x"}, {"outer/root/zlink": "outer/root/alpha"},
     {}, ["outer/root/zlink", "outer/root/beta"], [], ["/outer/root/alpha/z.md", "/outer/root/beta/a.md"]),
    ({"outer/root/big.md": "x" * 101, "outer/root/ok.md": "x" * 100, "outer/root/node_modules/n.md": "x"}, {},
     {"files_max_size": 100, "force_exclude": True}, ["outer/root/big.md", "outer/root/ok.md", "outer/root/node_modules/n.md"],
     ["/outer/root/big.md", "/outer/root/node_modules/n.md"], ["/outer/root/ok.md"]),
    ({"outer/root/node_modules/n.md": "x", "outer/root/a.md": "x"}, {}, {"force_exclude": False},
     ["outer/root/node_modules/n.md", "outer/root/a.md", "outer/root/a.md"], [], ["/outer/root/node_modules/n.md", "/outer/root/a.md"]),
]


def special_scenarios(ctx: Ctx) -> None:
    for files, links, settings, args, absent, present in SPECIAL:
        t = build({"files": files, "links": links})
        try:
            for rel in (False, True):
                if rel:
                    os.chdir(t.base / "outer")
                    a = [x[len("outer/"):] for x in args]
                else:
                    a = [str(t.base / x) for x in args]
                real = fstree.real_resolve(settings, a)
                got = short(t, real)
                ctx.count(["special", sorted(files), settings, args, rel], nontrivial=True)
                ctx.bump("special-scenarios")
                case = {"files": sorted(files), "links": links, "settings": settings, "args": a, "relative": rel}
                if any(x in got for x in absent) or any(x not in got for x in present):
                    ctx.fail("SOUND/COMPLETE: a fixed scenario lists a file it must not, or misses one it must list", case,
                             {"listed": got, "must_not": absent, "must": present})
                elif real != [str(p) for p in sorted(Path(x) for x in real)] or len(set(real)) != len(real):
                    ctx.fail("SORTED_NODUP: result is not sorted or has duplicates", case, got)
        finally:
            os.chdir("/")
            t.close()


def replay_findings(ctx: Ctx) -> None:
    for fid, e in ctx.kf.items():
        c = e.get("input") or {}
        if "files" not in c:
            continue
        t = build(c)
        try:
            real = short(t, fstree.real_resolve(c.get("settings", {}), [str(t.base / a) for a in c["args"]]))
            bad = any(x in real for x in c.get("absent", [])) or any(x not in real for x in c.get("present", []))
            ctx.known_replay(fid, bad)
        finally:
            t.close()


def run(ctx: Ctx) -> None:
    driver_ok = lean_obligations(ctx)
    replay_findings(ctx)
    if driver_ok:
        ctx.guard("tie resolve", resolvetie.tie_resolve, ctx.scale(250, 5000), False)
    special_scenarios(ctx)
    oracle(ctx, ctx.scale(350, 8000), git=True)
    cli_oracle(ctx, ctx.scale(12, 300))
    ctx.rule("random trees (depth ≤ 4, names incl. default-excluded ones, sizes around the limit, links to files/directories inside and "
             "outside, broken links, .flowmarkignore at or above the root) × random settings (include/extend/exclude/extend/force/"
             "max-size/gitignore) × 1–4 arguments (files, directories, globs), each also shuffled and with shuffled directory listings")
    ctx.assume("what a pattern matches is pathspec's business (a parameter of the model, answers supplied as tables); what a glob "
               "expands to is pathlib's (trees with directory links get no glob arguments); where the property is open — a "
               ".flowmarkignore above the walk root — both readings are accepted (must/may)")


def search(ctx: Ctx) -> None:
    oracle(ctx, 3000, git=True)


def replay(ctx: Ctx, path: str) -> int:
    r = json.loads(open(path).read())
    print(json.dumps(r.get("input"), ensure_ascii=False)[:3000])
    print(str(r.get("detail"))[:800])
    return 0
