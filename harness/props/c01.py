"""
C01 — Formatting preserves the meaning of the document.

Ring 1: FM/Props/C01.lean — renderer state discipline (FRAME, PD), escape sufficiency at introduced line heads (NH),
        word preservation (via C05/C11 theorems), construct-local lemmas.
Ring 2: tie render (Lean render model = MarkdownNormalizer on Marko ASTs), tie escape/fill (shared with C05).
Ring 3: reading the formatted output as Markdown gives the same document: canonical Marko AST of fmt(x) = that of x,
        for generated documents × widths × both modes, cleanups/typography off, list_spacing=preserve.
"""
from __future__ import annotations

import json

import mdast
import mdgen
import rendertie
from common import Ctx
from leanbuild import lean_obligations

OPTS = [(0, False), (20, False), (40, True), (88, False), (12, True), (88, True)]

# hazard words that the current escape does not cover (finding C01-unescaped-line-head-hazards)
UNHANDLED = ("---", "***", "___", "===", "=", "--", "~~~", "```", ">x", "|", "|---|", ":-:")


def fmt(doc: str, W: int, sem: bool) -> str:
    from flowmark import reformat_text
    return reformat_text(doc, width=W, semantic=sem, cleanups=False, smartquotes=False, ellipses=False)


import re

HAZ_ANY = re.compile(r"(?:(?<=\s)|^)(?:[-+*>]|#{1,6}|\d{1,9}\\?[.)]|\\[-+*>#]+|---+|\*\*\*+|___+|=+|--|~~~+|```+|>\S+|\|\S*|:-+:?)(?=\s|$|\\$)", re.M)
TRIGGERS = [
    ("C01-heading-in-tight-list", re.compile(r"^[ >]*(?:[-*+]|\d+[.)])[ ]+#{1,6}[ ]", re.M)),
    ("C01-adjacent-ordered-lists-merge", re.compile(r"^[ >]*\d+\)[ ]", re.M)),
    ("C01-leading-indented-code", re.compile(r"\A\s*?(?:\n)*(?: {4}|\t)")),
    ("C01-hardbreak-after-bare-url", re.compile(r"(?:https?://|www\.)\S*(?:  |\\)\n")),
    ("C06-separated-tags-lose-space", re.compile(r"%\} \{%|\}\} \{\{|#\} \{#|--> <!--")),
]


def _haz_sub(body: str, para_start: bool) -> str:
    """replace marker-like words; an ESCAPED marker opening a PARAGRAPH ('1\\. not a list', '\\- dash' after a blank line) is
    ordinary input the formatter has to keep escaped — not a trigger of the wrapped-line-head finding — and stays"""
    def repl(mm) -> str:
        if para_start and mm.start() == 0 and "\\" in mm.group(0):
            return mm.group(0)
        return "w" * max(1, len(mm.group(0)))
    return HAZ_ANY.sub(repl, body)


_DELIM_ROW = re.compile(r"^[ >]*\|?[ ]*:?-+:?[ ]*(?:\|[ ]*:?-+:?[ ]*)*\|?[ ]*$")


def table_lines(lines: list[str]) -> set[int]:
    """indices of the lines that belong to a GFM table: a delimiter row, the header above it and the '|' rows below it"""
    out: set[int] = set()
    for i, l in enumerate(lines):
        if "|" in l and "-" in l and _DELIM_ROW.match(l) and i > 0 and "|" in lines[i - 1]:
            j = i + 1
            while j < len(lines) and lines[j].lstrip(" >").startswith("|"):
                j += 1
            # only if the parser itself reads these lines as a table (cell counts must agree, …)
            block = "\n".join(re.sub(r"^[ >]*", "", x) for x in lines[i - 1:j]) + "\n"
            try:
                kids = mdast.parse(block).children
                if kids and type(kids[0]).__name__ == "Table":
                    out.update(range(i - 1, j))
            except Exception:
                pass
    return out


def neutralise(doc: str) -> str:
    """Remove exactly the triggers of the known findings (and nothing else)."""
    d = doc
    d = re.sub(r"^([ >]*(?:[-*+]|\d+[.)])[ ]+)#{1,6}[ ]", r"\1", d, flags=re.M)       # heading as item child -> paragraph
    d = re.sub(r"^([ >]*\d+)\)([ ])", r"\1.\2", d, flags=re.M)                       # 1) -> 1.
    d = re.sub(r"\A(\s*\n)*(?: {4}|\t)", "", d)                                      # leading indented code
    d = re.sub(r"((?:https?://|www\.)\S*?)(  |\\)\n", r"\1 x\2\n", d)
    d = re.sub(r"(%\}|\}\}|#\}|-->) (?=\{%|\{\{|\{#|<!--)", r"\1 x ", d)                    # a word between separated tags                # word between bare URL and hard break
    lines = []
    fence = ""
    prev_blank = True
    all_lines = d.split("\n")
    tbl = table_lines(all_lines)
    for idx, line in enumerate(all_lines):
        was_blank, prev_blank = prev_blank, not line.strip(" >\t")
        st = re.sub(r"^(?:[ ]{0,3}>[ ]?|[ ]+|(?:[-*+]|\d+[.)])[ ]+)*", "", line)
        fm = re.match(r"^(`{3,}|~{3,})(.*)$", st)
        if fence:
            lines.append(line)
            if fm and fm.group(1)[0] == fence[0] and len(fm.group(1)) >= len(fence) and not fm.group(2).strip():
                fence = ""
            continue
        if fm and not (fm.group(1)[0] == "`" and "`" in fm.group(2)):
            fence = fm.group(1)
            lines.append(line)
            continue
        if idx in tbl:
            lines.append(line)          # a table row is structure, not prose with marker-like words
            continue
        m = re.match(r"^([ >]*(?:(?:[-*+]|\d+[.)])[ ]+(?:\[[ xX]\][ ]+)?)*(?:#{1,6}[ ]+)?)(.*)$", line)
        head, body = m.group(1), m.group(2)
        body = _haz_sub(body, was_blank or bool(head.strip(" >")))               # hazard words inside prose
        lines.append(head + body)
    return "\n".join(lines)


def neutralise_hard(doc: str) -> str:
    out = []
    prev_blank = True
    all_lines = neutralise(doc).split("\n")
    tbl = table_lines(all_lines)
    for idx, line in enumerate(all_lines):
        was_blank, prev_blank = prev_blank, not line.strip(" >\t")
        if idx in tbl:
            out.append(line)
            continue
        m = re.match(r"^([ >]*(?:(?:[-*+]|\d+[.)])[ ]+(?:\[[ xX]\][ ]+)?)*(?:#{1,6}[ ]+)?)(.*)$", line)
        out.append(m.group(1) + _haz_sub(m.group(2), was_blank or bool(m.group(1).strip(" >"))))
    return "\n".join(out)


def attribute(ctx: Ctx, doc: str, W: int, sem: bool) -> str | None:
    """Counterfactual attribution: the failure is blamed on known findings only if it disappears once
    their triggers are removed from the input; otherwise it is a new violation (None)."""
    nd = neutralise(doc)
    if nd == doc:
        return None

    def clean(d: str) -> bool:
        try:
            return mdast.norm_doc(d.strip() + "\n") == mdast.norm_doc(fmt(d, W, sem))
        except Exception:
            return False
    if not clean(nd):
        # the line-by-line fence tracker of `neutralise` can lose track (a fence-looking line inside an indented code block);
        # second attempt: the marker-like words go from every line, code or not
        hard = neutralise_hard(doc)
        if hard == doc or not clean(hard):
            return None
    for fid, rx in TRIGGERS:
        if rx.search(doc):
            return fid
    return "C01-unescaped-line-head-hazards"


def ast_oracle(ctx: Ctx, docs, label: str) -> None:
    for i, doc in enumerate(docs):
        try:
            a = mdast.norm_doc(doc.strip() + "\n")
        except Exception as e:
            ctx.fail("parser raised on the input", {"doc": doc}, repr(e))
            continue
        for W, sem in OPTS if ctx.tier == "thorough" else [OPTS[i % len(OPTS)], OPTS[(i + 3) % len(OPTS)]]:
            try:
                out = fmt(doc, W, sem)
                b = mdast.norm_doc(out)
            except Exception as e:
                ctx.fail("format or re-parse raised", {"doc": doc, "W": W, "semantic": sem}, repr(e))
                continue
            ctx.count(["ast", doc, W, sem], nontrivial=len(a) > 0, sample=(i % 211 == 5 and W == 20))
            ctx.bump(label)
            if a != b:
                d = mdast.first_diff(a, b) or "?"
                ctx.fail("MEANING: the formatted output reads as a different document", {"doc": doc, "W": W, "semantic": sem},
                         {"diff": d, "out": out}, known=attribute(ctx, doc, W, sem))


def gen_docs(ctx: Ctx, n: int, **kw):
    rng = ctx.rng
    return [mdgen.gen_document(rng, quotes=(i % 2 == 0), tags=(i % 5 == 0), html=(i % 3 == 0), **kw) for i in range(n)]


BS_HEADS = ["-", "+", "*", "#", "##", "######", "#######", ">", ">x", "1.", "1)", "2.", "10.", "123456789.", "1234567890.", "---", "--", "-", "***",
            "**", "___", "__", "===", "=", "```", "``", "````", "~~~", "~~", "```a", "~~~a", "x", "a.", "-x", "+1", "#x", "\\-", "1\\.", "|", ":-:",
            "- -", "* * *", "_ _ _", "<div>", "[x]:"]
BS_RESTS = [[], ["x"], ["-"], ["---"], ["`a`"], ["x", "y"], ["-", "-"], ["*", "*"]]


def monitor_blockstart(ctx: Ctx) -> None:
    """P-blk: the SPEC `interruptsPara` against two independent readers (Marko as flowmark configures it, markdown-it-py)."""
    from common import enc_list, run_driver
    from markdown_it import MarkdownIt
    mdit = MarkdownIt("commonmark").enable("table").enable("strikethrough")
    lines = []
    for h in BS_HEADS:
        for r in BS_RESTS:
            ws = h.split(" ") + r
            lines.append(ws)
    outs = run_driver([f"interrupts\t{enc_list(ws)}" for ws in lines])
    both = one = 0
    notes = []
    for ws, o in zip(lines, outs):
        line = " ".join(ws)
        text = "para text\n" + line + "\n"
        d = mdast.norm_doc(text)
        marko_int = not (len(d) == 1 and d[0][0] == "para")
        toks = mdit.parse(text)
        top = [t.type for t in toks if t.level == 0 and t.type.endswith("_open") or (t.level == 0 and t.type in ("hr", "fence", "code_block"))]
        mdit_int = top != ["paragraph_open"]
        spec = o == "1"
        ctx.count(["blockstart", line])
        if spec != marko_int and spec != mdit_int:
            both += 1
            notes.append(f"{line!r}: spec={spec} marko={marko_int} markdown-it={mdit_int}")
        elif spec != marko_int or spec != mdit_int:
            one += 1
            if len(notes) < 30:
                notes.append(f"(readers differ) {line!r}: spec={spec} marko={marko_int} markdown-it={mdit_int}")
    ctx.extra["blockstart_monitor"] = {"lines": len(lines), "spec_vs_both_readers": both, "readers_disagree": one, "notes": notes[:30]}
    ctx.obligation(f"monitor P-blk: SPEC interruptsPara agrees with at least one of Marko / markdown-it-py on {len(lines)} continuation lines "
                   f"({one} lines on which the two readers themselves differ)", "monitor", both == 0, "; ".join(notes[:6]))


def replay_findings(ctx: Ctx) -> None:
    for fid, e in ctx.kf.items():
        inp = e.get("input") or {}
        if "doc" in inp:
            out = fmt(inp["doc"], inp.get("W", 88), inp.get("semantic", False))
            try:
                still = mdast.norm_doc(inp["doc"].strip() + "\n") != mdast.norm_doc(out)
            except Exception:
                still = True
            ctx.known_replay(fid, still)


def run(ctx: Ctx) -> None:
    driver_ok = lean_obligations(ctx)
    replay_findings(ctx)
    if driver_ok:
        ctx.guard("tie render", rendertie.tie_render, ctx.scale(250, 4000))
        from props import c05
        ctx.guard("tie escape", c05.tie_escape)
        ctx.guard("monitor P-blk", monitor_blockstart)
        from props import c06
        ctx.guard("tie fullwrap", c06.tie_fullwrap, ctx.scale(6000, 60000))
        ctx.guard("tie layers", c06.tie_layers)
    ast_oracle(ctx, rendertie.SPECIAL_DOCS, "special")
    ast_oracle(ctx, gen_docs(ctx, ctx.scale(500, 8000)), "generated-clean")
    ast_oracle(ctx, gen_docs(ctx, ctx.scale(40, 2000), hazards=True, clean=False), "generated-hazards")
    # code blocks whose fence the renderer itself chooses (indented code holding fence-like runs at 0–4 columns of extra
    # indentation, in seven containers) and spans laid out over several source lines: the families of props/c04.py, read here
    # for block structure; their own PRNG stream, so the streams above stay what they were
    import random
    from props import c04
    frng = random.Random(f"{ctx.prop}:families:{ctx.seed}")
    ast_oracle(ctx, c04.indented_code_docs(frng, ctx.scale(60, 1500)), "indented-code")
    ast_oracle(ctx, c04.split_span_docs(frng, ctx.scale(40, 1000)), "split-span")
    ctx.assume("Marko's parse of the INPUT is taken as the document the author wrote (the parser itself is third party)")
    ctx.rule("structured generator (blocks × inlines × layouts) × widths {0,12,20,40,88} × both modes; canonical-AST equality; "
             "hazard stream attributed counterfactually to KNOWN_FINDINGS")


def search(ctx: Ctx) -> None:
    for b in ctx.broken_inputs:
        c = b["case"]
        doc = c.get("doc")
        if doc:
            ast_oracle(ctx, [doc], "from-broken-tie")
        elif "text" in c:
            # a paragraph / line sequence on which a wrapper-layer tie broke: read it as a document
            t = c["text"]
            W = c.get("W", 88)
            sem = c.get("mode") == "sentence"
            for d in (t + "\n", "- " + t.replace("\n", "\n  ") + "\n", "> " + t.replace("\n", "\n> ") + "\n"):
                try:
                    a = mdast.norm_doc(d.strip() + "\n")
                    out = fmt(d, W if isinstance(W, int) else 88, sem)
                    if a != mdast.norm_doc(out):
                        ctx.fail("MEANING: the formatted output reads as a different document", {"doc": d, "W": W, "semantic": sem},
                                 {"diff": mdast.first_diff(a, mdast.norm_doc(out)), "out": out}, known=attribute(ctx, d, W, sem))
                except Exception as e:
                    ctx.fail("format or re-parse raised", {"doc": d, "W": W, "semantic": sem}, repr(e))
    ast_oracle(ctx, gen_docs(ctx, 3000), "search-clean")


def replay(ctx: Ctx, path: str) -> int:
    r = json.loads(open(path).read())
    c = r.get("input") or {}
    if "doc" in c:
        out = fmt(c["doc"], c["W"], c["semantic"])
        print(out)
        print(mdast.first_diff(mdast.norm_doc(c["doc"].strip() + "\n"), mdast.norm_doc(out)))
    return 0
