"""
C03 — Output is a canonical form independent of the input's line layout.

Ring 1: FM/Props/C03.lean — RELAYOUT_break / RELAYOUT_spaces (the two re-layout moves do not change the collapsed text),
        LAYOUT_FN_fill / LAYOUT_FN_sentence (base wrappers are functions of the collapsed text, every width),
        LAYERS_TRANSPARENT (hard-break and tag layers pass text through unless a line starts/ends with a tag),
        LAYOUT_FN / LAYOUT_FN_semantic (complete wrappers), SOFTBREAK, REWIDTH_partial / REWIDTH_plain, REWIDTH_false.
Ring 2: tie fullwrap (complete wrapper models = real wrappers), tie render.
Ring 3: (A) fmt(relayout(x), o) == fmt(x, o) for re-layouts that the parser itself reads as the same document and that leave
        tag-adjacent newlines and hard breaks alone; (B) fmt(fmt(x, o1), o2) == fmt(x, o2) for o1 = o2 except width / mode.
        Tag-dense paragraphs (several tags and glued open/close pairs per line) get their own stream for (A), (B) and the mdwrap
        tie; a (B) failure counts as the introduced-tag-newline finding only if every tag touches the same neighbours in the
        intermediate and the direct output (tag_glue): a pair glued in one and split in the other is not a wrap point.
"""
from __future__ import annotations

import json
import re

import mdast
import mdgen
import rendertie
from common import Ctx
from leanbuild import lean_obligations

TAG_EDGE = re.compile(r"(%\}|\}\}|#\}|-->|\{%|\{\{|\{#|<!--)")
WIDTHS = (0, 12, 20, 30, 40, 60, 88)
TAG_FIRST_WIDTHS = tuple(range(16, 132))
TAG_TARGET_WIDTHS = (0, 20, 30, 40, 60, 88, 100, 120)

SPECIAL = [
    "The details are all given in section 2. of the appendix near the end of the book, as is 3. and 14. too, it is said.\n",
    "Some text ~(bad)~ here and ~~(gone)~~ there with ~ok~ words to wrap around at the narrow widths, yes it is long.\n",
    "Step 12\\. is not a list and 3\\. neither, with enough words around 7\\. to wrap at the narrow widths we use here.\n",
    "- item text with a stray {% /note %} closing tag and more words here to wrap around the line for sure\n  continued text here\n",
    "See the [foo bar] page and the [other\nthing] too, with enough words to wrap around at narrow widths.\n\n[foo bar]: http://x.y/z\n[other thing]: http://x.y/w\n",
    "A paragraph of plain words that is long enough to be wrapped at most of the widths used here, yes it is.\n",
    "- item text that is long enough to wrap at narrow widths for sure\n  continued here\n- second\n",
    "> quoted text that is long enough to wrap\n> and continues here for a while longer\n",
    "1. one two three four five six seven eight nine ten eleven twelve\n   thirteen fourteen\n",
    "text[^1] more words here\n\n[^1]: A note that is long enough to wrap around when the width is narrow enough.\n    It continues.\n",
    "Sentence one is here. Sentence two follows it! And a third? Yes.\nAnother line. More.\n",
    "*emphasis that spans\nlines* and **strong\ntext** with `code span` and [a link](http://x.y/z \"t\") end.\n",
    "word {% tag %} word {% /tag %} words and more words to wrap around the line for sure yes\n",
    "a line with a hard break\\\nand the next line  \nand the last\n",
    "| a | b |\n|---|---|\n| 1 | 2 |\n\nafter the table some text that wraps around at narrow widths\n",
    "Setext heading here\n===\n\nbody text long enough to be wrapped at narrow widths, it is\n",
    "- [ ] task item with enough words to wrap around at the narrow widths we use\n",
]

# hand-written tag-dense paragraphs (forms, callouts): glued open/close pairs after other tags of the same line
TAG_SPECIAL = [
    "Please state your name {% field id=1 %}{% /field %} and, past the {% sep %} mark, the town you live in {% field id=2 %}{% /field %} "
    "as well as the year {% field id=3 kind=\"number\" %}{% /field %} in which you moved there, thank you.\n",
    "- an item with a note <!-- note id=7 --><!-- /note --> in it, then a marker {# todo #} and a second pair {# c #}{# /c #} that is "
    "followed by enough plain words to be wrapped a few times at the widths used here\n",
    "> quoted words {{ user }} and a pair {{ slot }}{{ /slot }} here, then {% callout kind=\"tip\" %}short text{% /callout %} and a "
    "last pair {% t %}{% /t %}, all of it long enough to wrap more than once inside the quote.\n",
]
TAG_FAMILIES = [("{% ", " %}"), ("{% ", " %}"), ("{% ", " %}"), ("<!-- ", " -->"), ("{# ", " #}"), ("{{ ", " }}")]
TAG_NAMES = ["field", "note", "t", "callout"]
TAG_ATTRS = ["", "", " id=1", " a=1 b=2", " kind=\"string\" label='x'"]
TAG_RE = re.compile(r"\{%.*?%\}|\{\{.*?\}\}|\{#.*?#\}|<!--.*?-->", re.S)
# two tags of one family with only whitespace between them: the trigger of C06-separated-tags-lose-space
SEPARATED_TAGS = re.compile(r"%\}\s+\{%|\}\}\s+\{\{|#\}\s+\{#|-->\s+<!--")


def tag_unit(rng) -> str:
    """one inline template-tag construct: a glued open/close pair, a pair around a word or a few words, a single tag (possibly
    glued to punctuation)"""
    o, c = rng.choice(TAG_FAMILIES)
    name = rng.choice(TAG_NAMES)
    opening, closing = f"{o}{name}{rng.choice(TAG_ATTRS)}{c}", f"{o}/{name}{c}"
    r = rng.random()
    if r < 0.40:
        return opening + closing
    if r < 0.52:
        return opening + rng.choice(mdgen.WORDS) + closing
    if r < 0.62:
        return f"{opening} {rng.choice(mdgen.WORDS)} {rng.choice(mdgen.WORDS)} {closing}"
    if r < 0.72:
        return opening + rng.choice([",", ".", ":", ")"])
    if r < 0.77:
        return "(" + opening
    return opening


def tag_line(rng, n: int) -> str:
    """n space-separated tokens, about one in four a tag construct; the first is a plain word (a leading comment would be an HTML
    block) and two tag constructs never follow each other directly (same-family tags separated by one space are glued by the
    formatter: known finding C06-separated-tags-lose-space)"""
    parts = [rng.choice(mdgen.WORDS)]
    while len(parts) < n:
        if rng.random() < 0.27 and not TAG_RE.search(parts[-1]):
            parts.append(tag_unit(rng))
        else:
            parts.append(rng.choice(mdgen.WORDS + mdgen.END_WORDS))
    return " ".join(parts)


def tag_document(rng) -> str:
    """a tag-dense paragraph on ONE source line, plain or inside a list item / block quote / nested item"""
    p = tag_line(rng, rng.randint(10, 42))
    r = rng.random()
    if r < 0.55:
        return p + "\n"
    if r < 0.70:
        return rng.choice(["- ", "* ", "1. "]) + p + "\n"
    if r < 0.82:
        return "> " + p + "\n"
    if r < 0.91:
        return "- first\n  - " + p + "\n"
    return "intro words\n\n" + rng.choice(["> - ", "10. "]) + p + "\n\n" + tag_line(rng, rng.randint(6, 20)) + "\n"


def tag_glue(text: str) -> list:
    """per template tag / comment in order: (glued to its left neighbour?, the tag, glued to its right neighbour?) where glued =
    no whitespace in between.  Line wrapping exchanges whitespace for whitespace, so two formatted outputs of one document that
    differ only in where lines were wrapped have the same list."""
    out = []
    for m in TAG_RE.finditer(text):
        before = text[m.start() - 1] if m.start() > 0 else " "
        after = text[m.end()] if m.end() < len(text) else " "
        out.append((not before.isspace(), re.sub(r"\s+", " ", m.group(0)), not after.isspace()))
    return out


def fmt(doc, o):
    from flowmark import reformat_text
    return reformat_text(doc, **o)


def fence_mask(lines):
    mask, fence = [], ""
    for l in lines:
        st = re.sub(r"^(?:[ ]{0,3}>[ ]?|[ ]+|(?:[-*+]|\d+[.)])[ ]+)*", "", l)
        m = re.match(r"^(`{3,}|~{3,})(.*)$", st)
        if fence:
            mask.append(True)
            if m and m.group(1)[0] == fence[0] and len(m.group(1)) >= len(fence) and not m.group(2).strip():
                fence = ""
        elif m:
            fence = m.group(1)
            mask.append(True)
        else:
            mask.append(False)
    return mask


def cont_prefix(line: str) -> str:
    """the prefix a continuation line of this line's paragraph may carry: quote marks kept, list markers as spaces"""
    m = re.match(r"^((?:[ ]{0,3}>[ ]?|[ ]+|(?:[-*+]|\d+[.)])[ ]+(?:\[[ xX]\][ ]+)?|\[\^[^\]]+\]:[ ]+)*)", line)
    p = m.group(1)
    out = ""
    for ch in p:
        out += ">" if ch == ">" else " "
    if re.match(r"^\s*\[\^", line):
        out = "    "
    return out


def relayout(rng, doc: str, tries: int = 12):
    """Random re-layout moves on the source text, each kept only if Marko reads the result as the same document.
    Moves next to a template tag / comment, inside code, in table rows, on hard breaks are never proposed."""
    base = skeleton(mdast.norm_doc(doc))
    sig = prose_sig(doc)
    cur = doc
    applied = []
    for _ in range(tries):
        lines = cur.split("\n")
        mask = fence_mask(lines)
        cand = [i for i, l in enumerate(lines) if not mask[i] and l.strip(" >\t") and "|" not in l and "`" not in l and not l.startswith("    ")]
        if not cand:
            break
        i = rng.choice(cand)
        l = lines[i]
        move = rng.choice(["spaces", "break", "join", "indent"])
        new = None
        if move in ("spaces", "break"):
            body_start = len(l) - len(l.lstrip(" >"))
            pos = [m.start() for m in re.finditer(r"(?<=\S) (?=\S)", l) if m.start() > body_start + 3]
            pos = [p for p in pos if not TAG_EDGE.search(l[max(0, p - 4):p + 5]) and l[p - 1] != "\\"]
            if not pos:
                continue
            p = rng.choice(pos)
            if move == "spaces":
                new = lines[:i] + [l[:p] + " " * rng.randint(2, 4) + l[p + 1:]] + lines[i + 1:]
            else:
                new = lines[:i] + [l[:p], cont_prefix(l) + l[p + 1:]] + lines[i + 1:]
        elif move == "join" and i + 1 < len(lines) and not mask[i + 1] and lines[i + 1].strip(" >\t"):
            a, b = l, lines[i + 1]
            if a.endswith("\\") or a.endswith("  ") or TAG_EDGE.search(a[-5:]) or TAG_EDGE.search(b.lstrip(" >")[:5]) or "|" in b or "`" in b:
                continue
            new = lines[:i] + [a.rstrip(" ") + " " + b.lstrip(" >")] + lines[i + 2:]
        elif move == "indent" and i > 0 and lines[i - 1].strip(" >\t") and not mask[i - 1]:
            # re-indent a continuation line (more or fewer spaces, up to 3 more)
            if TAG_EDGE.search(l.lstrip(" >")[:5]) or TAG_EDGE.search(lines[i - 1][-5:]):
                continue
            new = lines[:i] + [" " * rng.randint(1, 3) + l] + lines[i + 1:]
        if new is None:
            continue
        nd = "\n".join(new)
        try:
            if same_reading(nd, base, sig) and hard_breaks(nd) == hard_breaks(cur) and blanks(nd) == blanks(cur):
                cur = nd
                applied.append(move)
        except Exception:
            pass
    return cur, applied


def skeleton(t):
    """block structure only (kinds, nesting, levels, list attributes, code and table content) with the prose of paragraphs and
    headings left out: the moves exchange whitespace for whitespace inside a paragraph's text, which CommonMark's inline rules
    do not distinguish; that the INLINE reading is the same for both layouts is part of what is checked, not assumed"""
    if isinstance(t, tuple) and t and t[0] in ("para", "heading"):
        return (t[0], t[1])
    if isinstance(t, tuple) and t and t[0] == "table":
        return (t[0], t[1], len(t[2]))
    if isinstance(t, tuple):
        return tuple(skeleton(x) for x in t)
    return t


def prose_sig(doc: str) -> list[str]:
    """per paragraph/heading/table cell: its text with whitespace and the emphasis/strikethrough delimiter characters removed —
    the same for two layouts whether or not the inline parser pairs the delimiters the same way"""
    from marko import block, inline
    out: list[str] = []

    def text_of(e) -> str:
        if isinstance(e, inline.LineBreak):
            return ""
        c = getattr(e, "children", None)
        if isinstance(c, str):
            return c
        if isinstance(c, list):
            return "".join(text_of(x) for x in c)
        return ""

    def walk(es):
        for e in es:
            if isinstance(e, (block.Paragraph, block.Heading, block.SetextHeading)):
                out.append(re.sub(r"[\s~*_\\]+", "", text_of(e)))
            elif isinstance(getattr(e, "children", None), list):
                walk(e.children)
    walk(mdast.parse(doc).children)
    return out


def same_reading(a_doc: str, sk, sig) -> bool:
    return skeleton(mdast.norm_doc(a_doc)) == sk and prose_sig(a_doc) == sig


def blanks(doc: str) -> int:
    """blank lines (bare quote markers included) are block separators, not paragraph layout: never added or removed"""
    return sum(1 for l in doc.split("\n") if not l.strip(" >\t"))


def hard_breaks(doc: str) -> int:
    return len(re.findall(r"(?:\\|  )\n", doc))


def opts(rng, W=None, sem=None):
    from flowmark.formats.flowmark_markdown import ListSpacing
    return dict(width=rng.choice(WIDTHS) if W is None else W, semantic=(rng.random() < 0.5) if sem is None else sem,
                cleanups=rng.random() < 0.5, smartquotes=rng.random() < 0.3, ellipses=rng.random() < 0.3, list_spacing=rng.choice(list(ListSpacing)))


def ostr(o):
    return {k: str(v) for k, v in o.items()}


def diff(a, b):
    import difflib
    return [l for l in difflib.unified_diff(a.split("\n"), b.split("\n"), lineterm="", n=0)][2:10]


def relayout_oracle(ctx: Ctx, docs, label: str, k: int) -> None:
    rng = ctx.rng
    for i, doc in enumerate(docs):
        try:
            rd, moves = relayout(rng, doc)
        except Exception as e:
            ctx.fail("parser raised", {"doc": doc}, repr(e))
            continue
        if not moves:
            continue
        for _ in range(k):
            o = opts(rng)
            try:
                a, b = fmt(doc, o), fmt(rd, o)
            except Exception as e:
                ctx.fail("format raised", {"doc": doc, "relayout": rd, "opts": ostr(o)}, repr(e))
                continue
            ctx.count(["relayout", doc, rd, str(o)], nontrivial=True, sample=(i % 97 == 1))
            ctx.bump(label)
            for m in moves:
                ctx.bump("move:" + m)
            if a != b:
                ctx.fail("RELAYOUT: a meaning-preserving re-layout of the source changes the formatted output",
                         {"doc": doc, "relayout": rd, "opts": ostr(o)}, {"diff": diff(a, b)}, known=attribute_relayout(doc, rd, o))


def single_moves(doc: str):
    """every re-layout of doc that differs by ONE move: a line break at an interior space of a prose line, or that space doubled"""
    lines = doc.split("\n")
    mask = fence_mask(lines)
    for i, l in enumerate(lines):
        if mask[i] or not l.strip(" >\t") or "|" in l or "`" in l or l.startswith("    ") or re.match(r"^\s*\[[^\]]+\]:", l):
            continue
        body_start = len(l) - len(l.lstrip(" >"))
        for m in re.finditer(r"(?<=\S) (?=\S)", l):
            p = m.start()
            if p <= body_start + 3 or TAG_EDGE.search(l[max(0, p - 4):p + 5]) or l[p - 1] == "\\":
                continue
            yield "\n".join(lines[:i] + [l[:p], cont_prefix(l) + l[p + 1:]] + lines[i + 1:])
            yield "\n".join(lines[:i] + [l[:p] + "   " + l[p + 1:]] + lines[i + 1:])


def sweep_oracle(ctx: Ctx, docs, label: str) -> None:
    """exhaustive single-move re-layouts and every first width, for a few documents"""
    from flowmark.formats.flowmark_markdown import ListSpacing
    base = dict(cleanups=False, smartquotes=False, ellipses=False, list_spacing=ListSpacing.preserve)
    for doc in docs:
        try:
            sk = skeleton(mdast.norm_doc(doc))
            sig = prose_sig(doc)
        except Exception:
            continue
        refs = {}
        for W, sem in ((40, False), (88, True)):
            refs[(W, sem)] = fmt(doc, dict(base, width=W, semantic=sem))
        for rd in single_moves(doc):
            try:
                if not same_reading(rd, sk, sig) or hard_breaks(rd) != hard_breaks(doc):
                    continue
            except Exception:
                continue
            for (W, sem), ref in refs.items():
                o = dict(base, width=W, semantic=sem)
                out = fmt(rd, o)
                ctx.count(["sweep", doc, rd, W, sem], nontrivial=True, sample=False)
                ctx.bump(label + ":moves")
                if out != ref:
                    ctx.fail("RELAYOUT: a meaning-preserving re-layout of the source changes the formatted output",
                             {"doc": doc, "relayout": rd, "opts": ostr(o)}, {"diff": diff(ref, out)}, known=attribute_relayout(doc, rd, o))
                    break
        for (W, sem), ref in refs.items():
            o2 = dict(base, width=W, semantic=sem)
            for w1 in range(8, 64):
                for s1 in (False, True):
                    o1 = dict(base, width=w1, semantic=s1)
                    via = fmt(fmt(doc, o1), o2)
                    ctx.count(["sweep-rewidth", doc, w1, s1, W, sem], nontrivial=True, sample=False)
                    ctx.bump(label + ":widths")
                    if via != ref:
                        ctx.fail("REWIDTH: formatting with other width/mode first changes the result of formatting with the target options",
                                 {"doc": doc, "o1": ostr(o1), "o2": ostr(o2)}, {"diff": diff(ref, via)}, known=attribute_rewidth(doc, o1, o2))
                        break
                else:
                    continue
                break


def attribute_relayout(doc, rd, o):
    """no known finding explains a difference between two layouts of one text (the hazard findings are about where the
    formatter's own line breaks fall, which the theorems show to be the same for both): never attributed"""
    return None


# words whose introduced escape persists ("N." is not among them: a period escape is dropped again when re-flowed)
ESCAPABLE = re.compile(r"(?:(?<=\s)|^)(?:[-+*>#]|\d{1,9}\)|#{2,6})(?=\s|$)", re.M)


def rewidth_oracle(ctx: Ctx, docs, label: str, k: int, first_widths=WIDTHS, target_widths=WIDTHS) -> None:
    rng = ctx.rng
    for i, doc in enumerate(docs):
        for _ in range(k):
            o2 = opts(rng) if target_widths is WIDTHS else opts(rng, W=rng.choice(target_widths))
            if re.search(r"[\"'“”‘’]|\.\.|…", doc):
                o2.update(smartquotes=False, ellipses=False)     # typography applied twice is C02/C08/C09's subject
            o1 = dict(o2, width=rng.choice([w for w in first_widths if w != o2["width"]]), semantic=rng.random() < 0.5)
            try:
                direct = fmt(doc, o2)
                via = fmt(fmt(doc, o1), o2)
            except Exception as e:
                ctx.fail("format raised", {"doc": doc, "o1": ostr(o1), "o2": ostr(o2)}, repr(e))
                continue
            ctx.count(["rewidth", doc, str(o1), str(o2)], nontrivial=True, sample=(i % 97 == 1))
            ctx.bump(label)
            if direct != via:
                ctx.fail("REWIDTH: formatting with other width/mode first changes the result of formatting with the target options",
                         {"doc": doc, "o1": ostr(o1), "o2": ostr(o2)}, {"diff": diff(direct, via)}, known=attribute_rewidth(doc, o1, o2))


def strip_tags(doc: str) -> str:
    return re.sub(r"\{%.*?%\}|\{\{.*?\}\}|\{#.*?#\}|<!--.*?-->", "tagword", doc, flags=re.S)


def attribute_rewidth(doc, o1, o2):
    """counterfactuals for the two design-inherent exceptions (REWIDTH_false and the introduced tag newline) and the
    findings of other properties"""
    def ok(d):
        try:
            return fmt(fmt(d, o1), o2) == fmt(d, o2)
        except Exception:
            return False
    # cumulative counterfactual: remove the triggers one family after the other; the failure is attributed to the family
    # whose removal makes it disappear (with the earlier families already removed)
    d = doc
    if re.search(r"\{%|\{\{|\{#|<!--", d):
        d = strip_tags(d)
        if ok(d):
            # The finding is about a line break that WRAPPING puts next to a tag, i.e. at a space of the text.  It explains the
            # failure only if the intermediate and the direct output differ around the tags by such breaks alone: every tag
            # touches the same neighbours (glued, or separated by whitespace) in both.  A tag glued to its neighbour in one
            # output and separated from it in the other (e.g. the closing tag of '{% f %}{% /f %}' moved to a line of its own
            # at one width only) is not a wrap point, and the newline next to it then persists: reported, not attributed.
            # (Documents holding two same-family tags separated by whitespace only are left out of this refinement: whether
            # those get glued is C06-separated-tags-lose-space's subject.)
            if not SEPARATED_TAGS.search(doc):
                try:
                    if tag_glue(fmt(doc, o1)) != tag_glue(fmt(doc, o2)):
                        return None
                except Exception:
                    return None
            return "C03-introduced-tag-newline-persists"
    nd = ESCAPABLE.sub("w", d)
    if nd != d:
        d = nd
        if ok(d):
            return "C03-introduced-escape-persists"
    from props import c01, c02
    nd = c02.neutralise(d, o2)
    if nd != d and ok(nd):
        return next((fid for fid, rx in c01.TRIGGERS if rx.search(doc)), "C01-unescaped-line-head-hazards")
    return None


def tie_tag_lines(ctx: Ctx, n: int) -> None:
    """the hard-break + tag-newline layers (model op mdwrap, symbolic base wrapper — as C06's tie_layers) on texts whose lines
    are tag-dense: complete tags before a glued pair on one line, pairs on continuation lines, under the item / quote prefixes"""
    import astser
    from common import dec, enc, run_driver
    from props import c06
    ap, lw, th, tw = c06._real()
    rng = ctx.rng
    real = lw._add_markdown_hard_break_handling(th.add_tag_newline_handling(astser.symbolic_wrapper))
    cases = []
    for _ in range(n):
        lines = [tag_line(rng, rng.randint(2, 9)) if rng.random() < 0.75 else rng.choice(c06.LINES) for _ in range(rng.randint(1, 5))]
        s0 = rng.choice(["", "  ", "> ", "> > ", "    "])
        cases.append(("\n".join(l if j == 0 or rng.random() < 0.5 else s0 + l for j, l in enumerate(lines)), rng.choice(["", "- ", "> "]), s0))
    outs = run_driver([f"mdwrap\t{enc(t)}\t{enc(i)}\t{enc(s)}" for t, i, s in cases], workers=16)
    bad = 0
    for (t, i, s), o in zip(cases, outs):
        exp = real(t, i, s)
        ctx.count(["mdwrap-taglines", t, i, s], nontrivial="\n" in t)
        ctx.bump("tie:tag-lines")
        if o == "bad-op" or dec(o) != exp:
            bad += 1
            ctx.tie_broken("mdwrap", {"text": t, "i0": i, "s0": s}, o if o == "bad-op" else dec(o), exp)
    ctx.obligation(f"tie mdwrap (tag-dense lines): hard-break + tag-newline layers on {len(cases)} texts with several tags and glued pairs per line",
                   "correspondence", bad == 0, f"{bad} disagreement(s)")


def replay_findings(ctx: Ctx) -> None:
    from flowmark.formats.flowmark_markdown import ListSpacing
    base = dict(semantic=False, cleanups=False, smartquotes=False, ellipses=False, list_spacing=ListSpacing.preserve)
    for fid, e in ctx.kf.items():
        c = e.get("input") or {}
        if "doc" in c and "w1" in c:
            o1, o2 = dict(base, width=c["w1"]), dict(base, width=c["w2"])
            ctx.known_replay(fid, fmt(fmt(c["doc"], o1), o2) != fmt(c["doc"], o2))
        elif "doc" in c and "relayout" in c:
            o = dict(base, width=c.get("W", 88), semantic=c.get("semantic", False))
            ctx.known_replay(fid, fmt(c["doc"], o) != fmt(c["relayout"], o))


def run(ctx: Ctx) -> None:
    driver_ok = lean_obligations(ctx)
    replay_findings(ctx)
    if driver_ok:
        from props import c06
        ctx.guard("tie fullwrap", c06.tie_fullwrap, ctx.scale(5000, 60000))
        ctx.guard("tie render", rendertie.tie_render, ctx.scale(120, 2000))
        ctx.guard("tie layers", c06.tie_layers)
    rng = ctx.rng
    docs = [mdgen.gen_document(rng, quotes=(i % 3 == 0), ellipses=(i % 4 == 0), tags=(i % 4 == 1), html=(i % 5 == 0), bold_headings=True)
            for i in range(ctx.scale(300, 5000))]
    relayout_oracle(ctx, SPECIAL, "relayout:special", 6)
    relayout_oracle(ctx, docs, "relayout:generated", 2)
    rewidth_oracle(ctx, SPECIAL, "rewidth:special", 6)
    sweep_oracle(ctx, SPECIAL + docs[:ctx.scale(6, 150)], "sweep")
    rewidth_oracle(ctx, docs, "rewidth:generated", 2)
    # tag-dense paragraphs (run last: the streams of the families above are as before)
    if driver_ok:
        ctx.guard("tie tag lines", tie_tag_lines, ctx.scale(4000, 60000))
    tag_docs = TAG_SPECIAL + [tag_document(rng) for _ in range(ctx.scale(150, 4000))]
    relayout_oracle(ctx, tag_docs, "relayout:tag-dense", 1)
    rewidth_oracle(ctx, tag_docs, "rewidth:tag-dense", 3, first_widths=TAG_FIRST_WIDTHS, target_widths=TAG_TARGET_WIDTHS)
    ctx.rule("tag-dense paragraphs (one word in four a template-tag construct: glued open/close pairs, pairs around words, single tags, "
             "tags glued to punctuation; plain / list item / quote / nested): re-layout as above, re-width with every first width 16..131 "
             "and target widths {0,20,30,40,60,88,100,120}; a re-width failure is attributed to the introduced-tag-newline finding only "
             "if every tag touches the same neighbours in the intermediate and the direct output")
    ctx.rule("re-layout: up to 12 random moves (multiply spaces, break at a space with the paragraph's continuation prefix, join two lines, "
             "re-indent a continuation line) per document, each validated by Marko's reading, × sampled option sets; "
             "re-width: option pairs differing in width ∈ {0,12,20,30,40,60,88} and line-break mode")
    ctx.assume("which re-layouts preserve the meaning is decided by Marko's parser (canonical AST equality); moves adjacent to tags, "
               "code spans, tables, code blocks and hard breaks are not proposed")


def search(ctx: Ctx) -> None:
    rng = ctx.rng
    for b in ctx.broken_inputs:
        t = b["case"].get("text") or b["case"].get("doc")
        if t:
            relayout_oracle(ctx, [t + "\n"], "from-broken-tie", 8)
            rewidth_oracle(ctx, [t + "\n"], "from-broken-tie", 8)
    docs = [mdgen.gen_document(rng, quotes=True, bold_headings=True) for _ in range(2500)]
    relayout_oracle(ctx, docs, "search", 2)
    rewidth_oracle(ctx, docs, "search", 2)


def replay(ctx: Ctx, path: str) -> int:
    r = json.loads(open(path).read())
    print(json.dumps(r.get("input"), ensure_ascii=False)[:2000])
    print(str(r.get("detail"))[:800])
    return 0
