"""
C14 — In-place formatting never leaves a damaged or half-written file.

Ring 1: FM/Props/C14.lean — TARGET_WHOLE (every prefix of a file's operation list, i.e. every crash point and every failing
        operation, the write split arbitrarily, leaves the target whole), COMPLETE, INPUT_UNTOUCHED, FAIL_NOTHING, MULTI.
Ring 2: tie fsops — the operation list of the model = the mutating system calls of the real CLI on sandbox paths, observed
        with strace (open for writing, write, rename, unlink, truncate, mkdir, link), per scenario.
Ring 3: fault enumeration on the real code: at every mutating file-system operation of a run the operation fails (OSError), or
        the process dies before it, or dies in the middle of the write; plus rename failures/kills injected by strace into the
        real system calls; the on-disk state must be whole for every file.
"""
from __future__ import annotations

import json
import os
import re
import shutil
import subprocess
import sys
import tempfile
from pathlib import Path

from common import Ctx, run_driver
from leanbuild import lean_obligations

HERE = Path(__file__).resolve().parent.parent
DOCS = {
    "a.md": "Some   text  that needs\nformatting.   It is long enough to be wrapped when the width is small, for sure it is, yes.\n\n\n# **Title**\n",
    "b.md": "- item   one\n- item two\n\n\n\nplain \"quoted\" text...\n",
    "c.md": "already fine\n",
    "big.md": ("word " * 5000) + "\n",
    "sub/d.md": "> quote   text\n",
}
BAD = b"\xff\xfe not utf-8 \xff\n"
# a document the formatter itself fails on (300 nested list levels: RecursionError, known finding C12-deep-nesting-recursion),
# stored with CRLF line ends so that a "pass the text through" would show in the bytes
DEEP = "".join("  " * i + "- x\r\n" for i in range(300)).encode()
STALE_ORIG = "a stale backup of an earlier run\n"
CRLF = b"Windows   line ends\r\nhere,  long enough to be wrapped when the width is small, for sure it is.\r\n\r\n* item\r\n"

# (name, files in order, flags, bad file index or None)
SCENARIOS = [
    ("inplace-backup", ["a.md"], ["--inplace"], None),
    ("inplace-nobackup", ["a.md"], ["--inplace", "--nobackup"], None),
    ("auto", ["b.md"], ["--auto"], None),
    ("output-from-stdin", [], ["-o", "OUT/new/out.md", "-"], None),
    ("stdout", ["a.md"], [], None),
    ("multi-backup", ["a.md", "b.md", "sub/d.md"], ["--inplace", "-w", "40"], None),
    ("multi-nobackup", ["b.md", "c.md", "a.md"], ["--inplace", "--nobackup", "--semantic"], None),
    ("multi-bad-middle", ["a.md", "bad.md", "b.md"], ["--inplace"], 1),
    ("big-file", ["big.md"], ["--inplace", "--nobackup"], None),
    ("unchanged-file", ["c.md"], ["--inplace"], None),
    ("crlf-backup", ["crlf.md"], ["--inplace"], None),
    ("same-file-twice", ["a.md", "sub/../a.md", "b.md"], ["--inplace"], None),
    # a .orig left behind by an earlier run: the backup must hold what a.md held BEFORE THIS run
    ("stale-orig", ["a.md", "b.md"], ["--inplace"], None),
    # formatting itself fails on the middle file: it and everything after it stay untouched
    ("unformattable-middle", ["a.md", "deep.md", "b.md"], ["--inplace"], 1),
]
EXTRA_FILES = {"stale-orig": {"a.md.orig": STALE_ORIG}}


def make_sandbox(files, extra=None) -> Path:
    base = Path(tempfile.mkdtemp(prefix="fmfs."))
    sb = base / "sb"
    sb.mkdir()
    for f in files:
        p = sb / f
        p.parent.mkdir(parents=True, exist_ok=True)
        if f == "bad.md":
            p.write_bytes(BAD)
        elif f == "crlf.md":
            p.write_bytes(CRLF)
        elif f == "deep.md":
            p.write_bytes(DEEP)
        elif os.path.normpath(f) != f:
            continue            # another spelling of a file that is written under its plain name
        else:
            p.write_text(DOCS[f])
    for f, content in (extra or {}).items():
        (sb / f).write_text(content)
    return base


def expected_new(f: str, flags) -> str:
    from flowmark import reformat_text
    o = dict(width=88, semantic=False, cleanups=False, smartquotes=False, ellipses=False)
    if "--auto" in flags:
        o.update(semantic=True, cleanups=True, smartquotes=True, ellipses=True)
    if "--semantic" in flags:
        o["semantic"] = True
    if "-w" in flags:
        o["width"] = int(flags[flags.index("-w") + 1])
    # the CLI's own defaults (cleanups etc.) are what the CLI run itself shows: take the uninterrupted run as the reference
    return None


def cli_args(sb: Path, files, flags):
    out = []
    for x in flags:
        out.append(str(sb / x[4:]) if x.startswith("OUT/") else x)
    return out + [str(sb / f) for f in files]


def snapshot(sb: Path) -> dict[str, bytes]:
    out = {}
    for dp, dns, fns in os.walk(sb):
        for n in fns:
            p = Path(dp) / n
            out[str(p.relative_to(sb))] = p.read_bytes()
    return out


def reference_run(files, flags, extra=None):
    """the uninterrupted run: final snapshot, op count and op log"""
    base = make_sandbox(files, extra)
    try:
        sb = base / "sb"
        before = snapshot(sb)
        r = subprocess.run([sys.executable, str(HERE / "fsinject.py"), "count", "0", str(sb), "--", *cli_args(sb, files, flags)], capture_output=True, text=True, input=DOCS["a.md"])
        m = re.search(r"^OPS (\d+)$", r.stderr, re.M)
        n = int(m.group(1)) if m else 0
        log = r.stderr.split("\n")[r.stderr.split("\n").index(m.group(0)) + 1:] if m else []
        return before, snapshot(sb), n, [l for l in log if l], r.returncode, r.stdout
    finally:
        shutil.rmtree(base, ignore_errors=True)


def whole_state(name, files, flags, before, after_ref, state, bad_idx) -> str | None:
    """None if every file is whole in `state`, else a description"""
    backup = ("--inplace" in flags or "--auto" in flags) and "--nobackup" not in flags and "--auto" not in flags
    inplace = "--inplace" in flags or "--auto" in flags
    outs = [x[4:] for x in flags if x.startswith("OUT/")]
    done = set()
    for i, f in enumerate(files):
        f = os.path.normpath(f)
        if f in done:
            continue            # the same file under another spelling
        done.add(f)
        old = before[f]
        new = after_ref.get(f, old) if inplace else old
        cur = state.get(f)
        if not inplace or (bad_idx is not None and i >= bad_idx):
            if cur != old:
                return f"{f}: must be untouched ({'not in place' if not inplace else 'at or after the file that cannot be read'}) but changed"
            continue
        if cur == old or cur == new:
            if cur == new and new != old and backup and state.get(f + ".orig") != old:
                return f"{f}: holds the new content but the backup {f}.orig does not hold the old content"
            continue
        if cur is None and backup and state.get(f + ".orig") == old:
            continue
        return f"{f}: neither the complete old nor the complete new content ({'missing' if cur is None else str(len(cur)) + ' bytes'}; old {len(old)}, new {len(new)})"
    for o in outs:
        cur = state.get(o)
        if cur is not None and cur != after_ref.get(o):
            return f"output {o}: partial or wrong content ({len(cur)} bytes, complete is {len(after_ref.get(o, b''))})"
    # nothing else but temporary leftovers may appear
    for p in state:
        if p not in before and p not in after_ref and not p.endswith(".partial"):
            return f"unexpected file {p}"
    return None


def inject_all(ctx: Ctx, scen, modes) -> None:
    name, files, flags, bad_idx = scen
    extra = EXTRA_FILES.get(name)
    before, after_ref, n, log, rc, _ = reference_run(files, flags, extra)
    ctx.extra.setdefault("ops_per_scenario", {})[name] = n
    msg = whole_state(name, files, flags, before, after_ref, after_ref, bad_idx)
    if msg:
        ctx.fail("WHOLE: the uninterrupted run itself does not end in a whole state", {"scenario": name, "files": files, "flags": flags}, msg)
        return
    def one(job):
        k, mode = job
        base = make_sandbox(files, extra)
        try:
            sb = base / "sb"
            r = subprocess.run([sys.executable, str(HERE / "fsinject.py"), mode, str(k), str(sb), "--", *cli_args(sb, files, flags)], capture_output=True, text=True, input=DOCS["a.md"])
            return k, mode, snapshot(sb), r.returncode
        finally:
            shutil.rmtree(base, ignore_errors=True)

    from concurrent.futures import ThreadPoolExecutor
    jobs = [(k, mode) for k in range(1, n + 1) for mode in modes]
    with ThreadPoolExecutor(max_workers=8) as ex:
        results = list(ex.map(one, jobs))
    for k, mode, state, rc2 in results:
        ctx.count(["inject", name, k, mode], nontrivial=True, sample=(k == 1 and mode == "fail"))
        ctx.bump("inject:" + mode)
        msg = whole_state(name, files, flags, before, after_ref, state, bad_idx)
        if msg:
            ctx.fail("WHOLE: after a fault a file is neither complete old nor complete new",
                     {"scenario": name, "files": files, "flags": flags, "fault": mode, "at_operation": k, "operation": log[k - 1] if k <= len(log) else "?"},
                     {"problem": msg, "rc": rc2})
            return


# ------------------------------------------------------------------------------------------
# strace: the real system calls

SYS = "openat,open,creat,rename,renameat,renameat2,unlink,unlinkat,mkdir,mkdirat,write,pwrite64,writev,truncate,ftruncate,link,linkat,symlink,symlinkat,close,dup,dup2,dup3"


def trace(files, flags, inject: str | None = None, extra=None):
    base = make_sandbox(files, extra)
    try:
        sb = base / "sb"
        tf = base / "trace.txt"
        cmd = ["strace", "-f", "-qq", "-y", "-e", "trace=" + SYS, "-o", str(tf)]
        if inject:
            cmd += ["-e", "inject=" + inject]
        cmd += [sys.executable, "-m", "flowmark.cli", *cli_args(sb, files, flags)]
        r = subprocess.run(cmd, capture_output=True, text=True, cwd=str(sb), input=DOCS["a.md"])
        return r.returncode, tf.read_text() if tf.exists() else "", snapshot(sb), str(sb)
    finally:
        shutil.rmtree(base, ignore_errors=True)


def traced_ops(text: str, sb: str, files, flags, targets=None) -> list[str]:
    """canonical mutating operations on sandbox paths: c<p> (open for writing), a<p> (writes, coalesced), r<a>-<b>, and anything
    else verbatim (unlink, truncate, …)"""
    inplace = "--inplace" in flags or "--auto" in flags
    outs = [x[4:] for x in flags if x.startswith("OUT/")]
    if targets is None:
        targets = list(files) if inplace else outs

    def num(path: str) -> str:
        rel = os.path.relpath(path, sb) if os.path.isabs(path) else path
        for i, t in enumerate(targets):
            if rel == t:
                return str(3 * i)
            if rel == t + ".orig":
                return str(3 * i + 2)
            if rel.startswith(t) and rel.endswith(".partial"):
                return str(3 * i + 1)
        return "?" + rel
    ops: list[str] = []
    for line in text.split("\n"):
        m = re.match(r"^\d+\s+(\w+)\((.*)\)\s+=\s+(-?\d+)", line)
        if not m or int(m.group(3)) < 0:
            continue
        call, args = m.group(1), m.group(2)
        if call in ("openat", "open", "creat"):
            pm = re.search(r'"([^"]*)"', args)
            if not pm:
                continue
            path = pm.group(1)
            full = path if os.path.isabs(path) else os.path.join(sb, path)
            if not full.startswith(sb + "/"):
                continue
            if re.search(r"O_WRONLY|O_RDWR|O_CREAT|O_TRUNC|O_APPEND", args) or call == "creat":
                ops.append("c" + num(full))
        elif call in ("write", "pwrite64", "writev"):
            fm = re.match(r"\d+<([^>]*)>", args)
            if fm and fm.group(1).startswith(sb + "/"):
                op = "a" + num(fm.group(1))
                if not ops or ops[-1] != op:
                    ops.append(op)
        elif call in ("rename", "renameat", "renameat2"):
            ps = re.findall(r'"([^"]*)"', args)
            if len(ps) >= 2:
                a, b = [p if os.path.isabs(p) else os.path.join(sb, p) for p in ps[:2]]
                if a.startswith(sb + "/") or b.startswith(sb + "/"):
                    ops.append(f"r{num(a)}-{num(b)}")
        elif call in ("unlink", "unlinkat", "truncate", "ftruncate", "link", "linkat", "symlink", "symlinkat"):
            ps = re.findall(r'"([^"]*)"', args) or re.findall(r"<([^>]*)>", args)
            if any((p if os.path.isabs(p) else os.path.join(sb, p)).startswith(sb + "/") for p in ps):
                ops.append(f"{call}:{','.join(os.path.basename(p) for p in ps)}")
    return ops


def tie_fsops(ctx: Ctx) -> None:
    """model side = routing model (which files are written, each once) composed with the operation list of a file write"""
    cases = []
    route_lines = []
    for name, files, flags, bad_idx in SCENARIOS:
        inplace = "--inplace" in flags or "--auto" in flags
        outs = [x for x in flags if x.startswith("OUT/")]
        backup = inplace and "--nobackup" not in flags and "--auto" not in flags
        uniq = list(dict.fromkeys(os.path.normpath(f) for f in files))
        ids = [uniq.index(os.path.normpath(f)) for f in files]
        if inplace:
            route_lines.append(f"route\t{','.join(map(str, ids))}\tnone\t1\t{int(not backup)}")
        elif outs:
            route_lines.append("route\t-\t0\t0\t0")
        else:
            route_lines.append(f"route\t{','.join(map(str, ids))}\tnone\t0\t0")
        cases.append((name, files, flags, bad_idx, uniq, ids, [x[4:] for x in outs]))
    routes = run_driver(route_lines, workers=1)
    lines, targets_of = [], []
    for (name, files, flags, bad_idx, uniq, ids, outs), ans in zip(cases, routes):
        acts = [a for a in ans.split(";") if a.startswith("F")]
        tgt_ids = [int(a.split(">")[1].split(":")[0]) for a in acts]
        chars = [a[-1] for a in acts]
        if bad_idx is not None and ids[bad_idx] in tgt_ids:
            k = tgt_ids.index(ids[bad_idx])
            chars = chars[:k] + ["x"] * (len(chars) - k)
        lines.append("fsops\t" + "".join(chars))
        targets_of.append(outs if outs else [uniq[t] for t in tgt_ids])
    outs_model = run_driver(lines, workers=1)
    bad = 0
    for (name, files, flags, bad_idx, uniq, ids, outs), targets, om in zip(cases, targets_of, outs_model):
        rc, text, state, sb = trace(files, flags, extra=EXTRA_FILES.get(name))
        got = traced_ops(text, sb, files, flags, targets)
        exp = [x for x in om.split(";") if x]
        ctx.count(["trace", name], nontrivial=bool(exp))
        ctx.bump("traced-runs")
        if got != exp:
            bad += 1
            ctx.tie_broken("fsops", {"scenario": name, "files": files, "flags": flags}, exp, got)
    ctx.obligation(f"tie fsops: the model's operation list (routing model ∘ file-write operations) = the mutating system calls of the real CLI on sandbox paths (strace) in {len(cases)} scenarios",
                   "correspondence", bad == 0, f"{bad} disagreement(s)")


def strace_inject(ctx: Ctx) -> None:
    """the rename system calls themselves fail or the process is killed at them"""
    from concurrent.futures import ThreadPoolExecutor
    jobs = []
    for name, files, flags, bad_idx in SCENARIOS:
        if not ("--inplace" in flags or "--auto" in flags or any(x.startswith("OUT/") for x in flags)):
            continue
        extra = EXTRA_FILES.get(name)
        before, after_ref, n, log, rc, _ = reference_run(files, flags, extra)
        renames = sum(1 for l in log if l.startswith("replace") or l.startswith("rename"))
        for k in range(1, renames + 1):
            for what in (f"rename:error=EIO:when={k}", f"rename:signal=KILL:when={k}", f"rename:error=ENOSPC:when={k}"):
                jobs.append((name, files, flags, bad_idx, extra, before, after_ref, what))

    def one(job):
        name, files, flags, bad_idx, extra, before, after_ref, what = job
        rc2, text, state, sb = trace(files, flags, inject=what, extra=extra)
        return job, rc2, state

    with ThreadPoolExecutor(max_workers=8) as ex:
        results = list(ex.map(one, jobs))
    for (name, files, flags, bad_idx, extra, before, after_ref, what), rc2, state in results:
        ctx.count(["strace-inject", name, what], nontrivial=True)
        ctx.bump("strace-inject")
        msg = whole_state(name, files, flags, before, after_ref, state, bad_idx)
        if msg:
            ctx.fail("WHOLE: after a fault injected into rename(2) a file is neither complete old nor complete new",
                     {"scenario": name, "files": files, "flags": flags, "inject": what}, {"problem": msg, "rc": rc2})
            return


def replay_findings(ctx: Ctx) -> None:
    for fid, e in ctx.kf.items():
        c = e.get("input") or {}
        if c.get("kind") == "orig-collision":
            base = Path(tempfile.mkdtemp(prefix="fmfs."))
            try:
                sb = base / "sb"
                sb.mkdir()
                (sb / "a.md").write_text("a   text\n")
                (sb / "a.md.orig").write_text("precious   other content\n")
                subprocess.run([sys.executable, "-m", "flowmark.cli", "--inplace", str(sb / "a.md"), str(sb / "a.md.orig")], capture_output=True)
                st = snapshot(sb)
                lost = not any(b"precious" in v for v in st.values())
                ctx.known_replay(fid, lost)
            finally:
                shutil.rmtree(base, ignore_errors=True)


def replay_fixed(ctx: Ctx) -> None:
    for fid, e in ctx.kf.items():
        c = e.get("input") or {}
        if c.get("kind") == "same-file-twice":
            base = Path(tempfile.mkdtemp(prefix="fmfs."))
            try:
                sb = base / "sb"
                (sb / "sub").mkdir(parents=True)
                (sb / "a.md").write_text(DOCS["a.md"])
                subprocess.run([sys.executable, "-m", "flowmark.cli", "--inplace", "a.md", "sub/../a.md"], capture_output=True, cwd=str(sb))
                st = snapshot(sb)
                ctx.known_replay(fid, st.get("a.md.orig") != DOCS["a.md"].encode())
            finally:
                shutil.rmtree(base, ignore_errors=True)


def run(ctx: Ctx) -> None:
    driver_ok = lean_obligations(ctx)
    replay_findings(ctx)
    replay_fixed(ctx)
    if driver_ok:
        ctx.guard("tie fsops", tie_fsops)
    import routetie
    ctx.guard("tie route", routetie.tie_route, driver_ok)
    modes = ("fail", "die", "partial")
    for scen in SCENARIOS:
        inject_all(ctx, scen, modes)
    strace_inject(ctx)
    ctx.rule("14 scenarios (in place ± backup, --auto, -o into a new directory, stdout, three files ± backup, an undecodable file in "
             "the middle, a 25 kB file, an already formatted file) × every mutating operation × {operation fails, process dies before "
             "it, process dies half-way through the write}; rename(2) failing with EIO/ENOSPC or killing the process (strace)")
    ctx.assume("rename(2) is atomic and a failed system call changes nothing (operating system); durability after power loss is outside "
               "the property; faults are injected at the Python level (open/write/replace/…) and, for rename, into the real system call")


def search(ctx: Ctx) -> None:
    for scen in SCENARIOS:
        inject_all(ctx, scen, ("fail", "die", "partial"))


def replay(ctx: Ctx, path: str) -> int:
    r = json.loads(open(path).read())
    print(json.dumps(r.get("input"), ensure_ascii=False)[:3000])
    print(str(r.get("detail"))[:1200])
    return 0
