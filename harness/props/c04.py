"""
C04 — Code, tags, URLs and other non-prose spans are reproduced verbatim.

Ring 1: FM/Props/C04.lean — FENCE_SAFE (no content line can close the emitted fence), REWRITE_CONFINED (text rewrites
        only change RawText payloads), code/dest emission lemmas on the render model.
Ring 2: tie render, tie transform (smart quotes / ellipses / unbold applied to the Marko tree), shared scanners.
Ring 3: one extractor applied to parse(x) and parse(fmt(x)) — code blocks, code spans, tags, comments, HTML, URLs,
        destinations/titles, labels — must give the same sequence for every option set (typography on and off).
        Inputs: special documents, mdgen documents, span-stress sweep, and two families of their own: indented code
        blocks with fence-like content (the only blocks whose fence the formatter chooses) and spans whose source is
        laid out over several lines (tags are read over soft line breaks by the extractor).
"""
from __future__ import annotations

import json
import random
import re

import mdast
import mdgen
import rendertie
from common import Ctx, dec, enc, run_driver
from leanbuild import lean_obligations

TAG_RE = re.compile(r"\{%[\s\S]*?%\}|\{\{[\s\S]*?\}\}|\{#[\s\S]*?#\}|<!--[\s\S]*?-->")

CODE_DOCS = [
    # code spans whose content starts or ends with a backtick (one side only, both sides, only backticks) or with spaces
    "a `` `lead`` b ``trail` `` c `` `both` `` d `` ` `` e ``` `` ``` g `` x `` h\n",
    # (not here: a span padded with TWO spaces, ``  two  `` — Marko strips all surrounding blanks of a code span where CommonMark
    # strips one from each side, so the strict reader sees ' two ' become 'two'; third-party reading, noted in DESIGN §12.6b)
    "padded both sides, backtick at one end: `` foo` `` and `` `bar `` and ``` a``b` ``` and ``` `c``d ``` end\n",
    "| cell `` `p`` | ``q` `` |\n|---|---|\n| `` ` `` | `a\\|b` |\n",

    "```\nplain\n```\n", "```python extra words\nx = 1\n\n\ny = 2\n```\n", "~~~\n```\n````\n~~~\n", "````\n```\n~~~\n````\n",
    "```\n   ```\n    ````\n```\n", "- item\n\n  ```sh\n  $ a\n\n  $ b\n  ```\n", "> ```\n> quoted\n>\n> code\n> ```\n",
    "    indented code\n    second\n\nafter\n".replace("    indented", "text\n\n    indented", 1),
    "```\na\x0bb\x1cc\x85d e\n```\n", "```\n\x0b```\n```\n", "~~~ info\n\ttab\n~~~\n", "```\nends with blank\n\n\n```\n",
    "`code` ``a`b`` `` `x `` ` lead` `a  b`\n", "<span title=\"it's\">x</span> and <!-- \"c\" ... --> and {% t a=\"it's ...\" %}\n",
    "[l](http://x.org/it's_a \"T's ...\") ![i](http://u/... 'q') <http://a.b/c'd> www.x.org/it's\n\n[r]: http://r.org/... \"R's ... t\"\n",
    "```text\n\n```\n", "> ```\n>\n> ```\n", "- ```\n\n  ```\n", "```\n\n\n```\n", "~~~\n \n~~~\n",
    "1. ```\n   in list\n   ```\n2. x\n", "```\n{% tag %}\n- not a list\n| no | table |\n{% /tag %}\n```\n",
    # indented code (the formatter chooses the fence) holding fence-like lines at every indentation a closing fence may have
    "text\n\n    code\n     ```\n      ~~~~\n       `````\n        ``````\n    more\n\nafter\n", "- item\n\n      code\n         ```` x\n      more\n\n> q\n>\n>     a\n>       ```\n>     b\n",
    "text\n\n\tcode\n\t ```\n\tmore\n\nafter\n",
    # spans whose source is laid out over several lines
    "text {% field label=\"a\"\nhint=\"Please wait... now\" %} and {# see above...\n  it's #} more <span\ntitle=\"so... 'x'\"> `a...\nb's` end\n",
    "Intro text here.\n{% field label=\"Loading...\"\n   hint=\"wait... please\" %}\nBody text.\n\n- item {{ a...b |\n  f(\"it's\") }} and <!-- c...\n  d's \"q\" --> end\n",
]

OPT_PRODUCT = [dict(width=w, semantic=s, cleanups=c, smartquotes=q, ellipses=e)
               for w in (0, 24, 88) for s in (False, True) for c in (False, True) for q in (False, True) for e in (False, True)]


def extract(text: str) -> list:
    out: list = []

    def walk_inl(es):
        run: list[str] | None = None        # raw text of the current run RawText (soft-break RawText)*

        def flush():
            nonlocal run
            if run is not None:
                # a tag is a tag wherever the source lines happen to end inside it: tags are looked for in the text of
                # a run of RawText nodes joined over *soft* line breaks (any other inline element ends the run)
                for m in TAG_RE.finditer("\n".join(run)):
                    out.append(("tag", re.sub(r"\s+", " ", m.group(0))))
            run = None

        for j, e in enumerate(es):
            k = type(e).__name__
            if k == "RawText":
                if run is None:
                    run = []
                run.append(e.children)
                continue
            if k == "LineBreak" and getattr(e, "soft", False) and run is not None and j + 1 < len(es) and type(es[j + 1]).__name__ == "RawText":
                continue
            flush()
            if k == "CodeSpan":
                out.append(("codespan", re.sub(r"\s+", " ", e.children).strip()))
            elif k == "InlineHTML":
                out.append(("html", re.sub(r"\s+", " ", e.children)))
            elif k in ("AutoLink", "Url"):
                out.append(("url", e.children[0].children if isinstance(e.children, list) else e.dest))
            elif k in ("Link", "Image"):
                out.append((k.lower(), e.dest, e.title or None))
                walk_inl(e.children)
            elif k == "FootnoteRef":
                out.append(("fnref", e.label))
            elif isinstance(getattr(e, "children", None), list):
                walk_inl(e.children)
        flush()

    def walk(es):
        for e in es:
            k = type(e).__name__
            if k in ("FencedCode", "CustomFencedCode"):
                # fenced content is compared exactly (blank lines included); only a missing final newline of an
                # unclosed fence at end of input is completed
                c = e.children[0].children
                out.append(("code", e.lang or "", (e.extra or "") if e.lang else "", (c if c.endswith("\n") or not c else c + "\n").split("\n")[:-1]))
            elif k == "CodeBlock":
                out.append(("code", "", "", e.children[0].children.rstrip("\n").split("\n")))
            elif k == "LinkRefDef":
                t = e.title or None
                if t and len(t) >= 2 and (t[0], t[-1]) in (('"', '"'), ("'", "'"), ("(", ")")):
                    t = re.sub(r"\\(.)", r"\1", t[1:-1])
                out.append(("linkdef", e.label, e.dest, t))
            elif k == "FootnoteDef":
                out.append(("fndef", e.label))
                walk(e.children)
            elif k in ("Paragraph", "Heading", "SetextHeading"):
                walk_inl(e.children)
            elif k == "Table":
                for r in e.children:
                    for c in r.children:
                        walk_inl(c.children)
            elif isinstance(getattr(e, "children", None), list):
                walk(e.children)

    walk(mdast.parse(text).children)
    return out


def strict_codespans(text: str) -> list[str]:
    """code span contents as an independent CommonMark reader (markdown-it-py) gives them: one space is stripped from each side
    only when BOTH sides have one — Marko strips more, so a one-sided padding would go unseen with Marko on both sides"""
    from markdown_it import MarkdownIt
    out = []
    for tok in MarkdownIt("commonmark").enable("table").parse(text):
        for ch in (tok.children or []):
            if ch.type == "code_inline":
                out.append(ch.content)
    return out


def oracle(ctx: Ctx, docs, label: str, full_product: bool, rng=None, pick=None) -> None:
    """`pick(rng)` (optional) chooses the option sets of one document instead of 3 sampled points of the product"""
    from flowmark import reformat_text
    rng = rng or ctx.rng
    for i, doc in enumerate(docs):
        try:
            a = extract(doc.strip() + "\n")
        except Exception as e:
            ctx.fail("parser raised on input", {"doc": doc}, repr(e))
            continue
        opts = OPT_PRODUCT if full_product else pick(rng) if pick else rng.sample(OPT_PRODUCT, 3)
        for o in opts:
            try:
                out = reformat_text(doc, **o)
                b = extract(out)
            except Exception as e:
                ctx.fail("format or re-parse raised", {"doc": doc, "opts": o}, repr(e))
                continue
            ctx.count(["verbatim", doc, o], nontrivial=len(a) > 0, sample=(i % 157 == 3))
            ctx.bump(label)
            if label == "special" and "`" in doc and not o.get("smartquotes") and not o.get("ellipses"):
                # the fixed documents only: both readers agree on what the spans of these are
                sa, sb = strict_codespans(doc), strict_codespans(out)
                if len(sa) == len([x for x in a if x[0] == "codespan"]) and [re.sub(r"\s+", " ", x) for x in sa] != [re.sub(r"\s+", " ", x) for x in sb]:
                    ctx.fail("VERBATIM (independent reader): a code span's content differs between the input and the formatted output",
                             {"doc": doc, "opts": o}, {"input": sa, "output": sb})
            if a != b:
                k = next((j for j, (x, y) in enumerate(zip(a, b)) if x != y), min(len(a), len(b)))
                xa = a[k] if k < len(a) else "<missing>"
                xb = b[k] if k < len(b) else "<missing>"
                ctx.fail("VERBATIM: a non-prose span differs between the input and the formatted output", {"doc": doc, "opts": o},
                         {"index": k, "input": xa, "output": xb}, known=attribute(doc, xa, xb, o))


def attribute(doc: str, xa, xb, o) -> str | None:
    if isinstance(xa, tuple) and xa[0] == "code" and isinstance(xb, tuple) and xb[0] == "code":
        la, lb = xa[3], xb[3]
        if xa[:3] == xb[:3] and len(la) == len(lb) and all(x == y or (x.strip(" \t") == "" and y == "") for x, y in zip(la, lb)):
            return "C04-whitespace-only-code-lines-emptied"
    # counterfactual attribution shared with C01: remove the triggers of the known findings and look again
    from flowmark import reformat_text
    from props import c01
    nd = c01.neutralise(doc)
    if nd != doc:
        try:
            ok = extract(nd.strip() + "\n") == extract(reformat_text(nd, **o))
            if not ok:
                nd = c01.neutralise_hard(doc)      # the fence tracker of neutralise can lose track; see c01.attribute
                ok = nd != doc and extract(nd.strip() + "\n") == extract(reformat_text(nd, **o))
            if ok:
                for fid, rx in c01.TRIGGERS:
                    if rx.search(doc):
                        return fid
                return "C01-unescaped-line-head-hazards"
        except Exception:
            pass
    return None


def tie_transform(ctx: Ctx, n: int) -> None:
    import astser
    from flowmark.formats.flowmark_markdown import ListSpacing, flowmark_markdown
    from flowmark.transforms.doc_cleanups import doc_cleanups
    from flowmark.transforms.doc_transforms import rewrite_text_across_inlines, rewrite_text_content
    from flowmark.typography.ellipses import ellipses
    from flowmark.typography.smartquotes import smart_quotes
    rng = ctx.rng
    ops, reals, cases = [], [], []
    docs = list(CODE_DOCS) + ["**Setext Bold**\n===\n\n# ****x****\n\n## ***bi***\n\n### **a** b\n\n> # **q**\n\n- # **l**\n\n[^f]: # **in note**\n"]
    from props import c10
    docs += c10.HEADING_DOCS
    docs += [mdgen.gen_document(rng, quotes=True, ellipses=True, tags=(i % 2 == 0), html=True, bold_headings=True) for i in range(n)]
    for i, doc in enumerate(docs):
        for kind in (("quotes", "ellipses", "unbold") if i < len(CODE_DOCS) + 1 else (("quotes", "ellipses", "unbold")[i % 3],)):
            m = flowmark_markdown(astser.symbolic_wrapper, ListSpacing.preserve)
            d = m.parse(doc.strip() + "\n")
            chars = "".join(sorted(set(doc)))
            fl = "".join("1" if re.match(r"\w", c) else "0" for c in chars)
            try:
                defs, body = astser.ser_doc(d)
            except astser.Unserialisable:
                continue
            if kind == "quotes":
                rewrite_text_across_inlines(d, smart_quotes)
            elif kind == "ellipses":
                rewrite_text_content(d, ellipses, coalesce_lines=True)
            else:
                doc_cleanups(d)
            reals.append(m.render(d))
            cases.append((kind, doc))
            ops.append(f"transform\t{kind}\t{enc(chars)}\t{fl}\t{defs}\t{body}")
    outs = run_driver(ops, workers=16)
    bad = 0
    for (kind, doc), o, r in zip(cases, outs, reals):
        ctx.count(["transform", kind, doc], nontrivial=True)
        ctx.bump("transform:" + kind)
        if o == "bad-op" or dec(o) != r:
            bad += 1
            ctx.tie_broken("transform:" + kind, {"doc": doc, "kind": kind}, o if o == "bad-op" else dec(o), r)
    ctx.obligation(f"tie transform: Lean models of rewrite_text_across_inlines∘smart_quotes, rewrite_text_content∘ellipses, doc_cleanups "
                   f"applied to Marko trees = the real transforms (rendered) on {len(cases)} documents", "correspondence", bad == 0, f"{bad} disagreement(s)")


def replay_findings(ctx: Ctx) -> None:
    from flowmark import reformat_text
    for fid, e in ctx.kf.items():
        c = e.get("input") or {}
        if "doc" in c and "must_contain" in c:
            out = reformat_text(c["doc"], semantic=False, cleanups=False, width=c.get("W", 88))
            ctx.known_replay(fid, c["must_contain"] not in out)
        elif "doc" in c:
            out = reformat_text(c["doc"], semantic=False, cleanups=False)
            ctx.known_replay(fid, extract(c["doc"].strip() + "\n") != extract(out))


STRESS_SPANS = ["``a ` - b``", "`` ` > q``", "`- x`", "`1. x`", "``# ` h``", "`+ p`", "``` `` * `` ```", "{% t - x %}", "<!-- - c -->", "<b a='- x'>",
                "{{ v | - }}", "``= ` =``", "`--- x`", "``1) ` y``", "[- l](http://u/-)", "`> q`"]


def span_stress(ctx: Ctx, n: int) -> None:
    """spans whose content would be a block marker at a line start, swept over every width: a span that is not
    kept atomic gets an escape written into it at some width"""
    from flowmark import reformat_text
    import gen
    rng = ctx.rng
    for i in range(n):
        ws = []
        for _ in range(rng.randint(4, 14)):
            ws.append(rng.choice(STRESS_SPANS) if rng.random() < 0.5 else rng.choice(gen.PLAIN_WORDS))
        doc = rng.choice(["", "- ", "> ", "1. "]) + " ".join(ws) + "\n"
        a = extract(doc)
        for W in range(8, 41):
            sem = (W + i) % 2 == 0
            out = reformat_text(doc, width=W, semantic=sem, cleanups=False, smartquotes=False, ellipses=False)
            ctx.count(["stress", doc, W, sem], nontrivial=True, sample=(W == 20 and i % 17 == 0))
            ctx.bump("span-stress")
            b = extract(out)
            if a != b:
                k = next((j for j, (x, y) in enumerate(zip(a, b)) if x != y), min(len(a), len(b)))
                ctx.fail("VERBATIM: a non-prose span differs between the input and the formatted output",
                         {"doc": doc, "opts": dict(width=W, semantic=sem, cleanups=False, smartquotes=False, ellipses=False)},
                         {"in": str(a[k] if k < len(a) else None), "out": str(b[k] if k < len(b) else None)})
                return


# ---------------------------------------------------------------------------------------------------------------
# family "indented code": an indented code block is the one place where the formatter has to *choose* a fence (a fenced
# block keeps its own, which its content cannot close by construction), so "a fence is always long enough to contain its
# content" is decided here.  Content lines are adversarial for that choice: runs of either fence character, of every
# length, at every indentation a closing fence may have (0..3) and one it may not (4), bare or followed by text.

def _fence_like(rng) -> str:
    ch = rng.choice("``~")
    return " " * rng.choice([0, 0, 1, 2, 3, 3, 4]) + ch * rng.choice([3, 3, 4, 5, 7]) + rng.choice(["", "", "", "py", " x", ch + " " + ch * 3])


INDENTED_CONTAINERS = [("", ""), ("", ""), ("- ", "  "), ("1. ", "   "), ("> ", "> "), ("- > ", "  > "), ("> - ", ">   "), ("10. ", "    ")]


def indented_code_docs(rng, n: int) -> list[str]:
    plain = [l for l in mdgen.CODE_LINES if l.strip() and not l.startswith("\t")]
    docs = []
    for i in range(n):
        first, rest = rng.choice(INDENTED_CONTAINERS)
        k = rng.randint(1, 5)
        body = [(_fence_like(rng) if rng.random() < 0.45 else rng.choice(plain)) for _ in range(k)]
        if i % 3 == 0 and not any(l.lstrip(" ")[:3] in ("```", "~~~") for l in body):
            body[rng.randrange(k)] = _fence_like(rng)
        if k >= 2 and rng.random() < 0.3:
            body.insert(rng.randint(1, k - 1), "")          # a blank line between two chunks belongs to the block
        ind = "\t" if first == "" and rng.random() < 0.15 else "    "      # a tab is an indentation of four, too
        lines = [first + "Example " + rng.choice(mdgen.WORDS) + ":", rest.rstrip()]
        lines += [(rest + ind + l) if l else rest.rstrip() for l in body]
        if rng.random() < 0.6:
            lines += [rest.rstrip(), rest + "After " + rng.choice(mdgen.WORDS) + "."]
        if rng.random() < 0.3:
            lines += ["", "Closing paragraph."]
        docs.append("\n".join(lines) + "\n")
    return docs


# ---------------------------------------------------------------------------------------------------------------
# family "split spans": every kind of inline non-prose span whose *source* is laid out over two or three lines (the
# break falls at whitespace inside the span, continuation lines optionally indented), holding what the typography passes
# look for (dots after words, straight quotes, apostrophes), in every container, before/after/between prose, starting a
# line or not.  The generated documents of mdgen keep each span on one source line; passes that see one source line at a
# time and passes that see the paragraph as a whole differ exactly on these inputs.

SPLIT_TOKENS = ["field", 'label="a"', 'hint="Please', "wait...", 'now"', "x='it's'", "note:", "above...", "and", "below...", "ok", '"Loading..."',
                "a...b", "kind=string", "don't", '"q"...', "upper", "50%", "it's", "so...", '"yes"', "'no'...", "v", "see", "more"]
SPLIT_DELIMS = [("{%", "%}", False), ("{%", "%}", False), ("{{", "}}", False), ("{#", "#}", False), ("<!--", "-->", False), ("{%", "%}", True), ("{{", "}}", True)]


def _split_span(rng) -> list[str]:
    """the tokens of one span; consecutive tokens are separated by whitespace that may be a line break"""
    ws = [rng.choice(SPLIT_TOKENS) for _ in range(rng.randint(2, 6))]
    if not any("..." in w for w in ws):
        ws[rng.randrange(1, len(ws))] = rng.choice(["wait...", "above...", "so...", "a...b"])
    r = rng.random()
    if r < 0.55:
        o, c, glued = rng.choice(SPLIT_DELIMS)
        return [o + ws[0]] + ws[1:-1] + [ws[-1] + c] if glued else [o] + ws + [c]
    if r < 0.7:
        return ["`" + ws[0]] + ws[1:-1] + [ws[-1] + "`"]
    if r < 0.85:
        vals = [w.replace('"', "") for w in ws]
        return ["<span", 'title="' + vals[0]] + vals[1:-1] + [vals[-1] + '"', "class='c'>"]
    # link: the break may fall inside the link text or between destination and title, not inside the title (a line
    # break inside a title comes out as a space, [t](http://u "a\nb") -> "a b"; titles are compared exactly, so that
    # sub-case is left out here and reported separately)
    vals = [w.replace('"', "") for w in ws[:3]]
    return ["[the", "link](http://x.org/a_b?c=1", '"' + " ".join(vals) + '")']


SPLIT_CONTAINERS = [("", ""), ("", ""), ("- ", "  "), ("1. ", "   "), ("> ", "> "), ("> - ", ">   "), ("- > ", "  > ")]


def typography_square(rng) -> list[dict]:
    """every smartquotes × ellipses combination (each pass alone, both, none) at one sampled width/semantic/cleanups"""
    w, sem, c = rng.choice((0, 24, 88)), rng.random() < 0.5, rng.random() < 0.5
    return [dict(width=w, semantic=sem, cleanups=c, smartquotes=q, ellipses=e) for q in (False, True) for e in (False, True)]


def split_span_docs(rng, n: int) -> list[str]:
    docs = []
    for i in range(n):
        first, rest = rng.choice(SPLIT_CONTAINERS)
        toks: list[tuple[str, bool]] = []      # (token, may a line break precede it)
        toks += [(w, False) for w in mdgen.words(rng, rng.randint(1, 6), quotes=(i % 2 == 0), ellipses=(i % 4 < 2))]
        for s in range(rng.choice([1, 1, 2])):
            span = _split_span(rng)
            breaks = set(rng.sample(range(1, len(span)), min(len(span) - 1, rng.choice([1, 1, 2]))))
            toks.append((span[0], rng.random() < 0.3))
            toks += [(t, j in breaks) for j, t in enumerate(span) if j > 0]
            toks += [(w, j == 0 and rng.random() < 0.3) for j, w in enumerate(mdgen.words(rng, rng.randint(1, 5), quotes=(i % 2 == 0), ellipses=(i % 4 < 2)))]
        text = first
        for j, (t, br) in enumerate(toks):
            if j == 0:
                text += t
            elif br:
                text += "\n" + rest + " " * rng.choice([0, 0, 0, 2, 3]) + t
            else:
                text += " " + t
        docs.append(text + "\n")
    return docs


def run(ctx: Ctx) -> None:
    driver_ok = lean_obligations(ctx)
    replay_findings(ctx)
    if driver_ok:
        # the render model meets the fence choice of indented code blocks on the same family the oracle below uses
        trng = random.Random(f"{ctx.prop}:tie-families:{ctx.seed}")
        ctx.guard("tie render", rendertie.tie_render, ctx.scale(150, 3000), indented_code_docs(trng, ctx.scale(80, 1500)))
        ctx.guard("tie transform", tie_transform, ctx.scale(150, 3000))
    oracle(ctx, CODE_DOCS, "special", full_product=True)
    # the two families below draw from their own stream, so the streams of the older families stay what they were
    frng = random.Random(f"{ctx.prop}:families:{ctx.seed}")
    oracle(ctx, indented_code_docs(frng, ctx.scale(120, 2500)), "indented-code", full_product=False, rng=frng)
    oracle(ctx, split_span_docs(frng, ctx.scale(150, 3000)), "split-span", full_product=False, rng=frng, pick=typography_square)
    span_stress(ctx, ctx.scale(60, 1500))
    rng = ctx.rng
    docs = [mdgen.gen_document(rng, quotes=True, ellipses=True, tags=(i % 2 == 0), html=(i % 3 == 0), bold_headings=True) for i in range(ctx.scale(400, 6000))]
    oracle(ctx, docs, "generated", full_product=False)
    ctx.assume("Marko's parse is the reader on both sides; which strings are tags is TEMPLATE_TAG_PATTERN's business (scanner tie in C06/C08)")
    ctx.rule("special code/URL/tag documents × the full 48-point option product; generated documents × 3 sampled option sets; "
             "indented code blocks with fence-like content lines (runs of ` and ~ of length 3..7 at indentation 0..4, in 7 containers) × 3 sampled "
             "option sets; spans laid out over 2..3 source lines (tags, comments, inline HTML, code spans, link destination/title; dots and quotes "
             "inside) × all 4 smartquotes/ellipses combinations at a sampled width/semantic/cleanups; "
             "non-trivial = the document has at least one non-prose span")


def search(ctx: Ctx) -> None:
    for b in ctx.broken_inputs:
        doc = b["case"].get("doc")
        if doc:
            oracle(ctx, [doc], "from-broken-tie", full_product=True)
    rng = ctx.rng
    oracle(ctx, indented_code_docs(rng, 1500), "search:indented-code", full_product=False)
    oracle(ctx, split_span_docs(rng, 1500), "search:split-span", full_product=False, pick=typography_square)
    docs = [mdgen.gen_document(rng, quotes=True, ellipses=True, tags=True, html=True, bold_headings=True) for i in range(2500)]
    oracle(ctx, docs, "search", full_product=False)


def replay(ctx: Ctx, path: str) -> int:
    r = json.loads(open(path).read())
    print(json.dumps(r.get("input"), ensure_ascii=False)[:1500])
    print(r.get("detail"))
    return 0
