"""
C04 — Code, tags, URLs and other non-prose spans are reproduced verbatim.

Ring 1: FM/Props/C04.lean — FENCE_SAFE (no content line can close the emitted fence), REWRITE_CONFINED (text rewrites
        only change RawText payloads), code/dest emission lemmas on the render model.
Ring 2: tie render, tie transform (smart quotes / ellipses / unbold applied to the Marko tree), shared scanners.
Ring 3: one extractor applied to parse(x) and parse(fmt(x)) — code blocks, code spans, tags, comments, HTML, URLs,
        destinations/titles, labels — must give the same sequence for every option set (typography on and off).
"""
from __future__ import annotations

import json
import re

import mdast
import mdgen
import rendertie
from common import Ctx, dec, enc, run_driver
from leanbuild import lean_obligations

TAG_RE = re.compile(r"\{%[\s\S]*?%\}|\{\{[\s\S]*?\}\}|\{#[\s\S]*?#\}|<!--[\s\S]*?-->")

CODE_DOCS = [
    "```\nplain\n```\n", "```python extra words\nx = 1\n\n\ny = 2\n```\n", "~~~\n```\n````\n~~~\n", "````\n```\n~~~\n````\n",
    "```\n   ```\n    ````\n```\n", "- item\n\n  ```sh\n  $ a\n\n  $ b\n  ```\n", "> ```\n> quoted\n>\n> code\n> ```\n",
    "    indented code\n    second\n\nafter\n".replace("    indented", "text\n\n    indented", 1),
    "```\na\x0bb\x1cc\x85d e\n```\n", "```\n\x0b```\n```\n", "~~~ info\n\ttab\n~~~\n", "```\nends with blank\n\n\n```\n",
    "`code` ``a`b`` `` `x `` ` lead` `a  b`\n", "<span title=\"it's\">x</span> and <!-- \"c\" ... --> and {% t a=\"it's ...\" %}\n",
    "[l](http://x.org/it's_a \"T's ...\") ![i](http://u/... 'q') <http://a.b/c'd> www.x.org/it's\n\n[r]: http://r.org/... \"R's ... t\"\n",
    "```text\n\n```\n", "> ```\n>\n> ```\n", "- ```\n\n  ```\n", "```\n\n\n```\n", "~~~\n \n~~~\n",
    "1. ```\n   in list\n   ```\n2. x\n", "```\n{% tag %}\n- not a list\n| no | table |\n{% /tag %}\n```\n",
]

OPT_PRODUCT = [dict(width=w, semantic=s, cleanups=c, smartquotes=q, ellipses=e)
               for w in (0, 24, 88) for s in (False, True) for c in (False, True) for q in (False, True) for e in (False, True)]


def extract(text: str) -> list:
    out: list = []

    def walk_inl(es):
        for e in es:
            k = type(e).__name__
            if k == "RawText":
                for m in TAG_RE.finditer(e.children):
                    out.append(("tag", re.sub(r"\s+", " ", m.group(0))))
            elif k == "CodeSpan":
                out.append(("codespan", re.sub(r"\s+", " ", e.children).strip()))
            elif k == "InlineHTML":
                out.append(("html", re.sub(r"\s+", " ", e.children)))
            elif k in ("AutoLink", "Url"):
                out.append(("url", e.children[0].children if isinstance(e.children, list) else e.dest))
            elif k in ("Link", "Image"):
                out.append((k.lower(), e.dest, e.title or None))
                walk_inl(e.children)
            elif k == "FootnoteRef":
                out.append(("fnref", e.label))
            elif isinstance(getattr(e, "children", None), list):
                walk_inl(e.children)

    def walk(es):
        for e in es:
            k = type(e).__name__
            if k in ("FencedCode", "CustomFencedCode"):
                # fenced content is compared exactly (blank lines included); only a missing final newline of an
                # unclosed fence at end of input is completed
                c = e.children[0].children
                out.append(("code", e.lang or "", (e.extra or "") if e.lang else "", (c if c.endswith("\n") or not c else c + "\n").split("\n")[:-1]))
            elif k == "CodeBlock":
                out.append(("code", "", "", e.children[0].children.rstrip("\n").split("\n")))
            elif k == "LinkRefDef":
                t = e.title or None
                if t and len(t) >= 2 and (t[0], t[-1]) in (('"', '"'), ("'", "'"), ("(", ")")):
                    t = re.sub(r"\\(.)", r"\1", t[1:-1])
                out.append(("linkdef", e.label, e.dest, t))
            elif k == "FootnoteDef":
                out.append(("fndef", e.label))
                walk(e.children)
            elif k in ("Paragraph", "Heading", "SetextHeading"):
                walk_inl(e.children)
            elif k == "Table":
                for r in e.children:
                    for c in r.children:
                        walk_inl(c.children)
            elif isinstance(getattr(e, "children", None), list):
                walk(e.children)

    walk(mdast.parse(text).children)
    return out


def oracle(ctx: Ctx, docs, label: str, full_product: bool) -> None:
    from flowmark import reformat_text
    rng = ctx.rng
    for i, doc in enumerate(docs):
        try:
            a = extract(doc.strip() + "\n")
        except Exception as e:
            ctx.fail("parser raised on input", {"doc": doc}, repr(e))
            continue
        opts = OPT_PRODUCT if full_product else rng.sample(OPT_PRODUCT, 3)
        for o in opts:
            try:
                out = reformat_text(doc, **o)
                b = extract(out)
            except Exception as e:
                ctx.fail("format or re-parse raised", {"doc": doc, "opts": o}, repr(e))
                continue
            ctx.count(["verbatim", doc, o], nontrivial=len(a) > 0, sample=(i % 157 == 3))
            ctx.bump(label)
            if a != b:
                k = next((j for j, (x, y) in enumerate(zip(a, b)) if x != y), min(len(a), len(b)))
                xa = a[k] if k < len(a) else "<missing>"
                xb = b[k] if k < len(b) else "<missing>"
                ctx.fail("VERBATIM: a non-prose span differs between the input and the formatted output", {"doc": doc, "opts": o},
                         {"index": k, "input": xa, "output": xb}, known=attribute(doc, xa, xb, o))


def attribute(doc: str, xa, xb, o) -> str | None:
    if isinstance(xa, tuple) and xa[0] == "code" and isinstance(xb, tuple) and xb[0] == "code":
        la, lb = xa[3], xb[3]
        if xa[:3] == xb[:3] and len(la) == len(lb) and all(x == y or (x.strip(" \t") == "" and y == "") for x, y in zip(la, lb)):
            return "C04-whitespace-only-code-lines-emptied"
    # counterfactual attribution shared with C01: remove the triggers of the known findings and look again
    from flowmark import reformat_text
    from props import c01
    nd = c01.neutralise(doc)
    if nd != doc:
        try:
            ok = extract(nd.strip() + "\n") == extract(reformat_text(nd, **o))
            if not ok:
                nd = c01.neutralise_hard(doc)      # the fence tracker of neutralise can lose track; see c01.attribute
                ok = nd != doc and extract(nd.strip() + "\n") == extract(reformat_text(nd, **o))
            if ok:
                for fid, rx in c01.TRIGGERS:
                    if rx.search(doc):
                        return fid
                return "C01-unescaped-line-head-hazards"
        except Exception:
            pass
    return None


def tie_transform(ctx: Ctx, n: int) -> None:
    import astser
    from flowmark.formats.flowmark_markdown import ListSpacing, flowmark_markdown
    from flowmark.transforms.doc_cleanups import doc_cleanups
    from flowmark.transforms.doc_transforms import rewrite_text_across_inlines, rewrite_text_content
    from flowmark.typography.ellipses import ellipses
    from flowmark.typography.smartquotes import smart_quotes
    rng = ctx.rng
    ops, reals, cases = [], [], []
    docs = list(CODE_DOCS) + ["**Setext Bold**\n===\n\n# ****x****\n\n## ***bi***\n\n### **a** b\n\n> # **q**\n\n- # **l**\n\n[^f]: # **in note**\n"]
    from props import c10
    docs += c10.HEADING_DOCS
    docs += [mdgen.gen_document(rng, quotes=True, ellipses=True, tags=(i % 2 == 0), html=True, bold_headings=True) for i in range(n)]
    for i, doc in enumerate(docs):
        for kind in (("quotes", "ellipses", "unbold") if i < len(CODE_DOCS) + 1 else (("quotes", "ellipses", "unbold")[i % 3],)):
            m = flowmark_markdown(astser.symbolic_wrapper, ListSpacing.preserve)
            d = m.parse(doc.strip() + "\n")
            chars = "".join(sorted(set(doc)))
            fl = "".join("1" if re.match(r"\w", c) else "0" for c in chars)
            try:
                defs, body = astser.ser_doc(d)
            except astser.Unserialisable:
                continue
            if kind == "quotes":
                rewrite_text_across_inlines(d, smart_quotes)
            elif kind == "ellipses":
                rewrite_text_content(d, ellipses, coalesce_lines=True)
            else:
                doc_cleanups(d)
            reals.append(m.render(d))
            cases.append((kind, doc))
            ops.append(f"transform\t{kind}\t{enc(chars)}\t{fl}\t{defs}\t{body}")
    outs = run_driver(ops, workers=16)
    bad = 0
    for (kind, doc), o, r in zip(cases, outs, reals):
        ctx.count(["transform", kind, doc], nontrivial=True)
        ctx.bump("transform:" + kind)
        if o == "bad-op" or dec(o) != r:
            bad += 1
            ctx.tie_broken("transform:" + kind, {"doc": doc, "kind": kind}, o if o == "bad-op" else dec(o), r)
    ctx.obligation(f"tie transform: Lean models of rewrite_text_across_inlines∘smart_quotes, rewrite_text_content∘ellipses, doc_cleanups "
                   f"applied to Marko trees = the real transforms (rendered) on {len(cases)} documents", "correspondence", bad == 0, f"{bad} disagreement(s)")


def replay_findings(ctx: Ctx) -> None:
    from flowmark import reformat_text
    for fid, e in ctx.kf.items():
        c = e.get("input") or {}
        if "doc" in c and "must_contain" in c:
            out = reformat_text(c["doc"], semantic=False, cleanups=False, width=c.get("W", 88))
            ctx.known_replay(fid, c["must_contain"] not in out)
        elif "doc" in c:
            out = reformat_text(c["doc"], semantic=False, cleanups=False)
            ctx.known_replay(fid, extract(c["doc"].strip() + "\n") != extract(out))


STRESS_SPANS = ["``a ` - b``", "`` ` > q``", "`- x`", "`1. x`", "``# ` h``", "`+ p`", "``` `` * `` ```", "{% t - x %}", "<!-- - c -->", "<b a='- x'>",
                "{{ v | - }}", "``= ` =``", "`--- x`", "``1) ` y``", "[- l](http://u/-)", "`> q`"]


def span_stress(ctx: Ctx, n: int) -> None:
    """spans whose content would be a block marker at a line start, swept over every width: a span that is not
    kept atomic gets an escape written into it at some width"""
    from flowmark import reformat_text
    import gen
    rng = ctx.rng
    for i in range(n):
        ws = []
        for _ in range(rng.randint(4, 14)):
            ws.append(rng.choice(STRESS_SPANS) if rng.random() < 0.5 else rng.choice(gen.PLAIN_WORDS))
        doc = rng.choice(["", "- ", "> ", "1. "]) + " ".join(ws) + "\n"
        a = extract(doc)
        for W in range(8, 41):
            sem = (W + i) % 2 == 0
            out = reformat_text(doc, width=W, semantic=sem, cleanups=False, smartquotes=False, ellipses=False)
            ctx.count(["stress", doc, W, sem], nontrivial=True, sample=(W == 20 and i % 17 == 0))
            ctx.bump("span-stress")
            b = extract(out)
            if a != b:
                k = next((j for j, (x, y) in enumerate(zip(a, b)) if x != y), min(len(a), len(b)))
                ctx.fail("VERBATIM: a non-prose span differs between the input and the formatted output",
                         {"doc": doc, "opts": dict(width=W, semantic=sem, cleanups=False, smartquotes=False, ellipses=False)},
                         {"in": str(a[k] if k < len(a) else None), "out": str(b[k] if k < len(b) else None)})
                return


def run(ctx: Ctx) -> None:
    driver_ok = lean_obligations(ctx)
    replay_findings(ctx)
    if driver_ok:
        ctx.guard("tie render", rendertie.tie_render, ctx.scale(150, 3000))
        ctx.guard("tie transform", tie_transform, ctx.scale(150, 3000))
    oracle(ctx, CODE_DOCS, "special", full_product=True)
    span_stress(ctx, ctx.scale(60, 1500))
    rng = ctx.rng
    docs = [mdgen.gen_document(rng, quotes=True, ellipses=True, tags=(i % 2 == 0), html=(i % 3 == 0), bold_headings=True) for i in range(ctx.scale(400, 6000))]
    oracle(ctx, docs, "generated", full_product=False)
    ctx.assume("Marko's parse is the reader on both sides; which strings are tags is TEMPLATE_TAG_PATTERN's business (scanner tie in C06/C08)")
    ctx.rule("special code/URL/tag documents × the full 48-point option product; generated documents × 3 sampled option sets; "
             "non-trivial = the document has at least one non-prose span")


def search(ctx: Ctx) -> None:
    for b in ctx.broken_inputs:
        doc = b["case"].get("doc")
        if doc:
            oracle(ctx, [doc], "from-broken-tie", full_product=True)
    rng = ctx.rng
    docs = [mdgen.gen_document(rng, quotes=True, ellipses=True, tags=True, html=True, bold_headings=True) for i in range(2500)]
    oracle(ctx, docs, "search", full_product=False)


def replay(ctx: Ctx, path: str) -> int:
    r = json.loads(open(path).read())
    print(json.dumps(r.get("input"), ensure_ascii=False)[:1500])
    print(r.get("detail"))
    return 0
