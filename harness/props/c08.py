"""
C08 — Smart quotes only swap individual quote characters, and only in prose.

Ring 1: FM/Props/C08.lean about the text-level model `smartQuotes` (Q_POINTWISE, Q_TAGS, …).
Ring 2: equality of model and `smart_quotes` on all short strings over a 16-symbol alphabet + random long strings.
Ring 3: document level — reformat_text with smartquotes on vs off: same length, same line breaks,
        differences only ' → ‘ ’ and " → “ ”, never inside code/tags/HTML/URLs.
        Q_PAIRED: every converted opening/closing quote has its partner quote character inside the same
        blank-line-delimited chunk of the output (quotes are only paired within one paragraph).
        Scoped documents: every kind of inline scope (ATX/setext heading, table cell, paragraph at top level
        and in multi-paragraph list items, block quotes and footnote definitions) filled with quote words,
        non-ASCII spaces/letters/quote look-alikes and quotations that open in one scope and close in the
        next one; on top of the on/off oracles, Q_LOCAL: the sequence of quote characters of the document
        equals the concatenation of the sequences of its scopes formatted on their own.
"""
from __future__ import annotations

import itertools
import json
import re

from common import Ctx, dec, enc, run_driver
from leanbuild import lean_obligations

ALPHABET = ["'", '"', "a", "s", ".", ",", "—", "(", ")", " ", "\n", "\\", "{", "%", "}", "1"]
EXTRA = ["“", "”", "‘", "’", "S", "-", "#", "<", "!", ">", "\t", "x", "_", "é", ";", ":", "?"]
SINGLE = {"'": "‘’", '"': "“”"}


def word_flags(t: str) -> str:
    return "".join("1" if re.match(r"\w", c) else "0" for c in t)


def qrel_ok(a: str, b: str) -> bool:
    return len(a) == len(b) and all(x == y or (x in SINGLE and y in SINGLE[x]) for x, y in zip(a, b))


def tie_quotes(ctx: Ctx) -> None:
    from flowmark.typography.smartquotes import smart_quotes
    rng = ctx.rng
    maxlen = ctx.scale(4, 5)
    texts = ["".join(t) for n in range(0, maxlen + 1) for t in itertools.product(ALPHABET, repeat=n)]
    n_exh = len(texts)
    # longer: sampled, with richer alphabet and realistic fragments
    frags = ['"yes"', "'no'", "it's", "James'", "Jill's", ' "a b" ', "{% t \"x\" %}", "{{ 'v' }}", "<!-- \"c\" -->", "{# 'x' #}",
             '—"dash"', '("paren")', 'x="foo"', "\n\n", "\n", " ", "word", '"multi\n\npara"', "'tis", "rock 'n' roll", '""', "''",
             "“already”", "’", "\\\"esc\\\"", "{%", "%}", "don't", "'s", "s'", "1's", "a'b'c", ",", ".", "?", "!", ":", ";", ")"]
    for _ in range(ctx.scale(40000, 400000)):
        if rng.random() < 0.5:
            t = "".join(rng.choice(frags) for _ in range(rng.randint(1, 12)))
        else:
            t = "".join(rng.choice(ALPHABET + EXTRA) for _ in range(rng.randint(6, 40)))
        texts.append(t)
    outs = run_driver([f"quotes\t{enc(t)}\t{word_flags(t)}" for t in texts], workers=16)
    bad = 0
    for i, (t, o) in enumerate(zip(texts, outs)):
        exp = smart_quotes(t)
        got = None if o == "bad-op" else dec(o)
        ctx.count(["quotes", t], nontrivial=exp != t, sample=(i % 50021 == 17))
        if got != exp:
            bad += 1
            ctx.tie_broken("quotes", {"text": t}, got, exp)
        if not qrel_ok(t, exp):
            ctx.fail("Q_POINTWISE: smart_quotes changed something other than a straight quote into its curly form", {"text": t}, exp)
    ctx.bump("quotes:exhaustive", n_exh)
    ctx.bump("quotes:sampled", len(texts) - n_exh)
    ctx.obligation(f"tie quotes: model smartQuotes = smart_quotes on all {n_exh} strings over a {len(ALPHABET)}-symbol alphabet ≤{maxlen} "
                   f"and {len(texts) - n_exh} sampled longer strings", "correspondence", bad == 0, f"{bad} disagreement(s)")
    ctx.rule("quotes: exhaustive short strings over {' \" a s . , — ( ) space newline \\ { % } 1}; fragments/random longer; "
             "non-trivial = output differs from input")


def replay_findings(ctx: Ctx) -> None:
    from flowmark import reformat_text
    for fid, e in ctx.kf.items():
        t = (e.get("input") or {}).get("text")
        if t:
            a = reformat_text(t, ellipses=True, smartquotes=False)
            b = reformat_text(t, ellipses=True, smartquotes=True)
            ctx.known_replay(fid, not qrel_ok(a, b))


def run(ctx: Ctx) -> None:
    driver_ok = lean_obligations(ctx)
    replay_findings(ctx)
    if driver_ok:
        ctx.guard("tie quotes", tie_quotes)
    doc_oracle(ctx, ctx.scale(400, 6000))
    sentence_end_family(ctx)
    scoped_oracle(ctx, ctx.scale(220, 3000))
    ctx.assume("`\\w` of Python's re is a parameter (flags per character computed by re itself)")
    ctx.assume("rewrite_text_across_inlines / Marko inline parsing are covered by the document-level oracle, not by a theorem yet")


def doc_oracle(ctx: Ctx, n: int) -> None:
    import mdgen
    from flowmark import reformat_text
    rng = ctx.rng
    for i in range(n):
        doc = mdgen.gen_document(rng, quotes=True)
        o = mdgen.rand_opts(rng)
        o.pop("smartquotes", None)
        try:
            off = reformat_text(doc, smartquotes=False, **o)
            on = reformat_text(doc, smartquotes=True, **o)
        except Exception as e:
            ctx.fail("format raised", {"doc": doc, "opts": o}, repr(e))
            continue
        ctx.count(["doc", doc, o], nontrivial=on != off, sample=(i % 977 == 3))
        onoff_oracles(ctx, {"doc": doc, "opts": o}, off, on)


QUOTE_AT_SENTENCE_END = [
    'He called it "the plan". Then he left the room and nobody said a word about it.',
    "She said 'no'. That was all there was to it, really, and we went home.",
    'Was it "done"? Nobody knew for sure. It was "fine"! Or so they said back then.',
    'He wrote (in "ink"). The letter was long enough to need wrapping at some point.',
    'They called it "a plan." Then they left. It was called \'the plan.\' Really it was.',
    'Ends with quote "like this". "And starts" another one. \'Single\' too. Done now.',
]


def sentence_end_family(ctx: Ctx) -> None:
    """same LINE BREAKS with the option on as off, where line breaks depend on the characters around a quote: a closing quote
    before or after the sentence punctuation, in semantic mode (the sentence-end heuristic reads quote characters) and at the
    widths where the quoted word ends a line"""
    from flowmark import reformat_text
    for text in QUOTE_AT_SENTENCE_END:
        for pre in ("", "- ", "> "):
            doc = pre + text + "\n"
            for sem in (True, False):
                for W in (0, 24, 40, 88):
                    o = dict(width=W, semantic=sem, cleanups=False, ellipses=False)
                    off = reformat_text(doc, smartquotes=False, **o)
                    on = reformat_text(doc, smartquotes=True, **o)
                    ctx.count(["quote-at-sentence-end", doc, W, sem], nontrivial=on != off, sample=False)
                    ctx.bump("quote-at-sentence-end")
                    onoff_oracles(ctx, {"doc": doc, "opts": o}, off, on)


def onoff_oracles(ctx: Ctx, case: dict, off: str, on: str) -> bool:
    """The oracles on one (smartquotes off, smartquotes on) pair of outputs; True when all hold."""
    import mdgen
    if not qrel_ok(off, on):
        ctx.fail("Q_DOC: smartquotes on/off differ in length, line breaks or in a non-quote character", case, {"off": off, "on": on})
        return False
    # protected spans (located in the OFF output) must be untouched
    for a, b in mdgen.protected_spans(off):
        if off[a:b] != on[a:b]:
            ctx.fail("Q_PROTECTED: a quote inside code/tag/HTML/URL/escape changed", case, {"span": off[a:b], "became": on[a:b]})
            return False
    bad = unpaired_conversion(off, on)
    if bad is not None:
        ctx.fail("Q_PAIRED: a quote was converted as one half of a pair whose other half is not in the same paragraph", case,
                 {"position": bad[0], "became": bad[1], "paragraph_off": bad[2], "paragraph_on": bad[3]})
        return False
    return True


_CHUNK_BREAK = re.compile(r"^[ \t>]*$")


def unpaired_conversion(off: str, on: str):
    """Quotes are only paired within one paragraph.  A paragraph (heading, cell, …) never contains a blank
    line (or a line holding only block-quote markers), so it lies inside one maximal run of non-blank output
    lines (a chunk; a chunk may hold several paragraphs — tight list items, table rows — which only makes the
    test weaker, never wrong).  A straight quote that became an OPENING curly quote was the first half of a
    pair, so a quote character of the same kind must follow it inside its chunk; one that became a CLOSING
    curly quote needs one before it — except ’ directly after a word character, which may be an apostrophe.
    The partner is looked for in the OFF text and may be any straight quote of that kind (an escaped one or
    one inside a code span may close a pair without changing itself).  Requires qrel_ok(off, on).
    Returns None or (position, new character, chunk of off, chunk of on)."""
    pos = 0
    chunks: list[tuple[int, int]] = []
    start = None
    for line in off.split("\n"):
        a, b = pos, pos + len(line)
        pos = b + 1
        if _CHUNK_BREAK.match(line):
            if start is not None:
                chunks.append((start, a))
                start = None
        elif start is None:
            start = a
    if start is not None:
        chunks.append((start, len(off)))
    for a, b in chunks:
        for i in range(a, b):
            c = on[i]
            if c == off[i]:
                continue
            q = off[i]
            if c in "“‘":
                ok = q in off[i + 1:b]
            elif c == "’" and i > a and re.match(r"\w", off[i - 1]):
                ok = True
            else:
                ok = q in off[a:i]
            if not ok:
                return (i, c, off[a:b], on[a:b])
    return None


# ------------------------------------------------------------------------------------------
# scoped documents: every kind of inline scope, exotic characters, quotations across scopes

# spaces that are not the ASCII space, and invisible joiners (a formatter must carry them through; whether
# they count as whitespace for the quote rules is the same with the option on and off)
EXOTIC_SEPS = ["\u00a0", "\u00a0", "\u202f", "\u2003", "\u2009", "\u3000", "\u200b", "\u2060"]
# words with characters a careless normalisation (NFC/NFKC, casefold, whitespace or quote folding) would change,
# and quote look-alikes that are NOT the straight quotes
EXOTIC_WORDS = ["10\u00a0EUR", "Mr.\u00a0Smith's", "na\u00efve", "cafe\u0301", "\ufb01ne", "«guillemets»", "„low“", "‚low‘",
                "5′", "3″", "＂full＂", "＇wide＇", "日本語", "😀", "a\u200db", "\u200fRTL", "soft\u00adhyphen", "“pre”", "‘pre’",
                "O’Neil", "rock\u00a0'n'\u00a0roll", "…", "non\u2011breaking", "ǅ", "Straße", "İstanbul", "´acute",
                "x\u0301\u0323", "\u2002\"en\"\u2002", "l\u00a0'q'", "\"a\u00a0b\"", "it\u2019s", "1\u20442"]
CODE_BODY = ["x = \"a\" + 'b'", "print(\"it's\")", "say \"hi\" 'there'", "plain", "s = 'don''t'", "\"open", "close\"", "10\u00a0EUR \"q\""]
SPAN_OPEN = ['he said: "This starts', "she wrote: 'It opens", 'and then "we', "so 'the"]
SPAN_CLOSE = ['and ends here." Then', "and closes there.' After", 'stop" and', "end' so"]
QUOTE_CHARS = "'\"‘’“”"


def quote_seq(text: str) -> str:
    return "".join(c for c in text if c in QUOTE_CHARS)


def scope_text(rng, n: int, cell: bool = False, breaks: bool = False) -> str:
    """Inline text for one inline scope: the quote vocabulary of the document generator (with code spans, links,
    tags, inline HTML, escapes) mixed with exotic words and joined by ordinary or exotic spaces; with `breaks`,
    some of the ordinary spaces are source line breaks."""
    import mdgen
    toks = mdgen._split_keep_atoms(mdgen.inline(rng, n, depth=1, quotes=True, tags=True, html=True))
    for _ in range(rng.randint(0, 2)):
        toks.insert(rng.randint(0, len(toks)), rng.choice(EXOTIC_WORDS))
    if cell:
        toks = [t for t in toks if "|" not in t] or ["x"]
    breaks = breaks and rng.random() < 0.7
    out = [toks[0]]
    for t in toks[1:]:
        r = rng.random()
        out.append(rng.choice(EXOTIC_SEPS) if r < 0.15 else "\n" if breaks and r < 0.3 else " ")
        out.append(t)
    return "".join(out)


def scope_lines(rng, n: int) -> list[str]:
    """A paragraph as source lines."""
    return scope_text(rng, n, breaks=True).split("\n")


def container_body(rng) -> list[tuple[str, list[str]]]:
    """Blocks of a multi-paragraph container (list item, block quote, footnote definition): paragraphs and
    fenced code; with a quotation that opens in one paragraph and closes in the next for half of them."""
    k = rng.choice([1, 2, 2, 3, 3])
    body: list[tuple[str, list[str]]] = []
    for j in range(k):
        if j and rng.random() < 0.2:
            code = [rng.choice(CODE_BODY) for _ in range(rng.randint(1, 3))]
            body.append(("code", ["```"] + code + ["```"]))
        else:
            body.append(("text", scope_lines(rng, rng.randint(2, 12))))
    texts = [b for b in body if b[0] == "text"]
    if len(texts) >= 2 and rng.random() < 0.6:
        i = rng.randrange(len(texts) - 1)
        s = rng.randrange(len(SPAN_OPEN))
        texts[i][1][-1] += " " + SPAN_OPEN[s]
        texts[i + 1][1][0] = SPAN_CLOSE[s] + " " + texts[i + 1][1][0]
    return body


def scoped_document(rng) -> tuple[str, list[tuple[str, list[str]]], set[str]]:
    """(document, its leaves in document order, kinds of block used).  A leaf is ("text", source lines of one
    inline scope) or ("code", lines of one fenced block)."""
    out: list[list[str]] = []
    leaves: list[tuple[str, list[str]]] = []
    kinds: set[str] = set()
    fn = 0
    for _ in range(rng.randint(2, 5)):
        r = rng.random()
        if r < 0.16:
            kinds.add("atx-heading")
            t = scope_text(rng, rng.randint(1, 6))
            out.append(["#" * rng.randint(1, 6) + " " + t])
            leaves.append(("text", [t]))
        elif r < 0.24:
            kinds.add("setext-heading")
            t = scope_text(rng, rng.randint(1, 6))
            out.append([t, rng.choice("=-") * rng.randint(3, 6)])
            leaves.append(("text", [t]))
        elif r < 0.38:
            kinds.add("paragraph")
            ls = scope_lines(rng, rng.randint(2, 25))
            out.append(ls)
            leaves.append(("text", ls))
        elif r < 0.54:
            kinds.add("table")
            cols = rng.randint(1, 3)
            rows = []
            for _r in range(rng.randint(1, 3)):
                cells = [scope_text(rng, rng.randint(1, 3), cell=True) for _c in range(cols)]
                if cols >= 2 and rng.random() < 0.4:      # a quotation across two cells of a row
                    s = rng.randrange(len(SPAN_OPEN))
                    cells[0] += " " + SPAN_OPEN[s]
                    cells[1] = SPAN_CLOSE[s] + " " + cells[1]
                rows.append(cells)
                leaves.extend(("text", [c]) for c in cells)
            fmt = lambda cells: "| " + " | ".join(cells) + " |"
            out.append([fmt(rows[0]), fmt([rng.choice(["---", ":---", "---:"]) for _c in range(cols)])] + [fmt(r_) for r_ in rows[1:]])
        else:
            if r < 0.70:
                kind, first, ind = "list-item", rng.choice(["- ", "* ", "1. ", "12) "]), None
            elif r < 0.82:
                kind, first, ind = "block-quote", "> ", "> "
            else:
                fn += 1
                kind, first, ind = "footnote", f"[^n{fn}]: ", "    "
                ref = [f"Text with a note[^n{fn}] inside it."]
                out.append(ref)
                leaves.append(("text", ref))
            kinds.add(kind)
            ind = " " * len(first) if ind is None else ind
            lines: list[str] = []
            n_items = rng.randint(1, 2) if kind == "list-item" else 1
            for _i in range(n_items):
                body = container_body(rng)
                leaves.extend(body)
                if len([b for b in body if b[0] == "text"]) > 1:
                    kinds.add(kind + ":multi-paragraph")
                if any(b[0] == "code" for b in body):
                    kinds.add(kind + ":code")
                flat: list[str] = []
                for j, (_k, ls) in enumerate(body):
                    if j:
                        flat.append("")
                    flat.extend(ls)
                if lines:
                    lines.append("")
                for j, l in enumerate(flat):
                    p = first if j == 0 else ind
                    lines.append((p + l) if l else p.rstrip())
            out.append(lines)
    doc = "\n\n".join("\n".join(b) for b in out) + "\n"
    return doc, leaves, kinds


def scoped_oracle(ctx: Ctx, n: int) -> None:
    import mdgen
    from flowmark import reformat_text
    rng = ctx.rng
    for i in range(n):
        doc, leaves, kinds = scoped_document(rng)
        o = mdgen.rand_opts(rng)
        o.pop("smartquotes", None)
        case = {"doc": doc, "opts": o}
        try:
            off = reformat_text(doc, smartquotes=False, **o)
            on = reformat_text(doc, smartquotes=True, **o)
        except Exception as e:
            ctx.fail("format raised", case, repr(e))
            continue
        ctx.count(["scoped", doc, o], nontrivial=on != off, sample=(i % 97 == 5))
        ctx.bump("scoped:documents")
        for k in sorted(kinds):
            ctx.bump("scoped:" + k)
        if any(ord(c) > 0x7f and c not in "“”‘’—" for c in doc):
            ctx.bump("scoped:with-exotic-characters")
        if not onoff_oracles(ctx, case, off, on):
            continue
        # Q_LOCAL: pairing never looks beyond one paragraph/heading/cell, so what happens to the quotes of a
        # scope does not depend on the document around it: formatted on its own (as a paragraph) the scope
        # shows the same sequence of straight/curly quote characters.  Code blocks show their own, unchanged.
        exp = []
        try:
            for kind, ls in leaves:
                if kind == "code":
                    exp.append(quote_seq("\n".join(ls)))
                else:
                    exp.append(quote_seq(reformat_text("\n".join(ls) + "\n", smartquotes=True, **o)))
        except Exception as e:
            ctx.fail("format raised", {"doc": "\n".join(ls) + "\n", "opts": o}, repr(e))
            continue
        got = quote_seq(on)
        if got != "".join(exp):
            # name the first scope whose quotes come out differently inside the document
            at, which = 0, None
            for (kind, ls), e in zip(leaves, exp):
                if got[at:at + len(e)] != e:
                    which = {"scope": "\n".join(ls), "alone": e, "in_document": got[at:at + len(e)]}
                    break
                at += len(e)
            ctx.fail("Q_LOCAL: the quotes of a paragraph/heading/cell are converted differently inside the document than on its own "
                     "(pairing or context beyond one paragraph)", case, {"first_difference": which, "on": on})
    ctx.rule("scoped: 2–5 blocks out of ATX/setext heading, paragraph, table, list items / block quote / footnote definition with 1–3 "
             "paragraphs and fenced code; scope text = quote vocabulary + exotic words, 15 % non-ASCII spaces; quotation across "
             "consecutive paragraphs of a container (60 %) or cells of a row (40 %); oracles Q_DOC, Q_PROTECTED, Q_PAIRED, Q_LOCAL")


def search(ctx: Ctx) -> None:
    from flowmark.typography.smartquotes import smart_quotes
    for b in ctx.broken_inputs:
        t = b["case"].get("text")
        if t is not None and not qrel_ok(t, smart_quotes(t)):
            ctx.fail("Q_POINTWISE: smart_quotes changed something other than a straight quote into its curly form", {"text": t}, smart_quotes(t))
    doc_oracle(ctx, 8000)
    scoped_oracle(ctx, 4000)


def replay(ctx: Ctx, path: str) -> int:
    r = json.loads(open(path).read())
    print(json.dumps(r.get("input"), ensure_ascii=False))
    return 0
