"""
C08 — Smart quotes only swap individual quote characters, and only in prose.

Ring 1: FM/Props/C08.lean about the text-level model `smartQuotes` (Q_POINTWISE, Q_TAGS, …).
Ring 2: equality of model and `smart_quotes` on all short strings over a 16-symbol alphabet + random long strings.
Ring 3: document level — reformat_text with smartquotes on vs off: same length, same line breaks,
        differences only ' → ‘ ’ and " → “ ”, never inside code/tags/HTML/URLs.
"""
from __future__ import annotations

import itertools
import json
import re

from common import Ctx, dec, enc, run_driver
from leanbuild import lean_obligations

ALPHABET = ["'", '"', "a", "s", ".", ",", "—", "(", ")", " ", "\n", "\\", "{", "%", "}", "1"]
EXTRA = ["“", "”", "‘", "’", "S", "-", "#", "<", "!", ">", "\t", "x", "_", "é", ";", ":", "?"]
SINGLE = {"'": "‘’", '"': "“”"}


def word_flags(t: str) -> str:
    return "".join("1" if re.match(r"\w", c) else "0" for c in t)


def qrel_ok(a: str, b: str) -> bool:
    return len(a) == len(b) and all(x == y or (x in SINGLE and y in SINGLE[x]) for x, y in zip(a, b))


def tie_quotes(ctx: Ctx) -> None:
    from flowmark.typography.smartquotes import smart_quotes
    rng = ctx.rng
    maxlen = ctx.scale(4, 5)
    texts = ["".join(t) for n in range(0, maxlen + 1) for t in itertools.product(ALPHABET, repeat=n)]
    n_exh = len(texts)
    # longer: sampled, with richer alphabet and realistic fragments
    frags = ['"yes"', "'no'", "it's", "James'", "Jill's", ' "a b" ', "{% t \"x\" %}", "{{ 'v' }}", "<!-- \"c\" -->", "{# 'x' #}",
             '—"dash"', '("paren")', 'x="foo"', "\n\n", "\n", " ", "word", '"multi\n\npara"', "'tis", "rock 'n' roll", '""', "''",
             "“already”", "’", "\\\"esc\\\"", "{%", "%}", "don't", "'s", "s'", "1's", "a'b'c", ",", ".", "?", "!", ":", ";", ")"]
    for _ in range(ctx.scale(40000, 400000)):
        if rng.random() < 0.5:
            t = "".join(rng.choice(frags) for _ in range(rng.randint(1, 12)))
        else:
            t = "".join(rng.choice(ALPHABET + EXTRA) for _ in range(rng.randint(6, 40)))
        texts.append(t)
    outs = run_driver([f"quotes\t{enc(t)}\t{word_flags(t)}" for t in texts], workers=16)
    bad = 0
    for i, (t, o) in enumerate(zip(texts, outs)):
        exp = smart_quotes(t)
        got = None if o == "bad-op" else dec(o)
        ctx.count(["quotes", t], nontrivial=exp != t, sample=(i % 50021 == 17))
        if got != exp:
            bad += 1
            ctx.tie_broken("quotes", {"text": t}, got, exp)
        if not qrel_ok(t, exp):
            ctx.fail("Q_POINTWISE: smart_quotes changed something other than a straight quote into its curly form", {"text": t}, exp)
    ctx.bump("quotes:exhaustive", n_exh)
    ctx.bump("quotes:sampled", len(texts) - n_exh)
    ctx.obligation(f"tie quotes: model smartQuotes = smart_quotes on all {n_exh} strings over a {len(ALPHABET)}-symbol alphabet ≤{maxlen} "
                   f"and {len(texts) - n_exh} sampled longer strings", "correspondence", bad == 0, f"{bad} disagreement(s)")
    ctx.rule("quotes: exhaustive short strings over {' \" a s . , — ( ) space newline \\ { % } 1}; fragments/random longer; "
             "non-trivial = output differs from input")


def replay_findings(ctx: Ctx) -> None:
    from flowmark import reformat_text
    for fid, e in ctx.kf.items():
        t = (e.get("input") or {}).get("text")
        if t:
            a = reformat_text(t, ellipses=True, smartquotes=False)
            b = reformat_text(t, ellipses=True, smartquotes=True)
            ctx.known_replay(fid, not qrel_ok(a, b))


def run(ctx: Ctx) -> None:
    driver_ok = lean_obligations(ctx)
    replay_findings(ctx)
    if driver_ok:
        ctx.guard("tie quotes", tie_quotes)
    doc_oracle(ctx, ctx.scale(400, 6000))
    ctx.assume("`\\w` of Python's re is a parameter (flags per character computed by re itself)")
    ctx.assume("rewrite_text_across_inlines / Marko inline parsing are covered by the document-level oracle, not by a theorem yet")


def doc_oracle(ctx: Ctx, n: int) -> None:
    import mdgen
    from flowmark import reformat_text
    rng = ctx.rng
    for i in range(n):
        doc = mdgen.gen_document(rng, quotes=True)
        o = mdgen.rand_opts(rng)
        o.pop("smartquotes", None)
        try:
            off = reformat_text(doc, smartquotes=False, **o)
            on = reformat_text(doc, smartquotes=True, **o)
        except Exception as e:
            ctx.fail("format raised", {"doc": doc, "opts": o}, repr(e))
            continue
        ctx.count(["doc", doc, o], nontrivial=on != off, sample=(i % 977 == 3))
        case = {"doc": doc, "opts": o}
        if not qrel_ok(off, on):
            ctx.fail("Q_DOC: smartquotes on/off differ in length, line breaks or in a non-quote character", case, {"off": off, "on": on})
            continue
        # protected spans (located in the OFF output) must be untouched
        for a, b in mdgen.protected_spans(off):
            if off[a:b] != on[a:b]:
                ctx.fail("Q_PROTECTED: a quote inside code/tag/HTML/URL/escape changed", case, {"span": off[a:b], "became": on[a:b]})
                break


def search(ctx: Ctx) -> None:
    from flowmark.typography.smartquotes import smart_quotes
    for b in ctx.broken_inputs:
        t = b["case"].get("text")
        if t is not None and not qrel_ok(t, smart_quotes(t)):
            ctx.fail("Q_POINTWISE: smart_quotes changed something other than a straight quote into its curly form", {"text": t}, smart_quotes(t))
    doc_oracle(ctx, 8000)


def replay(ctx: Ctx, path: str) -> int:
    r = json.loads(open(path).read())
    print(json.dumps(r.get("input"), ensure_ascii=False))
    return 0
