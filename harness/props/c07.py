"""
C07 — YAML frontmatter is passed through exactly and does not influence the body.

Ring 1: FM/Props/C07.lean about the model `splitFrontmatter` / `fillShell` (Model/Frontmatter.lean).
Ring 2: equality of model and `split_frontmatter` (bounded-exhaustive line vocabularies × terminators + random
        Unicode), and of `fillShell` with `fill_markdown` using a stub body formatter.
Ring 3: FM_EXACT / FM_INDEP / FM_UNCLOSED directly on `reformat_text`.
"""
from __future__ import annotations

import itertools
import json

from common import Ctx, dec, dec_list, enc, enc_list, run_driver
from leanbuild import lean_obligations

LINE_VOCAB = ["---", " --- ", "a: 1", "", "# h", "- x", "--- #", "----", "key: \"q\" ...", "  ", "---\x0b", "a\x1cb", "t: x y"]
TERMS = ["\n", "\r\n"]
EXOTIC = ["\x0b", "\x0c", "\x1c", "\x1d", "\x1e", "\x85", " ", " ", "\r"]

BODIES = [
    "", "body\n", "# Title\n\nSome text that is long enough to be wrapped when the width is small, really.\n",
    "- a\n- b\n\n1. x\n2. y\n", "> quote\n\n```\ncode\n```\n", "text with \"quotes\" and dots...\n",
    "   indented start\n", "\n\nleading blanks\n", "para one\n\npara two\n", "| a | b |\n|---|---|\n| 1 | 2 |\n",
    "a\x1c\x1cb\n", "x y\n", "* * *\n", "***\n",
    "    para one\n\n    para two\n", "  - a\n  - b\n\n      code\n", "\tx\n\n\ty\n",
]
DASH_BODIES = ["---\n", "---\nmore\n", "\n---\nx\n", " --- \nfoo\n"]

OPTSETS = [
    dict(width=88, semantic=False, cleanups=False),
    dict(width=20, semantic=True, cleanups=True, smartquotes=True, ellipses=True),
    dict(width=0, semantic=False, cleanups=False),
]


def _api():
    from flowmark import reformat_text
    from flowmark.formats.frontmatter import split_frontmatter
    return reformat_text, split_frontmatter


def gen_frontmatters(ctx: Ctx):
    rng = ctx.rng
    fixed = [
        "---\ntitle: Test\n---\n", "---\na: \"q\" ... 'x'\nb: - not a list\n# not a heading\n---\n",
        "---\r\na: 1\r\n---\r\n", "---\n\n\nk: v   \n---\n", " --- \nfoo: bar\n --- \n", "---\n---\n",
        "---\nlong: " + "word " * 40 + "\n---\n",
    ]
    for f in fixed:
        yield f, "clean"
    for _ in range(ctx.scale(60, 600)):
        n = rng.randint(0, 5)
        mid = []
        for _ in range(n):
            l = rng.choice(["k: v", "title: \"A ... B\"", "- item", "# x", "", "  nested: 1  ", "x: 'it''s'", "emoji: \U0001F600", "tab:\tv",
                            "   ", "\t", "cr: v\r", "a --- b", "# ---- x ----", "----", "--- x"])
            mid.append(l)
        term = rng.choice(TERMS) if rng.random() < 0.3 else "\n"
        yield "---" + term + "".join(l + term for l in mid) + "---" + term, "clean"
    for _ in range(ctx.scale(40, 400)):
        n = rng.randint(1, 4)
        mid = [rng.choice(["k: v", "a" + rng.choice(EXOTIC) + "b", rng.choice(EXOTIC), "x: y" + rng.choice(EXOTIC)]) for _ in range(n)]
        yield "---\n" + "".join(l + "\n" for l in mid) + "---\n", "exotic"


def expected_fm(fm: str) -> str:
    return fm.replace("\r\n", "\n")


def oracle(ctx: Ctx) -> None:
    reformat_text, _ = _api()
    for fm, kind in gen_frontmatters(ctx):
        bodies = BODIES if kind == "clean" else BODIES[:4]
        for bi, body in enumerate(bodies + (DASH_BODIES if kind == "clean" else [])):
            for oi, o in enumerate(OPTSETS):
                if (bi + oi) % 3 and ctx.tier == "quick":
                    continue
                x = fm + body
                case = {"frontmatter": fm, "body": body, "opts": o}
                try:
                    out = reformat_text(x, **o)
                    fb = reformat_text(body, **o)
                except Exception as e:  # C12's business, but report here too
                    ctx.fail("format raised", case, repr(e))
                    continue
                ctx.count(["fm", fm, body, oi], sample=(bi == 2 and oi == 0))
                ctx.bump("oracle:" + kind)
                efm = expected_fm(fm)
                if not out.startswith(efm):
                    ctx.fail("FM_EXACT: frontmatter not reproduced character for character (CRLF→LF only)", case, out[: len(efm) + 40])
                    continue
                dash = body.strip().split("\n")[0].strip() == "---" if body.strip() else False
                if out != efm + fb:
                    ctx.fail("FM_INDEP: format(frontmatter + body) != frontmatter + format(body)", case,
                             {"with": out, "expected": efm + fb}, known="C07-body-starts-with-dashes" if dash else None)
                    continue
                again = reformat_text(out, **o)
                if again != out:
                    kn = "C07-body-starts-with-dashes" if dash else ("C07-cr-before-crlf" if "\r\r\n" in fm else None)
                    ctx.fail("idempotence with frontmatter", case, {"first": out, "second": again}, known=kn)
    # unclosed frontmatter: unchanged apart from a final newline, however often formatted
    unclosed = ["---\nfoo: bar\n", "---\nfoo: bar", "---\n", "---", "---\na\n\nb: - x\n# h\n", "\n---\nx: 1\n", "---\r\nk: v\r\n",
                "---\nk: v\n\n\n", " --- \nk\n", "---\nx y\n", "---\na\x1cb\n",
                "---\na --- b\n", "---\n# ---- x ----\n", "---\n----\n", "---\nk: '---'\n", "---\n--- x\ny\n", "---\n   \nk\n", "---\nk\r\r\n"]
    # a '---' set off inside a line by characters that only str.splitlines() takes for line ends: still ONE line, not a delimiter
    for sep in ("\u2028", "\u2029", "\x0b", "\x0c", "\x1c", "\x1d", "\x1e", "\x85"):
        unclosed += [f"---\nfoo{sep}---{sep}bar\n", f"---\nfoo{sep}---\nmore\n", f"---\nk: v\n---{sep}x\n"]
    for u in unclosed:
        for o in OPTSETS:
            case = {"unclosed": u, "opts": o}
            ctx.count(["unclosed", u, o["width"]])
            a = reformat_text(u, **o)
            want = u if u.endswith("\n") else u + "\n"
            if a != want:
                ctx.fail("FM_UNCLOSED: unclosed frontmatter not returned unchanged (apart from a final newline)", case, a)
                continue
            b = reformat_text(a, **o)
            c = reformat_text(b, **o)
            if not (a == b == c):
                ctx.fail("FM_UNCLOSED: repeated formatting changes an unclosed-frontmatter document", case, [a, b, c])


def tie_split(ctx: Ctx) -> None:
    _, split_frontmatter = _api()
    rng = ctx.rng
    texts = []
    maxn = ctx.scale(4, 5)
    vocab = LINE_VOCAB[:9] if ctx.tier == "quick" else LINE_VOCAB
    for n in range(0, maxn + 1):
        for combo in itertools.product(vocab, repeat=n):
            for term in TERMS:
                t = term.join(combo)
                texts.append(t)
                texts.append(t + term)
    for _ in range(ctx.scale(3000, 40000)):
        n = rng.randint(0, 8)
        parts = []
        for _ in range(n):
            parts.append(rng.choice(LINE_VOCAB))
            parts.append(rng.choice(TERMS + ["\n", "\n", "\n"] + EXOTIC))
        texts.append("".join(parts))
    outs = run_driver([f"frontmatter\t{enc(t)}" for t in texts], workers=16)
    bad = 0
    for t, o in zip(texts, outs):
        exp = list(split_frontmatter(t))
        got = None if o == "bad-op" else dec_list(o)
        ctx.count(["split", t], nontrivial=exp[0] != "")
        if got != exp:
            bad += 1
            ctx.tie_broken("frontmatter", {"text": t}, got, exp)
    ctx.obligation(f"tie frontmatter: model splitFrontmatter = split_frontmatter on {len(texts)} texts "
                   f"(all ≤{maxn}-line texts over a {len(vocab)}-line vocabulary × LF/CRLF, + random with exotic separators)",
                   "correspondence", bad == 0, f"{bad} disagreement(s)")

    # shell: fill_markdown around a stub formatter == model fillShell
    from flowmark.linewrapping import markdown_filling as mf
    cases = []
    for _ in range(ctx.scale(1500, 15000)):
        fm = rng.choice(["", "---\nk: v\n---\n", "---\nk\n", "\n\n---\na\r\n---\r\n", "---\na --- b\n", "---\n----\nq\n",
                         "---\n  \nk\n---\n", " ---\nk\n--- \n", "---\nk\r\r\n---\n"])
        body = rng.choice(["x\n", "  y  \n\n", "", "\n\n  z", "   a\n   b\n", "\ta\n\tb", "---\nq", "    a\n\n    b\n"])
        cases.append(fm + body)
    outs = run_driver([f"fmshell\t{enc(t)}" for t in cases], workers=8)
    bad = 0
    for t, o in zip(cases, outs):
        exp = _shell_real(mf, t)
        got = None if o == "bad-op" else dec_list(o)
        if got is not None and got[0] != "<none>":
            from textwrap import dedent
            from flowmark.linewrapping.tag_handling import preprocess_tag_block_spacing
            got[0] = preprocess_tag_block_spacing(dedent(got[0]).strip().strip() + "\n")
        ctx.count(["shell", t])
        if got != exp:
            bad += 1
            ctx.tie_broken("fmshell", {"text": t}, got, exp)
    ctx.obligation(f"tie fmshell: (frontmatter, text handed to the parser) of fill_markdown = model fillShell on {len(cases)} texts",
                   "correspondence", bad == 0, f"{bad} disagreement(s)")
    ctx.rule("frontmatter: bounded-exhaustive short line sequences × terminators; random with Unicode separators; "
             "non-trivial = frontmatter detected")


def _shell_real(mf, text: str) -> list[str]:
    """Run the real fill_markdown with the parser stage replaced by a recorder: returns
    [text handed to the Markdown parser, final result with the rendered body replaced by '<B>']."""
    seen: list[str] = []

    class FakeMarko:
        def parse(self, t):
            seen.append(t)
            return t

        def render(self, d):
            return "<B>"

    orig = mf.flowmark_markdown
    mf.flowmark_markdown = lambda *a, **k: FakeMarko()
    try:
        out = mf.fill_markdown(text)
    finally:
        mf.flowmark_markdown = orig
    return [seen[0] if seen else "<none>", out]


def replay_findings(ctx: Ctx) -> None:
    reformat_text, _ = _api()
    for fid, e in ctx.kf.items():
        inp = e.get("input") or {}
        if "text" in inp:
            o = inp.get("opts", OPTSETS[0])
            if inp.get("kind") == "unclosed-na":
                a = reformat_text(inp["text"], **o)
                still = reformat_text(a, **o) != a
            elif inp.get("kind") == "indep":
                fm, body = inp["frontmatter"], inp["body"]
                still = reformat_text(fm + body, **o) != fm + reformat_text(body, **o)
            elif inp.get("kind") == "unclosed":
                a = reformat_text(inp["text"], **o)
                still = reformat_text(a, **o) != a
            else:
                still = not reformat_text(inp["text"], **o).startswith(inp["text"].replace("\r\n", "\n")[: inp.get("fm_len", 10 ** 9)])
            ctx.known_replay(fid, still)


def run(ctx: Ctx) -> None:
    driver_ok = lean_obligations(ctx)
    replay_findings(ctx)
    if driver_ok:
        ctx.guard("tie frontmatter/fmshell", tie_split)
    oracle(ctx)
    ctx.assume("Markdown formatting of the body is a parameter F of the shell model (C07 is about the frontmatter shell)")


def search(ctx: Ctx) -> None:
    reformat_text, _ = _api()
    o = OPTSETS[0]
    for b in ctx.broken_inputs:
        t = b["case"].get("text")
        if t is None:
            continue
        try:
            mfm = json.loads(b["model"])[0] if b["tie"] == "frontmatter" else None
        except Exception:
            mfm = None
        out = reformat_text(t, **o)
        if mfm and mfm != t:
            # the model is the pinned splitter semantics (for which the theorems hold): replay end-to-end
            if not out.startswith(mfm):
                ctx.fail("FM_EXACT: frontmatter (as delimited by the pinned splitter semantics) not reproduced character for character",
                         {"text": t, "opts": o}, {"expected_prefix": mfm, "out": out[: len(mfm) + 30]})
                continue
            tn = t.replace("\r\n", "\n")
            idx = tn.find(mfm)
            body = tn[idx + len(mfm):] if idx >= 0 else None
            if body is not None and (not body.strip() or body.strip().split("\n")[0].strip() != "---"):
                if reformat_text(mfm + body, **o) != mfm + reformat_text(body, **o):
                    ctx.fail("FM_INDEP: format(frontmatter + body) != frontmatter + format(body)",
                             {"frontmatter": mfm, "body": body, "opts": o}, None)
    old = ctx.tier
    ctx.tier = "thorough"
    try:
        oracle(ctx)
    finally:
        ctx.tier = old


def replay(ctx: Ctx, path: str) -> int:
    reformat_text, _ = _api()
    r = json.loads(open(path).read())
    c = r.get("input") or {}
    if "frontmatter" in c:
        out = reformat_text(c["frontmatter"] + c["body"], **c["opts"])
        print(repr(out))
        print(repr(c["frontmatter"] + reformat_text(c["body"], **c["opts"])))
    elif "unclosed" in c:
        a = reformat_text(c["unclosed"], **c["opts"])
        print(repr(a), repr(reformat_text(a, **c["opts"])))
    return 0
