"""
C11 — Semantic line breaks fall at sentence ends and keep edits local.

Ring 1: FM/Props/C11.lean (frame lemma, LOCAL_PREFIX/SUFFIX, END_BREAKS, S_LOSSLESS, BREAK_CAUSE)
        about the exact fold model `wrapBySentence` with the sentence-end test as a parameter.
Ring 2: equality with the real `line_wrap_by_sentence` on texts free of atoms/tags/hard breaks
        (there the Markdown layers are the identity), per-word flags from the real regex.
Ring 3: locality and break-cause checked on the real wrapper for random single-sentence edits.
"""
from __future__ import annotations

import json

import gen
from common import Ctx, dec, enc, enc_bool, enc_list, run_driver
from leanbuild import lean_obligations

SENT_WORDS = ["Go", "on.", "yes.", "No!", "Why?", "The", "fox", "jumped.", "over", "a", "lazy", "dog.", "e.g.",
              "Dr.", "it)", "said.”", "end.)", "x" * 22, "y" * 40, "Mr.", "AB.", "ab.", "1.", "-", "#", "ok", "A.",
              "word", "words", "more", "text", "here.", "and", "then", "so", "it", "goes."]


def _lw():
    from flowmark.linewrapping import line_wrappers as lw
    from flowmark.linewrapping import sentence_split_regex as ss
    return lw, ss


def rand_case(ctx: Ctx):
    rng = ctx.rng
    n = rng.randint(0, 45)
    ws = [rng.choice(SENT_WORDS) if rng.random() < 0.8 else gen.letter_word(rng, rng.randint(1, 12)) + rng.choice(["", ".", "!", ""])
          for _ in range(n)]
    W = rng.choice([8, 15, 20, 25, 30, 40, 60, 88, rng.randint(1, 100)])
    i0 = rng.choice(["", "", "- ", "> ", "1. ", "10. ", "[^abc]: ", "> - "])
    s0 = rng.choice(["", " " * len(i0), "    ", "> "]) if i0 else rng.choice(["", "", "  "])
    ml = rng.choice([20, 20, 20, 0, 5, 10, 35])
    return ws, W, i0, s0, ml, rng.random() < 0.7


def exhaustive_cases(ctx: Ctx):
    """Sentence-length vectors around minLineLen and W (bounded-exhaustive)."""
    import itertools
    W, ml = 12, 6
    lens = [1, 2, 5, 6, 11, 13] if ctx.tier == "quick" else [1, 2, 4, 5, 6, 7, 11, 12, 13]
    for n in range(1, 4 if ctx.tier == "quick" else 5):
        for combo in itertools.product(lens, repeat=n):
            for endmask in range(1 << n):
                ws = []
                for k, L in enumerate(combo):
                    end = (endmask >> k) & 1
                    ws.append("abcdefghijklmnop"[: L - 1] + "." if end and L >= 3 else "abcdefghijklmnop"[:L])
                for i0, s0 in (("", ""), ("- ", "  "), ("[^a]: ", "    ")):
                    yield ws, W, i0, s0, ml, False


def tie_sentwrap(ctx: Ctx) -> None:
    lw, ss = _lw()
    cases = list(exhaustive_cases(ctx))
    n_exh = len(cases)
    cases += [rand_case(ctx) for _ in range(ctx.scale(15000, 200000))]
    ops = []
    for ws, W, i0, s0, ml, md in cases:
        flags = "".join("1" if ss.heuristic_end_of_sentence(w) else "0" for w in ws)
        ops.append(f"sentWrap\t{W}\t{enc(i0)}\t{enc(s0)}\t{ml}\t{enc_bool(md)}\t{enc_list(ws)}\t{flags}")
    outs = run_driver(ops, workers=16)
    bad = 0
    for idx, ((ws, W, i0, s0, ml, md), o) in enumerate(zip(cases, outs)):
        text = " ".join(ws)
        exp = lw.line_wrap_by_sentence(width=W, min_line_len=ml, is_markdown=md)(text, i0, s0)
        got = None if o == "bad-op" else dec(o)
        ctx.count(["sentWrap", ws, W, i0, s0, ml, md], nontrivial="\n" in exp, sample=(idx % 4001 == 7))
        ctx.bump("sentWrap:exhaustive" if idx < n_exh else "sentWrap:random")
        if got != exp:
            bad += 1
            ctx.tie_broken("sentWrap", {"words": ws, "W": W, "i0": i0, "s0": s0, "minLen": ml, "md": md}, got, exp)
    ctx.obligation(f"tie sentWrap: model wrapBySentence = line_wrap_by_sentence on {len(cases)} calls "
                   f"({n_exh} bounded-exhaustive sentence-length vectors, rest random; flags from SENTENCE_END_RE)",
                   "correspondence", bad == 0, f"{bad} disagreement(s)")
    # width <= 0
    rng = ctx.rng
    c2 = []
    for _ in range(ctx.scale(1500, 20000)):
        ws = gen.rand_words(rng, rng.randint(0, 12), 0.2)
        c2.append((rng.choice(["", "- ", "> "]), gen.layout(rng, ws)))
    outs = run_driver([f"sentNoWrap\t{enc(i0)}\t{enc(t)}" for i0, t in c2], workers=8)
    bad = 0
    for (i0, t), o in zip(c2, outs):
        exp = lw.line_wrap_by_sentence(width=0, is_markdown=False)(t, i0, "  ")
        ctx.count(["sentNoWrap", i0, t])
        if o == "bad-op" or dec(o) != exp:
            bad += 1
            ctx.tie_broken("sentNoWrap", {"i0": i0, "text": t}, o, exp)
    ctx.obligation(f"tie sentNoWrap: width<=0 branch on {len(c2)} texts", "correspondence", bad == 0, f"{bad} disagreement(s)")
    ctx.rule("sentWrap: sentence-length vectors around minLineLen/W × end masks × indents (exhaustive), random word "
             "sequences with sentence-end words; non-trivial = multi-line output")


SE_ALPHABET = ["a", "b", "Z", "é", "ñ", "Д", "д", "中", "ǅ", "1", "_", ".", "?", "!", "'", '"', "’", "”", ")", "(", "-", "ª"]


def char_flags(w: str) -> str:
    import unicodedata
    out = []
    for c in w:
        cat = unicodedata.category(c)
        letter = cat.startswith("L")
        lower = cat == "Ll"
        word = c.isalnum() or c == "_" or cat.startswith("M") or cat == "Pc"
        out.append(str(int(letter) + 2 * int(lower) + 4 * int(word)))
    return "".join(out)


def tie_sentend(ctx: Ctx) -> None:
    """SENTENCE_END_RE (regex module) vs the scanner model with character classes from unicodedata."""
    import itertools
    _, ss = _lw()
    maxlen = ctx.scale(4, 5)
    words = ["".join(t) for n in range(1, maxlen + 1) for t in itertools.product(SE_ALPHABET, repeat=n)]
    words += SENT_WORDS + ["café.", "schön!", "день.", "naïve?)", "A.", "ab.c", "x1ab.", "_ab.", "ab.”", "ab”.", "ab.'", "ab…", "Ab!?", "été.", "ΑΒγ.", "ΑΒΓ."]
    # sentence tails beyond the exhaustive length: every suffix of up to four punctuation / closer characters (and a
    # trailing space) after a few stems — where "one closer at most" and "which closers" are decided
    tails = ["".join(t) for n in range(0, 5) for t in itertools.product([".", "?", "!", "'", "\"", "’", "”", ")", "‘", " "], repeat=n)]
    words += [stem + t for stem in ("ab", "Ab", "aB", "éa", "яб", "a") for t in tails]
    outs = run_driver([f"sentEnd\t{enc(w)}\t{char_flags(w)}" for w in words], workers=16)
    bad = 0
    for w, o in zip(words, outs):
        exp = "1" if ss.heuristic_end_of_sentence(w) else "0"
        if o != exp:
            bad += 1
            ctx.tie_broken("sentEnd", {"word": w}, o, exp)
    ctx.count({"op": "sentEnd", "alphabet": SE_ALPHABET, "maxlen": maxlen}, n=len(words))
    ctx.obligation(f"tie sentEnd: scanner model of SENTENCE_END_RE (classes from unicodedata) = heuristic_end_of_sentence on all "
                   f"{len(words)} words over a {len(SE_ALPHABET)}-symbol alphabet (ASCII, Latin-1, Cyrillic, CJK, titlecase, digits, closers) ≤{maxlen}",
                   "correspondence", bad == 0, f"{bad} disagreement(s)")
    # the rule itself, pinned: which tails end a sentence (one closer at most, on either side of the mark)
    for w, want in (("yet.\")", False), ("started\").", False), ("unfinished.’”", False), ("done.)", True), ("done).", True), ("done.”", True),
                    ("here.’", True), ("now!’", True), ("dogs’.", True), ("ab..", False), ("ab.", True), ("ab. ", True)):
        ctx.count(["sentEnd-pinned", w])
        if bool(ss.heuristic_end_of_sentence(w)) != want:
            ctx.fail("SENTENCE_END: a word is (not) taken for a sentence end against the rule (letters, one mark, at most one closer)",
                     {"word": w}, {"expected": want})


ATOM_WORDS = ["`code span here`", "[a link](http://x.y/z)", "[multi word link text](u)", "{% tag a=1 %}", "<b>", "</b>",
              "`x`", "[ref][r]", "<!-- c -->", "{{ v }}", "`end. inside`", "[end. here](u)"]


def tie_sentwrap_atoms(ctx: Ctx) -> None:
    """Same tie with atomic constructs: sentences from the real sentence splitter, words of each sentence from
    the real Markdown word splitter (both are parameters of the model)."""
    lw, ss = _lw()
    from flowmark.linewrapping.text_wrapping import get_html_md_word_splitter
    split = get_html_md_word_splitter()
    rng = ctx.rng
    cases, ops = [], []
    for _ in range(ctx.scale(6000, 60000)):
        n = rng.randint(1, 30)
        ws = [rng.choice(ATOM_WORDS) if rng.random() < 0.25 else rng.choice(SENT_WORDS) for _ in range(n)]
        text = " ".join(ws)
        W = rng.choice([15, 20, 25, 30, 40, 60, 88])
        i0 = rng.choice(["", "- ", "> ", "1. "])
        s0 = " " * len(i0) if i0 != "> " else "> "
        ml = rng.choice([20, 20, 10, 30])
        sents = lw.split_sentences_no_min_length(text)
        words, flags = [], []
        for s_ in sents:
            mw = split(s_)
            words += mw
            flags += ["0"] * (len(mw) - 1) + ["1"] if mw else []
        if any((" " in w and not any(ch in w for ch in "`[{<")) for w in words):
            continue
        cases.append((text, W, i0, s0, ml))
        ops.append(f"sentWrap\t{W}\t{enc(i0)}\t{enc(s0)}\t{ml}\t1\t{enc_list(words)}\t{''.join(flags)}")
    outs = run_driver(ops, workers=16)
    bad = 0
    for (text, W, i0, s0, ml), o in zip(cases, outs):
        exp = lw.line_wrap_by_sentence(width=W, min_line_len=ml, is_markdown=True)(text, i0, s0)
        got = None if o == "bad-op" else dec(o)
        ctx.count(["sentWrapAtoms", text, W, i0, ml], nontrivial="\n" in exp)
        if got != exp:
            bad += 1
            ctx.tie_broken("sentWrapAtoms", {"text": text, "W": W, "i0": i0, "s0": s0, "minLen": ml, "md": True}, got, exp)
        break_cause_check(ctx, text, W, i0, s0, ml, exp)
    ctx.obligation(f"tie sentWrap(atoms): model = line_wrap_by_sentence on {len(cases)} texts with code spans/links/tags "
                   f"(sentences and per-sentence words from the real splitters)", "correspondence", bad == 0, f"{bad} disagreement(s)")


def break_cause_check(ctx: Ctx, text, W, i0, s0, ml, out: str) -> None:
    """BREAK_CAUSE on a real output: every line break is after a sentence-end word or width-forced."""
    _, ss = _lw()
    from flowmark.linewrapping.text_wrapping import get_html_md_word_splitter, markdown_escape_word
    split = get_html_md_word_splitter()
    if any(x in text for x in ("%} {%", "}} {{", "#} {#", "--> <!--")):
        return  # separated same-family tags lose their space (C06's SEP finding); line lengths then differ
    lines = out.split("\n")
    bodies = []
    for i, l in enumerate(lines):
        ind = i0 if i == 0 else s0
        bodies.append(l[len(ind):] if l.startswith(ind) else l)
    case = {"text": text, "W": W, "i0": i0, "s0": s0, "minLen": ml, "md": True}
    for i in range(len(lines) - 1):
        toks = split(bodies[i])
        nxt_toks = split(bodies[i + 1])
        if not toks or not nxt_toks:
            continue
        if ss.heuristic_end_of_sentence(toks[-1].split()[-1] if toks[-1].split() else toks[-1]):
            continue
        nxt = nxt_toks[0]
        nxt_len = min(len(nxt), len(nxt.lstrip("\\"))) if nxt.startswith("\\") else len(nxt)
        ind = len(i0) if i == 0 else len(s0)
        if ind + len(bodies[i]) + 1 + nxt_len > W:
            continue
        # known corner (C11-unmerged-first-line-filled-short): the sentence's first line was filled from the
        # accounting column after a short last line (continuation indent + len(short line), no joining space);
        # either the merge was then refused (previous line is the short one) or it happened (the short line is
        # the head of this line). Attributed only if the break IS forced relative to that accounting column.
        known = None
        base = len(s0)
        if (i > 0 and len(bodies[i - 1]) < ml and base + len(bodies[i - 1]) + len(bodies[i]) <= W
                and base + len(bodies[i - 1]) + len(bodies[i]) + 1 + nxt_len > W):
            known = "C11-unmerged-first-line-filled-short"
        ends = [k for k, t in enumerate(toks[:-1]) if ss.heuristic_end_of_sentence(t.split()[-1] if t.split() else t)]
        if known is None and ends:
            head = " ".join(toks[: ends[-1] + 1])
            tail = " ".join(toks[ends[-1] + 1:])
            if len(head) < ml and base + len(head) + len(tail) <= W and base + len(head) + len(tail) + 1 + nxt_len > W:
                known = "C11-unmerged-first-line-filled-short"
        ctx.fail("BREAK_CAUSE: line break neither after a sentence end nor forced by the width", case,
                 {"line": lines[i], "next": lines[i + 1]}, known=known)
        return


# ------------------------------------------------------------------------------------------
# Ring 3: locality oracle on the real wrapper


def sentences_of(ss, ws):
    out, cur = [], []
    for w in ws:
        cur.append(w)
        if ss.heuristic_end_of_sentence(w):
            out.append(cur)
            cur = []
    if cur:
        out.append(cur)
    return out


def locality_oracle(ctx: Ctx, n: int) -> None:
    lw, ss = _lw()
    rng = ctx.rng
    for _ in range(n):
        ws, W, i0, s0, ml, md = rand_case(ctx)
        sents = sentences_of(ss, ws)
        if len(sents) < 2:
            continue
        k = rng.randrange(len(sents))
        new_sent = [rng.choice(SENT_WORDS[4:11]) for _ in range(rng.randint(1, 8))] + [rng.choice(["done.", "ok!", "yes."])]
        sents2 = sents[:k] + [new_sent] + sents[k + 1:]
        w = lw.line_wrap_by_sentence(width=W, min_line_len=ml, is_markdown=md)
        a = w(" ".join(x for s in sents for x in s), i0, s0).split("\n")
        b = w(" ".join(x for s in sents2 for x in s), i0, s0).split("\n")
        # prefix: lines before the last line after sentence k-1
        pre = w(" ".join(x for s in sents[:k] for x in s), i0, s0).split("\n") if k else []
        keep = max(0, len(pre) - 1)
        case = {"words": ws, "edit_sentence": k, "new": new_sent, "W": W, "i0": i0, "s0": s0, "minLen": ml, "md": md}
        ctx.count(["locality", case], nontrivial=keep > 0 or k < len(sents) - 1)
        if a[:keep] != b[:keep]:
            ctx.fail("LOCAL_PREFIX: a line before the previous sentence's last line changed", case, {"a": a, "b": b})
            continue
        # suffix: first m >= k such that both runs end sentence m on a line of >= minLen (without indent)
        for m in range(k, len(sents) - 1):
            pa = w(" ".join(x for s in sents[: m + 1] for x in s), i0, s0).split("\n")
            pb = w(" ".join(x for s in sents2[: m + 1] for x in s), i0, s0).split("\n")

            def body(lines):
                l = lines[-1]
                ind = i0 if len(lines) == 1 else s0
                return l[len(ind):]
            if len(body(pa)) >= ml and len(body(pb)) >= ml:
                ra, rb = a[len(pa):], b[len(pb):]
                if a[: len(pa)] != pa or b[: len(pb)] != pb or ra != rb:
                    ctx.fail("LOCAL_SUFFIX: lines after a re-synchronising sentence differ", case,
                             {"m": m, "a": a, "b": b})
                break


def replay_findings(ctx: Ctx) -> None:
    lw, _ = _lw()
    for fid, e in ctx.kf.items():
        c = e.get("input") or {}
        if "text" in c:
            out = lw.line_wrap_by_sentence(width=c["W"], min_line_len=c["minLen"], is_markdown=c["md"])(c["text"], c["i0"], c["s0"])
            sub = Ctx(ctx.prop, ctx.tier, ctx.seed)
            sub.kf = {}
            break_cause_check(sub, c["text"], c["W"], c["i0"], c["s0"], c["minLen"], out)
            ctx.known_replay(fid, bool(sub.failing))


def run(ctx: Ctx) -> None:
    driver_ok = lean_obligations(ctx)
    replay_findings(ctx)
    if driver_ok:
        ctx.guard("tie sentWrap", tie_sentwrap)
        ctx.guard("tie sentEnd", tie_sentend)
        ctx.guard("tie sentWrap(atoms)", tie_sentwrap_atoms)
    locality_oracle(ctx, ctx.scale(3000, 40000))
    ctx.assume("SENTENCE_END_RE is a parameter (per-word flags computed by the real regex); Markdown layers "
               "(tags, hard breaks, atoms) are excluded from this tie and covered by C06/C01 ties")


def search(ctx: Ctx) -> None:
    lw, _ = _lw()
    for b in ctx.broken_inputs:
        c = b["case"]
        if b["tie"] == "sentEnd" and b["model"] == "1" and b["impl"] == "0":
            # a word the pinned pattern (as modelled) detects as a sentence end: END_BREAKS must hold after it
            w = c["word"]
            t = "aaaa bbbb cccc dddd eeee " + w + " Ffff gggg hhhh iiii jjjj kkkk."
            out = lw.line_wrap_by_sentence(width=88, is_markdown=True)(t, "", "")
            if "\n" not in out:
                ctx.fail("END_BREAKS: no line break after a sentence-final word (per the pinned SENTENCE_END_RE semantics)",
                         {"text": t, "W": 88, "i0": "", "s0": "", "minLen": 20, "md": True, "word": w}, out)
            continue
        if "text" in c:
            out = lw.line_wrap_by_sentence(width=c["W"], min_line_len=c["minLen"], is_markdown=c["md"])(c["text"], c["i0"], c["s0"])
            break_cause_check(ctx, c["text"], c["W"], c["i0"], c["s0"], c["minLen"], out)
        elif "words" in c and "minLen" in c:
            t = " ".join(c["words"])
            out = lw.line_wrap_by_sentence(width=c["W"], min_line_len=c["minLen"], is_markdown=c["md"])(t, c["i0"], c["s0"])
            break_cause_check(ctx, t, c["W"], c["i0"], c["s0"], c["minLen"], out)
    rng = ctx.rng
    for _ in range(30000):
        ws, W, i0, s0, ml, md = rand_case(ctx)
        t = " ".join(ws)
        out = lw.line_wrap_by_sentence(width=W, min_line_len=ml, is_markdown=md)(t, i0, s0)
        break_cause_check(ctx, t, W, i0, s0, ml, out)
        if ctx.failing:
            return
    locality_oracle(ctx, 60000)


def replay(ctx: Ctx, path: str) -> int:
    r = json.loads(open(path).read())
    print(json.dumps(r.get("input"), ensure_ascii=False))
    return 0
