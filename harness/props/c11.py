"""
C11 — Semantic line breaks fall at sentence ends and keep edits local.

Ring 1: FM/Props/C11.lean (frame lemma, LOCAL_PREFIX/SUFFIX, END_BREAKS, S_LOSSLESS, BREAK_CAUSE)
        about the exact fold model `wrapBySentence` with the sentence-end test as a parameter.
Ring 2: equality with the real `line_wrap_by_sentence` on texts free of atoms/tags/hard breaks
        (there the Markdown layers are the identity), per-word flags from the real regex.
Ring 3: locality and break-cause checked on the real wrapper for random single-sentence edits.
"""
from __future__ import annotations

import re

import json

import gen
from common import Ctx, dec, enc, enc_bool, enc_list, run_driver
from leanbuild import lean_obligations

SENT_WORDS = ["Go", "on.", "yes.", "No!", "Why?", "The", "fox", "jumped.", "over", "a", "lazy", "dog.", "e.g.",
              "Dr.", "it)", "said.”", "end.)", "x" * 22, "y" * 40, "Mr.", "AB.", "ab.", "1.", "-", "#", "ok", "A.",
              "word", "words", "more", "text", "here.", "and", "then", "so", "it", "goes."]


def _lw():
    from flowmark.linewrapping import line_wrappers as lw
    from flowmark.linewrapping import sentence_split_regex as ss
    return lw, ss


def rand_case(ctx: Ctx):
    rng = ctx.rng
    n = rng.randint(0, 45)
    ws = [rng.choice(SENT_WORDS) if rng.random() < 0.8 else gen.letter_word(rng, rng.randint(1, 12)) + rng.choice(["", ".", "!", ""])
          for _ in range(n)]
    W = rng.choice([8, 15, 20, 25, 30, 40, 60, 88, rng.randint(1, 100)])
    i0 = rng.choice(["", "", "- ", "> ", "1. ", "10. ", "[^abc]: ", "> - "])
    s0 = rng.choice(["", " " * len(i0), "    ", "> "]) if i0 else rng.choice(["", "", "  "])
    ml = rng.choice([20, 20, 20, 0, 5, 10, 35])
    return ws, W, i0, s0, ml, rng.random() < 0.7


def exhaustive_cases(ctx: Ctx):
    """Sentence-length vectors around minLineLen and W (bounded-exhaustive)."""
    import itertools
    W, ml = 12, 6
    lens = [1, 2, 5, 6, 11, 13] if ctx.tier == "quick" else [1, 2, 4, 5, 6, 7, 11, 12, 13]
    for n in range(1, 4 if ctx.tier == "quick" else 5):
        for combo in itertools.product(lens, repeat=n):
            for endmask in range(1 << n):
                ws = []
                for k, L in enumerate(combo):
                    end = (endmask >> k) & 1
                    ws.append("abcdefghijklmnop"[: L - 1] + "." if end and L >= 3 else "abcdefghijklmnop"[:L])
                for i0, s0 in (("", ""), ("- ", "  "), ("[^a]: ", "    ")):
                    yield ws, W, i0, s0, ml, False


def tie_sentwrap(ctx: Ctx) -> None:
    lw, ss = _lw()
    cases = list(exhaustive_cases(ctx))
    n_exh = len(cases)
    cases += [rand_case(ctx) for _ in range(ctx.scale(15000, 200000))]
    ops = []
    for ws, W, i0, s0, ml, md in cases:
        flags = "".join("1" if ss.heuristic_end_of_sentence(w) else "0" for w in ws)
        ops.append(f"sentWrap\t{W}\t{enc(i0)}\t{enc(s0)}\t{ml}\t{enc_bool(md)}\t{enc_list(ws)}\t{flags}")
    outs = run_driver(ops, workers=16)
    bad = 0
    for idx, ((ws, W, i0, s0, ml, md), o) in enumerate(zip(cases, outs)):
        text = " ".join(ws)
        exp = lw.line_wrap_by_sentence(width=W, min_line_len=ml, is_markdown=md)(text, i0, s0)
        got = None if o == "bad-op" else dec(o)
        ctx.count(["sentWrap", ws, W, i0, s0, ml, md], nontrivial="\n" in exp, sample=(idx % 4001 == 7))
        ctx.bump("sentWrap:exhaustive" if idx < n_exh else "sentWrap:random")
        if got != exp:
            bad += 1
            ctx.tie_broken("sentWrap", {"words": ws, "W": W, "i0": i0, "s0": s0, "minLen": ml, "md": md}, got, exp)
    ctx.obligation(f"tie sentWrap: model wrapBySentence = line_wrap_by_sentence on {len(cases)} calls "
                   f"({n_exh} bounded-exhaustive sentence-length vectors, rest random; flags from SENTENCE_END_RE)",
                   "correspondence", bad == 0, f"{bad} disagreement(s)")
    # width <= 0
    rng = ctx.rng
    c2 = []
    for _ in range(ctx.scale(1500, 20000)):
        ws = gen.rand_words(rng, rng.randint(0, 12), 0.2)
        c2.append((rng.choice(["", "- ", "> "]), gen.layout(rng, ws)))
    outs = run_driver([f"sentNoWrap\t{enc(i0)}\t{enc(t)}" for i0, t in c2], workers=8)
    bad = 0
    for (i0, t), o in zip(c2, outs):
        exp = lw.line_wrap_by_sentence(width=0, is_markdown=False)(t, i0, "  ")
        ctx.count(["sentNoWrap", i0, t])
        if o == "bad-op" or dec(o) != exp:
            bad += 1
            ctx.tie_broken("sentNoWrap", {"i0": i0, "text": t}, o, exp)
    ctx.obligation(f"tie sentNoWrap: width<=0 branch on {len(c2)} texts", "correspondence", bad == 0, f"{bad} disagreement(s)")
    ctx.rule("sentWrap: sentence-length vectors around minLineLen/W × end masks × indents (exhaustive), random word "
             "sequences with sentence-end words; non-trivial = multi-line output")


SE_ALPHABET = ["a", "b", "Z", "é", "ñ", "Д", "д", "中", "ǅ", "1", "_", ".", "?", "!", "'", '"', "’", "”", ")", "(", "-", "ª"]


def char_flags(w: str) -> str:
    import unicodedata
    out = []
    for c in w:
        cat = unicodedata.category(c)
        letter = cat.startswith("L")
        lower = cat == "Ll"
        word = c.isalnum() or c == "_" or cat.startswith("M") or cat == "Pc"
        out.append(str(int(letter) + 2 * int(lower) + 4 * int(word)))
    return "".join(out)


def tie_sentend(ctx: Ctx) -> None:
    """SENTENCE_END_RE (regex module) vs the scanner model with character classes from unicodedata."""
    import itertools
    _, ss = _lw()
    maxlen = ctx.scale(4, 5)
    words = ["".join(t) for n in range(1, maxlen + 1) for t in itertools.product(SE_ALPHABET, repeat=n)]
    words += SENT_WORDS + ["café.", "schön!", "день.", "naïve?)", "A.", "ab.c", "x1ab.", "_ab.", "ab.”", "ab”.", "ab.'", "ab…", "Ab!?", "été.", "ΑΒγ.", "ΑΒΓ."]
    # sentence tails beyond the exhaustive length: every suffix of up to four punctuation / closer characters (and a
    # trailing space) after a few stems — where "one closer at most" and "which closers" are decided
    tails = ["".join(t) for n in range(0, 5) for t in itertools.product([".", "?", "!", "'", "\"", "’", "”", ")", "‘", " "], repeat=n)]
    words += [stem + t for stem in ("ab", "Ab", "aB", "éa", "яб", "a") for t in tails]
    outs = run_driver([f"sentEnd\t{enc(w)}\t{char_flags(w)}" for w in words], workers=16)
    bad = 0
    for w, o in zip(words, outs):
        exp = "1" if ss.heuristic_end_of_sentence(w) else "0"
        if o != exp:
            bad += 1
            ctx.tie_broken("sentEnd", {"word": w}, o, exp)
    ctx.count({"op": "sentEnd", "alphabet": SE_ALPHABET, "maxlen": maxlen}, n=len(words))
    ctx.obligation(f"tie sentEnd: scanner model of SENTENCE_END_RE (classes from unicodedata) = heuristic_end_of_sentence on all "
                   f"{len(words)} words over a {len(SE_ALPHABET)}-symbol alphabet (ASCII, Latin-1, Cyrillic, CJK, titlecase, digits, closers) ≤{maxlen}",
                   "correspondence", bad == 0, f"{bad} disagreement(s)")
    # the rule itself, pinned: which tails end a sentence (one closer at most, on either side of the mark)
    for w, want in (("yet.\")", False), ("started\").", False), ("unfinished.’”", False), ("done.)", True), ("done).", True), ("done.”", True),
                    ("here.’", True), ("now!’", True), ("dogs’.", True), ("ab..", False), ("ab.", True), ("ab. ", True)):
        ctx.count(["sentEnd-pinned", w])
        if bool(ss.heuristic_end_of_sentence(w)) != want:
            ctx.fail("SENTENCE_END: a word is (not) taken for a sentence end against the rule (letters, one mark, at most one closer)",
                     {"word": w}, {"expected": want})


ATOM_WORDS = ["`code span here`", "[a link](http://x.y/z)", "[multi word link text](u)", "{% tag a=1 %}", "<b>", "</b>",
              "`x`", "[ref][r]", "<!-- c -->", "{{ v }}", "`end. inside`", "[end. here](u)"]


def tie_sentwrap_atoms(ctx: Ctx) -> None:
    """Same tie with atomic constructs: sentences from the real sentence splitter, words of each sentence from
    the real Markdown word splitter (both are parameters of the model)."""
    lw, ss = _lw()
    from flowmark.linewrapping.text_wrapping import get_html_md_word_splitter
    split = get_html_md_word_splitter()
    rng = ctx.rng
    cases, ops = [], []
    for _ in range(ctx.scale(6000, 60000)):
        n = rng.randint(1, 30)
        ws = [rng.choice(ATOM_WORDS) if rng.random() < 0.25 else rng.choice(SENT_WORDS) for _ in range(n)]
        text = " ".join(ws)
        W = rng.choice([15, 20, 25, 30, 40, 60, 88])
        i0 = rng.choice(["", "- ", "> ", "1. "])
        s0 = " " * len(i0) if i0 != "> " else "> "
        ml = rng.choice([20, 20, 10, 30])
        sents = lw.split_sentences_no_min_length(text)
        words, flags = [], []
        for s_ in sents:
            mw = split(s_)
            words += mw
            flags += ["0"] * (len(mw) - 1) + ["1"] if mw else []
        if any((" " in w and not any(ch in w for ch in "`[{<")) for w in words):
            continue
        cases.append((text, W, i0, s0, ml))
        ops.append(f"sentWrap\t{W}\t{enc(i0)}\t{enc(s0)}\t{ml}\t1\t{enc_list(words)}\t{''.join(flags)}")
    outs = run_driver(ops, workers=16)
    bad = 0
    for (text, W, i0, s0, ml), o in zip(cases, outs):
        exp = lw.line_wrap_by_sentence(width=W, min_line_len=ml, is_markdown=True)(text, i0, s0)
        got = None if o == "bad-op" else dec(o)
        ctx.count(["sentWrapAtoms", text, W, i0, ml], nontrivial="\n" in exp)
        if got != exp:
            bad += 1
            ctx.tie_broken("sentWrapAtoms", {"text": text, "W": W, "i0": i0, "s0": s0, "minLen": ml, "md": True}, got, exp)
        break_cause_check(ctx, text, W, i0, s0, ml, exp)
    ctx.obligation(f"tie sentWrap(atoms): model = line_wrap_by_sentence on {len(cases)} texts with code spans/links/tags "
                   f"(sentences and per-sentence words from the real splitters)", "correspondence", bad == 0, f"{bad} disagreement(s)")


def break_cause_check(ctx: Ctx, text, W, i0, s0, ml, out: str) -> None:
    """BREAK_CAUSE on a real output: every line break is after a sentence-end word or width-forced."""
    _, ss = _lw()
    from flowmark.linewrapping.text_wrapping import get_html_md_word_splitter, markdown_escape_word
    split = get_html_md_word_splitter()
    if any(x in text for x in ("%} {%", "}} {{", "#} {#", "--> <!--")):
        return  # separated same-family tags lose their space (C06's SEP finding); line lengths then differ
    lines = out.split("\n")
    bodies = []
    for i, l in enumerate(lines):
        ind = i0 if i == 0 else s0
        bodies.append(l[len(ind):] if l.startswith(ind) else l)
    case = {"text": text, "W": W, "i0": i0, "s0": s0, "minLen": ml, "md": True}
    for i in range(len(lines) - 1):
        toks = split(bodies[i])
        nxt_toks = split(bodies[i + 1])
        if not toks or not nxt_toks:
            continue
        if ss.heuristic_end_of_sentence(toks[-1].split()[-1] if toks[-1].split() else toks[-1]):
            continue
        nxt = nxt_toks[0]
        nxt_len = min(len(nxt), len(nxt.lstrip("\\"))) if nxt.startswith("\\") else len(nxt)
        ind = len(i0) if i == 0 else len(s0)
        if ind + len(bodies[i]) + 1 + nxt_len > W:
            continue
        # known corner (C11-unmerged-first-line-filled-short): the sentence's first line was filled from the
        # accounting column after a short last line (continuation indent + len(short line), no joining space);
        # either the merge was then refused (previous line is the short one) or it happened (the short line is
        # the head of this line). Attributed only if the break IS forced relative to that accounting column.
        known = None
        base = len(s0)
        if (i > 0 and len(bodies[i - 1]) < ml and base + len(bodies[i - 1]) + len(bodies[i]) <= W
                and base + len(bodies[i - 1]) + len(bodies[i]) + 1 + nxt_len > W):
            known = "C11-unmerged-first-line-filled-short"
        ends = [k for k, t in enumerate(toks[:-1]) if ss.heuristic_end_of_sentence(t.split()[-1] if t.split() else t)]
        if known is None and ends:
            head = " ".join(toks[: ends[-1] + 1])
            tail = " ".join(toks[ends[-1] + 1:])
            if len(head) < ml and base + len(head) + len(tail) <= W and base + len(head) + len(tail) + 1 + nxt_len > W:
                known = "C11-unmerged-first-line-filled-short"
        ctx.fail("BREAK_CAUSE: line break neither after a sentence end nor forced by the width", case,
                 {"line": lines[i], "next": lines[i + 1]}, known=known)
        return


# ------------------------------------------------------------------------------------------
# Ring 3: locality oracle on the real wrapper


def sentences_of(ss, ws):
    out, cur = [], []
    for w in ws:
        cur.append(w)
        if ss.heuristic_end_of_sentence(w):
            out.append(cur)
            cur = []
    if cur:
        out.append(cur)
    return out


def locality_oracle(ctx: Ctx, n: int) -> None:
    lw, ss = _lw()
    rng = ctx.rng
    for _ in range(n):
        ws, W, i0, s0, ml, md = rand_case(ctx)
        sents = sentences_of(ss, ws)
        if len(sents) < 2:
            continue
        k = rng.randrange(len(sents))
        new_sent = [rng.choice(SENT_WORDS[4:11]) for _ in range(rng.randint(1, 8))] + [rng.choice(["done.", "ok!", "yes."])]
        sents2 = sents[:k] + [new_sent] + sents[k + 1:]
        w = lw.line_wrap_by_sentence(width=W, min_line_len=ml, is_markdown=md)
        a = w(" ".join(x for s in sents for x in s), i0, s0).split("\n")
        b = w(" ".join(x for s in sents2 for x in s), i0, s0).split("\n")
        # prefix: lines before the last line after sentence k-1
        pre = w(" ".join(x for s in sents[:k] for x in s), i0, s0).split("\n") if k else []
        keep = max(0, len(pre) - 1)
        case = {"words": ws, "edit_sentence": k, "new": new_sent, "W": W, "i0": i0, "s0": s0, "minLen": ml, "md": md}
        ctx.count(["locality", case], nontrivial=keep > 0 or k < len(sents) - 1)
        if a[:keep] != b[:keep]:
            ctx.fail("LOCAL_PREFIX: a line before the previous sentence's last line changed", case, {"a": a, "b": b})
            continue
        # suffix: first m >= k such that both runs end sentence m on a line of >= minLen (without indent)
        for m in range(k, len(sents) - 1):
            pa = w(" ".join(x for s in sents[: m + 1] for x in s), i0, s0).split("\n")
            pb = w(" ".join(x for s in sents2[: m + 1] for x in s), i0, s0).split("\n")

            def body(lines):
                l = lines[-1]
                ind = i0 if len(lines) == 1 else s0
                return l[len(ind):]
            if len(body(pa)) >= ml and len(body(pb)) >= ml:
                ra, rb = a[len(pa):], b[len(pb):]
                if a[: len(pa)] != pa or b[: len(pb)] != pb or ra != rb:
                    ctx.fail("LOCAL_SUFFIX: lines after a re-synchronising sentence differ", case,
                             {"m": m, "a": a, "b": b})
                break


MD_TAGS = ["{% note %}", "{% /note %}", "<!-- c -->", "{{ v }}", "{# x #}", "{% field a=1 %}{% /field %}"]
MD_LINE_STARTS = ["1986. It was", "|x| is", "- not a list", "2) then", "+ plus", "plain words", "More words here", "and so on", "| a | b |", "* star"]
TAG_OPEN = re.compile(r"^(\{%|\{#|\{\{|<!--)")
TAG_CLOSE = re.compile(r"(%\}|#\}|\}\}|-->)$")


def md_break_cause(ctx: Ctx, n: int) -> None:
    """BREAK_CAUSE through the Markdown layers: paragraphs of several source lines with template tags at line starts / ends / in the
    middle, hard breaks, and continuation lines that merely look like block content; formatted in semantic mode at a width that
    never forces a break.  Every line break of the output must be (a) after a word the sentence-end regex accepts, or (b) a hard
    break, or (c) a newline of the SOURCE that stands directly before or after a template tag / HTML comment — or, within a
    hard-break segment that has a tag at a line edge, next to a line that looks like a list item or table row (C06's clause)."""
    lw, _ss = _lw()
    from flowmark.linewrapping.sentence_split_regex import SENTENCE_END_RE
    rng = ctx.rng
    wrap = lw.line_wrap_by_sentence(width=400, is_markdown=True)
    for _ in range(n):
        lines = []
        for k in range(rng.randint(2, 6)):
            words = [rng.choice(MD_LINE_STARTS)] if (k and rng.random() < 0.5) else []
            words += [rng.choice(["some", "words", "here", "text", "ends.", "Really?", "Yes!", "ok", "more", "(see)", "x"]) for _ in range(rng.randint(1, 6))]
            r = rng.random()
            if r < 0.25:
                words.insert(0, rng.choice(MD_TAGS))
            elif r < 0.5:
                words.append(rng.choice(MD_TAGS))
            elif r < 0.65:
                words.insert(rng.randint(1, len(words)), rng.choice(MD_TAGS))
            line = " ".join(words)
            if k == 0 and TAG_OPEN.match(line):
                line = "Start " + line          # a paragraph starting with a comment would be an HTML block
            lines.append(line + rng.choice(["", "", "", "\\", "  "]))
        lines[-1] = lines[-1].rstrip("\\ ")
        text = "\n".join(lines)
        out = wrap(text, "", "")
        ctx.count(["md-break-cause", text], nontrivial="\n" in out, sample=False)
        ctx.bump("md-break-cause")
        src_tokens = text.replace("\\\n", " ").split()
        # token index after which the source has a newline
        # source newlines the tag layer may keep: directly before or after a tag; and, inside a hard-break segment that has a
        # tag at a line edge, before or after a line that looks like block content (the list / table heuristics of the tag layer:
        # "a list or table enclosed by tag lines stays a list or table")
        BLOCKISH = re.compile(r"^([-*+] |\d+[.)] |\|)")
        seg_of, seg = [], 0
        for ln in lines:
            seg_of.append(seg)
            if ln.endswith("\\") or ln.endswith("  "):
                seg += 1
        bare = [ln.rstrip("\\ ") for ln in lines]
        edge = {}
        for k, ln in enumerate(bare):
            if TAG_OPEN.match(ln) or TAG_CLOSE.search(ln):
                edge[seg_of[k]] = True
        src_nl, idx = set(), 0
        for k, ln in enumerate(bare[:-1]):
            idx += len(ln.split())
            nxt_ln = bare[k + 1]
            adj = TAG_CLOSE.search(ln) is not None or TAG_OPEN.match(nxt_ln) is not None
            blockish = seg_of[k] == seg_of[k + 1] and edge.get(seg_of[k], False) and (BLOCKISH.match(nxt_ln) or BLOCKISH.match(ln))
            if adj or blockish:
                src_nl.add(idx - 1)
        out_lines = out.split("\n")
        j = -1
        for li, ol in enumerate(out_lines[:-1]):
            toks = ol.rstrip("\\").split()
            j += len(toks)
            nxt = out_lines[li + 1].split()
            if not toks or not nxt:
                continue
            last, first = toks[-1], nxt[0]
            hard = ol.endswith("\\") or ol.endswith("  ")
            sent = SENTENCE_END_RE.search(last) is not None
            tagadj = j in src_nl
            if not (hard or sent or tagadj):
                ctx.fail("BREAK_CAUSE (Markdown layers): a line break that is not after a sentence end, not a hard break, not a source "
                         "newline next to a tag, and not forced by the width", {"text": text, "W": 400},
                         {"after": last, "before": first, "out": out})
                break


def replay_findings(ctx: Ctx) -> None:
    lw, _ = _lw()
    for fid, e in ctx.kf.items():
        c = e.get("input") or {}
        if "text" in c:
            out = lw.line_wrap_by_sentence(width=c["W"], min_line_len=c["minLen"], is_markdown=c["md"])(c["text"], c["i0"], c["s0"])
            sub = Ctx(ctx.prop, ctx.tier, ctx.seed)
            sub.kf = {}
            break_cause_check(sub, c["text"], c["W"], c["i0"], c["s0"], c["minLen"], out)
            ctx.known_replay(fid, bool(sub.failing))


def run(ctx: Ctx) -> None:
    driver_ok = lean_obligations(ctx)
    replay_findings(ctx)
    if driver_ok:
        ctx.guard("tie sentWrap", tie_sentwrap)
        ctx.guard("tie sentEnd", tie_sentend)
        ctx.guard("tie sentWrap(atoms)", tie_sentwrap_atoms)
        from props import c06
        ctx.guard("tie layers", c06.tie_layers)
    locality_oracle(ctx, ctx.scale(3000, 40000))
    md_break_cause(ctx, ctx.scale(1500, 30000))
    ctx.assume("SENTENCE_END_RE is a parameter (per-word flags computed by the real regex); Markdown layers "
               "(tags, hard breaks, atoms) are excluded from the sentence-fold tie; their model is tied by `tie layers` (shared with C06) "
               "and BREAK_CAUSE is checked through them on the real wrapper")


def search(ctx: Ctx) -> None:
    lw, _ = _lw()
    for b in ctx.broken_inputs:
        c = b["case"]
        if b["tie"] == "sentEnd" and b["model"] == "1" and b["impl"] == "0":
            # a word the pinned pattern (as modelled) detects as a sentence end: END_BREAKS must hold after it
            w = c["word"]
            t = "aaaa bbbb cccc dddd eeee " + w + " Ffff gggg hhhh iiii jjjj kkkk."
            out = lw.line_wrap_by_sentence(width=88, is_markdown=True)(t, "", "")
            if "\n" not in out:
                ctx.fail("END_BREAKS: no line break after a sentence-final word (per the pinned SENTENCE_END_RE semantics)",
                         {"text": t, "W": 88, "i0": "", "s0": "", "minLen": 20, "md": True, "word": w}, out)
            continue
        if "text" in c:
            out = lw.line_wrap_by_sentence(width=c["W"], min_line_len=c["minLen"], is_markdown=c["md"])(c["text"], c["i0"], c["s0"])
            break_cause_check(ctx, c["text"], c["W"], c["i0"], c["s0"], c["minLen"], out)
        elif "words" in c and "minLen" in c:
            t = " ".join(c["words"])
            out = lw.line_wrap_by_sentence(width=c["W"], min_line_len=c["minLen"], is_markdown=c["md"])(t, c["i0"], c["s0"])
            break_cause_check(ctx, t, c["W"], c["i0"], c["s0"], c["minLen"], out)
    rng = ctx.rng
    for _ in range(30000):
        ws, W, i0, s0, ml, md = rand_case(ctx)
        t = " ".join(ws)
        out = lw.line_wrap_by_sentence(width=W, min_line_len=ml, is_markdown=md)(t, i0, s0)
        break_cause_check(ctx, t, W, i0, s0, ml, out)
        if ctx.failing:
            return
    locality_oracle(ctx, 60000)


def replay(ctx: Ctx, path: str) -> int:
    r = json.loads(open(path).read())
    print(json.dumps(r.get("input"), ensure_ascii=False))
    return 0
