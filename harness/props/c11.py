"""
C11 — Semantic line breaks fall at sentence ends and keep edits local.

Ring 1: FM/Props/C11.lean (frame lemma, LOCAL_PREFIX/SUFFIX, END_BREAKS, S_LOSSLESS, BREAK_CAUSE)
        about the exact fold model `wrapBySentence` with the sentence-end test as a parameter.
Ring 2: equality with the real `line_wrap_by_sentence` on texts free of atoms/tags/hard breaks
        (there the Markdown layers are the identity), per-word flags from the real regex.
Ring 3: locality and break-cause checked on the real wrapper for random single-sentence edits.
"""
from __future__ import annotations

import json

import gen
from common import Ctx, dec, enc, enc_bool, enc_list, run_driver
from leanbuild import lean_obligations

SENT_WORDS = ["Go", "on.", "yes.", "No!", "Why?", "The", "fox", "jumped.", "over", "a", "lazy", "dog.", "e.g.",
              "Dr.", "it)", "said.”", "end.)", "x" * 22, "y" * 40, "Mr.", "AB.", "ab.", "1.", "-", "#", "ok", "A.",
              "word", "words", "more", "text", "here.", "and", "then", "so", "it", "goes."]


def _lw():
    from flowmark.linewrapping import line_wrappers as lw
    from flowmark.linewrapping import sentence_split_regex as ss
    return lw, ss


def rand_case(ctx: Ctx):
    rng = ctx.rng
    n = rng.randint(0, 45)
    ws = [rng.choice(SENT_WORDS) if rng.random() < 0.8 else gen.letter_word(rng, rng.randint(1, 12)) + rng.choice(["", ".", "!", ""])
          for _ in range(n)]
    W = rng.choice([8, 15, 20, 25, 30, 40, 60, 88, rng.randint(1, 100)])
    i0 = rng.choice(["", "", "- ", "> ", "1. ", "10. ", "[^abc]: ", "> - "])
    s0 = rng.choice(["", " " * len(i0), "    ", "> "]) if i0 else rng.choice(["", "", "  "])
    ml = rng.choice([20, 20, 20, 0, 5, 10, 35])
    return ws, W, i0, s0, ml, rng.random() < 0.7


def exhaustive_cases(ctx: Ctx):
    """Sentence-length vectors around minLineLen and W (bounded-exhaustive)."""
    import itertools
    W, ml = 12, 6
    lens = [1, 2, 5, 6, 11, 13] if ctx.tier == "quick" else [1, 2, 4, 5, 6, 7, 11, 12, 13]
    for n in range(1, 4 if ctx.tier == "quick" else 5):
        for combo in itertools.product(lens, repeat=n):
            for endmask in range(1 << n):
                ws = []
                for k, L in enumerate(combo):
                    end = (endmask >> k) & 1
                    ws.append("abcdefghijklmnop"[: L - 1] + "." if end and L >= 3 else "abcdefghijklmnop"[:L])
                for i0, s0 in (("", ""), ("- ", "  "), ("[^a]: ", "    ")):
                    yield ws, W, i0, s0, ml, False


def tie_sentwrap(ctx: Ctx) -> None:
    lw, ss = _lw()
    cases = list(exhaustive_cases(ctx))
    n_exh = len(cases)
    cases += [rand_case(ctx) for _ in range(ctx.scale(15000, 200000))]
    ops = []
    for ws, W, i0, s0, ml, md in cases:
        flags = "".join("1" if ss.heuristic_end_of_sentence(w) else "0" for w in ws)
        ops.append(f"sentWrap\t{W}\t{enc(i0)}\t{enc(s0)}\t{ml}\t{enc_bool(md)}\t{enc_list(ws)}\t{flags}")
    outs = run_driver(ops, workers=16)
    bad = 0
    for idx, ((ws, W, i0, s0, ml, md), o) in enumerate(zip(cases, outs)):
        text = " ".join(ws)
        exp = lw.line_wrap_by_sentence(width=W, min_line_len=ml, is_markdown=md)(text, i0, s0)
        got = None if o == "bad-op" else dec(o)
        ctx.count(["sentWrap", ws, W, i0, s0, ml, md], nontrivial="\n" in exp, sample=(idx % 4001 == 7))
        ctx.bump("sentWrap:exhaustive" if idx < n_exh else "sentWrap:random")
        if got != exp:
            bad += 1
            ctx.tie_broken("sentWrap", {"words": ws, "W": W, "i0": i0, "s0": s0, "minLen": ml, "md": md}, got, exp)
    ctx.obligation(f"tie sentWrap: model wrapBySentence = line_wrap_by_sentence on {len(cases)} calls "
                   f"({n_exh} bounded-exhaustive sentence-length vectors, rest random; flags from SENTENCE_END_RE)",
                   "correspondence", bad == 0, f"{bad} disagreement(s)")
    # width <= 0
    rng = ctx.rng
    c2 = []
    for _ in range(ctx.scale(1500, 20000)):
        ws = gen.rand_words(rng, rng.randint(0, 12), 0.2)
        c2.append((rng.choice(["", "- ", "> "]), gen.layout(rng, ws)))
    outs = run_driver([f"sentNoWrap\t{enc(i0)}\t{enc(t)}" for i0, t in c2], workers=8)
    bad = 0
    for (i0, t), o in zip(c2, outs):
        exp = lw.line_wrap_by_sentence(width=0, is_markdown=False)(t, i0, "  ")
        ctx.count(["sentNoWrap", i0, t])
        if o == "bad-op" or dec(o) != exp:
            bad += 1
            ctx.tie_broken("sentNoWrap", {"i0": i0, "text": t}, o, exp)
    ctx.obligation(f"tie sentNoWrap: width<=0 branch on {len(c2)} texts", "correspondence", bad == 0, f"{bad} disagreement(s)")
    ctx.rule("sentWrap: sentence-length vectors around minLineLen/W × end masks × indents (exhaustive), random word "
             "sequences with sentence-end words; non-trivial = multi-line output")


# ------------------------------------------------------------------------------------------
# Ring 3: locality oracle on the real wrapper


def sentences_of(ss, ws):
    out, cur = [], []
    for w in ws:
        cur.append(w)
        if ss.heuristic_end_of_sentence(w):
            out.append(cur)
            cur = []
    if cur:
        out.append(cur)
    return out


def locality_oracle(ctx: Ctx, n: int) -> None:
    lw, ss = _lw()
    rng = ctx.rng
    for _ in range(n):
        ws, W, i0, s0, ml, md = rand_case(ctx)
        sents = sentences_of(ss, ws)
        if len(sents) < 2:
            continue
        k = rng.randrange(len(sents))
        new_sent = [rng.choice(SENT_WORDS[4:11]) for _ in range(rng.randint(1, 8))] + [rng.choice(["done.", "ok!", "yes."])]
        sents2 = sents[:k] + [new_sent] + sents[k + 1:]
        w = lw.line_wrap_by_sentence(width=W, min_line_len=ml, is_markdown=md)
        a = w(" ".join(x for s in sents for x in s), i0, s0).split("\n")
        b = w(" ".join(x for s in sents2 for x in s), i0, s0).split("\n")
        # prefix: lines before the last line after sentence k-1
        pre = w(" ".join(x for s in sents[:k] for x in s), i0, s0).split("\n") if k else []
        keep = max(0, len(pre) - 1)
        case = {"words": ws, "edit_sentence": k, "new": new_sent, "W": W, "i0": i0, "s0": s0, "minLen": ml, "md": md}
        ctx.count(["locality", case], nontrivial=keep > 0 or k < len(sents) - 1)
        if a[:keep] != b[:keep]:
            ctx.fail("LOCAL_PREFIX: a line before the previous sentence's last line changed", case, {"a": a, "b": b})
            continue
        # suffix: first m >= k such that both runs end sentence m on a line of >= minLen (without indent)
        for m in range(k, len(sents) - 1):
            pa = w(" ".join(x for s in sents[: m + 1] for x in s), i0, s0).split("\n")
            pb = w(" ".join(x for s in sents2[: m + 1] for x in s), i0, s0).split("\n")

            def body(lines):
                l = lines[-1]
                ind = i0 if len(lines) == 1 else s0
                return l[len(ind):]
            if len(body(pa)) >= ml and len(body(pb)) >= ml:
                ra, rb = a[len(pa):], b[len(pb):]
                if a[: len(pa)] != pa or b[: len(pb)] != pb or ra != rb:
                    ctx.fail("LOCAL_SUFFIX: lines after a re-synchronising sentence differ", case,
                             {"m": m, "a": a, "b": b})
                break


def run(ctx: Ctx) -> None:
    driver_ok = lean_obligations(ctx)
    if driver_ok:
        tie_sentwrap(ctx)
    locality_oracle(ctx, ctx.scale(3000, 40000))
    ctx.assume("SENTENCE_END_RE is a parameter (per-word flags computed by the real regex); Markdown layers "
               "(tags, hard breaks, atoms) are excluded from this tie and covered by C06/C01 ties")


def search(ctx: Ctx) -> None:
    locality_oracle(ctx, 60000)


def replay(ctx: Ctx, path: str) -> int:
    r = json.loads(open(path).read())
    print(json.dumps(r.get("input"), ensure_ascii=False))
    return 0
