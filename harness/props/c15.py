"""
C15 — All entry points agree: CLI, file API and text API give the same bytes.

Ring 1+2: FM/Props/C15.lean over FM/Generated/Plumbing.lean (regenerated from the ast of the working tree).
Ring 3:   the option product on the real CLI (in-process main(), a sample as subprocesses) against
          reformat_text / reformat_file; usage errors leave the directory untouched.
"""
from __future__ import annotations

import contextlib
import io
import itertools
import json
import os
import shutil
import subprocess
import sys
import tempfile
from pathlib import Path

from common import Ctx
from leanbuild import lean_obligations

DOCS = [
    "# **Bold Title**\n\nHe said \"hello\" and it's fine... Really. This sentence is long enough to need wrapping at narrow widths, yes it is. Another one follows here.\n\n- item one\n- item two\n\n1. a\n\n2. b\n",
    "Plain paragraph with 'single quotes' and dots ... and more text that goes on and on for a while to wrap.\n\n* x\n\n* y\n",
    "Short.\n",
    # documents chosen so that renderer state left over from one file would change the next one
    "# Title\n\nSome text here.\n\n## Ending heading\n",
    "| a | b |\n|---|---|\n| 1 | 2 |\n\nParagraph right after the table, with a [ref] link.\n",
    "[ref]: http://example.com/x \"T\"\n\n* * *\n\n- item[^n]\n\n[^n]: The note.\n",
]
# already-canonical content stored with CRLF line ends (bytes differ from what any entry point returns)
CRLF_DOC = b"Short line one.\r\n\r\nShort line two.\r\n"


def snapshot(d: Path) -> dict[str, bytes]:
    return {str(p.relative_to(d)): p.read_bytes() for p in sorted(d.rglob("*")) if p.is_file()}


def run_main(args: list[str], stdin_text: str = "", cwd: Path | None = None) -> tuple[int, str, str]:
    from flowmark import cli
    out, err = io.StringIO(), io.StringIO()
    old_stdin, old_cwd = sys.stdin, os.getcwd()
    sys.stdin = io.StringIO(stdin_text)
    if cwd:
        os.chdir(cwd)
    try:
        with contextlib.redirect_stdout(out), contextlib.redirect_stderr(err):
            try:
                rc = cli.main(args)
            except SystemExit as e:
                rc = e.code if isinstance(e.code, int) else 2
    finally:
        sys.stdin = old_stdin
        os.chdir(old_cwd)
    return rc, out.getvalue(), err.getvalue()


def opt_args(o: dict) -> list[str]:
    a = ["--width", str(o["width"]), "--list-spacing", o["list_spacing"]]
    for k in ("plaintext", "semantic", "cleanups", "smartquotes", "ellipses"):
        if o[k]:
            a.append("--" + k)
    return a


def expected(text: str, o: dict) -> str:
    from flowmark import reformat_text
    from flowmark.formats.flowmark_markdown import ListSpacing
    return reformat_text(text, o["width"], o["plaintext"], o["semantic"], o["cleanups"], o["smartquotes"],
                         o["ellipses"], ListSpacing(o["list_spacing"]))


def points(ctx: Ctx):
    widths = [0, 20, 88]
    spac = ["preserve", "loose", "tight"]
    sinks = ["stdout", "-o", "inplace", "inplace+nobackup", "auto"]
    sources = ["file", "stdin", "several"]
    allp = []
    for w, sp, bits, sink, src in itertools.product(widths, spac, range(32), sinks, sources):
        o = {"width": w, "list_spacing": sp, "plaintext": bool(bits & 1), "semantic": bool(bits & 2),
             "cleanups": bool(bits & 4), "smartquotes": bool(bits & 8), "ellipses": bool(bits & 16)}
        allp.append((o, sink, src))
    if ctx.tier == "thorough":
        return allp
    ctx.rng.shuffle(allp)
    # pairwise-ish: greedy cover of all (param,value) pairs, then fill up to 420
    def feats(p):
        o, sink, src = p
        f = [("w", o["width"]), ("sp", o["list_spacing"]), ("sink", sink), ("src", src)] + [(k, o[k]) for k in ("plaintext", "semantic", "cleanups", "smartquotes", "ellipses")]
        return set(itertools.combinations(sorted(map(str, f)), 2))
    chosen, rest, covered = [], [], set()
    for p in allp:
        fs = feats(p)
        if not fs <= covered:
            chosen.append(p)
            covered |= fs
        else:
            rest.append(p)
    return chosen + rest[: max(0, 420 - len(chosen))]


def check_point(ctx: Ctx, o: dict, sink: str, src: str, doc_i: int) -> None:
    from flowmark.reformat_api import reformat_file
    from flowmark.formats.flowmark_markdown import ListSpacing
    case = {"opts": o, "sink": sink, "source": src, "doc": doc_i}
    eff = dict(o)
    if sink == "auto":
        eff.update(semantic=True, cleanups=True, smartquotes=True, ellipses=True)
    d = Path(tempfile.mkdtemp(prefix="c15_", dir="/tmp"))
    try:
        names = ["a.md"] if src != "several" else ["a.md", "sub/b.md", "c.md"]
        texts = {}
        for i, n in enumerate(names):
            p = d / n
            p.parent.mkdir(parents=True, exist_ok=True)
            texts[n] = DOCS[(doc_i + i) % len(DOCS)]
            p.write_text(texts[n])
        before = snapshot(d)
        args = opt_args(o)
        stdin_text = ""
        if src == "stdin":
            files = ["-"]
            stdin_text = texts["a.md"]
        else:
            files = names
        if sink == "-o":
            args += ["-o", "out/result.md"]
        elif sink == "inplace":
            args += ["--inplace"]
        elif sink == "inplace+nobackup":
            args += ["--inplace", "--nobackup"]
        elif sink == "auto":
            args += ["--auto"]
        rc, out, err = run_main(args + files, stdin_text, cwd=d)
        after = snapshot(d)
        ctx.count(case, sample=(doc_i == 0 and sink == "auto"))
        ctx.bump(f"{src}->{sink}")
        exp = {n: expected(texts[n], eff) for n in names}
        inplace = sink in ("inplace", "inplace+nobackup", "auto")
        # usage errors
        usage_error = (src == "stdin" and inplace) or (sink == "-o" and src in ("several", "file"))
        if usage_error:
            if rc == 0:
                ctx.fail("usage error must exit non-zero", case, {"rc": rc, "out": out[:200]})
            elif after != before:
                ctx.fail("usage error must not write anything", case, {"changed": sorted(set(after) ^ set(before))})
            return
        if rc != 0:
            ctx.fail("CLI failed on a valid invocation", case, {"rc": rc, "err": err[:300]})
            return
        if inplace:
            if out != "":
                ctx.fail("in-place run wrote to stdout", case, out[:200])
            for n in names:
                if after.get(n, b"").decode() != exp[n]:
                    ctx.fail("CLI --inplace result differs from text API", case, {"file": n, "cli": after.get(n, b"").decode(), "api": exp[n]})
                    return
                has_orig = (n + ".orig") in after
                changed = after.get(n) != before[n]
                want_orig = sink == "inplace" and changed  # a backup is owed only if the file was changed
                if (has_orig and sink != "inplace") or (want_orig and not has_orig) or (has_orig and after[n + ".orig"] != before[n]):
                    ctx.fail("backup (.orig) handling differs from --inplace/--nobackup contract", case, {"file": n, "orig_present": has_orig})
                    return
            extra = set(after) - set(before) - {n + ".orig" for n in names}
            if extra:
                ctx.fail("in-place run left extra files", case, sorted(extra))
        elif sink == "stdout":
            want = "".join(exp[n] for n in (["a.md"] if src == "stdin" else names))
            if out != want:
                ctx.fail("CLI stdout differs from text API", case, {"cli": out, "api": want})
                return
            if after != before:
                ctx.fail("input touched without --inplace", case, sorted(set(after) ^ set(before)))
        elif sink == "-o":  # stdin only
            res = after.get("out/result.md")
            if res is None or res.decode() != exp["a.md"]:
                ctx.fail("CLI -o result differs from text API", case, {"cli": None if res is None else res.decode(), "api": exp["a.md"]})
                return
            if {k: v for k, v in after.items() if k != "out/result.md"} != before:
                ctx.fail("input touched without --inplace", case, None)
        # file API on the same content
        if src == "file" and not inplace:
            p2 = d / "api_in.md"
            p2.write_text(texts["a.md"])
            reformat_file(p2, d / "api_out.md", width=eff["width"], plaintext=eff["plaintext"], semantic=eff["semantic"],
                          cleanups=eff["cleanups"], smartquotes=eff["smartquotes"], ellipses=eff["ellipses"],
                          list_spacing=ListSpacing(eff["list_spacing"]))
            if (d / "api_out.md").read_text() != exp["a.md"]:
                ctx.fail("file API result differs from text API", case, None)
    finally:
        shutil.rmtree(d, ignore_errors=True)


def several_alone(ctx: Ctx) -> None:
    """With several inputs each file gets exactly the result it would get alone (and in any order)."""
    order = [3, 4, 5, 0, 1, 2]
    for o in ({"width": 88, "list_spacing": "preserve", "plaintext": False, "semantic": False, "cleanups": False, "smartquotes": False, "ellipses": False},
              {"width": 30, "list_spacing": "loose", "plaintext": False, "semantic": True, "cleanups": True, "smartquotes": True, "ellipses": True}):
        d = Path(tempfile.mkdtemp(prefix="c15m_", dir="/tmp"))
        try:
            names = []
            for k, di in enumerate(order):
                n = f"f{k}.md"
                (d / n).write_text(DOCS[di])
                names.append(n)
            rc, out, err = run_main(opt_args(o) + ["--inplace", "--nobackup"] + names, cwd=d)
            multi = {n: (d / n).read_text() for n in names}
            for k, di in reversed(list(enumerate(order))):
                n = f"f{k}.md"
                (d / "neutral.md").write_text("A neutral paragraph.\n")
                run_main(opt_args(o) + ["--inplace", "--nobackup", "neutral.md"], cwd=d)
                (d / "solo.md").write_text(DOCS[di])
                run_main(opt_args(o) + ["--inplace", "--nobackup", "solo.md"], cwd=d)
                solo = (d / "solo.md").read_text()
                ctx.count(["several-alone", di, o["width"]])
                if rc != 0 or multi[n] != solo:
                    ctx.fail("with several inputs a file got a different result than alone", {"opts": o, "doc": DOCS[di], "position": k},
                             {"in_multi_run": multi[n], "alone": solo})
                    return
        finally:
            shutil.rmtree(d, ignore_errors=True)


def fresh_process_sample(ctx: Ctx) -> None:
    """A multi-file run in one process vs each file in its own fresh process."""
    o = {"width": 60, "list_spacing": "preserve", "plaintext": False, "semantic": True, "cleanups": True, "smartquotes": False, "ellipses": False}
    d = Path(tempfile.mkdtemp(prefix="c15p_", dir="/tmp"))
    try:
        names = []
        for k, di in enumerate([3, 4, 5, 0]):
            (d / f"g{k}.md").write_text(DOCS[di])
            names.append(f"g{k}.md")
        p = subprocess.run([sys.executable, "-m", "flowmark.cli", *opt_args(o), *names], cwd=d, capture_output=True, text=True)
        solo = ""
        for n in names:
            q = subprocess.run([sys.executable, "-m", "flowmark.cli", *opt_args(o), n], cwd=d, capture_output=True, text=True)
            solo += q.stdout
        ctx.count(["fresh-process", names])
        if p.returncode != 0 or p.stdout != solo:
            ctx.fail("multi-file run differs from the concatenation of single-file runs in fresh processes", {"opts": o, "files": names},
                     {"multi": p.stdout, "solo": solo})
    finally:
        shutil.rmtree(d, ignore_errors=True)


def crlf_and_config(ctx: Ctx) -> None:
    from flowmark import reformat_text
    # CRLF bytes: every entry point returns LF text; in-place must agree with stdout and the text API
    d = Path(tempfile.mkdtemp(prefix="c15c_", dir="/tmp"))
    try:
        (d / "w.md").write_bytes(CRLF_DOC)
        want = reformat_text((d / "w.md").read_text(), 88, False, False, False, False, False)
        rc1, out1, _ = run_main(["w.md"], cwd=d)
        rc2, _, _ = run_main(["--inplace", "--nobackup", "w.md"], cwd=d)
        got = (d / "w.md").read_bytes().decode()
        ctx.count(["crlf"])
        if out1 != want or got != want:
            ctx.fail("CRLF file: stdout / in-place / text API disagree", {"bytes": repr(CRLF_DOC)}, {"stdout": out1, "inplace": got, "api": want})
        # --auto is exactly --inplace --nobackup --semantic --cleanups --smartquotes --ellipses, also next to a config file
        (d / "flowmark.toml").write_text("semantic = false\ncleanups = false\nsmartquotes = false\nellipses = false\nwidth = 40\n")
        for k in (0, 1):
            (d / "a1.md").write_text(DOCS[k])
            (d / "a2.md").write_text(DOCS[k])
            r1, _, e1 = run_main(["--auto", "a1.md"], cwd=d)
            r2, _, e2 = run_main(["--inplace", "--nobackup", "--semantic", "--cleanups", "--smartquotes", "--ellipses", "a2.md"], cwd=d)
            ctx.count(["auto-vs-explicit-with-config", k])
            if r1 != 0 or r2 != 0 or (d / "a1.md").read_text() != (d / "a2.md").read_text():
                ctx.fail("--auto differs from --inplace --nobackup --semantic --cleanups --smartquotes --ellipses (config file present)",
                         {"doc": DOCS[k], "config": "all switches false, width 40"},
                         {"auto": (d / "a1.md").read_text(), "explicit": (d / "a2.md").read_text()})
            api = reformat_text(DOCS[k], 40, False, True, True, True, True)
            if (d / "a2.md").read_text() != api:
                ctx.fail("explicit switches next to a config file differ from the text API with the same options", {"doc": DOCS[k]},
                         {"cli": (d / "a2.md").read_text(), "api": api})
    finally:
        shutil.rmtree(d, ignore_errors=True)


# documents as BYTES (what is on disk / in the pipe): encodings of line ends and of the first character that in-process
# runs with StringIO never see
BYTE_DOCS = {
    "crlf": b"First   line of text\r\nsecond line.\r\n\r\nNext   paragraph here.\r\n\r\n- item\r\n- two\r\n",
    "lone-cr": b"Old Mac\rline ends.\r\rSecond   paragraph.\r",
    "mixed": b"Unix line\nDOS line\r\n\r\nlast   one\n",
    "bom": "\ufeff# Title\n\nSome   text   here.\n".encode(),
    "bom-crlf": "\ufeffText   with BOM\r\n\r\nand CRLF.\r\n".encode(),
    "non-ascii": "Caf\u00e9   na\u00efve \u65e5\u672c\u8a9e  \u201cquoted\u201d\u00a0nbsp\n\nsecond\u2028line\n".encode(),
    "no-final-newline": b"text   without final newline",
    # characters that only str.splitlines() takes for line ends, where they are kept verbatim (code, frontmatter)
    "exotic-separators-in-code": "para\n\n```\ncode\x0bline\u2028x\x1cy\x85z\x1dw\x1ev\u2029u\n```\n".encode(),
    "exotic-separators-in-frontmatter": "---\na: b\u2028c\x0bd\n---\n\ntext   here\n".encode(),
}


def byte_level(ctx: Ctx) -> None:
    """real processes, real pipes and files: file→stdout, stdin→stdout, stdin→-o, in place, and the file API must give the
    same BYTES, equal to the text API on the text `Path.read_text()` decodes"""
    from flowmark import reformat_text
    from flowmark.reformat_api import reformat_file
    rng = ctx.rng
    names = sorted(BYTE_DOCS)
    modes = [[], ["--plaintext"], ["--semantic"], ["--plaintext", "--width", "30"], ["--width", "0"]]
    picks = [(n, m) for n in names for m in modes]
    if ctx.tier != "thorough":
        rng.shuffle(picks)
        picks = picks[: 14] + [(n, ["--plaintext"]) for n in ("crlf", "bom")] + [(n, []) for n in ("exotic-separators-in-code", "exotic-separators-in-frontmatter")]
    for name, mode in picks:
        data = BYTE_DOCS[name]
        d = Path(tempfile.mkdtemp(prefix="c15b_", dir="/tmp"))
        try:
            (d / "f.md").write_bytes(data)
            kw = dict(width=88, plaintext="--plaintext" in mode, semantic="--semantic" in mode, cleanups=False)
            if "--width" in mode:
                kw["width"] = int(mode[mode.index("--width") + 1])
            want = reformat_text((d / "f.md").read_text(), kw["width"], kw["plaintext"], kw["semantic"], False, False, False).encode()
            run = lambda args, inp=None: subprocess.run([sys.executable, "-m", "flowmark.cli", *mode, *args], cwd=d, input=inp, capture_output=True)
            got = {}
            got["file→stdout"] = run(["f.md"]).stdout
            got["stdin→stdout"] = run(["-"], data).stdout
            run(["-o", "out.md", "-"], data)
            got["stdin→-o"] = (d / "out.md").read_bytes() if (d / "out.md").exists() else None
            shutil.copy(d / "f.md", d / "g.md")
            run(["--inplace", "--nobackup", "g.md"])
            got["inplace"] = (d / "g.md").read_bytes()
            shutil.copy(d / "f.md", d / "h.md")
            reformat_file(str(d / "h.md"), None, inplace=True, nobackup=True, **kw)
            got["file API"] = (d / "h.md").read_bytes()
            ctx.count(["bytes", name, mode])
            ctx.bump("bytes:" + name)
            diff = {k: (None if v is None else v[:200].decode(errors="replace")) for k, v in got.items() if v != want}
            if diff:
                ctx.fail("BYTES: entry points disagree on a document given as bytes (line ends / BOM / non-ASCII)",
                         {"doc": name, "bytes": repr(data), "mode": mode}, {"text API": want[:200].decode(errors="replace"), "differs": diff})
        finally:
            shutil.rmtree(d, ignore_errors=True)


def replay_fixed_bytes(ctx: Ctx) -> None:
    for fid, e in ctx.kf.items():
        c = e.get("input") or {}
        if c.get("kind") == "bytes":
            d = Path(tempfile.mkdtemp(prefix="c15b_", dir="/tmp"))
            try:
                data = BYTE_DOCS[c["doc"]]
                (d / "f.md").write_bytes(data)
                a = subprocess.run([sys.executable, "-m", "flowmark.cli", *c["mode"], "f.md"], cwd=d, capture_output=True).stdout
                b = subprocess.run([sys.executable, "-m", "flowmark.cli", *c["mode"], "-"], cwd=d, input=data, capture_output=True).stdout
                ctx.known_replay(fid, a != b)
            finally:
                shutil.rmtree(d, ignore_errors=True)


def usage_errors(ctx: Ctx) -> None:
    for args, stdin_text, what in [
        ([], "", "no input"),
        (["--auto"], "", "--auto without input"),
        (["-o", "x.md", "a.md", "b.md"], "", "-o with several files"),
        (["--inplace", "-"], "text\n", "--inplace with stdin"),
        (["--inplace", "a.md", "-"], "text\n", "--inplace with stdin among files"),
        (["--inplace", "-", "a.md"], "text\n", "--inplace with stdin among files"),
        (["--auto", "a.md", "-"], "text\n", "--auto with stdin among files"),
    ]:
        d = Path(tempfile.mkdtemp(prefix="c15u_", dir="/tmp"))
        try:
            (d / "a.md").write_text(DOCS[0])
            (d / "b.md").write_text(DOCS[1])
            before = snapshot(d)
            rc, out, err = run_main(args, stdin_text, cwd=d)
            after = snapshot(d)
            case = {"args": args, "what": what}
            ctx.count(["usage", args])
            if rc == 0:
                ctx.fail("usage error must exit non-zero", case, {"rc": rc})
            elif after != before:
                known = "C15-inplace-stdin-mixed" if "among files" in what else None
                ctx.fail("usage error must not write anything", case, {"changed": [k for k in after if after.get(k) != before.get(k)]}, known=known)
        finally:
            shutil.rmtree(d, ignore_errors=True)


def subprocess_sample(ctx: Ctx, n: int) -> None:
    rng = ctx.rng
    for _ in range(n):
        o = {"width": rng.choice([0, 20, 88]), "list_spacing": rng.choice(["preserve", "loose", "tight"]),
             "plaintext": rng.random() < 0.2, "semantic": rng.random() < 0.5, "cleanups": rng.random() < 0.5,
             "smartquotes": rng.random() < 0.5, "ellipses": rng.random() < 0.5}
        d = Path(tempfile.mkdtemp(prefix="c15s_", dir="/tmp"))
        try:
            (d / "a.md").write_text(DOCS[0])
            p = subprocess.run([sys.executable, "-m", "flowmark.cli", *opt_args(o), "a.md"], cwd=d, capture_output=True, text=True)
            ctx.count(["subprocess", o])
            if p.returncode != 0 or p.stdout != expected(DOCS[0], o):
                ctx.fail("CLI subprocess stdout differs from text API", {"opts": o}, {"rc": p.returncode, "err": p.stderr[:200]})
        finally:
            shutil.rmtree(d, ignore_errors=True)


def oracle(ctx: Ctx) -> None:
    for i, (o, sink, src) in enumerate(points(ctx)):
        check_point(ctx, o, sink, src, i % len(DOCS))
    usage_errors(ctx)
    several_alone(ctx)
    crlf_and_config(ctx)
    byte_level(ctx)
    replay_fixed_bytes(ctx)
    fresh_process_sample(ctx)
    subprocess_sample(ctx, ctx.scale(12, 120))
    ctx.rule("option product {W∈0,20,88}×2^5 switches×3 spacings×5 sinks×3 sources: pairwise-covering sample (quick) "
             "or the full 4320 points (thorough), in-process main(); subprocess sample; usage errors; byte-level documents (CRLF, lone CR, BOM, non-ASCII, no final newline) × modes through real processes (file→stdout, stdin→stdout, stdin→-o, in place, file API)")


def run(ctx: Ctx) -> None:
    driver_ok = lean_obligations(ctx)
    import routetie
    ctx.guard("tie route", routetie.tie_route, driver_ok)
    oracle(ctx)
    ctx.assume("the formatter itself is a parameter of the plumbing theorems; argparse is modelled only through its option table")


def search(ctx: Ctx) -> None:
    old = ctx.tier
    ctx.tier = "thorough"
    try:
        oracle(ctx)
    finally:
        ctx.tier = old


def replay(ctx: Ctx, path: str) -> int:
    r = json.loads(open(path).read())
    c = r.get("input") or {}
    if "opts" in c:
        check_point(ctx, c["opts"], c["sink"], c["source"], c.get("doc", 0))
    for f in ctx.failing:
        print("still fails:", f.get("clause"), f.get("detail"))
    return 1 if ctx.failing else 0
