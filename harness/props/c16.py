"""
C16 — Configuration precedence: explicit flag over config file over default.

Ring 1: FM/Props/C16.lean — table theorems over the regenerated FM/Generated/Plumbing.lean
        (EXPLICIT_DETECTION, AUTO_LOCK, EVERY_KEY_EFFECTIVE, KEYS) and theorems about the hand models
        `merge` (MERGE_PRECEDENCE) and `findConfig` (FIND_NEAREST).
Ring 2: translator (tables) + ops `merge`, `findconfig` against merge_cli_with_config / find_config_file.
Ring 3: effective behaviour of the real CLI: recorded keyword arguments of reformat_files and the
        FileResolverConfig, for every setting × {flag, no flag} × {config, no config} × {auto, not} × file kinds.
"""
from __future__ import annotations

import contextlib
import io
import json
import os
import shutil
import tempfile
from dataclasses import fields
from pathlib import Path

from common import Ctx, enc, enc_bool, enc_list, run_driver
from leanbuild import lean_obligations

# setting -> (cli args giving a non-default value, that value, config TOML value text, config python value, default)
SETTINGS = {
    "width": (["--width", "33"], 33, "44", 44, 88),
    "semantic": (["--semantic"], True, "true", True, False),
    "cleanups": (["--cleanups"], True, "true", True, False),
    "smartquotes": (["--smartquotes"], True, "true", True, False),
    "ellipses": (["--ellipses"], True, "true", True, False),
    "list_spacing": (["--list-spacing", "loose"], "loose", '"tight"', "tight", "preserve"),
    "extend_include": (["--extend-include", "*.mdx"], ["*.mdx"], '["*.markdown"]', ["*.markdown"], []),
    "exclude": (["--exclude", "zzz/"], ["zzz/"], '["yyy/"]', ["yyy/"], None),
    "extend_exclude": (["--extend-exclude", "drafts/"], ["drafts/"], '["old/"]', ["old/"], []),
    "files_max_size": (["--files-max-size", "1000"], 1000, "2000", 2000, 1048576),
    "respect_gitignore": (["--no-respect-gitignore"], False, "false", False, True),
    "force_exclude": (["--force-exclude"], True, "true", True, False),
    "include": (None, None, '["*.txt"]', ["*.txt"], ["*.md"]),
}
# a second config value per setting that CONFLICTS with what the flag gives (so flag-over-config is observable)
ALT_CFG = {
    "semantic": ("false", False), "cleanups": ("false", False), "smartquotes": ("false", False), "ellipses": ("false", False),
    "respect_gitignore": ("true", True), "force_exclude": ("false", False), "width": ("0", 0), "files_max_size": ("0", 0),
    "exclude": ("[]", []), "extend_include": ("[]", []), "extend_exclude": ("[]", []), "list_spacing": ('"preserve"', "preserve"),
    "include": ('["*.md", "*.rst"]', ["*.md", "*.rst"]),
}
# explicit flag passed with its DEFAULT value (only possible for valued options)
DEFAULT_VALUED = {"width": ["--width", "88"], "list_spacing": ["--list-spacing", "preserve"], "files_max_size": ["--files-max-size", "1048576"]}
FORMATTING = ["width", "semantic", "cleanups", "smartquotes", "ellipses", "list_spacing"]
AUTO_PRESET = {"semantic": True, "cleanups": True, "smartquotes": True, "ellipses": True}
SECTION = {**{k: "formatting" for k in FORMATTING}, **{k: "file-discovery" for k in SETTINGS if k not in FORMATTING}}

# Bodies of config files for the file-search scenarios.  {w} is replaced by a width that identifies the file.
# (label, TOML text, sets width?)  — a file that sets no width is still a config file: the upward search stops at it
# and the built-in default applies.
# pyproject.toml bodies that HAVE a [tool.flowmark] table (in any TOML spelling, with or without keys in it) ...
PYPROJECT_WITH_TABLE = [
    ("table+width", "[tool.flowmark]\nwidth = {w}\n", True),
    ("table+width among other tools", '[project]\nname = "p"\n\n[tool.ruff]\nline-length = 100\n\n[tool.flowmark]\nwidth = {w}\n\n[tool.other]\nx = 1\n', True),
    ("sub-table only", "[tool.flowmark.formatting]\nwidth = {w}\n", True),
    ("inline table", "[tool]\nflowmark = {{ width = {w} }}\n", True),
    ("quoted header", '[tool."flowmark"]\nwidth = {w}\n', True),
    ("empty table", "[tool.flowmark]\n", False),
    ("empty table with a comment", '[project]\nname = "p"\n\n[tool.flowmark]\n# use the flowmark defaults here\n', False),
    ("empty inline table", "[tool]\nflowmark = {{}}\n", False),
    ("empty table before another", "[tool.flowmark]\n\n[tool.other]\nwidth = {w}\n", False),
    ("empty sub-table", "[tool.flowmark.formatting]\n", False),
    ("table with another key", "[tool.flowmark]\nsemantic = false\n", False),
]
# ... and bodies that do NOT have one (the file is skipped and the search goes on).  Bodies in which `tool` or
# `tool.flowmark` is not a table at all (`tool = 1`, `[tool]\nflowmark = 3`) are kept out: they are outside the
# property text and the pinned flowmark raises on them (TypeError / AttributeError) instead of skipping the file.
PYPROJECT_WITHOUT_TABLE = [
    ("other tool", "[tool.other]\nx = 1\nwidth = {w}\n", False),
    ("empty tool table", "[tool]\n", False),
    ("top-level flowmark table", "[flowmark]\nwidth = {w}\n", False),
    ("longer name", "[tool.flowmarkx]\nwidth = {w}\n", False),
    ("name under another tool", "[tool.other.flowmark]\nwidth = {w}\n", False),
    ("header in a comment", "# [tool.flowmark]\nwidth = {w}\n", False),
    ("header in a string", '[project]\ndescription = "see [tool.flowmark]"\nwidth = {w}\n', False),
    ("not TOML", "not toml [[[\n", False),
    ("empty file", "", False),
]
# .flowmark.toml / flowmark.toml bodies
STANDALONE_BODIES = [
    ("width", "width = {w}\n", True),
    ("sectioned width", "[formatting]\nwidth = {w}\n", True),
    ("empty file", "", False),
    ("comment only", "# flowmark defaults\n", False),
    ("another key", "semantic = false\n", False),
]
KINDS = [".flowmark.toml", "flowmark.toml", "pyproject.toml"]
DEFAULT_WIDTH = 88


def config_body(rng, kind: str, qualifies: bool, w: int, plain: float = 0.0):
    """A body for a config file of `kind` -> (label, text, width it sets or None).  `qualifies` only matters for
    pyproject.toml.  With probability `plain` the first (ordinary) body is used."""
    if kind == "pyproject.toml":
        pool = PYPROJECT_WITH_TABLE if qualifies else PYPROJECT_WITHOUT_TABLE
    else:
        pool = STANDALONE_BODIES
    label, text, sets = pool[0] if rng.random() < plain else rng.choice(pool)
    return label, text.format(w=w), (w if sets else None)


def norm(v):
    from enum import Enum
    if isinstance(v, Enum):
        return v.value
    return v


def run_cli_recorded(args: list[str], cwd: Path):
    """Run cli.main with reformat_files and FileResolver replaced by recorders."""
    from flowmark import cli
    import flowmark.file_resolver as fr
    rec: dict = {}

    def fake_reformat_files(**kw):
        rec["reformat_files"] = kw

    class FakeResolver:
        def __init__(self, config):
            rec["resolver_config"] = config

        def resolve(self, paths):
            return [Path(cwd) / "doc.md"]

    old_rf, old_res, old_cwd = cli.reformat_files, fr.FileResolver, os.getcwd()
    cli.reformat_files = fake_reformat_files
    fr.FileResolver = FakeResolver
    out, err = io.StringIO(), io.StringIO()
    os.chdir(cwd)
    try:
        with contextlib.redirect_stdout(out), contextlib.redirect_stderr(err):
            try:
                rc = cli.main(args)
            except SystemExit as e:
                rc = e.code
    finally:
        os.chdir(old_cwd)
        cli.reformat_files, fr.FileResolver = old_rf, old_res
    return rc, rec, err.getvalue()


def effective(rec: dict, setting: str):
    if setting in FORMATTING:
        return norm(rec["reformat_files"][setting])
    cfg = rec["resolver_config"]
    return norm(getattr(cfg, setting))


def write_config(d: Path, kind: str, style: str, case: str, entries: dict[str, str]) -> None:
    def key(k):
        return k.replace("_", "-") if case == "kebab" else k
    if style == "flat":
        body = "".join(f"{key(k)} = {v}\n" for k, v in entries.items())
    else:
        secs: dict[str, list[str]] = {}
        for k, v in entries.items():
            secs.setdefault(SECTION[k], []).append(f"{key(k)} = {v}\n")
        body = "".join(f"[{s}]\n" + "".join(ls) for s, ls in secs.items())
    if kind == "pyproject.toml":
        if style == "flat":
            body = "[tool.flowmark]\n" + body
        else:
            body = body.replace("[formatting]", "[tool.flowmark.formatting]").replace("[file-discovery]", "[tool.flowmark.file-discovery]")
            if "[tool.flowmark" not in body:
                body = "[tool.flowmark]\n" + body
    (d / kind).write_text(body)


def expected_value(setting, flag_mode, cfg_set, auto, cfg_val=None):
    cli_args, cli_val, _, cfg_val0, default = SETTINGS[setting]
    if cfg_val is None:
        cfg_val = cfg_val0
    if flag_mode == "given":
        return cli_val
    if flag_mode == "given-default":
        return default
    if cfg_set and not (auto and setting in AUTO_PRESET):
        return cfg_val
    if auto and setting in AUTO_PRESET:
        return True
    return default


_ABBREV: dict[str, list[str]] = {}


def _spellings(opt: str) -> list[str]:
    """the spellings of a long option the real command line accepts for it: every prefix that the main parser takes for the
    same option (argparse's abbreviations), found by asking the parser itself"""
    if opt in _ABBREV:
        return _ABBREV[opt]
    import contextlib, io
    from flowmark import cli
    out = [opt]

    def parse(a):
        with contextlib.redirect_stderr(io.StringIO()), contextlib.redirect_stdout(io.StringIO()):
            try:
                return cli._parse_args(a)[0]
            except SystemExit:
                return None
    valued = opt in ("--width", "--list-spacing", "--files-max-size", "--extend-include", "--exclude", "--extend-exclude")
    val = {"--width": "33", "--list-spacing": "loose", "--files-max-size": "1000"}.get(opt, "zz")
    full = parse([opt] + ([val] if valued else []) + ["x.md"])
    for k in range(4, len(opt)):
        cand = opt[:k]
        if cand.endswith("-"):
            continue
        got = parse([cand] + ([val] if valued else []) + ["x.md"])
        if full is not None and got == full:
            out.append(cand)
    _ABBREV[opt] = out
    return out


def respell(ctx: Ctx, args: list[str]) -> list[str]:
    """another accepted spelling of the same flag: an abbreviation, or --opt=value"""
    r = ctx.rng.random()
    if r < 0.6 or not args or not args[0].startswith("--"):
        return list(args)
    opt = ctx.rng.choice(_spellings(args[0]))
    if len(args) == 2 and ctx.rng.random() < 0.5:
        ctx.bump("flag-spelling:=value")
        return [f"{opt}={args[1]}"]
    if opt != args[0]:
        ctx.bump("flag-spelling:abbreviated")
    return [opt] + list(args[1:])


def oracle(ctx: Ctx) -> None:
    rng = ctx.rng
    kinds = [".flowmark.toml", "flowmark.toml", "pyproject.toml"]
    n = 0
    for setting, (cli_args, cli_val, toml_val, cfg_val, default) in SETTINGS.items():
        flag_modes = ["absent"] + (["given"] if cli_args else []) + (["given-default"] if setting in DEFAULT_VALUED else [])
        for flag_mode in flag_modes:
            for cfg_set in (False, True, "alt"):
                for auto in (False, True):
                    combos = [(k, st, cs, nest) for k in kinds for st in ("flat", "sectioned") for cs in ("kebab", "snake") for nest in (0, 2)]
                    if ctx.tier == "quick":
                        combos = rng.sample(combos, 4)
                    for kind, style, case, nest in combos:
                        d = Path(tempfile.mkdtemp(prefix="c16_", dir="/tmp"))
                        try:
                            cwd = d
                            for i in range(nest):
                                cwd = cwd / f"n{i}"
                            cwd.mkdir(parents=True, exist_ok=True)
                            (cwd / "doc.md").write_text("x\n")
                            cfg_py = cfg_val
                            if cfg_set == "alt":
                                cfg_py = ALT_CFG[setting][1]
                                write_config(d, kind, style, case, {setting: ALT_CFG[setting][0]})
                            elif cfg_set:
                                write_config(d, kind, style, case, {setting: toml_val})
                            else:
                                write_config(d, kind, style, case, {})
                            args = []
                            if flag_mode == "given":
                                args += respell(ctx, cli_args)
                            elif flag_mode == "given-default":
                                args += respell(ctx, DEFAULT_VALUED[setting])
                            if auto:
                                args += ["--auto"]
                            args += ["."]
                            rc, rec, err = run_cli_recorded(args, cwd)
                            case_d = {"setting": setting, "flag": flag_mode, "config_sets": cfg_set, "auto": auto,
                                      "file": kind, "style": style, "case": case, "nested": nest, "args": args}
                            n += 1
                            ctx.count(case_d, sample=(n % 97 == 0))
                            ctx.bump(f"{setting}")
                            if rc != 0 or "reformat_files" not in rec or "resolver_config" not in rec:
                                ctx.fail("CLI did not reach the formatter", case_d, {"rc": rc, "err": err[:300]})
                                continue
                            got = effective(rec, setting)
                            want = expected_value(setting, flag_mode, bool(cfg_set), auto, cfg_py)
                            if got != want:
                                ctx.fail("PRECEDENCE: effective value differs from flag > config > default", case_d,
                                         {"effective": got, "expected": want, "stderr": err[:200]})
                            if cfg_set and "unrecognized" in err:
                                ctx.fail("accepted key produced a warning", case_d, err[:200])
                        finally:
                            shutil.rmtree(d, ignore_errors=True)
    # every accepted key is known to this check (a new FlowmarkConfig field must be covered)
    from flowmark.config import FlowmarkConfig
    for f in fields(FlowmarkConfig):
        if f.name not in SETTINGS:
            ctx.obligation(f"config key {f.name} covered by the effect oracle", "monitor", False, "unknown FlowmarkConfig field")
    # file precedence inside one directory and nearest-first
    for trial in range(ctx.scale(40, 400)):
        d = Path(tempfile.mkdtemp(prefix="c16f_", dir="/tmp"))
        try:
            levels = []
            cur = d
            depth = rng.randint(1, 4)
            dirs = [d]
            for i in range(depth - 1):
                cur = cur / f"l{i}"
                dirs.append(cur)
            dirs[-1].mkdir(parents=True, exist_ok=True)
            widths = {}
            bodies = []
            for li, dd in enumerate(reversed(dirs)):  # nearest first
                has = [rng.random() < 0.35 for _ in range(3)]
                sect = rng.random() < 0.6
                for ki, kind in enumerate(kinds):
                    if has[ki]:
                        w = 20 + li * 3 + ki
                        # half of the files are the ordinary `width = w` body, the rest is drawn from the body families
                        label, text, sets = config_body(rng, kind, sect, w, plain=0.5)
                        (dd / kind).write_text(text)
                        widths[(li, kind)] = sets if sets is not None else DEFAULT_WIDTH
                        bodies.append({"level": li, "file": kind, "body": label, "text": text})
                levels.append((has[0], has[1], has[2], sect))
            (dirs[-1] / "doc.md").write_text("x\n")
            rc, rec, err = run_cli_recorded(["."], dirs[-1])
            want = DEFAULT_WIDTH
            for li, (a, b, c, s) in enumerate(levels):
                if a:
                    want = widths[(li, kinds[0])]
                    break
                if b:
                    want = widths[(li, kinds[1])]
                    break
                if c and s:
                    want = widths[(li, kinds[2])]
                    break
            case_d = {"levels_nearest_first": levels, "files": bodies}
            ctx.count(["findfile", levels, [b["body"] for b in bodies]])
            got = rec.get("reformat_files", {}).get("width")
            if got != want:
                ctx.fail("NEAREST: width not taken from the nearest qualifying config file", case_d, {"effective": got, "expected": want})
        finally:
            shutil.rmtree(d, ignore_errors=True)
    oracle_stop_at_nearest(ctx)
    ctx.rule("setting × {flag absent/given/given-with-default} × {config sets, not} × {--auto, not} × sampled "
             "{3 file kinds × flat/sectioned × kebab/snake × cwd/ancestor}; random directory chains for file precedence")


def oracle_stop_at_nearest(ctx: Ctx) -> None:
    """What makes a file "a config file" for the upward search: every body of the families above, as the NEARER of two
    config files.  An outer directory holds an ordinary config file (width = 40 + kind index); an inner directory
    holds the file under test.  If the inner file is a config file (any .flowmark.toml / flowmark.toml; a
    pyproject.toml that has a [tool.flowmark] table, whatever is or is not in the table) the search stops there:
    the width is the inner file's, or the built-in default when it sets none — never the outer file's.  If it
    is a pyproject.toml without the table, the outer file decides."""
    rng = ctx.rng
    inner = [("pyproject.toml", True, b) for b in PYPROJECT_WITH_TABLE] + [("pyproject.toml", False, b) for b in PYPROJECT_WITHOUT_TABLE] \
        + [(k, True, b) for k in KINDS[:2] for b in STANDALONE_BODIES]
    for kind, is_config, (label, text, sets) in inner:
        shapes = [(ok, gap, below) for ok in range(3) for gap in (1, 2) for below in (0, 1)]
        if ctx.tier == "quick":
            shapes = rng.sample(shapes, 1)
        for outer_ki, gap, below in shapes:
            d = Path(tempfile.mkdtemp(prefix="c16s_", dir="/tmp"))
            try:
                outer_w, inner_w = 40 + outer_ki, 60
                (d / KINDS[outer_ki]).write_text(PYPROJECT_WITH_TABLE[0][1].format(w=outer_w) if outer_ki == 2 else f"width = {outer_w}\n")
                idir = d
                for i in range(gap):
                    idir = idir / f"g{i}"
                cwd = idir / "sub" if below else idir
                cwd.mkdir(parents=True)
                body = text.format(w=inner_w)
                (idir / kind).write_text(body)
                (cwd / "doc.md").write_text("x\n")
                rc, rec, err = run_cli_recorded(["."], cwd)
                if not is_config:
                    want = outer_w
                else:
                    want = inner_w if sets else DEFAULT_WIDTH
                case_d = {"outer": {"file": KINDS[outer_ki], "width": outer_w}, "inner": {"file": kind, "body": label, "text": body},
                          "inner_dirs_below_outer": gap, "cwd_below_inner": below, "inner_is_config_file": is_config}
                ctx.count(["stop-at-nearest", kind, label, outer_ki, gap, below], sample=(label == "empty table"))
                ctx.bump(f"nearest-file body: {kind} {'with' if is_config else 'without'} table/{label}" if kind == "pyproject.toml"
                         else f"nearest-file body: {kind}/{label}")
                got = rec.get("reformat_files", {}).get("width")
                if got != want:
                    ctx.fail("NEAREST: the upward search did not stop at the nearest config file (or stopped at a pyproject.toml "
                             "without a [tool.flowmark] table)", case_d, {"effective": got, "expected": want, "rc": rc, "stderr": err[:200]})
            finally:
                shutil.rmtree(d, ignore_errors=True)
    ctx.rule("every config-file body family (pyproject.toml with / without a [tool.flowmark] table in several TOML spellings, "
             "empty or keyless tables, empty standalone files) as the nearer of two config files × sampled {outer kind, distance, cwd below}")


def tie_merge(ctx: Ctx) -> None:
    from flowmark.config import FlowmarkConfig, merge_cli_with_config
    from flowmark.cli import Options
    import ast, inspect
    rng = ctx.rng
    cfg_fields = [f.name for f in fields(FlowmarkConfig)]
    opt_fields = [f.name for f in fields(Options)]
    src = inspect.getsource(merge_cli_with_config)
    locked = None
    for n in ast.walk(ast.parse(src)):
        if isinstance(n, ast.Assign) and getattr(n.targets[0], "id", "") == "auto_locked":
            locked = sorted(ast.literal_eval(n.value))
    cases = []
    names = sorted(set(cfg_fields + opt_fields))
    for _ in range(ctx.scale(3000, 30000)):
        f = rng.choice(names)
        explicit = [x for x in cfg_fields if rng.random() < 0.3]
        auto = rng.random() < 0.5
        has = rng.random() < 0.7
        cases.append((f, explicit, auto, has))
    ops = [f"merge\t{enc_list(cfg_fields)}\t{enc_list(opt_fields)}\t{enc_list(locked)}\t{enc_list(ex)}\t{enc_bool(au)}\t{enc(f)}\t{enc_bool(has)}"
           for f, ex, au, has in cases]
    outs = run_driver(ops, workers=8)
    bad = 0

    class Obj:
        pass
    for (f, ex, au, has), o in zip(cases, outs):
        cli = Obj()
        for k in opt_fields:
            setattr(cli, k, "cli")
        cfg = FlowmarkConfig(**({f: "cfg"} if has and f in cfg_fields else {}))
        res = merge_cli_with_config(cli, cfg, au, set(ex))
        exp = getattr(res, f, "cli")
        ctx.count(["merge", f, ex, au, has], nontrivial=has)
        if o != exp:
            bad += 1
            ctx.tie_broken("merge", {"field": f, "explicit": ex, "auto": au, "cfg_sets": has}, o, exp)
    ctx.obligation(f"tie merge: model merge = merge_cli_with_config on {len(cases)} random (field, explicit set, auto, config) cases",
                   "correspondence", bad == 0, f"{bad} disagreement(s)")


def tie_findconfig(ctx: Ctx) -> None:
    from flowmark.config import find_config_file
    rng = ctx.rng
    kinds = [".flowmark.toml", "flowmark.toml", "pyproject.toml"]
    cases, exps = [], []
    root = Path(tempfile.mkdtemp(prefix="c16t_", dir="/tmp"))
    try:
        for t in range(ctx.scale(150, 1500)):
            depth = rng.randint(1, 4)
            d = root / f"t{t}"
            dirs = [d]
            for i in range(depth - 1):
                dirs.append(dirs[-1] / f"l{i}")
            dirs[-1].mkdir(parents=True)
            lv = []
            for dd in reversed(dirs):
                a, b, c = (rng.random() < 0.3 for _ in range(3))
                s = rng.random() < 0.5
                # bodies from the families above: the model only sees "exists" / "has the table", so every spelling
                # of a (possibly empty) [tool.flowmark] table must be found and every other body skipped
                if a:
                    (dd / kinds[0]).write_text(config_body(rng, kinds[0], True, 1, plain=0.5)[1])
                if b:
                    (dd / kinds[1]).write_text(config_body(rng, kinds[1], True, 2, plain=0.5)[1])
                if c:
                    (dd / kinds[2]).write_text(config_body(rng, kinds[2], s, 3, plain=0.3)[1])
                lv.append("".join("1" if x else "0" for x in (a, b, c, s)))
            # a sentinel level so the walk stops inside our tree
            (d.parent / "t_stop").mkdir(exist_ok=True)
            got = find_config_file(dirs[-1])
            if got is not None and root in got.parents:
                rel = got.relative_to(d) if d in got.parents or got.parent == d else None
                if rel is None:
                    exp = "none"
                else:
                    k = len(dirs) - 1 - (len(rel.parts) - 1)
                    exp = f"{k}:{got.name}"
            else:
                exp = "none"
            cases.append(",".join(lv))
            exps.append(exp)
    finally:
        shutil.rmtree(root, ignore_errors=True)
    outs = run_driver([f"findconfig\t{c}" for c in cases])
    bad = 0
    for c, e, o in zip(cases, exps, outs):
        ctx.count(["findconfig", c], nontrivial=e != "none")
        if o != e:
            bad += 1
            ctx.tie_broken("findconfig", {"levels_nearest_first": c}, o, e)
    ctx.obligation(f"tie findconfig: model findConfig = find_config_file on {len(cases)} random directory chains on disk",
                   "correspondence", bad == 0, f"{bad} disagreement(s)")


def replay_findings(ctx: Ctx) -> None:
    for fid, e in ctx.kf.items():
        inp = e.get("input") or {}
        if inp.get("kind") == "config-key":
            d = Path(tempfile.mkdtemp(prefix="c16k_", dir="/tmp"))
            try:
                (d / "doc.md").write_text("x\n")
                (d / "flowmark.toml").write_text(inp["toml"])
                rc, rec, err = run_cli_recorded(["."], d)
                got = effective(rec, inp["setting"]) if "resolver_config" in rec else None
                ctx.known_replay(fid, got != inp["expected"])
            finally:
                shutil.rmtree(d, ignore_errors=True)


def run(ctx: Ctx) -> None:
    driver_ok = lean_obligations(ctx)
    replay_findings(ctx)
    if driver_ok:
        ctx.guard("tie merge", tie_merge)
        ctx.guard("tie findconfig", tie_findconfig)
    oracle(ctx)
    ctx.assume("argparse and tomllib are modelled only through the option tables / key flattening")


def search(ctx: Ctx) -> None:
    if not any(o["kind"] == "correspondence" for o in ctx.obligations):
        pass
    old = ctx.tier
    ctx.tier = "thorough"
    try:
        oracle(ctx)
    finally:
        ctx.tier = old


def replay(ctx: Ctx, path: str) -> int:
    r = json.loads(open(path).read())
    print(json.dumps(r.get("input"), ensure_ascii=False))
    return 0
