"""
C18 — gitignore handling agrees with git.

Ring 1: FM/Props/C18.lean — AGREES (with only gitignore at work, traversal lists exactly the regular files that git's rule
        — relative paths, last match wins along the chain, nothing below an ignored directory — does not ignore), LAST_MATCH,
        OFF (with respect_gitignore off no .gitignore has any influence).
Ring 2: tie resolve on trees with .gitignore files at every level.
Ring 3: git itself: FileResolver on a tree == `git ls-files -co --exclude-standard` in the same tree (git init in the scratch
        tree); and with --no-respect-gitignore == every file, whatever the .gitignore files say.
"""
from __future__ import annotations

import json
import re
from pathlib import Path

import fstree
import resolvetie
from common import Ctx
from leanbuild import lean_obligations

ONLY_GIT = dict(include=["*"], exclude=[".git/"], files_max_size=0, respect_gitignore=True)
def spec_listing(root: Path) -> set[str]:
    """git's rule evaluated with pathspec as the per-pattern matcher (the SPEC of FM/Props/C18.lean, in Python)"""
    must, may = fstree.wanted_walk(root, ONLY_GIT)
    return may


def judge(ctx: Ctx, clause: str, case: dict, root: Path, real: set[str], g: set[str]) -> None:
    """real vs git; a disagreement is pathspec's (known finding) only if the resolver does exactly what git's rule says when
    pathspec is asked about each single pattern list — otherwise it is the resolver's"""
    if real == g:
        return
    detail = {"listed-but-git-ignores": sorted(x.replace(str(root), "") for x in real - g)[:8],
              "git-lists-but-missing": sorted(x.replace(str(root), "") for x in g - real)[:8]}
    known = "C18-pathspec-dir-pattern-quirks" if real == spec_listing(root) else None
    ctx.fail(clause, case, detail, known=known)


def git_oracle(ctx: Ctx, n: int) -> None:
    rng = ctx.rng
    for i in range(n):
        t = fstree.gen_tree(rng, git=True, links=False, toolignore=False)
        try:
            real = set(fstree.real_resolve(ONLY_GIT, [str(t.root)]))
            g = fstree.git_listing(t.root)
            every = {str(p) for p in t.root.rglob("*") if p.is_file() and "/.git/" not in str(p)}
            ctx.count(["git", i], nontrivial=g != every, sample=False)
            ctx.bump("git-trees")
            case = {"tree": [l for l in resolvetie.listing(t) if "/.git/" not in l]}
            judge(ctx, "AGREES: the resolver and git disagree about which files are ignored", case, t.root, real, g)
            # "no influence at all" also when the files are reached through glob arguments
            offg = set(fstree.real_resolve(dict(ONLY_GIT, respect_gitignore=False), [str(t.root / "**" / "*"), str(t.root / "*")]))
            if offg != every:
                ctx.fail("OFF (glob arguments): with respect_gitignore off the listing is not simply every file", case,
                         {"diff": sorted(x.replace(str(t.root), "") for x in offg ^ every)[:8]})
            off = set(fstree.real_resolve(dict(ONLY_GIT, respect_gitignore=False), [str(t.root)]))
            if off != every:
                ctx.fail("OFF: with respect_gitignore off the listing is not simply every file", case,
                         {"diff": sorted(x.replace(str(t.root), "") for x in off ^ every)[:8]})
        finally:
            t.close()


def sub_root_oracle(ctx: Ctx, n: int) -> None:
    """the chain starts at the traversal root: walking a sub-directory must agree with git run in that sub-directory, also
    when the enclosing directory is walked in the same call (before or after)"""
    rng = ctx.rng
    for i in range(n):
        t = fstree.gen_tree(rng, git=True, links=False, toolignore=False)
        try:
            if not t.dirs:
                continue
            d = rng.choice(t.dirs)
            case = {"root": str(d).replace(str(t.base), ""), "tree": resolvetie.listing(t)}
            real = set(fstree.real_resolve(ONLY_GIT, [str(d)]))
            spec_d, spec_r = spec_listing(d), spec_listing(t.root)
            ctx.count(["git-sub", i], nontrivial=True)
            ctx.bump("git-subtrees")
            for order in ([str(t.root), str(d)], [str(d), str(t.root)]):
                both = set(fstree.real_resolve(ONLY_GIT, order))
                if both != spec_d | spec_r:
                    ctx.fail("CHAIN_ROOT: two traversal roots in one call do not give the union of the two traversals",
                             dict(case, args=[a.replace(str(t.base), "") for a in order]),
                             {"unexpected": sorted(x.replace(str(t.base), "") for x in both - (spec_d | spec_r))[:8],
                              "missing": sorted(x.replace(str(t.base), "") for x in (spec_d | spec_r) - both)[:8]})
                    break
            g = fstree.git_listing(d)
            judge(ctx, "AGREES (sub-directory root): the resolver and git disagree", case, d, real, g)
        finally:
            t.close()


# ------------------------------------------------------------------------------------------
# blanks in .gitignore lines

LEAD = ["", "", " ", "  ", "\t"]          # blanks in front of a pattern belong to the pattern (git does not trim them)
TRAIL = ["", "", " ", "  ", "\\ "]        # trailing spaces are dropped by git unless the last one is quoted with a backslash
PRE = ["", "", " ", "  ", "\t"]           # the same decorations on the names of files and directories in the tree,
POST = ["", "", "", " "]                  # so that a pattern with blanks has something to match (and something to miss)


def _blank_line(rng, t, entries: list[Path]) -> tuple[Path, str]:
    """one .gitignore line about an entry of the tree, spelt with blanks: (directory of the .gitignore, line).
    Kept away from (see the report of the strengthening round; clean flowmark / pathspec differ from git there):
      * (an indented '#' was a third case: flowmark read ' #x.md' as a comment — repaired, see C18-indented-hash-is-a-pattern);
      * a trailing tab: git keeps it in the pattern, pathspec trims it;
      * a quoted blank followed by further spaces ('a.md\\  ') and a lone trailing backslash: pathspec raises."""
    p = rng.choice(entries)
    is_dir = p.is_dir()
    ups = [q for q in [p.parent, *p.parent.parents] if q == t.root or t.root in q.parents]
    home = rng.choice(ups)
    rel = p.relative_to(home).as_posix()
    name = p.name
    r = rng.random()
    if r < 0.35:
        core = name                                               # basename, at any depth
    elif r < 0.55:
        core = "/" + rel                                          # anchored
    elif r < 0.7:
        core = rel                                                # multi-segment where the entry lies deeper
    elif r < 0.85:
        stem = name.strip(" \t")
        core = name.replace(stem, "*" + stem[-3:] if len(stem) > 3 else stem[:1] + "*", 1)      # wildcard, blanks kept
    else:
        core = name.strip(" \t")                                  # the undecorated name: must not match the decorated one
    if is_dir and rng.random() < 0.5:
        core += "/"
    neg = "!" if (not is_dir and rng.random() < 0.2) else ""      # negations of files only (directory negations: known pathspec quirk)
    lead = rng.choice(LEAD)
    if rng.random() < 0.15:
        neg, lead = "", rng.choice([" ", "  "]) + "!"             # ' !x' is a pattern beginning with a blank, not a negation
    trail = rng.choice(TRAIL)
    if core.endswith(" ") and rng.random() < 0.7:
        core, trail = core[:-1], "\\ "                             # the way to name a trailing blank
    line = lead + neg + core + trail
    if line.endswith("\\") or not line.strip():
        line = name
    return home, line


def blank_tree(rng):
    """a random tree without ignore files, some entries doubled by a sibling whose name carries leading / trailing blanks,
    and .gitignore files made of ordinary file-level lines mixed with lines spelt with blanks"""
    t = fstree.gen_tree(rng, git=False, links=False, toolignore=False)
    if not t.files:
        (t.root / "a.md").write_text("x")
        t.files.append(t.root / "a.md")
    for p in rng.sample(t.files + t.dirs, min(len(t.files) + len(t.dirs), rng.randint(1, 4))):
        q = p.parent / (rng.choice(PRE) + p.name + rng.choice(POST))
        if q.exists():
            continue
        if p.is_dir():
            q.mkdir()
            (q / rng.choice(["a.md", "keep.md", " a.md"])).write_text("x")
            t.files.append(next(q.iterdir()))
            t.dirs.append(q)
        else:
            q.write_text("x")
            t.files.append(q)
    entries = t.files + t.dirs
    lines: dict[Path, list[str]] = {}
    for _ in range(rng.randint(1, 5)):
        if rng.random() < 0.3:
            f = rng.choice(t.files)
            home, line = rng.choice([t.root, f.parent]), rng.choice(["*.md", f.name, "*" + f.suffix, "!" + f.name, "# c", "", "   ", " "])
        else:
            home, line = _blank_line(rng, t, entries)
        lines.setdefault(home, []).append(line)
    for home, ls in lines.items():
        (home / ".gitignore").write_text("\n".join(ls) + "\n")
    return t


def blanks_oracle(ctx: Ctx, n: int) -> None:
    """blanks in a .gitignore line have git's meaning; no attribution to pathspec here: these trees hold none of the
    directory-negation / 'dir/**' shapes of the known finding, so any disagreement with git is reported"""
    rng = ctx.rng
    for i in range(n):
        t = blank_tree(rng)
        try:
            case = {"tree": [l for l in resolvetie.listing(t) if "/.git/" not in l]}
            g = fstree.git_listing(t.root)
            every = {str(p) for p in t.root.rglob("*") if p.is_file() and "/.git/" not in str(p)}
            ctx.count(["git-blanks", case["tree"]], nontrivial=g != every, sample=False)
            ctx.bump("git-blank-line-trees")
            ctx.bump("git-blank-line-trees-with-an-ignored-file", int(g != every))
            gi = [l for f in t.root.rglob(".gitignore") for l in f.read_text().split("\n")]
            ctx.bump("git-blank-lines: leading blank", sum(l[:1] in (" ", "\t") and bool(l.strip()) for l in gi))
            ctx.bump("git-blank-lines: quoted trailing blank", sum(l.endswith("\\ ") for l in gi))
            ctx.bump("git-blank-lines: unquoted trailing blank", sum(l.endswith(" ") and not l.endswith("\\ ") and bool(l.strip()) for l in gi))
            try:
                real = set(fstree.real_resolve(ONLY_GIT, [str(t.root)]))
                off = set(fstree.real_resolve(dict(ONLY_GIT, respect_gitignore=False), [str(t.root)]))
            except Exception as e:
                ctx.fail("AGREES (blanks in .gitignore lines): traversal raises on an ignore file that git reads without complaint",
                         case, f"{type(e).__name__}: {e}")
                continue
            if real != g:
                ctx.fail("AGREES (blanks in .gitignore lines): the resolver and git disagree about which files are ignored", case,
                         {"listed-but-git-ignores": sorted(x.replace(str(t.root), "") for x in real - g)[:8],
                          "git-lists-but-missing": sorted(x.replace(str(t.root), "") for x in g - real)[:8]})
            if off != every:
                ctx.fail("OFF (blanks in .gitignore lines): with respect_gitignore off the listing is not simply every file", case,
                         {"diff": sorted(x.replace(str(t.root), "") for x in off ^ every)[:8]})
        finally:
            t.close()


# ------------------------------------------------------------------------------------------
# other spellings of the traversal root

def root_spellings(rng, t, d: Path) -> list[tuple[str, str, str]]:
    """(label, argument, working directory): ways to name directory d of the tree that the file system treats as the same place"""
    import os
    rel = d.relative_to(t.root)
    ln_root, ln_outer, ln_rel = t.base / "ln-root", t.base / "ln-outer", t.base / "ln-rel"
    if not ln_root.is_symlink():
        ln_root.symlink_to(t.root, target_is_directory=True)                    # absolute link to the root
        ln_outer.symlink_to(t.root.parent, target_is_directory=True)            # link to the directory above the root
        ln_rel.symlink_to(Path("outer") / "root", target_is_directory=True)     # relative link
    out = [("link to the root", str(ln_root / rel), str(t.base)),
           ("below a linked parent directory", str(ln_outer / "root" / rel), str(t.base)),
           ("relative link", str(ln_rel / rel), str(t.base)),
           ("link, relative argument", str(Path("ln-root") / rel), str(t.base)),
           ("relative argument", os.path.relpath(d, t.base), str(t.base)),
           ("'.'", ".", str(d)),
           ("'..' in the argument", str(t.root.parent / ".." / "outer" / "root" / rel), str(t.base)),
           ("trailing slash", str(d) + "/", str(t.base)),
           ("working directory entered through a link, '.'", ".", str(ln_root / rel))]
    if d != t.root:
        ln_d = t.base / "ln-dir"
        if ln_d.is_symlink():
            ln_d.unlink()
        ln_d.symlink_to(d, target_is_directory=True)
        out.append(("link to a sub-directory", str(ln_d), str(t.base)))
    return rng.sample(out, 4)


def root_spelling_oracle(ctx: Ctx, n: int) -> None:
    """the .gitignore files from the traversal root down decide, however the root is named: through a symbolic link, below a linked
    directory, relative, with '..' — the listing is what git lists at that place (`git -C <link> ls-files` sees the same repository)"""
    import os
    rng = ctx.rng
    for i in range(n):
        t = fstree.gen_tree(rng, git=True, links=False, toolignore=False)
        try:
            d = t.root if (not t.dirs or rng.random() < 0.6) else rng.choice(t.dirs)
            tree = [l for l in resolvetie.listing(t) if "/.git/" not in l]
            g = {os.path.realpath(x) for x in fstree.git_listing(d)}
            every = {os.path.realpath(p) for p in d.rglob("*") if p.is_file() and "/.git/" not in str(p)}
            ctx.bump("git-root-spelling-trees")
            for label, arg, wd in root_spellings(rng, t, d):
                case = {"root": label, "arg": arg.replace(str(t.base), ""), "cwd": wd.replace(str(t.base), "") or "/", "tree": tree}
                ctx.count(["git-root-spelling", label, tree], nontrivial=g != every, sample=False)
                ctx.bump("git-root-spellings")
                with fstree.cwd(wd):
                    real = {os.path.realpath(x) for x in fstree.real_resolve(ONLY_GIT, [arg])}
                    off = {os.path.realpath(x) for x in fstree.real_resolve(dict(ONLY_GIT, respect_gitignore=False), [arg])}
                judge(ctx, f"AGREES (root named by: {label}): the resolver and git disagree about which files are ignored", case, d, real, g)
                if off != every:
                    ctx.fail(f"OFF (root named by: {label}): with respect_gitignore off the listing is not simply every file", case,
                             {"diff": sorted(x.replace(str(t.base), "") for x in off ^ every)[:8]})
        finally:
            t.close()


def replay_findings(ctx: Ctx) -> None:
    from props import c17
    for fid, e in ctx.kf.items():
        c = e.get("input") or {}
        if "files" not in c:
            continue
        t = c17.build(c)
        try:
            try:
                real = set(fstree.real_resolve(ONLY_GIT, [str(t.root)]))
            except Exception:                       # a traversal that raises where git lists files: still failing
                real = None
            ctx.known_replay(fid, real != fstree.git_listing(t.root))
        finally:
            t.close()


def run(ctx: Ctx) -> None:
    driver_ok = lean_obligations(ctx)
    replay_findings(ctx)
    if driver_ok:
        ctx.guard("tie resolve", resolvetie.tie_resolve, ctx.scale(200, 4000), True)
    git_oracle(ctx, ctx.scale(300, 6000))
    sub_root_oracle(ctx, ctx.scale(80, 1500))
    blanks_oracle(ctx, ctx.scale(80, 2500))
    root_spelling_oracle(ctx, ctx.scale(30, 1200))
    ctx.rule("random trees with .gitignore files at every level, lines drawn from: basename, anchored, multi-segment, directory-only, "
             "*, **, ?, [..], negation, escaped '!', trailing space, comments, blank lines; compared with git ls-files -co "
             "--exclude-standard run in a fresh repository at the traversal root")
    ctx.rule("trees whose file and directory names carry leading / trailing blanks, with .gitignore lines spelt with blanks: leading spaces "
             "and tabs (part of the pattern), trailing spaces (dropped), a trailing space quoted with a backslash (kept), ' !x' (no negation), "
             "blank-only lines — over basename, anchored, multi-segment, directory-only and wildcard patterns at every level; compared with git, "
             "no attribution to pathspec")
    ctx.rule("the traversal root named in other ways: through an absolute or relative symbolic link to it, below a linked parent directory, "
             "by a link to a sub-directory, relative to the working directory, '.', with '..', with a trailing slash, from a working directory "
             "entered through a link; each compared with git run at that directory")
    ctx.assume("what one pattern matches is pathspec's answer (a parameter of the model); its agreement with git is what the git oracle "
               "observes, not a theorem")


def search(ctx: Ctx) -> None:
    git_oracle(ctx, 2500)


def replay(ctx: Ctx, path: str) -> int:
    r = json.loads(open(path).read())
    print(json.dumps(r.get("input"), ensure_ascii=False)[:3000])
    print(str(r.get("detail"))[:800])
    return 0
