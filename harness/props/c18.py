"""
C18 — gitignore handling agrees with git.

Ring 1: FM/Props/C18.lean — AGREES (with only gitignore at work, traversal lists exactly the regular files that git's rule
        — relative paths, last match wins along the chain, nothing below an ignored directory — does not ignore), LAST_MATCH,
        OFF (with respect_gitignore off no .gitignore has any influence).
Ring 2: tie resolve on trees with .gitignore files at every level.
Ring 3: git itself: FileResolver on a tree == `git ls-files -co --exclude-standard` in the same tree (git init in the scratch
        tree); and with --no-respect-gitignore == every file, whatever the .gitignore files say.
"""
from __future__ import annotations

import json
import re
from pathlib import Path

import fstree
import resolvetie
from common import Ctx
from leanbuild import lean_obligations

ONLY_GIT = dict(include=["*"], exclude=[".git/"], files_max_size=0, respect_gitignore=True)
def spec_listing(root: Path) -> set[str]:
    """git's rule evaluated with pathspec as the per-pattern matcher (the SPEC of FM/Props/C18.lean, in Python)"""
    must, may = fstree.wanted_walk(root, ONLY_GIT)
    return may


def judge(ctx: Ctx, clause: str, case: dict, root: Path, real: set[str], g: set[str]) -> None:
    """real vs git; a disagreement is pathspec's (known finding) only if the resolver does exactly what git's rule says when
    pathspec is asked about each single pattern list — otherwise it is the resolver's"""
    if real == g:
        return
    detail = {"listed-but-git-ignores": sorted(x.replace(str(root), "") for x in real - g)[:8],
              "git-lists-but-missing": sorted(x.replace(str(root), "") for x in g - real)[:8]}
    known = "C18-pathspec-dir-pattern-quirks" if real == spec_listing(root) else None
    ctx.fail(clause, case, detail, known=known)


def git_oracle(ctx: Ctx, n: int) -> None:
    rng = ctx.rng
    for i in range(n):
        t = fstree.gen_tree(rng, git=True, links=False, toolignore=False)
        try:
            real = set(fstree.real_resolve(ONLY_GIT, [str(t.root)]))
            g = fstree.git_listing(t.root)
            every = {str(p) for p in t.root.rglob("*") if p.is_file() and "/.git/" not in str(p)}
            ctx.count(["git", i], nontrivial=g != every, sample=False)
            ctx.bump("git-trees")
            case = {"tree": [l for l in resolvetie.listing(t) if "/.git/" not in l]}
            judge(ctx, "AGREES: the resolver and git disagree about which files are ignored", case, t.root, real, g)
            off = set(fstree.real_resolve(dict(ONLY_GIT, respect_gitignore=False), [str(t.root)]))
            if off != every:
                ctx.fail("OFF: with respect_gitignore off the listing is not simply every file", case,
                         {"diff": sorted(x.replace(str(t.root), "") for x in off ^ every)[:8]})
        finally:
            t.close()


def sub_root_oracle(ctx: Ctx, n: int) -> None:
    """the chain starts at the traversal root: walking a sub-directory must agree with git run in that sub-directory, also
    when the enclosing directory is walked in the same call (before or after)"""
    rng = ctx.rng
    for i in range(n):
        t = fstree.gen_tree(rng, git=True, links=False, toolignore=False)
        try:
            if not t.dirs:
                continue
            d = rng.choice(t.dirs)
            case = {"root": str(d).replace(str(t.base), ""), "tree": resolvetie.listing(t)}
            real = set(fstree.real_resolve(ONLY_GIT, [str(d)]))
            spec_d, spec_r = spec_listing(d), spec_listing(t.root)
            ctx.count(["git-sub", i], nontrivial=True)
            ctx.bump("git-subtrees")
            for order in ([str(t.root), str(d)], [str(d), str(t.root)]):
                both = set(fstree.real_resolve(ONLY_GIT, order))
                if both != spec_d | spec_r:
                    ctx.fail("CHAIN_ROOT: two traversal roots in one call do not give the union of the two traversals",
                             dict(case, args=[a.replace(str(t.base), "") for a in order]),
                             {"unexpected": sorted(x.replace(str(t.base), "") for x in both - (spec_d | spec_r))[:8],
                              "missing": sorted(x.replace(str(t.base), "") for x in (spec_d | spec_r) - both)[:8]})
                    break
            g = fstree.git_listing(d)
            judge(ctx, "AGREES (sub-directory root): the resolver and git disagree", case, d, real, g)
        finally:
            t.close()


def replay_findings(ctx: Ctx) -> None:
    from props import c17
    for fid, e in ctx.kf.items():
        c = e.get("input") or {}
        if "files" not in c:
            continue
        t = c17.build(c)
        try:
            real = set(fstree.real_resolve(ONLY_GIT, [str(t.root)]))
            ctx.known_replay(fid, real != fstree.git_listing(t.root))
        finally:
            t.close()


def run(ctx: Ctx) -> None:
    driver_ok = lean_obligations(ctx)
    replay_findings(ctx)
    if driver_ok:
        ctx.guard("tie resolve", resolvetie.tie_resolve, ctx.scale(200, 4000), True)
    git_oracle(ctx, ctx.scale(300, 6000))
    sub_root_oracle(ctx, ctx.scale(80, 1500))
    ctx.rule("random trees with .gitignore files at every level, lines drawn from: basename, anchored, multi-segment, directory-only, "
             "*, **, ?, [..], negation, escaped '!', trailing space, comments, blank lines; compared with git ls-files -co "
             "--exclude-standard run in a fresh repository at the traversal root")
    ctx.assume("what one pattern matches is pathspec's answer (a parameter of the model); its agreement with git is what the git oracle "
               "observes, not a theorem")


def search(ctx: Ctx) -> None:
    git_oracle(ctx, 2500)


def replay(ctx: Ctx, path: str) -> int:
    r = json.loads(open(path).read())
    print(json.dumps(r.get("input"), ensure_ascii=False)[:3000])
    print(str(r.get("detail"))[:800])
    return 0
