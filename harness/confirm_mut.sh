#!/bin/bash
# usage: confirm_mut.sh <dir with patch.diff demo.py> ; confirms in a scratch worktree of /repo HEAD:
# demo passes clean, tests pass with patch, demo fails with patch. Prints one summary line.
d="$1"
wt=$(mktemp -d /tmp/confirm.XXXXXX)
git -C /repo worktree add -q --detach "$wt" HEAD || exit 2
trap 'git -C /repo worktree remove --force "$wt" 2>/dev/null; rm -rf "$wt" "$wt.tests.log"' EXIT
cd "$wt"
PYTHONPATH=$wt/src /venv/bin/python "$d/demo.py" >/dev/null 2>&1; clean=$?
git apply "$d/patch.diff" || { echo "RESULT $d apply-failed"; exit 1; }
PYTHONPATH=$wt/src /venv/bin/python -m pytest -q -p no:cacheprovider -x >$wt.tests.log 2>&1; tests=$?
PYTHONPATH=$wt/src /venv/bin/python "$d/demo.py" >/dev/null 2>&1; mut=$?
echo "RESULT $d demo_clean=$clean tests_with_patch=$tests demo_with_patch=$mut $(tail -1 $wt.tests.log)"
