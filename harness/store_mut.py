"""store_mut.py <src dir> <seeded id> <property> <detected_by or ''> <needs...>"""
import json, shutil, sys
from pathlib import Path
src, sid, prop, detected = Path(sys.argv[1]), sys.argv[2], sys.argv[3], sys.argv[4]
needs = " ".join(sys.argv[5:])
dst = Path("/verif/seeded") / sid
dst.mkdir(parents=True, exist_ok=True)
for f in ("patch.diff", "demo.py", "notes.md"):
    if (src / f).exists():
        shutil.copy(src / f, dst / f)
meta = {
    "id": sid, "breaks_property": prop,
    "needs_to_manifest": needs,
    "confirmed": "harness/confirm_mut.sh in a scratch worktree of /repo HEAD: demo.py exits 0 on the clean tree; with patch.diff applied the 302 tests pass and demo.py exits non-zero",
    "checks_run": (f"harness/mutpar.sh seeded/{sid}/patch.diff {prop}  (patch applied in a scratch worktree of /repo HEAD; ./check {prop} --tier quick run from a scratch copy of /verif with FLOWMARK_REPO and PYTHONPATH pointing at that worktree; both removed afterwards)"
                   if __import__("os").environ.get("MUTPAR") else
                   f"harness/mutcheck.sh seeded/{sid}/patch.diff {prop}  (git -C /repo apply; ./check {prop} --tier quick; git -C /repo checkout -- .)"),
    "detected_by": detected or "NOT DETECTED (yet)",
}
(dst / "meta.json").write_text(json.dumps(meta, indent=1) + "\n")
print("stored", dst)
