"""
Random directory trees, ignore files and resolver settings (C17, C18), built on disk in a scratch directory outside
/repo and /verif, plus an independent reference of what the property says must be listed.

The reference walks with os.scandir (never os.walk), never follows a symbolic link, decides exclusion on the
path relative to the walk root, .flowmarkignore rules on the path relative to the ignore file, and gitignore either
with git itself (C18) or with a last-match-wins evaluation of the chain (C17).
"""
from __future__ import annotations

import os
import random
import shutil
import subprocess
import tempfile
from pathlib import Path

DIR_NAMES = ["docs", "src", "build", "node_modules", "sub", "a", "b", "notes", "vendor", ".venv", "pkg.egg-info", "drafts", "x y", "Docs", "deep"]
FILE_NAMES = ["a.md", "b.md", "README.md", "notes.txt", "c.markdown", "ign.md", "keep.md", "x.MD", "big.md", ".hidden.md", "d.mdx", "z.md", "a b.md", "é.md"]
GI_LINES = ["ign.md", "*.md", "!keep.md", "docs/", "/a.md", "docs/ign.md", "sub/", "/docs/sub/b.md", "**/z.md", "a/**/b.md", "b?.md", "# comment", "",
            "!docs/", "*.txt", "/build", "notes", "!README.md", "deep/*", "!deep/keep.md", "x y/", "[ab].md", "docs/**", "*.m?", "!*.md", "ign.md ", "\\!x.md", "sub", "!sub", "!notes", "!/docs", "b*", "!build", "/deep/a.md", "docs/sub"]
TI_LINES = ["ign.md", "drafts/", "docs/ign.md", "/a.md", "*.markdown", "sub/", "# c", "docs/sub/", "!keep.md", "**/z.md"]


class Tree:
    def __init__(self, base: Path):
        self.base = base            # scratch directory (removed by close())
        self.root = base / "outer" / "root"
        self.outside = base / "outside"

    def close(self):
        shutil.rmtree(self.base, ignore_errors=True)


def _mk(rng, d: Path, depth: int, st: dict, git: bool, links: bool) -> None:
    d.mkdir(parents=True, exist_ok=True)
    for name in rng.sample(FILE_NAMES, rng.randint(0, 5)):
        size = rng.choice([0, 3, 50, 99, 100, 101, 150])
        (d / name).write_text("x" * size)
        st["files"].append(d / name)
    if git and rng.random() < (0.6 if depth == 0 else 0.3):
        (d / ".gitignore").write_text("\n".join(rng.choice(GI_LINES) for _ in range(rng.randint(1, 4))) + "\n")
    if depth < 3:
        for name in rng.sample(DIR_NAMES, rng.randint(0, 3 if depth else 4)):
            _mk(rng, d / name, depth + 1, st, git, links)
            st["dirs"].append(d / name)


def plant_reinclude(rng: random.Random, t: Tree) -> None:
    """a directory (or file) ignored by a .gitignore higher up and re-included by a negation in a .gitignore further down
    that is still above it — the shape nested .gitignore files exist for"""
    deep = [d for d in t.dirs if len(d.relative_to(t.root).parts) >= 2]
    if not deep:
        return
    d = rng.choice(deep)
    parent = d.parent
    upper = rng.choice([t.root] + [p for p in parent.parents if t.root in p.parents or p == t.root][:2])
    name = d.name
    up_line = rng.choice([name, name + "/", name[:1] + "*", "/" + d.relative_to(upper).as_posix()])
    down_line = rng.choice(["!" + name, "!/" + name, "!" + name[:1] + "*"])
    if upper == parent:
        return
    with open(upper / ".gitignore", "a") as f:
        f.write(up_line + "\n")
    with open(parent / ".gitignore", "a") as f:
        f.write(down_line + "\n")
    if not any(p.is_file() for p in d.iterdir()):
        (d / "planted.md").write_text("p")
        t.files.append(d / "planted.md")


def gen_tree(rng: random.Random, git: bool = True, links: bool = True, toolignore: bool = True) -> Tree:
    t = Tree(Path(tempfile.mkdtemp(prefix="fmtree.")))
    st = {"files": [], "dirs": []}
    _mk(rng, t.root, 0, st, git, links)
    t.outside.mkdir()
    (t.outside / "out.md").write_text("outside")
    (t.outside / "odir").mkdir()
    (t.outside / "odir" / "o.md").write_text("o")
    t.files, t.dirs = st["files"], st["dirs"]
    if git and rng.random() < 0.35:
        plant_reinclude(rng, t)
    if toolignore and rng.random() < 0.5:
        where = rng.choice([t.root, t.root.parent, t.root] + t.dirs[:2])
        (where / ".flowmarkignore").write_text("\n".join(rng.choice(TI_LINES) for _ in range(rng.randint(1, 3))) + "\n")
        # a second, NEARER ignore file without any active rule (empty, blank lines, comments): the upward search stops at the
        # first file it finds, so the rules of the farther one must not apply below it
        if rng.random() < 0.35:
            nearer = [d for d in [t.root] + t.dirs[:4] if where in d.parents]
            if nearer:
                (rng.choice(nearer) / ".flowmarkignore").write_text(rng.choice(["", "\n", "# nothing here\n", "  \n# c\n\n"]))
    t.links = []
    if links:
        alld = [t.root] + t.dirs
        for _ in range(rng.randint(0, 3)):
            d = rng.choice(alld)
            kind = rng.choice(["file-in", "file-out", "dir-in", "dir-out", "broken"])
            name = rng.choice(["ln.md", "lnk.md", "ldir", "l2.md", "ld"])
            p = d / name
            if p.exists() or p.is_symlink():
                continue
            try:
                if kind == "file-in" and t.files:
                    p.symlink_to(rng.choice(t.files))
                elif kind == "file-out":
                    p.symlink_to(t.outside / "out.md")
                elif kind == "dir-in" and t.dirs:
                    p.symlink_to(rng.choice(t.dirs), target_is_directory=True)
                elif kind == "dir-out":
                    p.symlink_to(t.outside / "odir", target_is_directory=True)
                elif kind == "broken":
                    p.symlink_to(d / "nonexistent.md")
                else:
                    continue
                t.links.append(p)
            except OSError:
                pass
    return t


def gen_settings(rng: random.Random) -> dict:
    s: dict = {}
    r = rng.random()
    if r < 0.2:
        s["include"] = ["*.md", "*.markdown"]
    elif r < 0.3:
        s["include"] = ["*.txt"]
    if rng.random() < 0.25:
        s["extend_include"] = rng.choice([["*.txt"], ["*.mdx", "*.MD"], ["README*"]])
    if rng.random() < 0.2:
        s["exclude"] = rng.choice([[], ["docs/"], ["sub/", "a/"]])
    if rng.random() < 0.3:
        s["extend_exclude"] = rng.choice([["drafts/"], ["docs/sub/"], ["x y/"], ["notes/", "deep/"], ["/a/"], ["*/sub/"]])
    s["respect_gitignore"] = rng.random() < 0.75
    s["force_exclude"] = rng.random() < 0.3
    s["files_max_size"] = rng.choice([0, 100, 100, 1_048_576])
    return s


def gen_args(rng: random.Random, t: Tree, globs: bool = True) -> list[str]:
    args = []
    globs = globs and not any(l.is_dir() for l in t.links)     # whether a glob follows directory links is pathlib's business
    for _ in range(rng.randint(1, 4)):
        r = rng.random()
        if r < 0.45 or not (t.files or t.dirs):
            args.append(str(rng.choice([t.root] + t.dirs[:4])))
        elif r < 0.75 and t.files:
            args.append(str(rng.choice(t.files + t.links) if t.links and rng.random() < 0.2 else rng.choice(t.files)))
        elif globs:
            args.append(str(t.root) + "/" + rng.choice(["**/*.md", "*.md", "*/*.md", "docs/*.md", "**/a.md", "*/sub/*", "**/*", "[ab]/*.md", "**/ign.md"]))
        else:
            args.append(str(t.root))
    return args


class cwd:
    """run a block with another working directory (relative arguments)"""
    def __init__(self, path):
        self.path = str(path)

    def __enter__(self):
        self.old = os.getcwd()
        os.chdir(self.path)

    def __exit__(self, *a):
        os.chdir(self.old)


def relativise(rng: random.Random, t: Tree, args: list[str]) -> tuple[list[str], str]:
    """the same arguments, written relative to the tree's root in about a third of the cases; returns (args, cwd)"""
    if rng.random() < 0.35:
        out = []
        for a in args:
            rel = os.path.relpath(a, t.root) if not any(c in a for c in "*?[") else a[len(str(t.root)) + 1:]
            out.append(rel)
        return out, str(t.root)
    return args, str(t.base)


def real_resolve(settings: dict, args: list[str]) -> list[str]:
    from flowmark.file_resolver import FileResolver, FileResolverConfig
    return [str(p) for p in FileResolver(FileResolverConfig(**settings)).resolve(args)]


# ------------------------------------------------------------------------------------------
# reference


def _spec(lines):
    import pathspec
    return pathspec.PathSpec.from_lines("gitignore", lines)


def _read_rules(p: Path):
    try:
        text = p.read_text()
    except (OSError, UnicodeDecodeError):
        return None
    lines = [l for l in text.splitlines() if l.strip() and not l.strip().startswith("#")]
    return lines or None


def _check(spec, rel: str):
    """pathspec's verdict on rel: True (ignored), False (re-included by a negation), None (no pattern matches)"""
    r = spec.check_file(rel)
    return r.include


def effective(settings: dict) -> tuple[list[str], list[str]]:
    from flowmark.file_resolver.defaults import DEFAULT_EXCLUDES, DEFAULT_INCLUDES
    inc = list(settings.get("include", DEFAULT_INCLUDES)) + list(settings.get("extend_include", []))
    exc = list(settings["exclude"] if settings.get("exclude") is not None else DEFAULT_EXCLUDES) + list(settings.get("extend_exclude", []))
    return inc, exc


def find_tool_ignore(start: Path):
    cur = start.resolve()
    while True:
        c = cur / ".flowmarkignore"
        if c.is_file():
            rules = _read_rules(c)
            return (cur, _spec(rules)) if rules else None
        if cur.parent == cur:
            return None
        cur = cur.parent


def wanted_walk(walk_root: Path, settings: dict, candidates=None) -> tuple[set[str], set[str]]:
    """(must, may): the files the property wants listed for a directory argument. Where the property leaves a reading
    open — whether a .flowmarkignore found ABOVE the walk root sees paths relative to itself or to the walk root — `must`
    holds the files listed under every reading and `may` those listed under some reading.
    With `candidates` (files found by a glob expansion below walk_root) only those are judged."""
    inc, exc = effective(settings)
    inc_s, exc_s = _spec(inc), _spec(exc)
    tool = find_tool_ignore(walk_root)
    limit = settings.get("files_max_size", 1_048_576)
    must: set[str] = set()
    may: set[str] = set()
    rroot = walk_root.resolve()
    respect = settings.get("respect_gitignore", True)

    def gi_ignored(chain, path: Path, is_dir: bool) -> bool:
        v = False
        for d, spec in chain:
            r = _check(spec, path.relative_to(d).as_posix() + ("/" if is_dir else ""))
            if r is not None:
                v = r
        return v

    def tool_verdicts(p: Path, is_dir: bool) -> set[bool]:
        if not tool:
            return {False}
        suf = "/" if is_dir else ""
        out = {bool(_check(tool[1], p.relative_to(rroot).as_posix() + suf))}
        if p.is_relative_to(tool[0]):
            out.add(bool(_check(tool[1], p.relative_to(tool[0]).as_posix() + suf)))
        return out

    def chain_for(d: Path):
        chain = []
        cur = rroot
        parts = d.relative_to(rroot).parts
        for k in range(len(parts) + 1):
            cur = rroot.joinpath(*parts[:k])
            rules = _read_rules(cur / ".gitignore") if (cur / ".gitignore").is_file() else None
            if rules:
                chain.append((cur, _spec(rules)))
        return chain

    def judge_file(p: Path, sure: bool):
        """sure: every directory above is certainly kept"""
        if not inc_s.match_file(p.name):
            return
        if limit and p.stat().st_size > limit:
            return
        if respect and gi_ignored(chain_for(p.parent), p, False):
            return
        tv = tool_verdicts(p, False)
        if tv == {True}:
            return
        may.add(str(p))
        if sure and tv == {False}:
            must.add(str(p))

    def dir_verdict(p: Path):
        """None = certainly pruned, True = certainly kept, False = open"""
        rel = p.relative_to(rroot).as_posix()
        if exc_s.match_file(rel + "/"):
            return None
        if respect and gi_ignored(chain_for(p.parent), p, True):
            return None
        tv = tool_verdicts(p, True)
        if tv == {True}:
            return None
        return tv == {False}

    if candidates is not None:
        for p in candidates:
            sure, cur, dead = True, rroot, False
            for part in p.relative_to(rroot).parts[:-1]:
                cur = cur / part
                v = dir_verdict(cur)
                if v is None:
                    dead = True
                    break
                sure = sure and v
            if not dead:
                judge_file(p, sure)
        return must, may

    def rec(d: Path, sure: bool):
        for e in sorted(os.scandir(d), key=lambda e: e.name, reverse=True):
            p = Path(e.path)
            if e.is_symlink():
                continue
            if e.is_dir(follow_symlinks=False):
                v = dir_verdict(p)
                if v is not None:
                    rec(p, sure and v)
            elif e.is_file(follow_symlinks=False):
                judge_file(p, sure)
    rec(rroot, True)
    return must, may


def glob_root(pattern: str) -> tuple[Path, str]:
    parts = Path(pattern).parts
    for i, part in enumerate(parts):
        if any(c in part for c in "*?["):
            return (Path(*parts[:i]) if i > 0 else Path(".")), str(Path(*parts[i:]))
    return Path("."), pattern


def _glob_regex(pat: str):
    import re
    out = []
    parts = pat.split("/")
    for i, part in enumerate(parts):
        last = i == len(parts) - 1
        if part == "**":
            out.append("(?:[^/]+/)*" if not last else "(?:[^/]+/)*[^/]+")
            continue
        r, j = "", 0
        while j < len(part):
            c = part[j]
            if c == "*":
                r += "[^/]*"
            elif c == "?":
                r += "[^/]"
            elif c == "[" and "]" in part[j:]:
                k = part.index("]", j)
                r += "[" + part[j + 1:k] + "]"
                j = k
            else:
                r += re.escape(c)
            j += 1
        out.append(r + ("" if last else "/"))
    return re.compile("".join(out) + r"\Z")


def safe_glob(root: Path, pat: str) -> list[Path]:
    """files below root whose relative path matches the glob; symbolic links to directories are never entered
    (trees with directory links get no glob arguments), links to files are candidates"""
    rx = _glob_regex(pat)
    out = []
    for dp, dns, fns in os.walk(root, followlinks=False):
        dns[:] = [d for d in dns if not (Path(dp) / d).is_symlink()]
        for f in fns:
            p = Path(dp) / f
            rel = p.relative_to(root)
            if rx.match(rel.as_posix()) and p.is_file():
                out.append(rel)
    return out


def wanted(settings: dict, args: list[str]) -> tuple[set[str], set[str]]:
    """(must, may) for a whole argument list"""
    import glob as globmod
    inc, exc = effective(settings)
    exc_s = _spec(exc)
    limit = settings.get("files_max_size", 1_048_576)
    must: set[str] = set()
    may: set[str] = set()
    for a in args:
        p = Path(a)
        if p.is_file():
            if limit and p.stat().st_size > limit:
                continue
            if settings.get("force_exclude") and (exc_s.match_file(p.name) or any(exc_s.match_file(x + "/") for x in p.parts[:-1])):
                continue
            must.add(os.path.realpath(p))
            may.add(os.path.realpath(p))
        elif p.is_dir():
            m1, m2 = wanted_walk(p, settings)
            must |= {os.path.realpath(x) for x in m1}
            may |= {os.path.realpath(x) for x in m2}
        else:
            root, _ = glob_root(a)
            rroot = root.resolve()
            cands = [rroot / rel for rel in safe_glob(root, glob_root(a)[1])]
            m1, m2 = wanted_walk(root, settings, candidates=cands)
            must |= {os.path.realpath(x) for x in m1}
            may |= {os.path.realpath(x) for x in m2}
    return must, may


def git_listing(root: Path) -> set[str]:
    """what git itself lists under root (tracked + untracked, ignore rules applied) — the C18 oracle"""
    env = dict(os.environ, GIT_CONFIG_GLOBAL="/dev/null", GIT_CONFIG_SYSTEM="/dev/null", HOME=str(root.parent))
    if not (root / ".git").exists():
        subprocess.run(["git", "init", "-q", str(root)], check=True, env=env, capture_output=True)
    r = subprocess.run(["git", "-C", str(root), "-c", "core.quotepath=off", "ls-files", "-z", "-co", "--exclude-standard"], check=True, env=env, capture_output=True)
    return {str(root / n) for n in r.stdout.decode().split("\0") if n}
