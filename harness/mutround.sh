#!/bin/bash
# usage: mutround.sh <out dir with 1..N/patch.diff> <prop> — confirm each change in a scratch worktree and run the
# property's quick check against it in isolation (mutpar.sh), all in parallel.
out="$1"; prop="$2"
for d in "$out"/*/; do
  d=${d%/}
  [ -f "$d/patch.diff" ] || continue
  ( c=$(/verif/harness/confirm_mut.sh "$d" 2>&1 | tail -1); m=$(/verif/harness/mutpar.sh "$d/patch.diff" "$prop" 2>&1 | tail -1); echo "$c"; echo "   $m" | cut -c1-600 ) &
done
wait
