"""Serialise a Marko document (as flowmark parses it) into the S-expression the Lean driver reads."""
from __future__ import annotations

import re

from marko import block, inline
from marko.ext import footnote
from marko.ext.gfm import elements as gfm

from common import enc


class Unserialisable(Exception):
    pass


def S(s: str) -> str:
    return "s" + enc(s)


def optS(s) -> str:
    return "-" if s is None else "=" + enc(s)


def ser_inline(e) -> str:
    from marko.ext.pangu import PANGU_RE
    if isinstance(e, inline.RawText):
        return f"( raw {S(re.sub(PANGU_RE, ' ', e.children))} )"
    if isinstance(e, inline.CodeSpan):
        return f"( code {S(e.children)} )"
    if isinstance(e, inline.StrongEmphasis):
        return "( strong " + " ".join(ser_inline(c) for c in e.children) + " )"
    if isinstance(e, inline.Emphasis):
        return "( em " + " ".join(ser_inline(c) for c in e.children) + " )"
    if isinstance(e, gfm.Strikethrough):
        return "( strike " + " ".join(ser_inline(c) for c in e.children) + " )"
    if isinstance(e, inline.Image):
        return f"( image {S(e.dest)} {optS(e.title if e.title else None)} " + " ".join(ser_inline(c) for c in e.children) + " )"
    if isinstance(e, inline.Link):
        return f"( link {S(e.dest)} {optS(e.title if e.title else None)} " + " ".join(ser_inline(c) for c in e.children) + " )"
    if isinstance(e, gfm.Url):
        return f"( url {S(e.children[0].children)} )"
    if isinstance(e, inline.AutoLink):
        return f"( autolink {S(e.children[0].children)} )"
    if isinstance(e, inline.LineBreak):
        return f"( br {'1' if e.soft else '0'} )"
    if isinstance(e, inline.Literal):
        return f"( lit {S(e.children)} )"
    if isinstance(e, inline.InlineHTML):
        return f"( html {S(e.children)} )"
    if isinstance(e, footnote.FootnoteRef):
        return f"( fnref {S(e.label)} )"
    raise Unserialisable(type(e).__name__)


def ser_inlines(es) -> str:
    return " ".join(ser_inline(c) for c in es)


def ser_block(e) -> str:
    from flowmark.formats.flowmark_markdown import CustomFencedCode
    if isinstance(e, block.Paragraph):
        chk = "-"
        if hasattr(e, "checked"):
            chk = "1" if e.checked else "0"
        return f"( para {chk} {ser_inlines(e.children)} )"
    if isinstance(e, (block.Heading, block.SetextHeading)):
        return f"( heading {e.level} {'1' if isinstance(e, block.SetextHeading) else '0'} {ser_inlines(e.children)} )"
    if isinstance(e, block.List):
        return (f"( list {'1' if e.ordered else '0'} {e.start if e.ordered else 0} {S(e.bullet)} {'1' if e.tight else '0'} "
                + " ".join(ser_block(c) for c in e.children) + " )")
    if isinstance(e, block.ListItem):
        return "( item " + " ".join(ser_block(c) for c in e.children) + " )"
    if isinstance(e, gfm.Alert):
        return f"( alert {S(e.alert_type)} " + " ".join(ser_block(c) for c in e.children) + " )"
    if isinstance(e, block.Quote):
        return "( quote " + " ".join(ser_block(c) for c in e.children) + " )"
    if isinstance(e, CustomFencedCode):
        return f"( fenced {S(e.lang)} {S(e.extra)} {S(e.children[0].children)} {S(e.fence_char)} {e.fence_len} )"
    if isinstance(e, block.FencedCode):
        raise Unserialisable("plain FencedCode")
    if isinstance(e, block.CodeBlock):
        return f"( indented {S(e.children[0].children)} )"
    if isinstance(e, block.ThematicBreak):
        return "( hr )"
    if isinstance(e, block.BlankLine):
        return "( blank )"
    if isinstance(e, block.LinkRefDef):
        return f"( linkdef {S(e.label)} {S(e.dest)} {optS(e.title if e.title else None)} )"
    if isinstance(e, footnote.FootnoteDef):
        return f"( fndef {S(e.label)} " + " ".join(ser_block(c) for c in e.children) + " )"
    if isinstance(e, gfm.Table):
        rows = []
        for r in e.children:
            rows.append("( row " + " ".join("( cell " + ser_inlines(c.children) + " )" for c in r.children) + " )")
        return f"( table {rows[0]} ( delims {' '.join(S(d) for d in e.delimiters)} ) " + " ".join(rows[1:]) + " )"
    raise Unserialisable(type(e).__name__)


def ser_doc(doc) -> tuple[str, str]:
    defs = " ".join(f"( def {S(k)} {S(v[0])} {optS(v[1])} )" for k, v in doc.link_ref_defs.items())
    body = " ".join(ser_block(c) for c in doc.children)
    return defs, body


SYM1, SYM2, SYM3 = "\x01", "\x02", "\x03"


def symbolic_wrapper(text: str, initial_indent: str, subsequent_indent: str) -> str:
    return SYM1 + initial_indent + SYM2 + subsequent_indent + SYM2 + text + SYM3
