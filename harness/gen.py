"""Shared input generators. Every random choice comes from the rng passed in."""
from __future__ import annotations

import itertools
import random
from typing import Iterator

HAZARD_WORDS = [
    "-", "+", "*", "1.", "12)", "0.", "#", "##", "######", "#######", ">", ">x", "---", "***", "___",
    "===", "=", "```", "~~~", "|", "|---|", ":-:", "\\-", "\\#", "1\\.", "-x", "+1", "#x", "a.", "end.",
    "word", "Hello", "a", "I", "x" * 9, "y" * 15, "z" * 30, "(see", "it)", "e.g.", "Dr.", "ok!", "why?",
    "“quoted.”", "'q'", '"dq"', "a-b", "1.0", "1)", "99.", "1234567890.", "--", "*a*", "**b**",
]

PLAIN_WORDS = ["a", "bb", "ccc", "dddd", "eeeee", "ffffff", "ggggggg", "The", "quick", "brown", "fox.",
               "jumps", "over", "lazy", "dog!", "Really?", "yes.", "no", "maybe", "extraordinarily"]

WS_CHOICES = [" ", "  ", "\n", " \n", "\t", "   ", "\n  ", " ", " ", "\x0c", "\x1c"]


def rand_words(rng: random.Random, n: int, hazard: float = 0.3) -> list[str]:
    out = []
    for _ in range(n):
        if rng.random() < hazard:
            w = rng.choice(HAZARD_WORDS)
        else:
            w = rng.choice(PLAIN_WORDS)
        out.append(w)
    return out


def letter_word(rng: random.Random, n: int) -> str:
    return "".join(rng.choice("abcdefghij") for _ in range(n))


def layout(rng: random.Random, words: list[str], exotic: bool = False) -> str:
    """Join words with random whitespace runs (a re-layout of the same word sequence)."""
    seps = WS_CHOICES if exotic else WS_CHOICES[:7]
    parts = []
    for i, w in enumerate(words):
        if i:
            parts.append(rng.choice(seps))
        parts.append(w)
    return "".join(parts)


def length_vectors(max_words: int, max_len: int) -> Iterator[tuple[int, ...]]:
    for n in range(0, max_words + 1):
        yield from itertools.product(range(1, max_len + 1), repeat=n)
