import json, sys, glob
import jsonschema
m=json.load(open('/verif/MANIFEST.json')); s=json.load(open('/root/.vp/MANIFEST.schema.json'))
jsonschema.validate(m,s); print("manifest ok", [c['property_id'] for c in m['checks']])
es=json.load(open('/root/.vp/EVIDENCE.schema.json'))
for f in sorted(glob.glob('/verif/evidence/*.json')):
    jsonschema.validate(json.load(open(f)),es); print("evidence ok", f)
