"""Writes /verif/MANIFEST.json from the table below (kept valid at all times)."""
from __future__ import annotations

import json
from pathlib import Path

VERIF = Path(__file__).resolve().parent.parent
BASELINE = json.loads(Path("/root/.vp/BASELINE.json").read_text())["cmd"]

COMMON_NOTE = ("Trusted: Lean 4.33 kernel (axioms audited per theorem ⊆ propext/Classical.choice/Quot.sound, no sorry, "
               "no native_decide), harness/translate.py, the correspondence harness and driver codec. The theorems are "
               "about the Lean model; the model is tied to /repo's working tree on every run by correspondence "
               "(model vs real function on the same inputs) and/or regenerated tables. ")

# property -> (text, note, technique, design_ref)
CLAIMED: dict[str, tuple[str, str, str, str]] = {}


def claim(pid, text, note, technique, ref):
    CLAIMED[pid] = (text, note, technique, ref)


claim("C01",
      "Lean theorems: (i) over the greedy fill / sentence fold and a SPEC of CommonMark block starts (interruptsPara, "
      "validated against Marko and markdown-it-py): NH_handled (an escaped head word never starts a list, heading, quote, "
      "rule, setext underline or fence), NH_classify, NH_fill, with machine-checked counter-witnesses NH_false / "
      "NH_sentence_false for the uncovered cases; (ii) on a Lean model of the whole MarkdownNormalizer renderer (tied by "
      "equality on the Marko ASTs of ~300 documents per run, symbolic line wrapper): FRAME (every block hands back "
      "_second_prefix and _current_list_tight, by mutual functional induction). End-to-end: the canonical Marko AST of "
      "fmt(x) equals that of x over a structured generator × widths × both modes, with counterfactual attribution of "
      "failures to KNOWN_FINDINGS.",
      COMMON_NOTE + "Marko's parser (and inline parsing invariance under re-wrapping) is a parameter, covered only by the "
      "end-to-end reading oracle. Prefix discipline of rendered LINES (PD) and a round-trip reader (RT) are not yet theorems.",
      "Lean 4 proof (escape sufficiency vs a CommonMark block-start SPEC; renderer state invariants by functional induction) "
      "+ render-model correspondence + AST-equivalence oracle",
      "DESIGN.md §7 C01")
claim("C04",
      "Lean theorems on the render and transform models: FENCE_SAFE (for every code content and fence character, no "
      "content line can close the emitted fence: its fence-like run is strictly shorter than max(original, "
      "minFenceLength)), FENCE_KEEPS_LENGTH, REWRITE_CONFINED / WRITEBACK_CONFINED (rewrite_text_content and "
      "rewrite_text_across_inlines change RawText payloads only, for every rewrite function — by mutual structural "
      "induction over the inline tree), DEST_VERBATIM, SPAN_VERBATIM. Ties: render model and transform models (smart "
      "quotes / ellipses / cleanups applied to Marko trees) vs the real code. Oracle: one extractor of code blocks, code "
      "spans, tags, comments, HTML, URLs, destinations/titles, labels applied to parse(x) and parse(fmt(x)); special "
      "code/URL documents × the full 48-point option product, generated documents × sampled option sets.",
      COMMON_NOTE + "Which strings are template tags is TEMPLATE_TAG_PATTERN's business (scanner ties in C06/C08); Marko is the "
      "reader on both sides of the oracle.",
      "Lean 4 proof (fence-length bound; confinement by structural induction) + render/transform correspondence + extractor oracle",
      "DESIGN.md §7 C04")
claim("C05",
      "Lean theorems for all word lists/widths/columns (LOSSLESS as a line partition with escapes only at wrapped line "
      "heads, NONEMPTY, BOUND from true columns, MAXIMAL, NOWRAP) about an exact model of wrap_paragraph_lines / "
      "wrap_paragraph; model tied by equality on ~130k bounded-exhaustive and random calls per quick run; the clauses "
      "are also checked directly on the real outputs.",
      COMMON_NOTE + "Markdown-aware word splitting (regex atoms) is a parameter here (C06's tie). Sentence-mode "
      "bounds are stated in C11's fold model. fill_text's indenting Wrap modes are compared but not covered by a theorem.",
      "Lean 4 proof (structural induction over the greedy-fill loop) + model/implementation correspondence",
      "DESIGN.md §7 C05")

claim("C10",
      "Lean theorems: UNBOLD_* (the only two heading shapes that change and what they become; partly bold headings, all "
      "leaf blocks and container attributes untouched; UNBOLD_IDEM_false witness) on the model of doc_cleanups; on the "
      "render model ITEM_TIGHT / ITEM_LOOSE / ITEM_LOOSE_suppressed (exactly when an item emits its single separator "
      "line and what it is), MODE_loose / MODE_preserve / MODE_tight, ITEMS_SEE_LIST_TIGHTNESS (via FRAME), "
      "CAN_BE_TIGHT_items. Ties: transform model (cleanups on Marko trees) and render model in all three modes. Oracle: "
      "cleanups on vs off (AST equal up to unbolding all-bold headings, only heading lines differ), loose/tight vs "
      "preserve (identical after deleting blank lines, same structure up to tightness, LOOSE_ALL, TIGHT_WHEN_POSSIBLE).",
      COMMON_NOTE + "SPACING_ONLY as a single theorem over whole documents (output equality after erasing separator lines) is "
      "checked end-to-end, not proved; the item-level lemmas are.",
      "Lean 4 proof (item/mode lemmas on the renderer model, unbold characterisation) + correspondence + differential oracle",
      "DESIGN.md §7 C10")
claim("C11",
      "Lean theorems for all sentence lists/widths/indents about an exact fold model of line_wrap_by_sentence: FRAME "
      "(a step rewrites only the last line), LOCAL_PREFIX, LOCAL_SUFFIX, END_BREAKS, BREAK_CAUSE (each sentence "
      "contributes a greedy fill of itself, optionally glued to a short last line), S_LOSSLESS, SPLIT; model tied by "
      "equality with the real wrapper on ~20k calls per quick run; locality checked directly on the real wrapper "
      "for random single-sentence edits.",
      COMMON_NOTE + "The sentence-end regex is a parameter (flags computed by the real regex). Markdown layers "
      "(tag newlines, hard breaks, atomic constructs) are excluded from this tie (identity on the generated inputs) "
      "and belong to C06/C01.",
      "Lean 4 proof (frame lemma + induction over the sentence fold) + model/implementation correspondence",
      "DESIGN.md §7 C11")

claim("C06",
      "Lean models of the whole Markdown wrapping pipeline — scanners for the 12 atomic patterns, the word splitter, "
      "adjacent-tag (de)normalisation, hard-break and tag-newline layers, preprocess_tag_block_spacing, and both "
      "complete wrappers — with theorems SPAN_INTACT (a run without unmasked whitespace is never split, for every "
      "scanner), SPLIT_NONEMPTY, ALONE / ALONE_last (a tag-only line is its own segment), BLOCKGAP / NOGAP (exactly one "
      "blank line between tag and list/table segments, none elsewhere), PRE_GAP, PRE_CODE_UNTOUCHED, and the "
      "kernel-evaluated witness SEP_false. Ties: scanners vs ATOMIC_CONSTRUCT_PATTERN on all strings ≤4 over an 18-symbol "
      "alphabet + 40k fragment strings; splitter; layers with a symbolic base wrapper; both full wrappers on 12k rich "
      "paragraphs. Oracle: constructs intact within one line at widths 1..20/88 in both modes, spacing, tag-delimited blocks.",
      COMMON_NOTE + "Which strings are constructs is whatever the regex recognises (scanner models tied by enumeration, not "
      "proof); the NUL-placeholder encoding of the real splitter is covered by the mdsplit tie only (P-nul: inputs without U+0000).",
      "Lean 4 proof (splitter/segmentation lemmas over executable models of the full wrapper pipeline) + correspondence",
      "DESIGN.md §7 C06")
claim("C07",
      "Lean theorems about an exact model of split_frontmatter and the frontmatter shell of fill_markdown (body "
      "formatter as a parameter): FM_NONE, FM_PARTITION (the document's lines are blank ++ frontmatter ++ body, "
      "nothing altered), LINES_FAITHFUL (only LF/CRLF are line ends), FM_UNCLOSED / UNCLOSED_COUNT / FM_UNCLOSED_FIX "
      "(unclosed block returned unchanged, idempotent for every formatter F). Model tied by equality on all short "
      "line sequences over a vocabulary × LF/CRLF plus random Unicode-separator texts, and on the shell with a stub "
      "formatter; FM_EXACT / FM_INDEP / FM_UNCLOSED also checked end-to-end on reformat_text.",
      COMMON_NOTE + "FM_INDEP at string level (format(fm+body) = fm+format(body)) is checked end-to-end, not yet a "
      "theorem; it needs 'the body's first non-blank line is not ---' (known finding C07-body-starts-with-dashes). "
      "FM_UNCLOSED_FIX is proved for CR-free text.",
      "Lean 4 proof (line-partition and fixed-point theorems) + model/implementation correspondence",
      "DESIGN.md §7 C07")

claim("C12",
      "Partial by nature: theorems carry totality and output shape of everything flowmark owns — every model function is "
      "a total Lean definition (no `partial`), ENDS_NL_partial (the rendered document is empty or ends with a newline, "
      "for every tree/wrapper/mode, by mutual functional induction; ENDS_NL_false witness for the empty-item case), "
      "NO_ASSERT / NO_ASSERT_smartquotes (the length assertion of rewrite_text_across_inlines cannot fire), CODE_BLANK "
      "(a blank code line is emitted without trailing whitespace). The runtime part — no exception, no hang, modest "
      "growth — cannot be exhibited by a Lean model and is monitored: malformed stream and structured documents × random "
      "option values (any width ∈ ℤ) under a CPU watchdog, well-formedness of the result, pumped families with a fitted "
      "growth exponent.",
      COMMON_NOTE + "Exceptions inside Marko, regex backtracking and wall-clock behaviour are monitored, not proved. One third-party "
      "finding is recorded (exponential time in block-quote nesting depth inside Marko).",
      "Lean 4 proof (totality, output-shape invariants by functional induction) + runtime monitor (watchdog, pumped families)",
      "DESIGN.md §7 C12")
claim("C15",
      "Theorems over option-plumbing tables that the translator regenerates from the ast of cli.py / reformat_api.py "
      "on every run: PASS_THROUGH (every formatting option reaches reformat_text / fill_markdown / fill_text as the "
      "identity dataflow of the CLI value, at both reformat_file call sites, syntactically by `decide` and "
      "semantically for every valuation by a soundness lemma), AUTO_EXPANSION, OPTIONS_CTOR_COMPLETE; plus the "
      "option product on the real CLI (in-process and subprocess) against reformat_text/reformat_file bytes and "
      "the usage-error contract.",
      COMMON_NOTE + "The formatter is a parameter of the plumbing theorems. Routing (stdin/file × stdout/-o/inplace, "
      ".orig backups, usage errors) is decided by the end-to-end product, not by a theorem.",
      "Lean 4 proof over translator-regenerated dataflow tables (decide + soundness lemma) + CLI/API differential product",
      "DESIGN.md §7 C15")
claim("C16",
      "MERGE_PRECEDENCE (hand model of merge_cli_with_config, tied by op `merge`), FIND_NEAREST/FIND_NONE/PICK_ORDER "
      "(model of find_config_file, tied on random directory chains on disk), and table theorems over the regenerated "
      "plumbing: EXPLICIT_DETECTION (sentinel parser covers every dual setting), AUTO_LOCK, EVERY_KEY_EFFECTIVE, KEYS; "
      "plus the effective-behaviour oracle: recorded reformat_files kwargs / FileResolverConfig for every setting × "
      "{flag absent/given/given-with-default} × {config sets} × {--auto} × file kinds/locations.",
      COMMON_NOTE + "argparse and tomllib are modelled only through their option tables / key flattening.",
      "Lean 4 proof (tables regenerated by translator, decide; induction for find-nearest) + correspondence + effect oracle",
      "DESIGN.md §7 C16")

claim("C08",
      "Lean theorems for every text and every \\w class about an exact model of smart_quotes (tag segmentation → "
      "quote-pair scanner → apostrophe rule): Q_POINTWISE (same length; only ' → ‘/’ and \" → “/”), Q_LENGTH, "
      "Q_OTHER_CHARS, Q_TAGS (tag spans verbatim, pairing never crosses a tag), Q_PARA; Q_IDEM_false witness. Model "
      "tied by equality on all strings ≤4 over a 16-symbol alphabet and ~40k sampled longer ones; document level: "
      "reformat_text with smartquotes on vs off — same length and line breaks, pointwise relation, protected spans untouched.",
      COMMON_NOTE + "`\\w` is a parameter. The mapping back into the Marko tree (rewrite_text_across_inlines) and inline "
      "parsing are covered by the document-level oracle, not by a theorem.",
      "Lean 4 proof (pointwise relation through each scanner stage) + model/implementation correspondence",
      "DESIGN.md §7 C08")
claim("C09",
      "Lean theorems for every text and \\w class about an exact model of ellipses(): E_SHAPE (output = input after "
      "deleting whitespace and spelling … as ...), E_NO_DOTS, E_TAGS (matches inside template tags are emitted "
      "verbatim). Model tied by equality on all strings ≤5 over a 10-symbol alphabet (+ length 6 over 6 symbols) and "
      "~30k sampled longer ones; idempotence checked exhaustively on the same strings for model and code (a test, "
      "labelled as such); document level: ellipses on vs off, protected spans, second pass.",
      COMMON_NOTE + "E_IDEM is not a theorem (bounded-exhaustive test only). Document-level idempotence has one known "
      "finding (escape introduced by wrapping creates a text-node boundary).",
      "Lean 4 proof (squash invariant through the scanner) + model/implementation correspondence",
      "DESIGN.md §7 C09")

claim("C02",
      "Lean theorems on the layers whose idempotence is a statement about the model: WRAP_FIX (for every word list, "
      "width, columns and both escape modes, greedy fill applied to the words of its own output reproduces the same "
      "lines, introduced Markdown escapes included — by induction with the escape shown idempotent and length-monotone), "
      "ESCAPE_IDEM, FM_FIX (an unclosed-frontmatter document is a fixed point of the shell), and kernel-checked "
      "counter-witnesses TRANSFORM_IDEM_false (smart quotes with overlapping pairs, unbolding of nested strong). "
      "Document level fmt(fmt x) = fmt x (bytes) is decided end-to-end: special documents, clean and hazard generator "
      "streams × sampled points of the full option product, plaintext paragraphs × widths, with counterfactual "
      "attribution of failures to KNOWN_FINDINGS; ties of the full wrappers and the renderer run in the same check.",
      COMMON_NOTE + "Idempotence of the whole pipeline depends on Marko re-parsing the output (P-par) and is therefore "
      "not a theorem; only the wrapper, escape and frontmatter layers are. Seven defects found by this check were "
      "repaired in flowmark; five are recorded as known findings.",
      "Lean 4 proof (fixed point of greedy fill + escape by induction; frontmatter shell) + model/implementation "
      "correspondence + end-to-end double-format oracle",
      "DESIGN.md §7 C02")

claim("C03",
      "Lean theorems on the wrapper models: RELAYOUT_break / RELAYOUT_spaces (exchanging one whitespace character for "
      "another and multiplying whitespace leave the collapsed text unchanged, for every text), LAYOUT_FN_fill / "
      "LAYOUT_FN_sentence (both base wrappers are functions of the collapsed text at every width incl. ≤ 0, every indent, "
      "both escape modes, every character class), LAYERS_TRANSPARENT (the hard-break and tag-newline layers pass a text "
      "through unless a line starts or ends with a tag or it holds a hard break — the property's deliberate exception and "
      "nothing else), LAYOUT_FN / LAYOUT_FN_semantic for the complete Markdown wrappers, SOFTBREAK on the render model, "
      "REWIDTH_partial / REWIDTH_plain (re-filling the words of a fill at another width gives the direct result when no "
      "escape applies) and the kernel-checked counter-witness REWIDTH_false. End-to-end: fmt(relayout x) = fmt x for "
      "re-layouts validated by Marko's own reading (break moved, spaces multiplied, lines joined, continuation re-indented) "
      "and fmt_o2(fmt_o1 x) = fmt_o2 x for option pairs differing in width and mode, with counterfactual attribution.",
      COMMON_NOTE + "Parser-side layout independence (continuation indentation, lazy continuation) is Marko's and is covered by "
      "the oracle only. Two design-inherent exceptions are recorded as known findings (an escape or a tag-adjacent newline "
      "introduced at the first width persists); two defects were repaired (space runs kept in semantic no-wrap mode, in "
      "headings and table cells).",
      "Lean 4 proof (wrappers factor through whitespace collapsing; layer transparency by induction over lines) + "
      "model/implementation correspondence + re-layout / re-width oracle",
      "DESIGN.md §7 C03")

claim("C17",
      "Lean theorems on a model of FileResolver (trees with link flags, arguments file/dir/glob, pattern matchers as "
      "parameters), for every tree, matcher, setting and argument list: EXACT (a path is listed by traversal iff it is a "
      "regular file passing include/size/ignore filters reached through non-link, non-excluded directories — a "
      "specification that uses only membership in the directory listings), SOUND, NO_LINKS, PRUNED, LISTING_ORDER, "
      "EXPLICIT, GLOB_FILTERED, MEMBERS, SORTED, NODUP (strictly increasing in Path order) and ARG_ORDER (the result is a "
      "function of the set of arguments). Model tied to FileResolver.resolve by equality of results on generated trees "
      "(links, ignore files, settings, argument mixes; pathspec's answers supplied as tables). End-to-end: independent "
      "reference walk with must/may sets, result shape, shuffled arguments, shuffled directory listings, --list-files.",
      COMMON_NOTE + "What a pattern matches (pathspec) and what a glob expands to (pathlib) are parameters. Four defects were "
      "repaired in flowmark (glob results bypassed the filters, linked files were listed, ignore/exclude patterns matched "
      "bare names only).",
      "Lean 4 proof (traversal = membership-only specification by mutual structural induction; sorted-set algebra) + "
      "model/implementation correspondence + independent reference walk",
      "DESIGN.md §7 C17")
claim("C18",
      "Lean theorems on the resolver model: AGREES (with only gitignore at work, traversal lists exactly the regular files "
      "that git's rule does not ignore — each .gitignore sees the path relative to its own directory, the last matching "
      "pattern along the chain from the traversal root decides, nothing below an ignored directory is listed — for every "
      "tree and every per-file pattern matcher), LAST_MATCH, OFF (with respect_gitignore off no .gitignore influences the "
      "result). Model tied to the real resolver on trees with .gitignore files at every level. The matcher's meaning is "
      "checked against git itself: FileResolver vs `git ls-files -co --exclude-standard` in a fresh repository at the "
      "traversal root (and at sub-directory roots), and every file listed with --no-respect-gitignore.",
      COMMON_NOTE + "pathspec's reading of a single pattern is a parameter; two pattern shapes on which it differs from git are a "
      "recorded third-party finding. The basename/any() defect was repaired in flowmark.",
      "Lean 4 proof (refinement of git's last-match rule by induction over the tree) + model/implementation correspondence + "
      "differential oracle against git",
      "DESIGN.md §7 C18")

claim("C13",
      "Lean theorems: ISO (in a process whose shared state keeps an invariant preserved by every step and whose steps "
      "compute their new local state independently of which invariant-satisfying shared state they see — constants, caches "
      "of pure functions — every thread ends, under every schedule, i.e. every interleaving at step granularity and every "
      "history of earlier calls, with the local state it reaches alone; by induction over the schedule), INV_ALWAYS, and "
      "over the inventory that the translator regenerates from /repo/src/flowmark on every run (every module-level and "
      "class-level binding, cached function, non-literal default argument, global/nonlocal write and mutating use, "
      "classified conservatively): INVENTORY_CLEAN (no cell is mutable state) and CALL_PATH_FRESH (parser, renderer and "
      "Markdown object are built inside each call). End-to-end: histories (a call after 1–6 earlier calls, and in a fresh "
      "interpreter), threads with forced switching at function calls, reuse of one Markdown object.",
      COMMON_NOTE + "What ties the inventory to ISO's hypotheses is the reading of the kinds (a constant is never written, "
      "functools.cache returns what the function would compute, objects built in a call are confined to it) — Python's "
      "semantics and Marko's object confinement, monitored by the history/thread oracle, not proved. The thread scheduler is "
      "seeded but not fully deterministic (GIL hand-over is the interpreter's).",
      "Lean 4 proof (schedule induction over an abstract shared-state machine) + regenerated state inventory (translator) "
      "+ history / thread oracle",
      "DESIGN.md §7 C13")

claim("C14",
      "Lean theorems on a model of the file-system side of reformat_file/reformat_files (create temporary sibling, write in "
      "arbitrary chunks, optional rename to the backup name, rename over the target): TARGET_WHOLE (after EVERY prefix of a "
      "file's operation list — every crash point, every failing operation, the write split arbitrarily — the target holds "
      "the complete old content, or the complete new content with the old one in the backup, or, with backups, nothing "
      "while the backup holds the old content), COMPLETE, INPUT_UNTOUCHED, FAIL_NOTHING, MULTI (any prefix of a run over "
      "several files with pairwise distinct paths leaves every file whole). The operation list is tied to reality: the "
      "mutating system calls of the real CLI on sandbox paths under strace equal the model's list in 10 scenarios. "
      "Fault enumeration on the real code: at every mutating operation the operation fails, or the process dies before it, "
      "or dies half-way through the write; rename(2) failing or killing the process via strace injection.",
      COMMON_NOTE + "Atomicity of rename(2) and 'a failed system call changes nothing' are laws about the operating system. "
      "Durability after power loss (no fsync) is outside the property. mkdir of parent directories is not modelled. One "
      "corner is a recorded finding (the backup name of one argument is another argument).",
      "Lean 4 proof (invariant over all prefixes of the operation list, frame lemma for multi-file runs) + strace "
      "correspondence of the operation list + fault enumeration",
      "DESIGN.md §7 C14")

NOT_YET = {
}

ALL = [f"C{i:02d}" for i in range(1, 19)]


def main() -> None:
    checks = []
    for pid in ALL:
        if pid not in CLAIMED:
            continue
        text, note, technique, ref = CLAIMED[pid]
        checks.append({
            "property_id": pid,
            "quick_cmd": f"./check {pid} --tier quick",
            "thorough_cmd": f"./check {pid} --tier thorough",
            "evidence_file": f"evidence/{pid}.json",
            "replay_cmd_template": f"./check {pid} --replay {{path}}",
            "engine": "lean4-proof+correspondence",
            "level_claimed": {"category": "proof", "text": text, "design_ref": ref},
            "level_note": note,
            "technique": technique,
        })
    na = [{"property_id": pid, "reason": NOT_YET.get(pid, "check not built yet in this session (work in progress; see DESIGN.md §11 build order) — not a limit of the technique")}
          for pid in ALL if pid not in CLAIMED]
    m = {
        "version": 1,
        "setup_cmd": "./setup",
        "hooks": {
            "guard": "FLOWMARK_VERIF",
            "enable": "not needed — no source hooks; the harness imports flowmark from the editable install of /repo",
            "baseline_off_cmd": BASELINE,
            "source_commits": [],
            "add_only": True,
        },
        "engines": [{
            "name": "lean4-proof+correspondence",
            "path": "lean",
            "serves_properties": [c["property_id"] for c in checks],
            "kind_free_text": "Lean 4 model + theorems (lake project FM), compiled line-protocol driver, Python correspondence/search harness",
        }],
        "checks": checks,
        "notes": "Repairs of genuine defects are 'fix:' commits in /repo, listed in KNOWN_FINDINGS.json (status fixed).",
        "not_applicable": na,
    }
    (VERIF / "MANIFEST.json").write_text(json.dumps(m, indent=1, ensure_ascii=False) + "\n")


if __name__ == "__main__":
    main()
