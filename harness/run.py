"""Entry point: ./check <property> [--tier quick|thorough] [--replay file]"""
from __future__ import annotations

import argparse
import importlib
import os
import sys
import traceback

from common import Ctx, finish


def main() -> int:
    ap = argparse.ArgumentParser()
    ap.add_argument("prop")
    ap.add_argument("--tier", default=os.environ.get("VERIF_TIER", "quick"), choices=["quick", "thorough"])
    ap.add_argument("--replay", default=None)
    a = ap.parse_args()
    try:
        seed = int(os.environ.get("VERIF_SEED", "20260929"))
    except ValueError:
        seed = 20260929
    prop = a.prop.upper()
    ctx = Ctx(prop, a.tier, seed)
    try:
        mod = importlib.import_module(f"props.{prop.lower()}")
    except ImportError as e:
        print(f"INFRA-ERROR: no check module for {prop}: {e}")
        return 2
    try:
        if a.replay:
            return mod.replay(ctx, a.replay)
        mod.run(ctx)
        return finish(ctx, getattr(mod, "search", None))
    except Exception:
        traceback.print_exc()
        print(f"INFRA-ERROR: {prop} check crashed (not a verdict)")
        return 2


if __name__ == "__main__":
    sys.exit(main())
