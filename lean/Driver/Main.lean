import FM.Base.Codec
import FM.Model.Wrap
import FM.Model.Sentence
import FM.Model.Frontmatter
import FM.Model.Config
import FM.Model.FillText
import FM.Model.Quotes
import FM.Model.Ellipses
import FM.Model.Render
import FM.Base.Sexp
import FM.Base.ResolveCodec
import FM.Model.FsMachine
import FM.Model.BlockStart
import FM.Model.TagSeg
import FM.Model.Scan
import FM.Model.FullWrap
import FM.Model.Transforms
import FM.Model.Route
import FM.Model.Placeholder
/-
  One operation per input line, one canonical answer per output line.
-/
open FM Driver

def step (line : String) : String :=
  let bad := "bad-op"
  match line.splitOn "\t" with
  | ["ping"] => "pong"
  | ["echo", s] => match decStr s with | some x => encStr x | none => bad
  | ["echol", s] => match decList s with | some x => encList x | none => bad
  | ["isspace", n] => match decNat n with
      | some k => encBool (isPySpace (Char.ofNat k)) ++ encBool (isPyLineBreak (Char.ofNat k))
      | none => bad
  | ["escape", w] => match decStr w with | some x => encStr (escapeWord x) | none => bad
  | ["fill", w, c0, c1, md, ws] =>
      match decNat w, decNat c0, decNat c1, decBool md, decList ws with
      | some w, some c0, some c1, some md, some ws => encList ((fill w c1 md c0 ws).map joinSp)
      | _, _, _, _, _ => bad
  | ["wrapLines", t, w, c0, c1, md] =>
      match decStr t, decInt w, decNat c0, decNat c1, decBool md with
      | some t, some w, some c0, some c1, some md => encList (wrapLines pySplit t w c0 c1 md)
      | _, _, _, _, _ => bad
  | ["wrapPara", t, w, i0, s0, ic, md] =>
      match decStr t, decInt w, decStr i0, decStr s0, decNat ic, decBool md with
      | some t, some w, some i0, some s0, some ic, some md =>
          encStr (wrapParagraph pySplit t w i0 s0 ic md)
      | _, _, _, _, _, _ => bad
  | ["denorm", t] => match decStr t with | some x => encStr (denormalizeAdjacentTags x) | none => bad
  | ["norm", t] => match decStr t with | some x => encStr (normalizeAdjacentTags x) | none => bad
  | ["sentWrap", w, i0, s0, ml, md, ws, fl] =>
      match decNat w, decStr i0, decStr s0, decNat ml, decBool md, decList ws with
      | some w, some i0, some s0, some ml, some md, some ws =>
          let flags := fl.toList.map (· == '1')
          if flags.length != ws.length then bad
          else encStr (sentWrapStr w i0 s0 ml md (ws.zip flags))
      | _, _, _, _, _, _ => bad
  | ["sentNoWrap", i0, t] =>
      match decStr i0, decStr t with
      | some i0, some t => encStr (sentNoWrap i0 t)
      | _, _ => bad
  | ["frontmatter", t] => match decStr t with
      | some t => let (a, b) := splitFrontmatter t; encList [a, b]
      | none => bad
  | ["fmshell", t] => match decStr t with
      | some t =>
          let stub : Str := "<B>".toList
          let (fm, content) := splitFrontmatter t
          let handed : Str := if fm.isEmpty then t
            else if content.isEmpty && delimCount fm < 2 then "<none>".toList else content
          encList [handed, fillShell (fun _ => stub) t]
      | none => bad
  | ["merge", cf, of, al, ex, au, f, hasCfg] =>
      match decList cf, decList of, decList al, decList ex, decBool au, decStr f, decBool hasCfg with
      | some cf, some of, some al, some ex, some au, some f, some hasCfg =>
          let toS (l : List Str) := l.map String.ofList
          let t : FM.Config.Tables := { configFields := toS cf, optionsFields := toS of, autoLocked := toS al }
          let v := FM.Config.merge t (fun _ => .s "cli") (fun _ => if hasCfg then some (.s "cfg") else none)
                    (toS ex) au (String.ofList f)
          match v with
          | .s x => x
          | _ => bad
      | _, _, _, _, _, _, _ => bad
  | ["findconfig", lv] =>
      let parts := if lv.isEmpty then [] else lv.splitOn ","
      let levels := parts.mapM fun p => match p.toList with
        | [a, b, c, d] => some ({ dotFlowmark := a == '1', flowmark := b == '1', pyproject := c == '1',
                                  pyprojectHasSection := d == '1' } : FM.Config.Level)
        | _ => none
      match levels with
      | some ls => match FM.Config.findConfig ls 0 with
          | some (k, .dot) => s!"{k}:.flowmark.toml"
          | some (k, .plain) => s!"{k}:flowmark.toml"
          | some (k, .pyproject) => s!"{k}:pyproject.toml"
          | none => "none"
      | none => bad
  | ["fillText", mode, t, w, ex, em, ic] =>
      let m : Option WrapMode := match mode with
        | "none" => some .none | "wrap" => some .wrap | "wrap_full" => some .wrapFull
        | "wrap_indent" => some .wrapIndent | "indent_only" => some .indentOnly
        | "hanging_indent" => some .hangingIndent | "markdown_item" => some .markdownItem
        | _ => none
      match m, decStr t, decInt w, decStr ex, decStr em, decNat ic with
      | some m, some t, some w, some ex, some em, some ic => encStr (fillText pySplit t m w ex em ic)
      | _, _, _, _, _, _ => bad
  | ["sentEnd", w, fl] =>
      -- fl: per character of w one digit 0..7 = letter*1 + lower*2 + word*4
      match decStr w with
      | some w =>
          let ds := fl.toList.map (fun c => c.toNat - '0'.toNat)
          if ds.length != w.length then bad else
          let tbl := w.zip ds
          let look (c : Char) : Nat := match tbl.find? (·.1 == c) with | some (_, d) => d | none => 0
          let cls : CharCls := { letter := fun c => look c % 2 == 1, lower := fun c => (look c / 2) % 2 == 1,
                                 word := fun c => (look c / 4) % 2 == 1 }
          encBool (isSentenceEnd cls w)
      | none => bad
  | ["quotes", t, fl] =>
      -- fl: per character of t, '1' if it is a `\\w` character
      match decStr t with
      | some t =>
          let ds := fl.toList
          if ds.length != t.length then bad else
          let tbl := t.zip ds
          let isWord (c : Char) : Bool := match tbl.find? (·.1 == c) with | some (_, d) => d == '1' | none => false
          encStr (smartQuotes isWord t)
      | none => bad
  | ["ellipses", t, fl, times] =>
      match decStr t, decNat times with
      | some t, some times =>
          let ds := fl.toList
          if ds.length != t.length then bad else
          let tbl := t.zip ds
          let isWord (c : Char) : Bool := match tbl.find? (·.1 == c) with | some (_, d) => d == '1' | none => false
          encStr ((List.range times).foldl (fun acc _ => ellipses isWord acc) t)
      | _, _ => bad
  | ["render", sp, defs, doc] =>
      let spacing : Option Spacing := match sp with
        | "preserve" => some .preserve | "loose" => some .loose | "tight" => some .tight | _ => none
      match spacing, parseSexps defs, parseSexps doc with
      | some spacing, some ds, some bs =>
        match toDefs ds, toBlocks (doc.length + 2) bs with
        | some ds, some bs =>
          -- symbolic line wrapper: the call itself is the result, so arguments are compared too
          let wrap (t i0 s0 : Str) : Str := Char.ofNat 1 :: i0 ++ Char.ofNat 2 :: s0 ++ Char.ofNat 2 :: t ++ [Char.ofNat 3]
          encStr (renderDoc { wrap := wrap, spacing := spacing, defs := ds } bs)
        | _, _ => bad
      | _, _, _ => bad
  | ["resolve", force, maxSize, incl, excl, args] =>
      match resolveOp force maxSize incl excl args with
      | some r => r
      | none => bad
  | ["fsops", flags] =>
      -- one character per file: 'b' in place with backup, 'n' without, 'x' reading/formatting failed
      let jobs : List (List FM.Fs.Op) := (flags.toList.zipIdx).map fun (c, i) =>
        if c == 'x' then FM.Fs.failedOps
        else FM.Fs.Job.ops { target := 3 * i, tmp := 3 * i + 1, orig := 3 * i + 2, backup := c == 'b', old := [], chunks := [[0]] }
      let show1 : FM.Fs.Op → String
        | .create p => s!"c{p}"
        | .append p _ => s!"a{p}"
        | .rename a b => s!"r{a}-{b}"
      String.intercalate ";" (jobs.flatten.map show1)
  | ["route", fs, out, ip, nb] =>
      -- files: comma-separated "-" / file ids; out: "none" / "-" / file id
      let parts := if fs.isEmpty then [] else fs.splitOn ","
      let args : List (Option FM.Route.Arg) := parts.map fun t =>
        if t == "-" then some .stdin else (decNat t).map .file
      let outv : Option FM.Route.Out :=
        if out == "none" then some .none else if out == "-" then some .stdout else (decNat out).map .path
      match args.mapM id, outv, decBool ip, decBool nb with
      | some args, some outv, some ip, some nb =>
        let showArg : FM.Route.Arg → String
          | .stdin => "-"
          | .file i => toString i
        match FM.Route.reformatFiles args outv ip nb with
        | .error .inplaceStdin => "E:inplaceStdin"
        | .error .outputMulti => "E:outputMulti"
        | .ok acts =>
          let showAct : FM.Route.Action → String
            | .toStdout s => s!"S{showArg s}"
            | .toFile s t b => s!"F{showArg s}>{t}:{if b then "b" else "n"}"
          String.intercalate ";" (acts.map showAct)
      | _, _, _, _ => bad
  | ["placeholder", kinds, ps] =>
      -- kinds: one character per piece, 't' plain text / 'a' construct
      match decList ps with
      | some strs =>
        if strs.length != kinds.length then bad
        else
          let pieces : List FM.Piece := (kinds.toList.zip strs).map fun (k, s) => if k == 'a' then .atom s else .text s
          encStr (extractText pieces 0) ++ "/" ++ encStr (roundTrip pieces)
      | none => bad
  | ["interrupts", ws] => match decList ws with
      | some ws => encBool (interruptsPara ws)
      | none => bad
  | ["mdwrap", t, i0, s0] =>
      match decStr t, decStr i0, decStr s0 with
      | some t, some i0, some s0 =>
        let sym : LineWrapper := fun t i0 s0 => Char.ofNat 1 :: i0 ++ Char.ofNat 2 :: s0 ++ Char.ofNat 2 :: t ++ [Char.ofNat 3]
        encStr (mdLineWrapper sym t i0 s0)
      | _, _, _ => bad
  | ["preprocess", t] => match decStr t with
      | some t => encStr (preprocessTagBlockSpacing t)
      | none => bad
  | ["fixclosing", t] => match decStr t with
      | some t => encStr (fixClosingTagSpacing t)
      | none => bad
  | ["fixmultiline", t] => match decStr t with
      | some t => encStr (fixMultilineOpening t)
      | none => bad
  | ["atoms", t] => match decStr t with
      | some t => ",".intercalate ((atomSpans t.length t 0).map fun (a, b) => s!"{a}-{b}")
      | none => bad
  | ["mdsplit", t] => match decStr t with
      | some t => encList (mdSplit t)
      | none => bad
  | ["fullwrap", mode, w, ml, i0, s0, t, fl] =>
      -- fl: per character of t one digit 0..7 = letter*1 + lower*2 + word*4 (classes for SENTENCE_END_RE)
      match decInt w, decNat ml, decStr i0, decStr s0, decStr t with
      | some w, some ml, some i0, some s0, some t =>
        let ds := fl.toList.map (fun c => c.toNat - '0'.toNat)
        if ds.length != t.length then bad else
        let tbl := t.zip ds
        let look (c : Char) : Nat := match tbl.find? (·.1 == c) with | some (_, d) => d | none => 0
        let cls : CharCls := { letter := fun c => look c % 2 == 1, lower := fun c => (look c / 2) % 2 == 1,
                               word := fun c => (look c / 4) % 2 == 1 }
        if mode == "fill" then encStr (mdFillWrapper w t i0 s0)
        else if mode == "sentence" then encStr (mdSentenceWrapper cls w ml t i0 s0)
        else bad
      | _, _, _, _, _ => bad
  | ["transform", kind, chars, fl, defs, doc] =>
      -- chars/fl: the distinct characters of the document and, per character, '1' if it is `\\w`
      match decStr chars, parseSexps defs, parseSexps doc with
      | some chars, some ds, some bs =>
        match toDefs ds, toBlocks (doc.length + 2) bs with
        | some ds, some bs =>
          let tbl := chars.zip fl.toList
          let isWord (c : Char) : Bool := match tbl.find? (·.1 == c) with | some (_, d) => d == '1' | none => false
          let wrap (t i0 s0 : Str) : Str := Char.ofNat 1 :: i0 ++ Char.ofNat 2 :: s0 ++ Char.ofNat 2 :: t ++ [Char.ofNat 3]
          let out : Option (List Block) :=
            if kind == "quotes" then some (rewriteAcrossInlines (smartQuotes isWord) bs)
            else if kind == "ellipses" then some (rewriteTextContent (ellipses isWord) bs)
            else if kind == "unbold" then some (unboldBlocks bs)
            else none
          match out with
          | some bs' => encStr (renderDoc { wrap := wrap, spacing := .preserve, defs := ds } bs')
          | none => bad
        | _, _ => bad
      | _, _, _ => bad
  | _ => bad

partial def loop (hin hout : IO.FS.Stream) : IO Unit := do
  let line ← hin.getLine
  if line.isEmpty then return ()
  let l := if line.endsWith "\n" then (line.dropEnd 1).toString else line
  hout.putStrLn (step l)
  loop hin hout

def main : IO Unit := do
  let hin ← IO.getStdin
  let hout ← IO.getStdout
  loop hin hout
  hout.flush
