import FM.Model.Ellipses
/-
  Helper lemmas for the ellipsis model.
-/
namespace FM

/-- Delete all whitespace and spell `…` as `...`. -/
def squashE : Str → Str
  | [] => []
  | c :: cs =>
    if isPySpace c then squashE cs
    else if c == ellipsisChar then '.' :: '.' :: '.' :: squashE cs
    else c :: squashE cs

theorem squashE_append : ∀ (a b : Str), squashE (a ++ b) = squashE a ++ squashE b
  | [], b => rfl
  | c :: a, b => by
    simp only [List.cons_append, squashE]
    split
    · exact squashE_append a b
    · split <;> simp [squashE_append a b]

theorem squashE_spaces : ∀ (s : Str), (∀ c ∈ s, isPySpace c = true) → squashE s = []
  | [], _ => rfl
  | c :: s, h => by
    simp only [squashE, h c (by simp), if_true]
    exact squashE_spaces s (fun x hx => h x (by simp [hx]))

theorem takeWhile_all {p : Char → Bool} : ∀ (s : Str), ∀ c ∈ s.takeWhile p, p c = true
  | [], c, h => by simp at h
  | a :: s, c, h => by
    simp only [List.takeWhile_cons] at h
    split at h
    · rename_i ha
      rcases List.mem_cons.1 h with rfl | h
      · exact ha
      · exact takeWhile_all s c h
    · simp at h

theorem squashE_takeWhile (s : Str) : squashE (s.takeWhile isPySpace) = [] :=
  squashE_spaces _ (takeWhile_all s)

theorem squashE_space : squashE [' '] = [] := by decide
theorem squashE_ell : squashE [ellipsisChar] = threeDots := by decide
theorem squashE_dots : squashE threeDots = threeDots := by decide

theorem squashE_nil : squashE [] = [] := rfl

theorem squashE_cons_space (t : Str) : squashE (' ' :: t) = squashE t := by
  have : isPySpace ' ' = true := by decide
  simp [squashE, this]

theorem squashE_cons_ell (t : Str) : squashE (ellipsisChar :: t) = threeDots ++ squashE t := by
  have h1 : isPySpace ellipsisChar = false := by decide
  simp [squashE, h1, threeDots]

theorem take_consumed {α} (x rest : List α) : (x ++ rest).take ((x ++ rest).length - rest.length) = x := by
  simp

theorem isPrefixOf_split {p s : Str} (h : p.isPrefixOf s = true) : s = p ++ s.drop p.length := by
  have := List.isPrefixOf_iff_prefix.1 h
  obtain ⟨t, rfl⟩ := this
  simp

theorem punctPrefix_split (r2 : Str) : r2 = punctPrefix r2 ++ r2.drop (punctPrefix r2).length := by
  cases r2 with
  | nil => rfl
  | cons c t => by_cases hc : isEllPunct c = true <;> simp [punctPrefix, hc]

/-- Decomposition of a successful `ellBody`. -/
theorem ellBody_spec (s sb p sa rest : Str) (h : ellBody s = some (sb, p, sa, rest)) :
    s = sb ++ threeDots ++ p ++ sa ++ rest ∧ squashE sb = [] ∧ squashE sa = [] := by
  unfold ellBody at h
  simp only at h
  split at h
  · rename_i hp
    simp only [Option.some.injEq, Prod.mk.injEq] at h
    obtain ⟨rfl, rfl, rfl, rfl⟩ := h
    refine ⟨?_, squashE_takeWhile _, squashE_takeWhile _⟩
    have h1 : s = s.takeWhile isPySpace ++ s.dropWhile isPySpace := (List.takeWhile_append_dropWhile).symm
    have h2 := isPrefixOf_split hp
    have h3len : threeDots.length = 3 := rfl
    rw [h3len] at h2
    generalize (s.dropWhile isPySpace).drop 3 = r2 at *
    have h3 := punctPrefix_split r2
    generalize r2.drop (punctPrefix r2).length = r3 at *
    have h4 : r3 = r3.takeWhile isPySpace ++ r3.dropWhile isPySpace := (List.takeWhile_append_dropWhile).symm
    conv => lhs; rw [h1, h2, h3, h4]
    simp [List.append_assoc]
  · simp at h

theorem squashE_ellReplace (isWord : Char → Bool) (pre sb p sa rest : Str)
    (hsb : squashE sb = []) (hsa : squashE sa = []) :
    squashE (ellReplace isWord pre sb p sa rest) = squashE (pre ++ sb ++ threeDots ++ p ++ sa) := by
  unfold ellReplace
  by_cases h0 : (rest.isEmpty || headIs isWord rest) = true
  · simp only [h0, if_true]
    by_cases h1 : (headIs isWord pre && sb.isEmpty) = true <;>
    by_cases h2 : (headIs isWord rest && sa.isEmpty && p.isEmpty) = true <;>
    simp [h1, h2, squashE_append, hsb, hsa, squashE_ell, squashE_dots, squashE_space, squashE_cons_space, squashE_cons_ell, squashE_nil]
  · simp [h0]

/-- One step consumes a prefix of the text and emits something with the same squash. -/
theorem ellStep_spec (isWord : Char → Bool) (ls inTag : Bool) (c : Char) (cs : Str) :
    ∃ consumed, c :: cs = consumed ++ (ellStep isWord ls inTag c cs).2 ∧
      squashE (ellStep isWord ls inTag c cs).1 = squashE consumed := by
  unfold ellStep
  cases h1 : (if ls then ellBody (c :: cs) else none) with
  | some t =>
    obtain ⟨sb, p, sa, rest⟩ := t
    have h1' : ellBody (c :: cs) = some (sb, p, sa, rest) := by
      cases ls <;> simp at h1; exact h1
    obtain ⟨hs, hsb, hsa⟩ := ellBody_spec _ _ _ _ _ h1'
    refine ⟨sb ++ threeDots ++ p ++ sa, by simpa [List.append_assoc] using hs, ?_⟩
    simp only
    split
    · have ht : (c :: cs).take ((c :: cs).length - rest.length) = sb ++ threeDots ++ p ++ sa := by
        rw [hs]; exact take_consumed _ _
      rw [ht]
    · simpa using squashE_ellReplace isWord [] sb p sa rest hsb hsa
  | none =>
    simp only
    cases h2 : (if isEllPrefixChar isWord c then ellBody cs else none) with
    | some t =>
      obtain ⟨sb, p, sa, rest⟩ := t
      have h2' : ellBody cs = some (sb, p, sa, rest) := by
        split at h2
        · exact h2
        · simp at h2
      obtain ⟨hs, hsb, hsa⟩ := ellBody_spec _ _ _ _ _ h2'
      refine ⟨c :: (sb ++ threeDots ++ p ++ sa), by simp [hs, List.append_assoc], ?_⟩
      simp only
      split
      · have ht : (c :: cs).take ((c :: cs).length - rest.length) = c :: (sb ++ threeDots ++ p ++ sa) := by
          have : c :: cs = (c :: (sb ++ threeDots ++ p ++ sa)) ++ rest := by simp [hs, List.append_assoc]
          rw [this]; exact take_consumed _ _
        rw [ht]
      · simpa [List.append_assoc] using squashE_ellReplace isWord [c] sb p sa rest hsb hsa
    | none => exact ⟨[c], by simp, rfl⟩

theorem ellPass_squash (isWord : Char → Bool) (tagAt : Nat → Bool) :
    ∀ (n : Nat) (ls : Bool) (pos : Nat) (s : Str),
      squashE (ellPass isWord tagAt n ls pos s) = squashE s := by
  intro n
  induction n with
  | zero => intro ls pos s; rfl
  | succ n ih =>
    intro ls pos s
    cases s with
    | nil => rfl
    | cons c cs =>
      obtain ⟨consumed, hs, hq⟩ := ellStep_spec isWord ls (tagAt pos) c cs
      show squashE ((ellStep isWord ls (tagAt pos) c cs).1 ++ ellPass isWord tagAt n false _ (ellStep isWord ls (tagAt pos) c cs).2) = _
      rw [squashE_append, ih, hq]
      conv => rhs; rw [hs, squashE_append]

end FM
