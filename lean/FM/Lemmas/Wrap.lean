import FM.Model.Wrap
/-
  Helper lemmas about the greedy fill.  Property theorems live in `FM/Props/C05.lean`.
-/
namespace FM

/-- A partition of a word list into non-empty lines in which the head of every line but
possibly the first has gone through `esc` (the `LinePartition` interface of DESIGN §2.3). -/
inductive LinesOf (esc : Word → Word) : Bool → List Word → List Line → Prop
  | nil (first : Bool) : LinesOf esc first [] []
  | cons (first : Bool) (h : Word) (t rest : List Word) (ls : List Line) :
      LinesOf esc false rest ls →
      LinesOf esc first (h :: t ++ rest) (((if first then h else esc h) :: t) :: ls)

/-- Generalisation to a call with a non-empty current line: the first output line extends `cur`. -/
def LinesFrom (esc : Word → Word) (cur : Line) (ws : List Word) (out : List Line) : Prop :=
  (cur = [] → LinesOf esc true ws out) ∧
  (cur ≠ [] → ∃ pre suf rest, ws = pre ++ suf ∧ out = (cur ++ pre) :: rest ∧ LinesOf esc false suf rest)

theorem emit_nil : emit ([] : Line) = [] := rfl
theorem emit_ne {cur : Line} (h : cur ≠ []) : emit cur = [cur] := by
  cases cur <;> simp_all [emit]
theorem isEmpty_false_of_ne {α} {l : List α} (h : l ≠ []) : l.isEmpty = false := by
  cases l <;> simp_all

theorem fillG_linesFrom (esc : Word → Word) (W c0 c1 : Nat) :
    ∀ (ws : List Word) (cur : Line) (curW : Nat) (first : Bool),
      (cur = [] → first = true) →
      LinesFrom esc cur ws (fillG esc W c0 c1 cur curW first ws) := by
  intro ws
  induction ws with
  | nil =>
    intro cur curW first _
    constructor
    · intro hc; subst hc; simp only [fillG, emit_nil]; exact LinesOf.nil _
    · intro hc; simp only [fillG, emit_ne hc]
      exact ⟨[], [], [], rfl, by simp, LinesOf.nil _⟩
  | cons w ws ih =>
    intro cur curW first hfirst
    unfold fillG
    split
    · -- the word fits on the current line
      have h := (ih (cur ++ [w]) (curW + w.length + sepW cur) first (by simp)).2 (by simp)
      obtain ⟨pre, suf, rest, hws, hout, hl⟩ := h
      constructor
      · intro hc; subst hc
        rw [hout, hws]
        have := LinesOf.cons (esc := esc) true w pre suf rest hl
        simpa using this
      · intro _
        exact ⟨w :: pre, suf, rest, by simp [hws], by simp [hout], hl⟩
    · -- the word starts a new line
      constructor
      · intro hc; subst hc
        have hf : first = true := hfirst rfl
        subst hf
        simp only [List.isEmpty_nil, Bool.and_self, if_true, emit_nil, List.nil_append]
        have h := (ih [w] (c0 + w.length) true (by simp)).2 (by simp)
        obtain ⟨pre, suf, rest, hws, hout, hl⟩ := h
        rw [hout, hws]
        have := LinesOf.cons (esc := esc) true w pre suf rest hl
        simpa using this
      · intro hc
        have hce := isEmpty_false_of_ne hc
        simp only [hce, Bool.and_false, emit_ne hc]
        have h := (ih [esc w] (c1 + (esc w).length) false (by simp)).2 (by simp)
        obtain ⟨pre, suf, rest, hws, hout, hl⟩ := h
        refine ⟨[], w :: ws, _, by simp, by simp; rfl, ?_⟩
        show LinesOf esc false (w :: ws) (fillG esc W c0 c1 [esc w] (c1 + (esc w).length) false ws)
        rw [hout, hws]
        have := LinesOf.cons (esc := esc) false w pre suf rest hl
        simpa using this

/-! ### Consequences of `LinesOf` -/

theorem LinesOf.nonempty {esc first ws ls} (h : LinesOf esc first ws ls) : ∀ l ∈ ls, l ≠ [] := by
  induction h with
  | nil => simp
  | cons first h t rest ls _ ih =>
    intro l hl
    rcases List.mem_cons.1 hl with rfl | hl
    · simp
    · exact ih l hl

theorem LinesOf.flatten_id {first ws ls} (h : LinesOf id first ws ls) : ls.flatten = ws := by
  induction h with
  | nil => rfl
  | cons first h t rest ls _ ih => simp [ih]

/-- Word-by-word relation between output and input: equal, or the escape of the input word. -/
inductive EscRel (esc : Word → Word) : List Word → List Word → Prop
  | nil : EscRel esc [] []
  | same (w) {a b} : EscRel esc a b → EscRel esc (w :: a) (w :: b)
  | esc (w) {a b} : EscRel esc a b → EscRel esc (esc w :: a) (w :: b)

theorem EscRel.refl (esc) : ∀ ws, EscRel esc ws ws
  | [] => .nil
  | w :: ws => .same w (EscRel.refl esc ws)

theorem EscRel.append {esc a b c d} (h1 : EscRel esc a b) (h2 : EscRel esc c d) :
    EscRel esc (a ++ c) (b ++ d) := by
  induction h1 with
  | nil => simpa
  | same w _ ih => exact .same w ih
  | esc w _ ih => exact .esc w ih

theorem LinesOf.flatten_rel {esc first ws ls} (h : LinesOf esc first ws ls) :
    EscRel esc ls.flatten ws := by
  induction h with
  | nil => exact .nil
  | cons first h t rest ls _ ih =>
    simp only [List.flatten_cons, List.cons_append]
    cases first
    · simp only [Bool.false_eq_true, if_false]
      exact .esc h ((EscRel.refl esc t).append ih)
    · simp only [if_true]
      exact .same h ((EscRel.refl esc t).append ih)

theorem fill_linesOf (W c0 c1 : Nat) (md : Bool) (ws : List Word) :
    LinesOf (escOf md) true ws (fill W c1 md c0 ws) :=
  (fillG_linesFrom (escOf md) W c0 c1 ws [] c0 true (fun _ => rfl)).1 rfl

theorem fill_escRel (W c0 c1 : Nat) (md : Bool) (ws : List Word) :
    EscRel (escOf md) (fill W c1 md c0 ws).flatten ws :=
  (fill_linesOf W c0 c1 md ws).flatten_rel

/-! ### Width bound -/

/-- A line starting at column `c` respects width `W`, or it is a single unbreakable word. -/
def LineOK (W c : Nat) (l : Line) : Prop := c + lineLen l ≤ W ∨ l.length = 1

/-- First line measured from column `c`, the others from `c1`. -/
def BoundFrom (W c c1 : Nat) (out : List Line) : Prop :=
  (∀ l ∈ out.head?, LineOK W c l) ∧ ∀ l ∈ out.tail, LineOK W c1 l

theorem lineLen_append_singleton {cur : Line} (w : Word) (h : cur ≠ []) :
    lineLen (cur ++ [w]) = lineLen cur + 1 + w.length := by
  induction cur with
  | nil => exact absurd rfl h
  | cons a t ih =>
    cases t with
    | nil => simp [lineLen]
    | cons b t' =>
      have := ih (by simp)
      simp only [List.cons_append, lineLen] at this ⊢
      omega

theorem sepW_ne {cur : Line} (h : cur ≠ []) : sepW cur = 1 := by
  cases cur <;> simp_all [sepW]

theorem fillG_bound (esc : Word → Word) (W c0 c1 : Nat) :
    ∀ (ws : List Word) (cur : Line) (curW c : Nat) (first : Bool),
      cur ≠ [] → curW = c + lineLen cur → LineOK W c cur →
      BoundFrom W c c1 (fillG esc W c0 c1 cur curW first ws) := by
  intro ws
  induction ws with
  | nil =>
    intro cur curW c first hne _ hok
    simp only [fillG, emit_ne hne]
    exact ⟨by simpa using hok, by simp⟩
  | cons w ws ih =>
    intro cur curW c first hne hW hok
    unfold fillG
    split
    · rename_i hfit
      apply ih (cur ++ [w]) _ c first (by simp)
      · rw [lineLen_append_singleton w hne, sepW_ne hne, hW]; omega
      · left; rw [lineLen_append_singleton w hne]; rw [sepW_ne hne, hW] at hfit; omega
    · have hce := isEmpty_false_of_ne hne
      simp only [hce, Bool.and_false, emit_ne hne, Bool.false_eq_true, if_false]
      have h := ih [esc w] (c1 + (esc w).length) c1 false (by simp) (by simp [lineLen])
        (Or.inr rfl)
      refine ⟨by simpa using hok, ?_⟩
      intro l hl
      simp only [List.singleton_append, List.tail_cons] at hl
      generalize fillG esc W c0 c1 [esc w] (c1 + (esc w).length) false ws = out at h hl
      cases out with
      | nil => cases hl
      | cons a rest =>
        rcases List.mem_cons.1 hl with rfl | hl
        · exact h.1 _ (by simp)
        · exact h.2 _ (by simpa using hl)

/-! ### Maximality -/

/-- Consecutive lines: the head of the next line would not have fit on the previous one,
whose accounting column is `a` for the first line and `c1` afterwards. -/
def MaxChain (W c1 : Nat) : Nat → List Line → Prop
  | _, [] => True
  | _, [_] => True
  | a, l :: l' :: rest =>
    (∀ h ∈ l'.head?, W < a + lineLen l + 1 + h.length) ∧ MaxChain W c1 c1 (l' :: rest)

theorem fillG_head (esc : Word → Word) (W c0 c1 : Nat) :
    ∀ (ws : List Word) (cur : Line) (curW : Nat) (first : Bool), cur ≠ [] →
      ∃ pre rest, fillG esc W c0 c1 cur curW first ws = (cur ++ pre) :: rest := by
  intro ws cur curW first hne
  have hf : (cur = [] → first = true) := fun h => absurd h hne
  obtain ⟨pre, _, rest, _, hout, _⟩ := (fillG_linesFrom esc W c0 c1 ws cur curW first hf).2 hne
  exact ⟨pre, rest, hout⟩

theorem fillG_maximal (esc : Word → Word) (hesc : ∀ w, w.length ≤ (esc w).length) (W c0 c1 : Nat) :
    ∀ (ws : List Word) (cur : Line) (curW a : Nat) (first : Bool),
      cur ≠ [] → curW = a + lineLen cur →
      MaxChain W c1 a (fillG esc W c0 c1 cur curW first ws) := by
  intro ws
  induction ws with
  | nil =>
    intro cur curW a first hne _
    simp [fillG, emit_ne hne, MaxChain]
  | cons w ws ih =>
    intro cur curW a first hne hW
    unfold fillG
    split
    · apply ih (cur ++ [w]) _ a first (by simp)
      rw [lineLen_append_singleton w hne, sepW_ne hne, hW]; omega
    · rename_i hnfit
      have hce := isEmpty_false_of_ne hne
      simp only [hce, Bool.and_false, emit_ne hne, Bool.false_eq_true, if_false]
      have h := ih [esc w] (c1 + (esc w).length) c1 false (by simp) (by simp [lineLen])
      obtain ⟨pre, rest, hout⟩ := fillG_head esc W c0 c1 ws [esc w] (c1 + (esc w).length) false (by simp)
      rw [hout] at h ⊢
      simp only [List.singleton_append, MaxChain]
      refine ⟨?_, h⟩
      intro hd hhd
      simp at hhd
      subst hhd
      rw [sepW_ne hne, hW] at hnfit
      have := hesc w
      omega

theorem escapeWord_length (w : Word) : w.length ≤ (escapeWord w).length := by
  unfold escapeWord
  split
  · rename_i l hl
    split
    · have hne : w ≠ [] := by intro h2; simp [h2] at hl
      have hpos : 0 < w.length := List.length_pos_iff.mpr hne
      simp [List.length_dropLast]; omega
    · split <;> simp
  · exact Nat.le_refl _

end FM
