import FM.Model.Plumbing
/-
  Soundness of the syntactic composition `through` w.r.t. the value semantics of layers.
-/
namespace FM.Plumbing

theorem vnot_vnot (v : Val) : vnot (vnot v) = v := by
  cases v <;> simp [vnot]

theorem subst_sound (l : Layer) (env : String → Val) (e' e : PExpr) (h : subst l e' = some e) :
    eval (applyLayer l env) e' = eval env e := by
  cases e' with
  | var n =>
    simp only [subst] at h
    simp [eval, applyLayer, h]
  | notVar n =>
    simp only [subst] at h
    cases hg : l.get n with
    | none => simp [hg] at h
    | some g =>
      cases g with
      | var m => simp [hg] at h; subst h; simp [eval, applyLayer, hg]
      | notVar m => simp [hg] at h; subst h; simp [eval, applyLayer, hg, vnot_vnot]
      | ctor c m => simp [hg] at h
      | const s => simp [hg] at h
  | ctor c n =>
    simp only [subst] at h
    cases hg : l.get n with
    | none => simp [hg] at h
    | some g =>
      cases g with
      | var m => simp [hg] at h; subst h; simp [eval, applyLayer, hg]
      | notVar m => simp [hg] at h
      | ctor c m => simp [hg] at h
      | const s => simp [hg] at h
  | const s =>
    simp only [subst] at h
    cases h; simp [eval]

/-- Push an environment down through a chain of layers (top first). -/
def applyAll : List Layer → (String → Val) → String → Val
  | [], env => env
  | l :: rest, env => applyAll rest (applyLayer l env)

/-- If the syntactic composition says that expression `e` of the top-level names reaches `k`,
then for every valuation the value at `k` at the bottom is the value of `e` at the top. -/
theorem through_sound : ∀ (ls : List Layer) (env : String → Val) (k : String) (e : PExpr),
    through ls k = some e → applyAll ls env k = eval env e := by
  intro ls
  induction ls with
  | nil => intro env k e h; simp [through] at h; subst h; simp [applyAll, eval]
  | cons l rest ih =>
    intro env k e h
    simp only [through] at h
    cases hr : through rest k with
    | none => simp [hr] at h
    | some e' =>
      simp [hr] at h
      simp only [applyAll]
      rw [ih (applyLayer l env) k e' hr]
      exact subst_sound l env e' e h

end FM.Plumbing
