import FM.Lemmas.RenderNl
/-
  Prefix discipline of the render model: helper definitions and lemmas.
-/
namespace FM

/-- a line is in order for a container with first-line prefix `p` and continuation prefix `s`: it
is empty, or it starts with one of the two prefixes (trailing whitespace of the prefix aside) -/
def PfxOK (p s L : Str) : Prop := L = [] ∨ rstrip p <+: L ∨ rstrip s <+: L

/-- the text is a sequence of newline-terminated lines, each satisfying `P` -/
inductive AllLines (P : Str → Prop) : Str → Prop
  | nil : AllLines P []
  | line {body rest : Str} : '\n' ∉ body → P body → AllLines P rest → AllLines P (body ++ '\n' :: rest)

theorem AllLines.append {P : Str → Prop} {a b : Str} (ha : AllLines P a) (hb : AllLines P b) : AllLines P (a ++ b) := by
  induction ha with
  | nil => simpa
  | line h1 h2 _ ih =>
    rw [List.append_assoc, List.cons_append]
    exact .line h1 h2 ih

theorem AllLines.mono {P Q : Str → Prop} {a : Str} (h : ∀ L, P L → Q L) (ha : AllLines P a) : AllLines Q a := by
  induction ha with
  | nil => exact .nil
  | line h1 h2 _ ih => exact .line h1 (h _ h2) ih

theorem AllLines.single {P : Str → Prop} {body : Str} (h1 : '\n' ∉ body) (h2 : P body) : AllLines P (body ++ ['\n']) :=
  .line h1 h2 .nil

theorem split_first_nl : ∀ (y : Str), '\n' ∈ y → ∃ y1 y2, y = y1 ++ '\n' :: y2 ∧ '\n' ∉ y1
  | [], h => by simp at h
  | c :: cs, h => by
    by_cases hc : c = '\n'
    · exact ⟨[], cs, by simp [hc], by simp⟩
    · have : '\n' ∈ cs := by
        rcases List.mem_cons.1 h with e | e
        · exact absurd e.symm hc
        · exact e
      obtain ⟨a, b, e1, e2⟩ := split_first_nl cs this
      exact ⟨c :: a, b, by simp [e1], by simp [e2, Ne.symm hc]⟩

theorem first_line_unique : ∀ (a b r r' : Str), '\n' ∉ a → '\n' ∉ b → a ++ '\n' :: r = b ++ '\n' :: r' → a = b ∧ r = r'
  | [], [], _, _, _, _, h => by simpa using h
  | [], c :: cs, _, _, _, hb, h => by
    simp at h; exact absurd h.1.symm (by intro e; exact hb (by simp [e]))
  | c :: cs, [], _, _, ha, _, h => by
    simp at h; exact absurd h.1 (by intro e; exact ha (by simp [e]))
  | c :: cs, d :: ds, r, r', ha, hb, h => by
    simp at h
    obtain ⟨rfl, h'⟩ := h
    have := first_line_unique cs ds r r' (by intro e; exact ha (by simp [e])) (by intro e; exact hb (by simp [e])) h'
    exact ⟨by simp [this.1], this.2⟩

/-- cutting a line sequence right before one of its newlines and closing the line again -/
theorem AllLines.cut {P : Str → Prop} : ∀ {x : Str}, AllLines P x → ∀ (y z : Str), x = y ++ '\n' :: z →
    AllLines P (y ++ ['\n']) := by
  intro x hx
  induction hx with
  | nil => intro y z h; simp at h
  | @line body rest h1 h2 _ ih =>
    intro y z h
    by_cases hy : '\n' ∈ y
    · obtain ⟨y1, y2, rfl, hy1⟩ := split_first_nl y hy
      have h' : body ++ '\n' :: rest = y1 ++ '\n' :: (y2 ++ '\n' :: z) := by simpa using h
      obtain ⟨rfl, hr⟩ := first_line_unique body y1 rest _ h1 hy1 h'
      have := ih y2 z hr
      rw [List.append_assoc, List.cons_append]
      exact .line h1 h2 this
    · obtain ⟨rfl, _⟩ := first_line_unique body y rest z h1 hy h
      exact .single h1 h2

/-! ### trailing-blank stripping keeps whole lines -/

/-- `y` is `x` cut before one of its newlines (or all / nothing of it) -/
def Cut (x y : Str) : Prop := y = [] ∨ y = x ∨ ∃ z, x = y ++ '\n' :: z

theorem Cut.trans {x t y : Str} (h1 : Cut x t) (h2 : Cut t y) : Cut x y := by
  rcases h2 with rfl | rfl | ⟨z, rfl⟩
  · exact Or.inl rfl
  · exact h1
  · rcases h1 with h | rfl | ⟨z', rfl⟩
    · simp at h
    · exact Or.inr (Or.inr ⟨z, rfl⟩)
    · exact Or.inr (Or.inr ⟨z ++ '\n' :: z', by simp⟩)

theorem AllLines.of_cut {P : Str → Prop} (hP : P []) {x y : Str} (hx : AllLines P x) (h : Cut x y) :
    AllLines P (y ++ ['\n']) := by
  rcases h with rfl | rfl | ⟨z, rfl⟩
  · exact .single (by simp) hP
  · exact hx.append (.single (by simp) hP)
  · exact hx.cut y z rfl

theorem rstripNl_spec (s : Str) : ∃ k, s = rstripNl s ++ List.replicate k '\n' := by
  unfold rstripNl
  refine ⟨(s.reverse.takeWhile (· == '\n')).length, ?_⟩
  have h := List.takeWhile_append_dropWhile (p := (· == '\n')) (l := s.reverse)
  have hall : s.reverse.takeWhile (· == '\n') = List.replicate (s.reverse.takeWhile (· == '\n')).length '\n' := by
    apply List.eq_replicate_iff.2
    refine ⟨rfl, ?_⟩
    intro b hb
    have hall := List.all_takeWhile (p := (· == '\n')) (l := s.reverse)
    have := List.all_eq_true.1 hall b hb
    simpa using this
  have : s = (s.reverse.dropWhile (· == '\n')).reverse ++ (s.reverse.takeWhile (· == '\n')).reverse := by
    rw [← List.reverse_append, h, List.reverse_reverse]
  rw [hall, List.reverse_replicate] at this
  simpa using this

theorem cut_rstripNl (s : Str) : Cut s (rstripNl s) := by
  obtain ⟨k, hk⟩ := rstripNl_spec s
  cases k with
  | zero => right; left; simpa using hk.symm
  | succ k => right; right; exact ⟨List.replicate k '\n', by simpa [List.replicate_succ] using hk⟩

theorem rstripNl_snoc_nl (a : Str) : rstripNl (a ++ ['\n']) = rstripNl a := by
  simp [rstripNl, List.dropWhile]

theorem endsWith_spec {t p : Str} (h : endsWith t p = true) : ∃ r, t = r ++ p := by
  unfold endsWith at h
  obtain ⟨r, hr⟩ := List.isPrefixOf_iff_prefix.1 h
  refine ⟨r.reverse, ?_⟩
  have := congrArg List.reverse hr
  simpa using this.symm

theorem cut_stripAux (blank : Str) : ∀ (n : Nat) (t : Str), Cut t (stripTrailingBlankAux blank n t)
  | 0, t => Or.inr (Or.inl rfl)
  | n + 1, t => by
    unfold stripTrailingBlankAux
    split
    · rename_i hc
      simp only [Bool.and_eq_true] at hc
      obtain ⟨r, hr⟩ := endsWith_spec hc.2
      have htake : t.take (t.length - blank.length) = r ++ ['\n'] := by
        subst hr
        have : (r ++ '\n' :: blank).length - blank.length = (r ++ ['\n']).length := by simp; omega
        rw [this, show r ++ '\n' :: blank = (r ++ ['\n']) ++ blank by simp, List.take_left']
        rfl
      rw [htake, rstripNl_snoc_nl]
      have h1 : Cut t r := Or.inr (Or.inr ⟨blank, hr⟩)
      exact h1.trans ((cut_rstripNl r).trans (cut_stripAux blank n (rstripNl r)))
    · exact Or.inr (Or.inl rfl)

theorem cut_stripTrailingBlank (x q : Str) : Cut x (stripTrailingBlank x q) := by
  unfold stripTrailingBlank
  exact (cut_rstripNl x).trans (cut_stripAux _ _ _)

/-! ### prefixes -/

theorem rstrip_prefix (s : Str) : rstrip s <+: s := by
  unfold rstrip
  have h := List.dropWhile_suffix (p := isPySpace) (l := s.reverse)
  obtain ⟨t, ht⟩ := h
  refine ⟨t.reverse, ?_⟩
  have := congrArg List.reverse ht
  simpa using this

theorem rstrip_prefix_append (s x : Str) : rstrip s <+: rstrip (s ++ x) := by
  unfold rstrip
  rw [List.reverse_append, List.dropWhile_append]
  split
  · exact List.prefix_refl _
  · rw [List.reverse_append, List.reverse_reverse]
    exact (rstrip_prefix s).trans (List.prefix_append _ _)

theorem no_nl_of_prefix {a b : Str} (h : a <+: b) (hb : '\n' ∉ b) : '\n' ∉ a :=
  fun ha => hb (h.subset ha)

theorem no_nl_rstrip {s : Str} (h : '\n' ∉ s) : '\n' ∉ rstrip s := no_nl_of_prefix (rstrip_prefix s) h

theorem PfxOK.container {p s m i L : Str} (h : PfxOK (p ++ m) (s ++ i) L) : PfxOK p s L := by
  rcases h with h | h | h
  · exact Or.inl h
  · exact Or.inr (Or.inl ((rstrip_prefix_append p m).trans h))
  · exact Or.inr (Or.inr ((rstrip_prefix_append s i).trans h))

theorem PfxOK.of_pfx (p s x : Str) : PfxOK p s (p ++ x) :=
  Or.inr (Or.inl ((rstrip_prefix p).trans (List.prefix_append _ _)))

theorem PfxOK.of_snd (p s x : Str) : PfxOK p s (s ++ x) :=
  Or.inr (Or.inr ((rstrip_prefix s).trans (List.prefix_append _ _)))

theorem PfxOK.of_rsnd (p s x : Str) : PfxOK p s (rstrip s ++ x) :=
  Or.inr (Or.inr (List.prefix_append _ _))

/-- the state after a block: either prefix becomes the new first-line prefix -/
theorem PfxOK.next {p s p' L : Str} (hp : p' = p ∨ p' = s) (h : PfxOK p' s L) : PfxOK p s L := by
  rcases h with h | h | h
  · exact Or.inl h
  · rcases hp with rfl | rfl
    · exact Or.inr (Or.inl h)
    · exact Or.inr (Or.inr h)
  · exact Or.inr (Or.inr h)

/-! ### lines joined by newlines -/

theorem allLines_joinWith {P : Str → Prop} : ∀ (ls : List Str), ls ≠ [] → (∀ l ∈ ls, '\n' ∉ l ∧ P l) →
    AllLines P (joinWith ['\n'] ls ++ ['\n'])
  | [], h, _ => absurd rfl h
  | [l], _, h => by
    simp only [joinWith]
    exact .single (h l (by simp)).1 (h l (by simp)).2
  | l :: m :: rest, _, h => by
    simp only [joinWith]
    have := allLines_joinWith (m :: rest) (by simp) (fun x hx => h x (by simp [hx]))
    rw [List.append_assoc, List.append_assoc, List.singleton_append]
    exact .line (h l (by simp)).1 (h l (by simp)).2 this

theorem splitNl_no_nl : ∀ (s cur : Str), '\n' ∉ cur → ∀ l ∈ splitNl s cur, '\n' ∉ l
  | [], cur, hc, l, hl => by
    simp [splitNl] at hl; subst hl; simpa using hc
  | c :: cs, cur, hc, l, hl => by
    unfold splitNl at hl
    split at hl
    · rcases List.mem_cons.1 hl with rfl | hl
      · simpa using hc
      · exact splitNl_no_nl cs [] (by simp) l hl
    · rename_i hne
      have : c ≠ '\n' := by simpa using hne
      exact splitNl_no_nl cs (c :: cur) (by simp [hc, this.symm]) l hl

theorem pySplitNl_no_nl (s : Str) : ∀ l ∈ pySplitNl s, '\n' ∉ l := splitNl_no_nl s [] (by simp)

/-! ### the renderer -/

def noNl (s : Str) : Bool := !s.contains '\n'

theorem noNl_iff {s : Str} : noNl s = true ↔ '\n' ∉ s := by simp [noNl]

mutual
  /-- blocks all of whose verbatim leaf strings are newline-free, and which hold no link reference
  definition or table (their text is emitted as written, so nothing can be said about its lines) -/
  def plainBlock : Block → Bool
    | .para _ _ => true
    | .heading _ _ _ => true
    | .list _ _ bullet _ items => noNl bullet && plainBlocks items
    | .item bs => plainBlocks bs
    | .quote bs => plainBlocks bs
    | .alert ty bs => noNl ty && plainBlocks bs
    | .fenced lang extra _ fch _ => noNl lang && noNl extra && fch != '\n'
    | .indented _ => true
    | .hr => true
    | .blank => true
    | .linkdef _ _ _ => false
    | .fndef label bs => noNl label && plainBlocks bs
    | .table _ _ _ => false
  def plainBlocks : List Block → Bool
    | [] => true
    | b :: bs => plainBlock b && plainBlocks bs
end

/-- the contract of a line wrapper: its result, closed by a newline, is a sequence of lines that
start with the first-line prefix or the continuation prefix it was given -/
def WrapPD (cfg : RCfg) : Prop :=
  ∀ t p s, '\n' ∉ p → '\n' ∉ s → AllLines (PfxOK p s) (cfg.wrap t p s ++ ['\n'])

/-- what a block leaves behind -/
def PDOut (st : RState) (r : Str × RState) : Prop :=
  AllLines (PfxOK st.pfx st.snd) r.1 ∧ (r.2.pfx = st.pfx ∨ r.2.pfx = st.snd) ∧ r.2.snd = st.snd

theorem mem_replicate_ne {c d : Char} {n : Nat} (h : c ≠ d) : d ∉ List.replicate n c := by
  intro hm
  exact h (List.eq_of_mem_replicate hm).symm

theorem pd_code (st : RState) (content lang extra : Str) (isFenced : Bool) (fch : Char) (flen : Nat)
    (hp : '\n' ∉ st.pfx) (hs : '\n' ∉ st.snd) (hl : '\n' ∉ lang) (he : '\n' ∉ extra) (hf : fch ≠ '\n') :
    AllLines (PfxOK st.pfx st.snd) (renderCodeLines st content lang extra isFenced fch flen) := by
  unfold renderCodeLines
  apply allLines_joinWith _ (by simp)
  intro l hmem
  have hfence : ∀ n, '\n' ∉ List.replicate n fch := fun n => mem_replicate_ne hf
  simp only [List.mem_append, List.mem_singleton, List.mem_map] at hmem
  rcases hmem with (rfl | ⟨x, hx, rfl⟩) | rfl
  · refine ⟨?_, ?_⟩
    · simp only [List.mem_append, not_or]
      refine ⟨⟨hp, hfence _⟩, ?_⟩
      split
      · simp
      · simp only [List.mem_append, not_or]
        refine ⟨hl, ?_⟩
        split
        · simp
        · simp [he]
    · rw [List.append_assoc]; exact PfxOK.of_pfx _ _ _
  · split
    · exact ⟨no_nl_rstrip hs, by simpa using PfxOK.of_rsnd st.pfx st.snd []⟩
    · have hxn : '\n' ∉ x := by
        split at hx
        · simp at hx
        · exact pySplitNl_no_nl _ x hx
      exact ⟨by simp [hs, hxn], PfxOK.of_snd _ _ _⟩
  · exact ⟨by simp [hs, hfence], PfxOK.of_snd _ _ _⟩

theorem unbreak_no_nl : ∀ (s : Str), '\n' ∉ unbreak s
  | [] => by simp [unbreak]
  | [a] => by
    simp only [unbreak]
    split
    · simp
    · rename_i ha
      have hne : a ≠ '\n' := by simpa using ha
      simpa using fun e : '\n' = a => hne e.symm
  | a :: b :: rest => by
    have h1 := unbreak_no_nl rest
    have h2 := unbreak_no_nl (b :: rest)
    simp only [unbreak]
    split
    · simpa using h1
    · split
      · simpa using h2
      · rename_i hb ha
        have : a ≠ '\n' := by simpa using ha
        simp [this.symm, h2]

theorem natToStr_no_nl (n : Nat) : '\n' ∉ natToStr n := by
  intro h
  have h' : '\n' ∈ Nat.toDigits 10 n := by
    have : natToStr n = Nat.toDigits 10 n := by
      unfold natToStr
      exact Nat.toList_repr
    rwa [this] at h
  have := Nat.isDigit_of_mem_toDigits (by decide) (by decide) h'
  revert this; decide

theorem itemPrefix_no_nl (o : Bool) (start i : Nat) (bl : Str) (h : '\n' ∉ bl) :
    '\n' ∉ (itemPrefix o start i bl).1 ∧ '\n' ∉ (itemPrefix o start i bl).2 := by
  unfold itemPrefix
  split
  · refine ⟨?_, ?_⟩
    · simp [natToStr_no_nl]
    · exact mem_replicate_ne (by decide)
  · exact ⟨by simp [h], by simp⟩

theorem pd_all (cfg : RCfg) (hw : WrapPD cfg) :
    (∀ (st : RState) (b : Block), plainBlock b = true → '\n' ∉ st.pfx → '\n' ∉ st.snd → PDOut st (renderBlock cfg st b)) ∧
    (∀ (st : RState) (bs : List Block), plainBlocks bs = true → '\n' ∉ st.pfx → '\n' ∉ st.snd → PDOut st (renderBlocks cfg st bs)) ∧
    (∀ (st : RState) (o : Bool) (s : Nat) (bl : Str) (i : Nat) (bs : List Block),
        plainBlocks bs = true → noNl bl = true → '\n' ∉ st.pfx → '\n' ∉ st.snd → PDOut st (renderItems cfg st o s bl i bs)) := by
  apply renderBlock.mutual_induct cfg
    (motive_1 := fun st b => plainBlock b = true → '\n' ∉ st.pfx → '\n' ∉ st.snd → PDOut st (renderBlock cfg st b))
    (motive_2 := fun st bs => plainBlocks bs = true → '\n' ∉ st.pfx → '\n' ∉ st.snd → PDOut st (renderBlocks cfg st bs))
    (motive_3 := fun st o s bl i bs => plainBlocks bs = true → noNl bl = true → '\n' ∉ st.pfx → '\n' ∉ st.snd →
      PDOut st (renderItems cfg st o s bl i bs))
  all_goals intros
  -- para
  case case1 =>
    rename_i st cs checked _ hp hs
    simp only [renderBlock, PDOut]
    exact ⟨hw _ _ _ hp hs, Or.inr trivial, trivial⟩
  -- list
  case case2 =>
    rename_i st o s bl t items isTight ih hpl hp hs
    simp only [plainBlock, Bool.and_eq_true] at hpl
    have := ih hpl.2 hpl.1 hp hs
    simp only [renderBlock, PDOut] at this ⊢
    exact ⟨this.1, Or.inr this.2.2, this.2.2⟩
  -- item
  case case3 =>
    rename_i st bs hE hpl hp hs
    simp only [renderBlock, PDOut, hE, if_true]
    refine ⟨?_, Or.inr trivial, trivial⟩
    have hsep : AllLines (PfxOK st.pfx st.snd)
        (if st.listTight = true then [] else if st.suppress = true then [] else rstrip st.snd ++ ['\n']) := by
      split
      · exact .nil
      · split
        · exact .nil
        · exact .single (no_nl_rstrip hs) (by simpa using PfxOK.of_rsnd st.pfx st.snd [])
    rw [List.append_assoc]
    exact hsep.append (.single (no_nl_rstrip hp) (Or.inr (Or.inl (List.prefix_refl _))))
  case case4 =>
    rename_i st bs st1 hE ih hpl hp hs
    simp only [plainBlock] at hpl
    have := ih hpl hp hs
    simp only [renderBlock, PDOut, hE, if_false] at this ⊢
    refine ⟨AllLines.append ?_ this.1, this.2.1, this.2.2⟩
    split
    · exact .nil
    · split
      · exact .nil
      · exact .single (no_nl_rstrip hs) (by simpa using PfxOK.of_rsnd st.pfx st.snd [])
  -- quote
  case case5 =>
    rename_i st bs inner ih hpl hp hs
    simp only [plainBlock] at hpl
    have := ih hpl (by simp [inner, hp]) (by simp [inner, hs])
    simp only [renderBlock, PDOut] at this ⊢
    refine ⟨?_, Or.inr trivial, trivial⟩
    have h1 : AllLines (PfxOK st.pfx st.snd) (renderBlocks cfg inner bs).1 := this.1.mono (fun L h => h.container)
    exact h1.of_cut (Or.inl rfl) (cut_stripTrailingBlank _ _)
  -- alert
  case case6 =>
    rename_i st ty bs inner ih hpl hp hs
    simp only [plainBlock, Bool.and_eq_true, noNl_iff] at hpl
    have := ih hpl.2 (by simp [inner, hs]) (by simp [inner, hs])
    simp only [renderBlock, PDOut] at this ⊢
    refine ⟨?_, Or.inr trivial, trivial⟩
    have h1 : AllLines (PfxOK st.pfx st.snd) (renderBlocks cfg inner bs).1 :=
      this.1.mono (fun L h => PfxOK.next (Or.inr rfl) (p := st.pfx) (h.container))
    have hhead : AllLines (PfxOK st.pfx st.snd) (st.pfx ++ "> [!".toList ++ ty ++ "]\n".toList) := by
      have : st.pfx ++ "> [!".toList ++ ty ++ "]\n".toList = (st.pfx ++ ("> [!".toList ++ ty ++ "]".toList)) ++ ['\n'] := by simp
      rw [this]
      exact .single (by simp [hp, hpl.1]) (PfxOK.of_pfx _ _ _)
    refine hhead.append ?_
    split
    · exact .nil
    · exact h1.of_cut (Or.inl rfl) (cut_stripTrailingBlank _ _)
  -- fenced / indented code
  case case7 =>
    rename_i st lang extra content fch flen hpl hp hs
    simp only [plainBlock, Bool.and_eq_true, noNl_iff, bne_iff_ne] at hpl
    simp only [renderBlock, PDOut]
    exact ⟨pd_code st content lang extra true fch flen hp hs hpl.1.1 hpl.1.2 hpl.2, Or.inr trivial, trivial⟩
  case case8 =>
    rename_i st content _ hp hs
    simp only [renderBlock, PDOut]
    exact ⟨pd_code st content [] [] false '`' 3 hp hs (by simp) (by simp) (by decide), Or.inr trivial, trivial⟩
  -- thematic break
  case case9 =>
    rename_i st _ hp hs
    simp only [renderBlock, PDOut]
    refine ⟨?_, Or.inr trivial, trivial⟩
    have hr : '\n' ∉ ruleText st.pfx := by
      simp only [ruleText]; split <;> decide
    exact .single (by simp [hp, hr]) (PfxOK.of_pfx _ _ _)
  -- heading (two branches of the trailing-backslash test)
  case case10 =>
    rename_i st level cs sx r0 r hb _ hp hs
    simp only [renderBlock, PDOut]
    have hb' : ((unbreak (renderInlines cfg true [] cs).1).getLast? == some '\\') = true := hb
    simp only [hb', if_true]
    refine ⟨?_, Or.inr trivial, trivial⟩
    have : st.pfx ++ List.replicate level '#' ++ ' ' :: unbreak (renderInlines cfg true [] cs).1 ++ ['\n']
        = (st.pfx ++ (List.replicate level '#' ++ ' ' :: unbreak (renderInlines cfg true [] cs).1)) ++ ['\n'] := by simp
    rw [this]
    exact .single (by simp [hp, unbreak_no_nl, mem_replicate_ne (show '#' ≠ '\n' by decide)]) (PfxOK.of_pfx _ _ _)
  case case11 =>
    rename_i st level cs sx r0 r hb _ hp hs
    simp only [renderBlock, PDOut]
    have hb' : ((unbreak (renderInlines cfg true [] cs).1).getLast? == some '\\') = false := by simpa using hb
    simp only [hb', Bool.false_eq_true, if_false]
    refine ⟨?_, Or.inr trivial, trivial⟩
    have : st.pfx ++ List.replicate level '#' ++ ' ' :: unbreak (renderInlines cfg true [] cs).1 ++ '\n' :: rstrip st.snd ++ ['\n']
        = ((st.pfx ++ (List.replicate level '#' ++ ' ' :: unbreak (renderInlines cfg true [] cs).1)) ++ ['\n']) ++ (rstrip st.snd ++ ['\n']) := by simp
    rw [this]
    exact (AllLines.single (by simp [hp, unbreak_no_nl, mem_replicate_ne (show '#' ≠ '\n' by decide)]) (PfxOK.of_pfx _ _ _)).append
      (.single (no_nl_rstrip hs) (by simpa using PfxOK.of_rsnd st.pfx st.snd []))
  -- blank line
  case case12 =>
    rename_i st hskip _ hp hs
    simp only [renderBlock, PDOut, hskip, if_true]
    exact ⟨.nil, Or.inl trivial, trivial⟩
  case case13 =>
    rename_i st hskip _ hp hs
    have hskip' : st.skipBlank = false := by simpa using hskip
    simp only [renderBlock, PDOut, hskip', Bool.false_eq_true, if_false]
    refine ⟨?_, Or.inr trivial, trivial⟩
    split
    · exact .single (body := []) (by simp) (Or.inl rfl)
    · exact .single hp (by simpa using PfxOK.of_pfx st.pfx st.snd [])
  -- link reference definition and table: excluded
  case case14 => rename_i hpl _ _; simp [plainBlock] at hpl
  case case16 => rename_i hpl _ _; simp [plainBlock] at hpl
  -- footnote definition
  case case15 =>
    rename_i st label bs inner ih hpl hp hs
    simp only [plainBlock, Bool.and_eq_true, noNl_iff] at hpl
    have := ih hpl.2 (by simp [inner, hp, hpl.1]) (by simp [inner, hs])
    simp only [renderBlock, PDOut] at this ⊢
    refine ⟨?_, Or.inr trivial, trivial⟩
    have h1 : AllLines (PfxOK st.pfx st.snd) (renderBlocks cfg inner bs).1 := by
      refine this.1.mono (fun L h => ?_)
      have h' : PfxOK (st.pfx ++ ("[^".toList ++ label ++ "]: ".toList)) (st.snd ++ "    ".toList) L := by
        simpa [inner, List.append_assoc] using h
      exact h'.container
    have h2 := h1.of_cut (Or.inl rfl) (cut_rstripNl _)
    have : rstripNl (renderBlocks cfg inner bs).1 ++ ['\n', '\n'] = (rstripNl (renderBlocks cfg inner bs).1 ++ ['\n']) ++ ([] ++ ['\n']) := by simp
    rw [this]
    exact h2.append (.single (by simp) (Or.inl rfl))
  -- sequences
  case case17 => simp only [renderBlocks, PDOut]; exact ⟨.nil, Or.inl trivial, trivial⟩
  case case18 =>
    rename_i st b rest r ih2 ih1 hpl hp hs
    simp only [plainBlocks, Bool.and_eq_true] at hpl
    have h2 := ih2 hpl.1 hp hs
    have hp' : '\n' ∉ r.2.pfx := by rcases h2.2.1 with e | e <;> (rw [e]; assumption)
    have hs' : '\n' ∉ r.2.snd := by rw [h2.2.2]; exact hs
    have h1 := ih1 hpl.2 hp' hs'
    simp only [renderBlocks, PDOut] at h1 h2 ⊢
    refine ⟨h2.1.append (h1.1.mono (fun L h => ?_)), ?_, h1.2.2.trans h2.2.2⟩
    · rw [h2.2.2] at h
      exact PfxOK.next h2.2.1 h
    · rcases h1.2.1 with e | e
      · rw [e]; exact h2.2.1
      · rw [e, h2.2.2]; exact Or.inr rfl
  case case19 => simp only [renderItems, PDOut]; exact ⟨.nil, Or.inl trivial, trivial⟩
  case case20 =>
    rename_i st o start bl i b rest p sup r ih2 ih1 hpl hbl hp hs
    simp only [plainBlocks, Bool.and_eq_true] at hpl
    have hip := itemPrefix_no_nl o start i bl (noNl_iff.1 hbl)
    have h2 := ih2 hpl.1 (by simp [p, hp, hip.1]) (by simp [p, hs, hip.2])
    have h1 := ih1 hpl.2 hbl hs hs
    simp only [renderItems, PDOut] at h1 h2 ⊢
    refine ⟨(h2.1.mono (fun L h => h.container)).append (h1.1.mono (fun L h => PfxOK.next (Or.inr rfl) h)), ?_, h1.2.2⟩
    rcases h1.2.1 with e | e <;> exact Or.inr e

end FM
