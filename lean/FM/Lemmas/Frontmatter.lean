import FM.Model.Frontmatter
/-
  Helper lemmas: split/join round trip, `findClose`, delimiter counting.
-/
namespace FM

theorem joinWith_cons_cons (sep a b : Str) (rest : List Str) :
    joinWith sep (a :: b :: rest) = a ++ sep ++ joinWith sep (b :: rest) := rfl

theorem splitNl_ne_nil : ∀ (s cur : Str), splitNl s cur ≠ []
  | [], cur => by simp [splitNl]
  | c :: cs, cur => by
    unfold splitNl; split
    · simp
    · exact splitNl_ne_nil cs _

/-- `"\n".join(s.split("\n")) == s` (with the pending partial line `cur`). -/
theorem join_splitNl : ∀ (s cur : Str), joinWith ['\n'] (splitNl s cur) = cur.reverse ++ s
  | [], cur => by simp [splitNl, joinWith]
  | c :: cs, cur => by
    unfold splitNl
    split
    · rename_i h
      have hc : c = '\n' := by simpa using h
      have ih := join_splitNl cs []
      cases hs : splitNl cs [] with
      | nil => exact absurd hs (splitNl_ne_nil cs [])
      | cons a rest =>
        rw [joinWith_cons_cons, ← hs, ih, hc]; simp
    · have ih := join_splitNl cs (c :: cur)
      rw [ih]; simp

theorem join_pySplitNl (s : Str) : joinWith ['\n'] (pySplitNl s) = s := by
  simpa [pySplitNl] using join_splitNl s []

theorem splitNl_snoc : ∀ (s cur : Str), splitNl (s ++ ['\n']) cur = splitNl s cur ++ [[]]
  | [], cur => by simp [splitNl]
  | c :: cs, cur => by
    simp only [List.cons_append]
    unfold splitNl
    split
    · simp [splitNl_snoc cs []]
    · exact splitNl_snoc cs (c :: cur)

theorem mem_takeWhile_imp' {α} (p : α → Bool) : ∀ (l : List α) (x : α), x ∈ l.takeWhile p → p x = true
  | [], x, h => by simp at h
  | a :: t, x, h => by
    simp only [List.takeWhile_cons] at h
    split at h
    · rename_i ha
      rcases List.mem_cons.1 h with rfl | h
      · exact ha
      · exact mem_takeWhile_imp' p t x h
    · simp at h

/-! ### delimiters -/

theorem strip_nil : strip ([] : Str) = [] := by simp [strip, rstrip, lstrip]

theorem not_delim_of_blank {l : Str} (h : isBlank l = true) : isDelim l = false := by
  unfold isBlank at h; unfold isDelim
  have : strip l = [] := by simpa using h
  rw [this]; decide

theorem findClose_some : ∀ (rest acc : List Str) (mid : List Str) (c : Str) (body : List Str),
    findClose rest acc = some (mid, c, body) →
    acc.reverse ++ rest = mid ++ c :: body ∧ isDelim c = true ∧
      ∀ l ∈ mid, l ∈ acc ∨ isDelim l = false
  | [], acc, mid, c, body, h => by simp [findClose] at h
  | l :: rest, acc, mid, c, body, h => by
    unfold findClose at h
    split at h
    · rename_i hd
      simp at h
      obtain ⟨rfl, rfl, rfl⟩ := h
      exact ⟨by simp, hd, fun x hx => Or.inl (by simpa using hx)⟩
    · rename_i hd
      have ih := findClose_some rest (l :: acc) mid c body h
      refine ⟨by simpa using ih.1, ih.2.1, ?_⟩
      intro x hx
      rcases ih.2.2 x hx with h1 | h1
      · rcases List.mem_cons.1 h1 with rfl | h2
        · right; simpa using hd
        · left; exact h2
      · right; exact h1

theorem findClose_none : ∀ (rest acc : List Str), findClose rest acc = none →
    ∀ l ∈ rest, isDelim l = false
  | [], _, _ => by simp
  | l :: rest, acc, h => by
    unfold findClose at h
    split at h
    · simp at h
    · rename_i hd
      intro x hx
      rcases List.mem_cons.1 hx with rfl | hx
      · simpa using hd
      · exact findClose_none rest (l :: acc) h x hx

/-! ### CR-free texts and the unclosed case -/

theorem replaceCRLF_id : ∀ (s : Str), '\r' ∉ s → replaceCRLF s = s
  | [], _ => rfl
  | c :: cs, h => by
    have hc : c ≠ '\r' := fun e => h (by simp [e])
    have ht : '\r' ∉ cs := fun e => h (by simp [e])
    unfold replaceCRLF
    split
    · rename_i heq; simp at heq; exact absurd heq.1 hc
    · rename_i heq; simp at heq; obtain ⟨rfl, rfl⟩ := heq; rw [replaceCRLF_id _ ht]
    · rename_i heq; simp at heq

theorem splitNl_getLast : ∀ (s cur : Str), (splitNl s cur).getLast? = some [] →
    s.getLast? = some '\n' ∨ (s = [] ∧ cur = [])
  | [], cur, h => by simp [splitNl] at h; right; exact ⟨rfl, h⟩
  | c :: cs, cur, h => by
    unfold splitNl at h
    split at h
    · rename_i hc
      have hc' : c = '\n' := by simpa using hc
      rw [List.getLast?_cons_of_ne_nil (splitNl_ne_nil cs [])] at h
      rcases splitNl_getLast cs [] h with h1 | ⟨h1, _⟩
      · left; rw [List.getLast?_cons_of_ne_nil]; exact h1
        intro h0; simp [h0] at h1
      · left; subst h1; simp [hc']
    · rcases splitNl_getLast cs (c :: cur) h with h1 | ⟨_, h2⟩
      · left; rw [List.getLast?_cons_of_ne_nil]; exact h1
        intro h0; simp [h0] at h1
      · simp at h2

theorem isDelim_nil : isDelim [] = false := by decide

theorem filter_delim_fmLines (text : Str) (h : '\r' ∉ text) :
    (fmLines text).filter isDelim = (pySplitNl text).filter isDelim := by
  unfold fmLines
  rw [replaceCRLF_id text h]
  simp only
  split
  · rename_i hl
    have hne : pySplitNl text ≠ [] := splitNl_ne_nil text []
    have hlast : (pySplitNl text).getLast hne = [] := by
      have := List.getLast?_eq_some_getLast hne
      simp only [beq_iff_eq] at hl
      rw [hl] at this; exact (Option.some.inj this).symm
    have hs : pySplitNl text = (pySplitNl text).dropLast ++ [[]] := by
      rw [← hlast]; exact (List.dropLast_concat_getLast hne).symm
    conv => rhs; rw [hs]
    simp [isDelim_nil]
  · rfl

theorem unclosed_count (ls : List Str) (h : splitFrontmatterLines ls = .unclosed) :
    (ls.filter isDelim).length = 1 := by
  unfold splitFrontmatterLines at h
  have hsplit := (List.takeWhile_append_dropWhile (p := isBlank) (l := ls)).symm
  cases hd : ls.dropWhile isBlank with
  | nil => simp [hd] at h
  | cons o rest =>
    rw [hd] at h hsplit
    simp only at h
    split at h
    · rename_i ho
      cases hf : findClose rest [] with
      | some t => simp [hf] at h
      | none =>
        have hr := findClose_none rest [] hf
        have h1 : (ls.takeWhile isBlank).filter isDelim = [] := by
          apply List.filter_eq_nil_iff.2
          intro l hl
          have := not_delim_of_blank (mem_takeWhile_imp' isBlank ls l hl)
          simp [this]
        have h2 : rest.filter isDelim = [] := by
          apply List.filter_eq_nil_iff.2
          intro l hl; simp [hr l hl]
        rw [hsplit, List.filter_append, h1, List.filter_cons, ho, h2]; simp
    · simp at h

theorem fmLines_snoc (text : Str) (h : '\r' ∉ text) (hne : text ≠ [])
    (hl : text.getLast? ≠ some '\n') : fmLines (text ++ ['\n']) = fmLines text := by
  have h' : '\r' ∉ text ++ ['\n'] := by simp [h]
  unfold fmLines
  rw [replaceCRLF_id _ h', replaceCRLF_id _ h]
  simp only [pySplitNl, splitNl_snoc]
  have h1 : (splitNl text [] ++ [[]]).getLast? == some [] := by simp
  simp only [h1, if_true, List.dropLast_concat]
  have h2 : ¬ ((splitNl text []).getLast? == some []) = true := by
    intro h2
    simp only [beq_iff_eq] at h2
    rcases splitNl_getLast text [] h2 with h3 | ⟨h3, _⟩
    · exact absurd h3 hl
    · exact absurd h3 hne
  simp [h2]

/-! ### a block written out line by line (string level) -/

/-- every line followed by a newline -/
def unlines (ls : List Str) : Str := (ls.map (· ++ ['\n'])).flatten

theorem unlines_cons (l : Str) (ls : List Str) : unlines (l :: ls) = l ++ '\n' :: unlines ls := by
  simp [unlines]

theorem splitNl_line : ∀ (l cur rest : Str), '\n' ∉ l →
    splitNl (l ++ '\n' :: rest) cur = (cur.reverse ++ l) :: splitNl rest []
  | [], cur, rest, _ => by simp [splitNl]
  | c :: cs, cur, rest, h => by
    have hc : c ≠ '\n' := fun e => h (by simp [e])
    have ht : '\n' ∉ cs := fun e => h (by simp [e])
    have h1 : splitNl (c :: cs ++ '\n' :: rest) cur = splitNl (cs ++ '\n' :: rest) (c :: cur) := by
      simp [splitNl, hc]
    rw [h1, splitNl_line cs (c :: cur) rest ht]; simp

theorem pySplitNl_unlines : ∀ (ls : List Str) (rest : Str), (∀ l ∈ ls, '\n' ∉ l) →
    pySplitNl (unlines ls ++ rest) = ls ++ pySplitNl rest
  | [], rest, _ => by simp [unlines]
  | l :: ls, rest, h => by
    have ih := pySplitNl_unlines ls rest (fun x hx => h x (List.mem_cons_of_mem _ hx))
    unfold pySplitNl at ih ⊢
    rw [unlines_cons, List.append_assoc, List.cons_append,
      splitNl_line l [] _ (h l List.mem_cons_self), ih]
    simp

theorem joinWith_unlines : ∀ (l : Str) (ls : List Str),
    joinWith ['\n'] (l :: ls) ++ ['\n'] = unlines (l :: ls)
  | l, [] => by simp [joinWith, unlines]
  | l, b :: ls => by
    rw [joinWith_cons_cons, unlines_cons, List.append_assoc, List.append_assoc, joinWith_unlines b ls]
    simp

theorem findClose_append : ∀ (mid : List Str) (c : Str) (rest acc : List Str),
    (∀ l ∈ mid, isDelim l = false) → isDelim c = true →
    findClose (mid ++ c :: rest) acc = some (acc.reverse ++ mid, c, rest)
  | [], c, rest, acc, _, hc => by simp [findClose, hc]
  | l :: mid, c, rest, acc, h, hc => by
    have hl : isDelim l = false := h l List.mem_cons_self
    simp only [List.cons_append, findClose, hl]
    rw [findClose_append mid c rest (l :: acc) (fun x hx => h x (List.mem_cons_of_mem _ hx)) hc]
    simp

theorem not_blank_of_delim {l : Str} (h : isDelim l = true) : isBlank l = false := by
  cases hb : isBlank l with
  | false => rfl
  | true => rw [not_delim_of_blank hb] at h; cases h

/-- the last piece of a split removed when it is empty: the joined rest is the text, or the text
without its final newline -/
def popEmptyLast (B : List Str) : List Str := if B.getLast? == some [] then B.dropLast else B

theorem join_popped (body : Str) :
    joinWith ['\n'] (popEmptyLast (pySplitNl body)) = body ∨
    joinWith ['\n'] (popEmptyLast (pySplitNl body)) ++ ['\n'] = body := by
  have hj := join_pySplitNl body
  generalize pySplitNl body = ls at hj
  unfold popEmptyLast
  split
  · rename_i hl
    have hne : ls ≠ [] := by intro h0; simp [h0] at hl
    have hlast : ls.getLast hne = [] := by
      have := List.getLast?_eq_some_getLast hne
      simp only [beq_iff_eq] at hl
      rw [hl] at this; exact (Option.some.inj this).symm
    have hs : ls = ls.dropLast ++ [[]] := by
      rw [← hlast]; exact (List.dropLast_concat_getLast hne).symm
    generalize ls.dropLast = init at hs
    subst hs
    cases init with
    | nil => left; simpa [joinWith] using hj
    | cons a t =>
      right
      rw [← hj]
      clear hj hl hne hlast
      induction t generalizing a with
      | nil => simp [joinWith]
      | cons b t ih =>
        simp only [List.cons_append, joinWith_cons_cons] at ih ⊢
        rw [← ih b]; simp [List.append_assoc]
  · left; exact hj

theorem fmLines_eq_pop (text : Str) : fmLines text = popEmptyLast (pySplitNl (replaceCRLF text)) := rfl

theorem popEmptyLast_append (A B : List Str) (hB : B ≠ []) :
    popEmptyLast (A ++ B) = A ++ popEmptyLast B := by
  unfold popEmptyLast
  have hg : (A ++ B).getLast? = B.getLast? := by
    cases B with
    | nil => exact absurd rfl hB
    | cons b t =>
      rw [List.getLast?_append, List.getLast?_eq_some_getLast (List.cons_ne_nil b t)]; rfl
  rw [hg]
  split
  · rw [List.dropLast_append_of_ne_nil hB]
  · rfl

end FM
