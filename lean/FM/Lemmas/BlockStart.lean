import FM.Model.BlockStart
import FM.Lemmas.Wrap
/-
  The Markdown escape is sufficient wherever it applies: an escaped head word cannot start a block.
-/
namespace FM

theorem all_false_of_head {w : Word} {c ch : Char} (h : w.head? = some c) (hne : (c == ch) = false) :
    w.all (· == ch) = false := by
  cases w with
  | nil => simp at h
  | cons a t => simp at h; subst h; simp [hne]

theorem setext_false (a : Char) (t : Word) (rest : Line) (h5 : (a == '=') = false) (h3 : (a == '-') = false) :
    isSetextLine ((a :: t) :: rest) = false := by
  cases rest with
  | nil => simp [isSetextLine, allCh, h5, h3]
  | cons _ _ => rfl

theorem fence_false (a : Char) (t : Word) (rest : Line) (h6 : (a == '`') = false) (h7 : (a == '~') = false) :
    isFenceHead (a :: t) rest = false := by
  simp [isFenceHead, List.takeWhile, h6, h7]

theorem rule_false (ch a : Char) (t : Word) (rest : Line) (h : (a == ch) = false) :
    isRuleLine ch ((a :: t) :: rest) = false := by
  simp [isRuleLine, h]

/-- A line whose head word starts with a character `c` that is none of `# - + * > = _ ` ~ 1`
cannot interrupt a paragraph. -/
theorem not_interrupts_of_head (w : Word) (rest : Line) (c : Char) (hw : w.head? = some c)
    (h1 : (c == '#') = false) (h2 : (c == '*') = false) (h3 : (c == '-') = false)
    (h4 : (c == '_') = false) (h5 : (c == '=') = false) (h6 : (c == '`') = false)
    (h7 : (c == '~') = false) (h8 : (c == '>') = false) (h9 : (c == '+') = false)
    (h10 : (c == '1') = false) :
    interruptsPara (w :: rest) = false := by
  cases w with
  | nil => simp at hw
  | cons a t =>
    simp at hw; subst hw
    have e1 : (a = '#') = False := by simpa using h1
    have e2 : (a = '*') = False := by simpa using h2
    have e3 : (a = '-') = False := by simpa using h3
    have e8 : (a = '>') = False := by simpa using h8
    have e9 : (a = '+') = False := by simpa using h9
    have e10 : (a = '1') = False := by simpa using h10
    simp only [interruptsPara]
    rw [setext_false a t rest h5 h3, fence_false a t rest h6 h7, rule_false '*' a t rest h2,
      rule_false '-' a t rest h3, rule_false '_' a t rest h4]
    simp [isAtxHead, allCh, isBulletHead, isOrderedHead, isQuoteHead, e1, e2, e3, e8, e9, e10]

theorem backslash_head_safe (w : Word) (rest : Line) : interruptsPara (('\\' :: w) :: rest) = false :=
  not_interrupts_of_head _ rest '\\' rfl (by decide) (by decide) (by decide) (by decide) (by decide)
    (by decide) (by decide) (by decide) (by decide) (by decide)

theorem ne_of_digit {a ch : Char} (hd : a.isDigit = true) (hch : ch.isDigit = false) : (a == ch) = false := by
  by_cases h : a = ch
  · subst h; rw [hd] at hch; cases hch
  · simpa using h

/-- A head word that starts with a digit and has at least three characters cannot start a block
(an ordered marker that interrupts a paragraph is exactly `1.` or `1)`). -/
theorem digit_head_safe (a : Char) (t : Word) (rest : Line) (hd : a.isDigit = true) (hlen : 2 ≤ t.length) :
    interruptsPara ((a :: t) :: rest) = false := by
  have n1 := ne_of_digit (ch := '#') hd (by decide)
  have n2 := ne_of_digit (ch := '*') hd (by decide)
  have n3 := ne_of_digit (ch := '-') hd (by decide)
  have n4 := ne_of_digit (ch := '_') hd (by decide)
  have n5 := ne_of_digit (ch := '=') hd (by decide)
  have n6 := ne_of_digit (ch := '`') hd (by decide)
  have n7 := ne_of_digit (ch := '~') hd (by decide)
  have n8 := ne_of_digit (ch := '>') hd (by decide)
  have n9 := ne_of_digit (ch := '+') hd (by decide)
  have e1 : (a = '#') = False := by simpa using n1
  have e8 : (a = '>') = False := by simpa using n8
  simp only [interruptsPara]
  rw [setext_false a t rest n5 n3, fence_false a t rest n6 n7, rule_false '*' a t rest n2,
    rule_false '-' a t rest n3, rule_false '_' a t rest n4]
  have hb : isBulletHead (a :: t) rest = false := by
    cases t with
    | nil => simp at hlen
    | cons b t' => simp [isBulletHead]
  have ho : isOrderedHead (a :: t) rest = false := by
    cases t with
    | nil => simp at hlen
    | cons b t' =>
      cases t' with
      | nil => simp at hlen
      | cons c t'' => simp [isOrderedHead]
  simp [isAtxHead, allCh, isQuoteHead, e1, e8, hb, ho]

/-- The escape is sufficient wherever it applies. -/
theorem escaped_head_safe (w : Word) (rest : Line) (h : isSpecialWord w = true ∨ isNumeralWord w = true) :
    interruptsPara (escapeWord w :: rest) = false := by
  unfold escapeWord
  cases hl : w.getLast? with
  | none =>
    have : w = [] := by simpa [List.getLast?_eq_none_iff] using hl
    subst this
    rcases h with h | h <;> simp [isSpecialWord, isNumeralWord] at h
  | some l =>
    simp only
    split
    · -- numeral: digits ++ ['\\', l]
      rename_i hnum
      simp only [Bool.and_eq_true, Bool.not_eq_true'] at hnum
      obtain ⟨⟨_, hne⟩, hall⟩ := hnum
      cases hd : w.dropLast with
      | nil => simp [hd] at hne
      | cons a t =>
        rw [hd] at hall
        have ha : a.isDigit = true := by simpa using (List.all_eq_true.1 hall) a (by simp)
        exact digit_head_safe a (t ++ ['\\', l]) rest ha (by simp)
    · rename_i hnot
      split
      · exact backslash_head_safe w rest
      · rename_i hns
        rcases h with h | h
        · exact absurd h hns
        · exfalso
          apply hnot
          simpa [isNumeralWord, hl] using h

end FM
