import FM.Model.FullWrap
import FM.Lemmas.Wrap
/-
  Helper lemmas for C03: what the wrappers see of the source layout.
-/
namespace FM

/-! ### whitespace collapsing -/

/-- the "inside a whitespace run" flag after scanning `a` starting with flag `b` -/
def endSp : Bool → Str → Bool
  | b, [] => b
  | _, c :: a => endSp (isPySpace c) a

theorem endSp_cons (b : Bool) (c : Char) (a : Str) : endSp b (c :: a) = endSp (isPySpace c) a := rfl

theorem collapseAux_append (b : Bool) (a r : Str) :
    collapseAux b (a ++ r) = collapseAux b a ++ collapseAux (endSp b a) r := by
  induction a generalizing b with
  | nil => simp [collapseAux, endSp]
  | cons c a ih =>
    rw [endSp_cons]
    simp only [List.cons_append, collapseAux]
    by_cases hc : isPySpace c = true
    · simp only [hc, if_true]
      cases b <;> simp [ih]
    · have hc' : isPySpace c = false := by simpa using hc
      simp [hc', ih]

theorem collapseAux_ws (b : Bool) (w : Char) (hw : isPySpace w = true) (r : Str) :
    collapseAux b (w :: r) = (if b then [] else [' ']) ++ collapseAux true r := by
  simp only [collapseAux, hw, if_true]
  cases b <;> simp

/-- replacing one whitespace character by another (a line break moved to another space) -/
theorem collapseWs_swap (a r : Str) (w1 w2 : Char) (h1 : isPySpace w1 = true) (h2 : isPySpace w2 = true) :
    collapseWs (a ++ w1 :: r) = collapseWs (a ++ w2 :: r) := by
  unfold collapseWs
  rw [collapseAux_append, collapseAux_append, collapseAux_ws _ w1 h1, collapseAux_ws _ w2 h2]

/-- multiplying whitespace (runs of spaces, re-indented continuation lines) -/
theorem collapseWs_dup (a r : Str) (w1 w2 : Char) (h1 : isPySpace w1 = true) (h2 : isPySpace w2 = true) :
    collapseWs (a ++ w1 :: w2 :: r) = collapseWs (a ++ w1 :: r) := by
  unfold collapseWs
  rw [collapseAux_append, collapseAux_append, collapseAux_ws _ w1 h1, collapseAux_ws _ w1 h1,
    collapseAux_ws _ w2 h2]
  simp

theorem isPySpace_space : isPySpace ' ' = true := by decide

/-- `str.split()` does not see the collapsing -/
theorem splitOnP_collapse : ∀ (s : Str) (b : Bool) (cur : Word), (b = true → cur = []) →
    splitOnP isPySpace (collapseAux b s) cur = splitOnP isPySpace s cur
  | [], _, _, _ => by simp [collapseAux]
  | c :: cs, b, cur, hb => by
    by_cases hc : isPySpace c = true
    · cases b with
      | true =>
        have := hb rfl; subst this
        simp only [collapseAux, hc, if_true, splitOnP]
        simpa using splitOnP_collapse cs true [] (fun _ => rfl)
      | false =>
        simp only [collapseAux, hc, if_true, splitOnP, Bool.false_eq_true, if_false, isPySpace_space]
        rw [splitOnP_collapse cs true [] (fun _ => rfl)]
    · have hc' : isPySpace c = false := by simpa using hc
      simp only [collapseAux, hc', Bool.false_eq_true, if_false, splitOnP]
      exact splitOnP_collapse cs false (c :: cur) (by simp)

theorem pySplit_collapse (s : Str) : pySplit (collapseWs s) = pySplit s :=
  splitOnP_collapse s false [] (by simp)

theorem splitOnP_map (f : Char → Char) (p : Char → Bool) (hf : ∀ c, p (f c) = p c)
    (hid : ∀ c, p c = false → f c = c) : ∀ (s : Str) (cur : Word),
    splitOnP p (s.map f) cur = splitOnP p s cur
  | [], _ => by simp [splitOnP]
  | c :: cs, cur => by
    simp only [List.map_cons, splitOnP, hf]
    by_cases hc : p c = true
    · simp [hc, splitOnP_map f p hf hid cs []]
    · have hc' : p c = false := by simpa using hc
      simp [hc', hid c hc', splitOnP_map f p hf hid cs (c :: cur)]

def nlToSp (c : Char) : Char := if c == '\n' then ' ' else c

theorem isPySpace_nl : isPySpace '\n' = true := by decide

theorem pySplit_nlToSp (s : Str) : pySplit (s.map nlToSp) = pySplit s := by
  apply splitOnP_map
  · intro c; unfold nlToSp; split
    · rename_i h; have : c = '\n' := by simpa using h
      subst this; simp [isPySpace_space, isPySpace_nl]
    · rfl
  · intro c hc; unfold nlToSp; split
    · rename_i h; have : c = '\n' := by simpa using h
      subst this; simp [isPySpace_nl] at hc
    · rfl

/-! ### the wrapper layers on text without tag lines and hard breaks -/

theorem splitHardBreaks_no_nl : ∀ (s cur : Str), '\n' ∉ s → splitHardBreaks s cur = [cur.reverse ++ s]
  | [], cur, _ => by simp [splitHardBreaks]
  | c :: cs, cur, h => by
    have hc : c ≠ '\n' := fun e => h (by simp [e])
    have hcs : '\n' ∉ cs := fun e => h (by simp [e])
    have hb : (c == '\n') = false := by simpa using hc
    simp only [splitHardBreaks, hb, Bool.false_eq_true, if_false]
    rw [splitHardBreaks_no_nl cs (c :: cur) hcs]; simp

theorem hardBreakWrapper_no_nl (base : LineWrapper) (text i0 s0 : Str) (h : '\n' ∉ text) :
    hardBreakWrapper base text i0 s0 = base text i0 s0 := by
  unfold hardBreakWrapper
  rw [splitHardBreaks_no_nl text [] h]

theorem tagWrapper_no_nl (base : LineWrapper) (text i0 s0 : Str) (h : '\n' ∉ text) :
    tagWrapper base text i0 s0 = fixMultilineOpening (base text i0 s0) := by
  unfold tagWrapper
  split
  · rfl
  · rename_i hc
    simp at hc
    exact absurd hc h

/-- with no tag at a line edge nothing forces a segment boundary -/
theorem segmentLines_tagfree : ∀ (lines : List Str) (prev : Option Str) (cur : List Str),
    (∀ l ∈ lines, lineEndsWithTag l = false ∧ isUnindentedTagLine l = false) →
    (∀ p, prev = some p → lineEndsWithTag p = false) →
    (segmentLines false lines prev cur).length ≤ 1
  | [], _, cur, _, _ => by simp only [segmentLines]; split <;> simp
  | line :: rest, prev, cur, h, hp => by
    have hl := h line (by simp)
    have ih := segmentLines_tagfree rest (some line) (line :: cur) (fun l hl' => h l (by simp [hl']))
      (fun p hp' => by cases hp'; exact hl.1)
    cases prev with
    | none => simpa [segmentLines, hl.2] using ih
    | some p =>
      have := hp p rfl
      simpa [segmentLines, hl.2, this] using ih

theorem segmentLines_ne_nil (hasTags : Bool) : ∀ (lines : List Str) (prev : Option Str) (cur : List Str),
    (lines ≠ [] ∨ cur ≠ []) → segmentLines hasTags lines prev cur ≠ []
  | [], _, cur, h => by
    have hc : cur ≠ [] := by rcases h with h | h; exact absurd rfl h; exact h
    cases cur with
    | nil => exact absurd rfl hc
    | cons a t => simp [segmentLines]
  | line :: rest, prev, cur, _ => by
    have ih := segmentLines_ne_nil hasTags rest (some line) (line :: cur) (Or.inr (by simp))
    cases prev <;> (simp only [segmentLines]; split; simp; exact ih)

theorem pySplitNl_ne_nil (s : Str) : pySplitNl s ≠ [] := by
  unfold pySplitNl
  generalize ([] : Str) = cur
  induction s generalizing cur with
  | nil => simp [splitNl]
  | cons c cs ih =>
    unfold splitNl
    split
    · simp
    · exact ih _

theorem isUnindented_of_starts {l : Str} (h : lineStartsWithTag l = false) : isUnindentedTagLine l = false := by
  simp [isUnindentedTagLine, h]

/-- lines with no tag at either edge: the tag layer hands the whole text to the base wrapper -/
theorem tagWrapper_tagfree (base : LineWrapper) (text i0 s0 : Str)
    (h : ∀ l ∈ pySplitNl text, lineEndsWithTag l = false ∧ lineStartsWithTag l = false) :
    tagWrapper base text i0 s0 = fixMultilineOpening (base text i0 s0) := by
  unfold tagWrapper
  split
  · rfl
  · have hany : ((pySplitNl text).any fun l => lineEndsWithTag l || lineStartsWithTag l) = false := by
      rw [List.any_eq_false]
      intro l hl
      simp [(h l hl).1, (h l hl).2]
    simp only [hany]
    have hle := segmentLines_tagfree (pySplitNl text) none []
      (fun l hl => ⟨(h l hl).1, isUnindented_of_starts (h l hl).2⟩) (by simp)
    have hne := segmentLines_ne_nil false (pySplitNl text) none [] (Or.inl (pySplitNl_ne_nil text))
    have hlen : (segmentLines false (pySplitNl text) none []).length = 1 := by
      have : 0 < (segmentLines false (pySplitNl text) none []).length := List.length_pos_iff.mpr hne
      omega
    simp [hlen]

theorem hardBreakWrapper_single (base : LineWrapper) (text i0 s0 : Str)
    (h : (splitHardBreaks text []).length = 1) : hardBreakWrapper base text i0 s0 = base text i0 s0 := by
  unfold hardBreakWrapper
  match hs : splitHardBreaks text [] with
  | [] => simp [hs] at h
  | [_] => rfl
  | _ :: _ :: _ => simp [hs] at h

theorem LinesOf.flatten_fix {esc : Word → Word} {first ws ls} (h : LinesOf esc first ws ls)
    (hf : ∀ w ∈ ws, esc w = w) : ls.flatten = ws := by
  induction h with
  | nil => rfl
  | cons first hd t rest ls _ ih =>
    have h1 : esc hd = hd := hf hd (by simp)
    have h2 := ih (fun w hw => hf w (by simp [hw]))
    cases first <;> simp [h1, h2]

end FM
