import FM.Model.Route
/-
  Helper lemmas about the in-place loop of `reformat_files`.
-/
namespace FM.Route

/-- every action of the in-place loop writes a file's own text over that file, with the backup the flags ask for -/
theorem inplaceLoop_shape (nb : Bool) : ∀ (files : List Arg) (seen : List Nat) (a : Action),
    a ∈ inplaceLoop nb files seen →
    ∃ id, a = .toFile (.file id) id (!nb) ∧ Arg.file id ∈ files ∧ id ∉ seen
  | [], _, a, h => by simp [inplaceLoop] at h
  | .stdin :: rest, seen, a, h => by
    simp only [inplaceLoop] at h
    obtain ⟨id, h1, h2, h3⟩ := inplaceLoop_shape nb rest seen a h
    exact ⟨id, h1, List.mem_cons_of_mem _ h2, h3⟩
  | .file i :: rest, seen, a, h => by
    simp only [inplaceLoop] at h
    split at h
    · obtain ⟨id, h1, h2, h3⟩ := inplaceLoop_shape nb rest seen a h
      exact ⟨id, h1, List.mem_cons_of_mem _ h2, h3⟩
    · rename_i hs
      rcases List.mem_cons.1 h with rfl | h
      · exact ⟨i, rfl, List.mem_cons_self, by simpa using hs⟩
      · obtain ⟨id, h1, h2, h3⟩ := inplaceLoop_shape nb rest (i :: seen) a h
        exact ⟨id, h1, List.mem_cons_of_mem _ h2, fun hm => h3 (List.mem_cons_of_mem _ hm)⟩

/-- every file argument not yet seen gets its action -/
theorem inplaceLoop_complete (nb : Bool) : ∀ (files : List Arg) (seen : List Nat) (id : Nat),
    Arg.file id ∈ files → id ∉ seen → Action.toFile (.file id) id (!nb) ∈ inplaceLoop nb files seen
  | [], _, _, h, _ => by simp at h
  | .stdin :: rest, seen, id, h, hs => by
    simp only [inplaceLoop]
    rcases List.mem_cons.1 h with h | h
    · cases h
    · exact inplaceLoop_complete nb rest seen id h hs
  | .file i :: rest, seen, id, h, hs => by
    simp only [inplaceLoop]
    by_cases hi : id = i
    · subst hi
      simp [hs]
    · have h' : Arg.file id ∈ rest := by
        rcases List.mem_cons.1 h with h | h
        · cases h; exact absurd rfl hi
        · exact h
      split
      · exact inplaceLoop_complete nb rest seen id h' hs
      · exact List.mem_cons_of_mem _ (inplaceLoop_complete nb rest (i :: seen) id h' (by simp [hi, hs]))

/-- no target is written twice -/
theorem inplaceLoop_nodup (nb : Bool) : ∀ (files : List Arg) (seen : List Nat),
    ((inplaceLoop nb files seen).filterMap Action.target?).Nodup
  | [], _ => by simp [inplaceLoop]
  | .stdin :: rest, seen => by simpa [inplaceLoop] using inplaceLoop_nodup nb rest seen
  | .file i :: rest, seen => by
    simp only [inplaceLoop]
    split
    · exact inplaceLoop_nodup nb rest seen
    · simp only [List.filterMap_cons, Action.target?, List.nodup_cons]
      refine ⟨?_, inplaceLoop_nodup nb rest (i :: seen)⟩
      intro hm
      obtain ⟨a, ha, hta⟩ := List.mem_filterMap.1 hm
      obtain ⟨id, rfl, _, h3⟩ := inplaceLoop_shape nb rest (i :: seen) a ha
      simp only [Action.target?, Option.some.injEq] at hta
      exact h3 (by simp [hta])

end FM.Route
