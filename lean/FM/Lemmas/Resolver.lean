import FM.Model.Resolver
/-
  Helper lemmas for the resolver model: the traversal against its specification, the path order,
  sorted insertion.
-/
namespace FM.Res

/-! ### traversal = specification -/

/-- SPEC of directory traversal: a path is listed iff it is a regular file that passes the file
filters, reached from the children `cs` of the directory at `parent` through directories that are
not links and not excluded.  Only membership in the children lists is used. -/
inductive Kept (env : Env) : RelPath → List Node → RelPath → Prop
  | file {parent : RelPath} {cs : List Node} {name : Name} {size : Nat} {link : Bool} :
      Node.file name size link ∈ cs → fileOk env parent name size link = true →
      Kept env parent cs (parent ++ [name])
  | dir {parent : RelPath} {cs : List Node} {name : Name} {kids : List Node} {p : RelPath} :
      Node.dir name false kids ∈ cs → dirExcluded env parent name = false →
      Kept env (parent ++ [name]) kids p → Kept env parent cs p

theorem Kept.mono {env : Env} {parent : RelPath} {cs cs' : List Node} {p : RelPath}
    (h : Kept env parent cs p) (hm : ∀ n ∈ cs, n ∈ cs') : Kept env parent cs' p := by
  cases h with
  | file hmem hok => exact .file (hm _ hmem) hok
  | dir hmem hex hk => exact .dir (hm _ hmem) hex hk

mutual
  theorem walkNode_sound (env : Env) : ∀ (n : Node) (parent p : RelPath),
      p ∈ walkNode env parent n → Kept env parent [n] p
    | .file name size link, parent, p, h => by
      simp only [walkNode] at h
      split at h
      · rename_i hok
        simp at h; subst h
        exact .file (by simp) hok
      · simp at h
    | .dir name link kids, parent, p, h => by
      simp only [walkNode] at h
      split at h
      · simp at h
      · rename_i hc
        simp at hc
        obtain ⟨hl, hex⟩ := hc
        subst hl
        exact .dir (by simp) hex (walkNodes_sound env kids (parent ++ [name]) p h)
  theorem walkNodes_sound (env : Env) : ∀ (cs : List Node) (parent p : RelPath),
      p ∈ walkNodes env parent cs → Kept env parent cs p
    | [], _, _, h => by simp [walkNodes] at h
    | n :: ns, parent, p, h => by
      simp only [walkNodes, List.mem_append] at h
      rcases h with h | h
      · exact (walkNode_sound env n parent p h).mono (by simp)
      · exact (walkNodes_sound env ns parent p h).mono (by intro m hm; simp [hm])
end

theorem mem_walkNodes_of_mem (env : Env) (parent : RelPath) : ∀ (cs : List Node) (n : Node) (p : RelPath),
    n ∈ cs → p ∈ walkNode env parent n → p ∈ walkNodes env parent cs
  | [], _, _, h, _ => by simp at h
  | m :: ms, n, p, h, hp => by
    simp only [walkNodes, List.mem_append]
    rcases List.mem_cons.1 h with rfl | h
    · exact Or.inl hp
    · exact Or.inr (mem_walkNodes_of_mem env parent ms n p h hp)

theorem walkNodes_complete (env : Env) {parent : RelPath} {cs : List Node} {p : RelPath}
    (h : Kept env parent cs p) : p ∈ walkNodes env parent cs := by
  induction h with
  | file hmem hok =>
    exact mem_walkNodes_of_mem env _ _ _ _ hmem (by simp [walkNode, hok])
  | dir hmem hex _ ih =>
    exact mem_walkNodes_of_mem env _ _ _ _ hmem (by simp [walkNode, hex, ih])

theorem mem_walkNodes_iff (env : Env) (parent : RelPath) (cs : List Node) (p : RelPath) :
    p ∈ walkNodes env parent cs ↔ Kept env parent cs p :=
  ⟨walkNodes_sound env cs parent p, walkNodes_complete env⟩

/-! ### the order -/

section Lex
variable {α : Type} [BEq α] [LawfulBEq α] (lt : α → α → Bool)

theorem lex_irrefl (hi : ∀ a, lt a a = false) : ∀ l : List α, lex lt l l = false
  | [] => rfl
  | a :: as => by simp [lex, hi, lex_irrefl hi as]

theorem lex_trans (hi : ∀ a, lt a a = false) (ht : ∀ a b c, lt a b = true → lt b c = true → lt a c = true) :
    ∀ (x y z : List α), lex lt x y = true → lex lt y z = true → lex lt x z = true
  | [], [], _, h, _ => by simp [lex] at h
  | [], _ :: _, [], _, h => by simp [lex] at h
  | [], _ :: _, _ :: _, _, _ => by simp [lex]
  | _ :: _, [], _, h, _ => by simp [lex] at h
  | _ :: _, _ :: _, [], _, h => by simp [lex] at h
  | a :: as, b :: bs, c :: cs, h1, h2 => by
    simp only [lex, Bool.or_eq_true, Bool.and_eq_true, beq_iff_eq] at h1 h2 ⊢
    rcases h1 with h1 | ⟨rfl, h1⟩
    · rcases h2 with h2 | ⟨rfl, _⟩
      · exact Or.inl (ht _ _ _ h1 h2)
      · exact Or.inl h1
    · rcases h2 with h2 | ⟨rfl, h2⟩
      · exact Or.inl h2
      · exact Or.inr ⟨rfl, lex_trans hi ht as bs cs h1 h2⟩

theorem lex_tri (htri : ∀ a b, lt a b = false → lt b a = false → a = b) :
    ∀ (x y : List α), lex lt x y = false → lex lt y x = false → x = y
  | [], [], _, _ => rfl
  | [], _ :: _, h, _ => by simp [lex] at h
  | _ :: _, [], _, h => by simp [lex] at h
  | a :: as, b :: bs, h1, h2 => by
    simp only [lex, Bool.or_eq_false_iff, Bool.and_eq_false_imp, beq_iff_eq] at h1 h2
    have hab : a = b := htri a b h1.1 h2.1
    subst hab
    rw [lex_tri htri as bs (h1.2 rfl) (h2.2 rfl)]
end Lex

theorem ltNat_irrefl (a : Nat) : ltNat a a = false := by simp [ltNat]
theorem ltNat_trans (a b c : Nat) (h1 : ltNat a b = true) (h2 : ltNat b c = true) : ltNat a c = true := by
  simp [ltNat] at *; omega
theorem ltNat_tri (a b : Nat) (h1 : ltNat a b = false) (h2 : ltNat b a = false) : a = b := by
  simp [ltNat] at *; omega

theorem ltName_irrefl (a : Name) : ltName a a = false := lex_irrefl ltNat ltNat_irrefl a
theorem ltName_trans (a b c : Name) : ltName a b = true → ltName b c = true → ltName a c = true :=
  lex_trans ltNat ltNat_irrefl ltNat_trans a b c
theorem ltName_tri (a b : Name) : ltName a b = false → ltName b a = false → a = b :=
  lex_tri ltNat ltNat_tri a b

theorem ltPath_irrefl (a : RelPath) : ltPath a a = false := lex_irrefl ltName ltName_irrefl a
theorem ltPath_trans (a b c : RelPath) : ltPath a b = true → ltPath b c = true → ltPath a c = true :=
  lex_trans ltName ltName_irrefl ltName_trans a b c
theorem ltPath_tri (a b : RelPath) : ltPath a b = false → ltPath b a = false → a = b :=
  lex_tri ltName ltName_tri a b

theorem ltPath_asymm (a b : RelPath) (h : ltPath a b = true) : ltPath b a = false := by
  cases hb : ltPath b a with
  | false => rfl
  | true => have := ltPath_trans a b a h hb; rw [ltPath_irrefl] at this; cases this

/-! ### sorted insertion -/

/-- strictly increasing -/
def Sorted (l : List RelPath) : Prop := l.Pairwise fun a b => ltPath a b = true

theorem mem_insertP (p q : RelPath) : ∀ l : List RelPath, q ∈ insertP p l ↔ q = p ∨ q ∈ l
  | [] => by simp [insertP]
  | r :: rs => by
    unfold insertP
    split
    · simp
    · split
      · rename_i _ he
        have : p = r := by simpa using he
        subst this
        simp
      · simp only [List.mem_cons, mem_insertP p q rs]
        constructor
        · rintro (h | h | h)
          · exact Or.inr (Or.inl h)
          · exact Or.inl h
          · exact Or.inr (Or.inr h)
        · rintro (h | h | h)
          · exact Or.inr (Or.inl h)
          · exact Or.inl h
          · exact Or.inr (Or.inr h)

theorem sorted_insertP (p : RelPath) : ∀ l : List RelPath, Sorted l → Sorted (insertP p l)
  | [], _ => by simp [insertP, Sorted]
  | r :: rs, h => by
    unfold Sorted at h ⊢
    rw [List.pairwise_cons] at h
    unfold insertP
    split
    · rename_i hlt
      rw [List.pairwise_cons]
      refine ⟨?_, List.pairwise_cons.2 h⟩
      intro x hx
      rcases List.mem_cons.1 hx with rfl | hx
      · exact hlt
      · exact ltPath_trans _ _ _ hlt (h.1 x hx)
    · split
      · exact List.pairwise_cons.2 h
      · rename_i hnlt hne
        have hrp : ltPath r p = true := by
          cases hrp : ltPath r p with
          | true => rfl
          | false =>
            have hnlt' : ltPath p r = false := by simpa using hnlt
            have := ltPath_tri p r hnlt' hrp
            simp [this] at hne
        rw [List.pairwise_cons]
        refine ⟨?_, sorted_insertP p rs h.2⟩
        intro x hx
        rcases (mem_insertP p x rs).1 hx with rfl | hx
        · exact hrp
        · exact h.1 x hx

theorem foldl_insertP_spec (ps : List RelPath) : ∀ (acc : List RelPath), Sorted acc →
    Sorted (ps.foldl (fun acc p => insertP p acc) acc) ∧
    ∀ q, q ∈ ps.foldl (fun acc p => insertP p acc) acc ↔ q ∈ ps ∨ q ∈ acc := by
  induction ps with
  | nil => intro acc h; simp [h]
  | cons p ps ih =>
    intro acc h
    have := ih (insertP p acc) (sorted_insertP p acc h)
    refine ⟨this.1, ?_⟩
    intro q
    rw [List.foldl_cons, this.2 q, mem_insertP]
    simp only [List.mem_cons]
    constructor
    · rintro (h | h | h)
      · exact Or.inl (Or.inr h)
      · exact Or.inl (Or.inl h)
      · exact Or.inr h
    · rintro ((h | h) | h)
      · exact Or.inr (Or.inl h)
      · exact Or.inl h
      · exact Or.inr (Or.inr h)

/-- a strictly increasing list is determined by its members -/
theorem sorted_ext : ∀ (l l' : List RelPath), Sorted l → Sorted l' → (∀ q, q ∈ l ↔ q ∈ l') → l = l'
  | [], [], _, _, _ => rfl
  | [], b :: _, _, _, h => by have := (h b).2 (by simp); simp at this
  | a :: _, [], _, _, h => by have := (h a).1 (by simp); simp at this
  | a :: l, b :: l', h1, h2, h => by
    unfold Sorted at h1 h2
    rw [List.pairwise_cons] at h1 h2
    have hab : a = b := by
      have ha := (h a).1 (by simp)
      have hb := (h b).2 (by simp)
      rcases List.mem_cons.1 ha with e | ha
      · exact e
      · rcases List.mem_cons.1 hb with e | hb
        · exact e.symm
        · have h3 := h2.1 a ha
          have h4 := h1.1 b hb
          rw [ltPath_asymm _ _ h3] at h4; cases h4
    subst hab
    have hnot : ∀ (m : List RelPath), (∀ x ∈ m, ltPath a x = true) → a ∉ m := by
      intro m hm hin
      have := hm a hin
      rw [ltPath_irrefl] at this; cases this
    congr 1
    apply sorted_ext l l' h1.2 h2.2
    intro q
    constructor
    · intro hq
      have := (h q).1 (by simp [hq])
      rcases List.mem_cons.1 this with e | hq'
      · subst e; exact absurd hq (hnot l h1.1)
      · exact hq'
    · intro hq
      have := (h q).2 (by simp [hq])
      rcases List.mem_cons.1 this with e | hq'
      · subst e; exact absurd hq (hnot l' h2.1)
      · exact hq'

end FM.Res
