import FM.Model.FsMachine
/-
  Helper lemmas for the file-system machine: frame, phase 1 of a job, list surgery.
-/
namespace FM.Fs

/-- frame: an operation list that does not name a path leaves it alone -/
theorem exec_frame (q : Path) : ∀ (ops : List Op) (s : State), (∀ op ∈ ops, q ∉ op.paths) → exec s ops q = s q
  | [], _, _ => rfl
  | op :: ops, s, h => by
    have h1 : q ∉ op.paths := h op (by simp)
    have h2 := exec_frame q ops (apply s op) (fun o ho => h o (by simp [ho]))
    simp only [exec, List.foldl_cons] at h2 ⊢
    rw [h2]
    cases op <;> simp_all [apply, Op.paths]

theorem exec_append (s : State) (a b : List Op) : exec s (a ++ b) = exec (exec s a) b := by
  simp [exec, List.foldl_append]

/-- phase 1 only ever names the temporary file -/
theorem writeOps_paths (j : Job) : ∀ op ∈ j.writeOps, op.paths = [j.tmp] := by
  intro op h
  simp only [Job.writeOps, List.mem_cons, List.mem_map] at h
  rcases h with rfl | ⟨c, _, rfl⟩ <;> rfl

/-- after phase 1 the temporary file holds exactly the new content -/
theorem exec_appends (p : Path) : ∀ (cs : List Content) (s : State) (c0 : Content), s p = some c0 →
    exec s (cs.map (.append p)) p = some (c0 ++ cs.flatten)
  | [], s, c0, h => by simp [exec, h]
  | c :: cs, s, c0, h => by
    simp only [List.map_cons, exec, List.foldl_cons]
    have := exec_appends p cs (apply s (.append p c)) (c0 ++ c) (by simp [apply, h])
    simp only [exec] at this
    rw [this]; simp

theorem exec_writeOps_tmp (j : Job) (s : State) : exec s j.writeOps j.tmp = some j.new := by
  simp only [Job.writeOps, exec, List.foldl_cons]
  have := exec_appends j.tmp j.chunks (apply s (.create j.tmp)) [] (by simp [apply])
  simpa [exec, Job.new] using this

theorem take_prefix_of_le {α} (a b : List α) (k : Nat) (h : k ≤ a.length) : (a ++ b).take k = a.take k := by
  rw [List.take_append]; simp [Nat.sub_eq_zero_of_le h]

theorem take_of_gt {α} (a b : List α) (k : Nat) (h : a.length ≤ k) : (a ++ b).take k = a ++ b.take (k - a.length) := by
  rw [List.take_append, List.take_of_length_le h]

/-- a job's operations name only its own three paths -/
theorem ops_paths (j : Job) : ∀ op ∈ j.ops, ∀ q ∈ op.paths, q ∈ j.paths := by
  intro op hop q hq
  simp only [Job.ops, Job.moveOps, Job.writeOps, List.mem_append, List.mem_cons, List.mem_map] at hop
  rcases hop with (rfl | ⟨c, _, rfl⟩) | hop
  · simp [Op.paths] at hq; simp [Job.paths, hq]
  · simp [Op.paths] at hq; simp [Job.paths, hq]
  · cases hb : j.backup <;> simp [hb] at hop
    · subst hop; simp [Op.paths] at hq; rcases hq with rfl | rfl <;> simp [Job.paths]
    · rcases hop with rfl | rfl <;> (simp [Op.paths] at hq; rcases hq with rfl | rfl <;> simp [Job.paths])

end FM.Fs
