import FM.Model.Sentence
import FM.Lemmas.Wrap
/-
  Helper lemmas for the sentence fold: a step looks only at the last line (frame lemma).
-/
namespace FM

theorem getLast?_append_ne {α} (pre suf : List α) (h : suf ≠ []) :
    (pre ++ suf).getLast? = suf.getLast? := by
  rw [List.getLast?_append]
  cases hs : suf.getLast? with
  | none => simp [List.getLast?_eq_none_iff] at hs; exact absurd hs h
  | some x => simp

theorem mergeLast_frame (c : SCfg) (pre suf : List Line) (last : Line) (wr : List Line)
    (h : suf ≠ []) : mergeLast c (pre ++ suf) last wr = pre ++ mergeLast c suf last wr := by
  cases wr with
  | nil => rfl
  | cons w0 rest =>
    simp only [mergeLast]
    split
    · rw [List.dropLast_append_of_ne_nil h]; simp [List.append_assoc]
    · simp [List.append_assoc]

theorem mergeLast_ne_nil (c : SCfg) (lines : List Line) (last : Line) (wr : List Line)
    (h : lines ≠ []) : mergeLast c lines last wr ≠ [] := by
  cases wr with
  | nil => exact h
  | cons w0 rest => simp only [mergeLast]; split <;> simp

theorem sentStep_frame (c : SCfg) (first : Bool) (pre suf : List Line) (s : List Word)
    (h : suf ≠ []) : sentStep c first (pre ++ suf) s = pre ++ sentStep c first suf s := by
  unfold sentStep
  rw [getLast?_append_ne pre suf h]
  cases hl : suf.getLast? with
  | none => simp [List.getLast?_eq_none_iff] at hl; exact absurd hl h
  | some last =>
    simp only
    split
    · exact mergeLast_frame c pre suf last _ h
    · simp [List.append_assoc]

theorem sentStep_ne_nil (c : SCfg) (first : Bool) (lines : List Line) (s : List Word)
    (h : lines ≠ []) : sentStep c first lines s ≠ [] := by
  unfold sentStep
  cases hl : lines.getLast? with
  | none => simp [List.getLast?_eq_none_iff] at hl; exact absurd hl h
  | some last =>
    simp only
    split
    · exact mergeLast_ne_nil c lines last _ h
    · simp [h]

theorem foldSent_frame (c : SCfg) : ∀ (ss : List (List Word)) (first : Bool) (pre suf : List Line),
    suf ≠ [] → foldSent c first (pre ++ suf) ss = pre ++ foldSent c first suf ss := by
  intro ss
  induction ss with
  | nil => intros; rfl
  | cons s ss ih =>
    intro first pre suf h
    simp only [foldSent]
    rw [sentStep_frame c first pre suf s h]
    exact ih false pre _ (sentStep_ne_nil c first suf s h)

theorem foldSent_append (c : SCfg) : ∀ (a b : List (List Word)) (first : Bool) (lines : List Line),
    foldSent c first lines (a ++ b) =
      foldSent c (first && a.isEmpty) (foldSent c first lines a) b := by
  intro a
  induction a with
  | nil => intro b first lines; simp [foldSent]
  | cons s a ih =>
    intro b first lines
    simp only [List.cons_append, foldSent, List.isEmpty_cons, Bool.and_false]
    rw [ih b false]; simp

/-- A step from a state whose last line is long does not look at the state at all. -/
theorem sentStep_long (c : SCfg) (L : List Line) (l : Line) (s : List Word)
    (h : c.minLen ≤ lineLen l) :
    sentStep c false (L ++ [l]) s = L ++ [l] ++ fill c.W c.s0 c.md c.s0 s := by
  unfold sentStep
  rw [getLast?_append_ne L [l] (by simp)]
  simp only [List.getLast?_singleton]
  have : ¬ lineLen l < c.minLen := by omega
  simp [this]

theorem sentStep_nil (c : SCfg) (s : List Word) :
    sentStep c false [] s = fill c.W c.s0 c.md c.s0 s := by
  simp [sentStep]

theorem pickWrapped_eq (c : SCfg) (col0 : Nat) (s : List Word) :
    ∃ col, pickWrapped c col0 s = fill c.W c.s0 c.md col s := by
  unfold pickWrapped
  cases hf : fill c.W c.s0 c.md col0 s with
  | nil => exact ⟨col0, by simp [hf]⟩
  | cons w0 rest =>
    simp only
    split
    · exact ⟨c.s0, rfl⟩
    · exact ⟨col0, by simp [hf]⟩

theorem mergeLast_shape (c : SCfg) (lines : List Line) (last : Line) (wr : List Line) :
    mergeLast c lines last wr = lines ++ wr ∨
    ∃ w0 rest, wr = w0 :: rest ∧ mergeLast c lines last wr = lines.dropLast ++ (last ++ w0) :: rest := by
  cases wr with
  | nil => left; simp [mergeLast]
  | cons w0 rest =>
    simp only [mergeLast]
    split
    · right; exact ⟨w0, rest, rfl, rfl⟩
    · left; rfl

/-! ### Width bound in sentence mode (measured without the indent) -/

/-- Within the width when measured from column 0, or a single unbreakable word. -/
def LineOK0 (W : Nat) (l : Line) : Prop := lineLen l ≤ W ∨ l.length = 1

theorem lineLen_append {a b : Line} (ha : a ≠ []) (hb : b ≠ []) :
    lineLen (a ++ b) = lineLen a + 1 + lineLen b := by
  induction a with
  | nil => exact absurd rfl ha
  | cons x t ih =>
    cases t with
    | nil =>
      cases b with
      | nil => exact absurd rfl hb
      | cons y u => simp [lineLen]
    | cons x2 t2 =>
      have := ih (by simp)
      simp only [List.cons_append, lineLen] at this ⊢
      omega

theorem fill_ok0 (W c0 c1 : Nat) (md : Bool) (ws : List Word) :
    ∀ l ∈ fill W c1 md c0 ws, LineOK0 W l := by
  intro l hl
  have hb : BoundFrom W c0 c1 (fill W c1 md c0 ws) := by
    unfold fill
    cases ws with
    | nil => simp [fillG, emit, BoundFrom]
    | cons w ws =>
      unfold fillG
      split
      · exact fillG_bound _ W c0 c1 ws _ _ c0 true (by simp) (by simp [lineLen, sepW]) (Or.inr (by simp))
      · simp only [List.isEmpty_nil, Bool.and_self, if_true, emit_nil, List.nil_append]
        exact fillG_bound _ W c0 c1 ws [w] (c0 + w.length) c0 true (by simp) (by simp [lineLen])
          (Or.inr rfl)
  generalize fill W c1 md c0 ws = out at hb hl
  cases out with
  | nil => cases hl
  | cons a rest =>
    rcases List.mem_cons.1 hl with rfl | hl
    · rcases hb.1 l (by simp) with h | h
      · left; omega
      · right; exact h
    · rcases hb.2 l (by simpa using hl) with h | h
      · left; omega
      · right; exact h

theorem fill_nonempty (W c0 c1 : Nat) (md : Bool) (ws : List Word) :
    ∀ l ∈ fill W c1 md c0 ws, l ≠ [] :=
  (fill_linesOf W c0 c1 md ws).nonempty

theorem mem_dropLast_of {α} {l : List α} {x : α} (h : x ∈ l.dropLast) : x ∈ l :=
  List.dropLast_subset l h

theorem sentStep_ok0 (c : SCfg) (first : Bool) (lines : List Line) (s : List Word)
    (hl : ∀ l ∈ lines, LineOK0 c.W l ∧ l ≠ []) :
    ∀ l ∈ sentStep c first lines s, LineOK0 c.W l ∧ l ≠ [] := by
  have hfill : ∀ col, ∀ l ∈ fill c.W c.s0 c.md col s, LineOK0 c.W l ∧ l ≠ [] :=
    fun col l h => ⟨fill_ok0 _ _ _ _ _ l h, fill_nonempty _ _ _ _ _ l h⟩
  unfold sentStep
  cases hg : lines.getLast? with
  | none =>
    intro l h
    rcases List.mem_append.1 h with h | h
    · exact hl l h
    · exact hfill _ l h
  | some last =>
    simp only
    have hlast : last ∈ lines := List.mem_of_getLast? hg
    split
    · obtain ⟨col, hp⟩ := pickWrapped_eq c ((if first then c.i0 else c.s0) + lineLen last) s
      rw [hp]
      generalize hwr : fill c.W c.s0 c.md col s = wr
      have hwr' : ∀ l ∈ wr, LineOK0 c.W l ∧ l ≠ [] := by rw [← hwr]; exact hfill col
      cases wr with
      | nil => simpa [mergeLast] using hl
      | cons w0 rest =>
        simp only [mergeLast]
        split
        · rename_i hm
          intro l h
          rcases List.mem_append.1 h with h | h
          · exact hl l (mem_dropLast_of h)
          · rcases List.mem_cons.1 h with rfl | h
            · have h1 := (hl last hlast).2
              have h2 := (hwr' w0 (by simp)).2
              refine ⟨Or.inl ?_, by simp [h1]⟩
              rw [lineLen_append h1 h2]; exact hm
            · exact hwr' l (by simp [h])
        · intro l h
          rcases List.mem_append.1 h with h | h
          · exact hl l h
          · exact hwr' l h
    · intro l h
      rcases List.mem_append.1 h with h | h
      · exact hl l h
      · exact hfill _ l h

end FM
