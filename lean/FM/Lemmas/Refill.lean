import FM.Lemmas.Wrap
/-
  Re-filling the words of a greedy fill's output reproduces the output (the wrapper's layout is a
  fixed point of the wrapper), including the Markdown escapes it introduced.
-/
namespace FM

theorem escapeWord_idem (w : Word) : escapeWord (escapeWord w) = escapeWord w := by
  by_cases hn : isNumeralWord w = true
  · -- numeral: digits ++ ['\\', l]
    unfold isNumeralWord at hn
    cases hl : w.getLast? with
    | none => simp [hl] at hn
    | some l =>
      simp only [hl, Bool.and_eq_true, Bool.not_eq_true'] at hn
      have h1 : escapeWord w = w.dropLast ++ ['\\', l] := by
        unfold escapeWord; simp [hl, hn.1.1, hn.1.2, hn.2]
      rw [h1]
      -- the escaped form is neither numeral nor special
      have hlast : (w.dropLast ++ ['\\', l]).getLast? = some l := by simp [List.getLast?_append]
      have hdl : (w.dropLast ++ ['\\', l]).dropLast = w.dropLast ++ ['\\'] := by
        rw [show w.dropLast ++ ['\\', l] = (w.dropLast ++ ['\\']) ++ [l] by simp]
        exact List.dropLast_concat
      have hnd : (w.dropLast ++ ['\\']).all Char.isDigit = false := by
        simp [List.all_append]
      have hne : w.dropLast ≠ [] := by simpa using hn.1.2
      have hsp : isSpecialWord (w.dropLast ++ ['\\', l]) = false := by
        cases hd : w.dropLast with
        | nil => exact absurd hd hne
        | cons a t =>
          have ha : a.isDigit = true := by
            have := hn.2; rw [hd] at this; simpa using (List.all_eq_true.1 this) a (by simp)
          have n1 : (a == '#') = false := by
            by_cases e : a = '#'
            · subst e; cases ha
            · simpa using e
          simp [isSpecialWord, n1]
      unfold escapeWord
      simp [hlast, hdl, hnd, hsp]
  · have hn' : isNumeralWord w = false := by simpa using hn
    by_cases hs : isSpecialWord w = true
    · -- special: '\\' :: w
      have hne : w ≠ [] := by
        intro h0; subst h0; simp [isSpecialWord] at hs
      have h1 : escapeWord w = '\\' :: w := by
        unfold escapeWord
        cases hl : w.getLast? with
        | none => simp [List.getLast?_eq_none_iff] at hl; exact absurd hl hne
        | some l =>
          have : ((l == '.' || l == ')') && !w.dropLast.isEmpty && w.dropLast.all Char.isDigit) = false := by
            simpa [isNumeralWord, hl] using hn'
          simp [this, hs]
      rw [h1]
      cases w with
      | nil => exact absurd rfl hne
      | cons a t =>
        have hlast : ('\\' :: a :: t).getLast? = (a :: t).getLast? := by simp [List.getLast?_cons_cons]
        have hdl : ('\\' :: a :: t).dropLast = '\\' :: (a :: t).dropLast := by simp [List.dropLast]
        have hsp : isSpecialWord ('\\' :: a :: t) = false := by simp [isSpecialWord]
        unfold escapeWord
        cases hl : (a :: t).getLast? with
        | none => simp at hl
        | some l =>
          simp only [hlast, hl, hdl, hsp]
          have : (('\\' :: (a :: t).dropLast).all Char.isDigit) = false := by simp
          simp [this]
    · have hs' : isSpecialWord w = false := by simpa using hs
      have h1 : escapeWord w = w := by
        unfold escapeWord
        cases hl : w.getLast? with
        | none => rfl
        | some l =>
          have : ((l == '.' || l == ')') && !w.dropLast.isEmpty && w.dropLast.all Char.isDigit) = false := by
            simpa [isNumeralWord, hl] using hn'
          simp [this, hs']
      rw [h1, h1]

/-- the words after the current line's prefix `cur` in an output that starts with that prefix -/
def wordsAfter (cur : Line) (out : List Line) : List Word := out.flatten.drop cur.length

theorem fillG_refill (esc : Word → Word) (hlen : ∀ w, w.length ≤ (esc w).length)
    (hidem : ∀ w, esc (esc w) = esc w) (W c0 c1 : Nat) :
    ∀ (ws : List Word) (cur : Line) (curW : Nat) (first : Bool), (cur = [] → first = true) →
      fillG esc W c0 c1 cur curW first (wordsAfter cur (fillG esc W c0 c1 cur curW first ws)) =
        fillG esc W c0 c1 cur curW first ws := by
  intro ws
  induction ws with
  | nil =>
    intro cur curW first _
    by_cases hc : cur = []
    · subst hc; simp [fillG, emit, wordsAfter]
    · simp [fillG, emit_ne hc, wordsAfter]
  | cons w ws ih =>
    intro cur curW first hfirst
    by_cases hfit : curW + w.length + sepW cur ≤ W
    · -- fits
      have hstep : fillG esc W c0 c1 cur curW first (w :: ws) =
          fillG esc W c0 c1 (cur ++ [w]) (curW + w.length + sepW cur) first ws := by
        simp [fillG, hfit]
      rw [hstep]
      obtain ⟨pre, rest, hout⟩ := fillG_head esc W c0 c1 ws (cur ++ [w]) (curW + w.length + sepW cur) first (by simp)
      have hih := ih (cur ++ [w]) (curW + w.length + sepW cur) first (by simp)
      have hwa : wordsAfter cur (fillG esc W c0 c1 (cur ++ [w]) (curW + w.length + sepW cur) first ws) =
          w :: wordsAfter (cur ++ [w]) (fillG esc W c0 c1 (cur ++ [w]) (curW + w.length + sepW cur) first ws) := by
        rw [hout]
        simp [wordsAfter, List.append_assoc]
      rw [hwa]
      have : fillG esc W c0 c1 cur curW first (w :: wordsAfter (cur ++ [w]) (fillG esc W c0 c1 (cur ++ [w]) (curW + w.length + sepW cur) first ws)) =
          fillG esc W c0 c1 (cur ++ [w]) (curW + w.length + sepW cur) first
            (wordsAfter (cur ++ [w]) (fillG esc W c0 c1 (cur ++ [w]) (curW + w.length + sepW cur) first ws)) := by
        simp [fillG, hfit]
      rw [this, hih]
    · -- break
      let first' := first && cur.isEmpty
      let w' := if first' then w else esc w
      let col := (if first' then c0 else c1) + w'.length
      have hstep : fillG esc W c0 c1 cur curW first (w :: ws) = emit cur ++ fillG esc W c0 c1 [w'] col first' ws := by
        simp [fillG, hfit, first', w', col]
      rw [hstep]
      obtain ⟨pre, rest, hout⟩ := fillG_head esc W c0 c1 ws [w'] col first' (by simp)
      have hih := ih [w'] col first' (by simp)
      have hwa : wordsAfter cur (emit cur ++ fillG esc W c0 c1 [w'] col first' ws) =
          w' :: wordsAfter [w'] (fillG esc W c0 c1 [w'] col first' ws) := by
        rw [hout]
        by_cases hc : cur = []
        · subst hc; simp [wordsAfter, emit]
        · simp [wordsAfter, emit_ne hc]
      rw [hwa]
      have hnfit' : ¬ (curW + w'.length + sepW cur ≤ W) := by
        have hw : w.length ≤ w'.length := by
          simp only [w']; split
          · exact Nat.le_refl _
          · exact hlen w
        omega
      have hw'' : (if first' then w' else esc w') = w' := by
        simp only [w']
        by_cases hf : first' = true
        · simp [hf]
        · simp [hf, hidem]
      have : fillG esc W c0 c1 cur curW first (w' :: wordsAfter [w'] (fillG esc W c0 c1 [w'] col first' ws)) =
          emit cur ++ fillG esc W c0 c1 [w'] col first' (wordsAfter [w'] (fillG esc W c0 c1 [w'] col first' ws)) := by
        have e : fillG esc W c0 c1 cur curW first (w' :: wordsAfter [w'] (fillG esc W c0 c1 [w'] col first' ws)) =
            emit cur ++ fillG esc W c0 c1 [(if first' then w' else esc w')]
              ((if first' then c0 else c1) + (if first' then w' else esc w').length) first'
              (wordsAfter [w'] (fillG esc W c0 c1 [w'] col first' ws)) := by
          simp [fillG, hnfit', first']
        rw [e, hw'']
      rw [this, hih]

end FM
