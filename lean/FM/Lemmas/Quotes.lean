import FM.Model.Quotes
/-
  Helper lemmas for the smart-quote model: every stage relates input and output pointwise.
-/
namespace FM

/-- The only changes smart quotes may make to one character. -/
def QRel (a b : Char) : Prop :=
  a = b ∨ (a = '\'' ∧ (b = '‘' ∨ b = '’')) ∨ (a = '"' ∧ (b = '“' ∨ b = '”'))

/-- Pointwise relation on strings (same length by construction). -/
inductive QRelS : Str → Str → Prop
  | nil : QRelS [] []
  | cons {a b : Char} {s t : Str} : QRel a b → QRelS s t → QRelS (a :: s) (b :: t)

theorem QRel.refl (a : Char) : QRel a a := Or.inl rfl

theorem QRelS.refl : ∀ s, QRelS s s
  | [] => .nil
  | a :: s => .cons (QRel.refl a) (QRelS.refl s)

theorem QRelS.append {a b c d : Str} (h1 : QRelS a b) (h2 : QRelS c d) : QRelS (a ++ c) (b ++ d) := by
  induction h1 with
  | nil => simpa
  | cons h _ ih => exact .cons h ih

theorem QRelS.length {a b : Str} (h : QRelS a b) : a.length = b.length := by
  induction h with
  | nil => rfl
  | cons _ _ ih => simp [ih]

theorem QRel.trans {a b c : Char} (h1 : QRel a b) (h2 : QRel b c) : QRel a c := by
  rcases h1 with rfl | ⟨rfl, hb⟩ | ⟨rfl, hb⟩
  · exact h2
  · rcases h2 with rfl | ⟨hb2, _⟩ | ⟨hb2, _⟩
    · exact Or.inr (Or.inl ⟨rfl, hb⟩)
    · rcases hb with rfl | rfl <;> exact absurd hb2 (by decide)
    · rcases hb with rfl | rfl <;> exact absurd hb2 (by decide)
  · rcases h2 with rfl | ⟨hb2, _⟩ | ⟨hb2, _⟩
    · exact Or.inr (Or.inr ⟨rfl, hb⟩)
    · rcases hb with rfl | rfl <;> exact absurd hb2 (by decide)
    · rcases hb with rfl | rfl <;> exact absurd hb2 (by decide)

theorem QRelS.trans {a b c : Str} (h1 : QRelS a b) (h2 : QRelS b c) : QRelS a c := by
  induction h1 generalizing c with
  | nil => cases h2; exact .nil
  | cons h _ ih =>
    cases h2 with
    | cons h' ht => exact .cons (h.trans h') (ih ht)

/-! ### stage 1 -/

theorem scanContent_spec (q c1 c2 : Char) : ∀ (s content rest : Str),
    scanContent q c1 c2 s = some (content, rest) → s = content ++ q :: rest
  | [], _, _, h => by simp [scanContent] at h
  | c :: cs, content, rest, h => by
    unfold scanContent at h
    split at h
    · rename_i hq
      simp at h; obtain ⟨rfl, rfl⟩ := h
      have : c = q := by simpa using hq
      simp [this]
    · split at h
      · simp at h
      · cases hr : scanContent q c1 c2 cs with
        | none => simp [hr] at h
        | some p =>
          obtain ⟨a, r⟩ := p
          simp [hr] at h
          obtain ⟨rfl, rfl⟩ := h
          have := scanContent_spec q c1 c2 cs a r hr
          simp [this]

theorem take_drop_len (rest : Str) (k : Nat) : rest = rest.take k ++ rest.drop k :=
  (List.take_append_drop k rest).symm

theorem quoteSpan_spec (q o cl : Char) (ho : QRel q o) (hcl : QRel q cl) (cs out rest : Str)
    (h : quoteSpan q o cl cs = some (out, rest)) :
    ∃ span, q :: cs = span ++ rest ∧ QRelS span out := by
  unfold quoteSpan at h
  cases hs : scanContent q o cl cs with
  | none => simp [hs] at h
  | some p =>
    obtain ⟨content, r⟩ := p
    simp only [hs] at h
    have hcs := scanContent_spec _ _ _ cs content r hs
    split at h
    · split at h
      · simp at h; obtain ⟨rfl, rfl⟩ := h
        refine ⟨q :: content ++ [q], ?_, QRelS.refl _⟩
        rw [hcs]; simp
      · simp at h; obtain ⟨rfl, rfl⟩ := h
        refine ⟨q :: content ++ [q], ?_, ?_⟩
        · rw [hcs]; simp
        · exact .cons ho ((QRelS.refl content).append (.cons hcl .nil))
    · simp at h

/-- A successful quote match rewrites its span pointwise and leaves the rest alone. -/
theorem tryQuoteAt_spec (s out rest : Str) (h : tryQuoteAt s = some (out, rest)) :
    ∃ span, s = span ++ rest ∧ QRelS span out := by
  cases s with
  | nil => simp [tryQuoteAt] at h
  | cons c cs =>
    simp only [tryQuoteAt] at h
    split at h
    · rename_i hc
      have : c = '"' := by simpa using hc
      subst this
      exact quoteSpan_spec _ _ _ (Or.inr (Or.inr ⟨rfl, Or.inl rfl⟩)) (Or.inr (Or.inr ⟨rfl, Or.inr rfl⟩)) cs out rest h
    · split at h
      · rename_i hc
        have : c = '\'' := by simpa using hc
        subst this
        exact quoteSpan_spec _ _ _ (Or.inr (Or.inl ⟨rfl, Or.inl rfl⟩)) (Or.inr (Or.inl ⟨rfl, Or.inr rfl⟩)) cs out rest h
      · simp at h

theorem quoteStep_spec (ls : Bool) (c : Char) (cs : Str) :
    ∃ span, c :: cs = span ++ (quoteStep ls c cs).2 ∧ QRelS span (quoteStep ls c cs).1 := by
  unfold quoteStep
  cases h1 : (if ls then tryQuoteAt (c :: cs) else none) with
  | some p =>
    obtain ⟨out, rest⟩ := p
    have h1' : tryQuoteAt (c :: cs) = some (out, rest) := by
      cases ls <;> simp at h1; exact h1
    exact tryQuoteAt_spec _ _ _ h1'
  | none =>
    simp only
    cases h2 : (if isPySpace c || c == '—' then tryQuoteAt cs else none) with
    | some p =>
      obtain ⟨out, rest⟩ := p
      have h2' : tryQuoteAt cs = some (out, rest) := by
        split at h2
        · exact h2
        · simp at h2
      obtain ⟨span, hs, hr⟩ := tryQuoteAt_spec _ _ _ h2'
      exact ⟨c :: span, by simp [hs], .cons (QRel.refl c) hr⟩
    | none => exact ⟨[c], by simp, QRelS.refl _⟩

theorem quotePass_rel : ∀ (n : Nat) (ls : Bool) (s : Str), QRelS s (quotePass n ls s) := by
  intro n
  induction n with
  | zero => intro ls s; exact QRelS.refl s
  | succ n ih =>
    intro ls s
    cases s with
    | nil => exact .nil
    | cons c cs =>
      obtain ⟨span, hs, hr⟩ := quoteStep_spec ls c cs
      show QRelS (c :: cs) ((quoteStep ls c cs).1 ++ quotePass n _ (quoteStep ls c cs).2)
      rw [hs]
      exact hr.append (ih _ _)

/-! ### stage 2 -/

theorem curlApos_rel : ∀ (w : Str), QRelS w (curlApos w)
  | [] => .nil
  | c :: w => by
    simp only [curlApos, List.map_cons]
    refine .cons ?_ (curlApos_rel w)
    split
    · rename_i h; have : c = '\'' := by simpa using h
      exact Or.inr (Or.inl ⟨this, Or.inr rfl⟩)
    · exact QRel.refl c

theorem fixWord_rel (isWord : Char → Bool) (w : Str) : QRelS w (fixWord isWord w) := by
  unfold fixWord; split
  · exact curlApos_rel w
  · exact QRelS.refl w

theorem aposPass_rel (isWord : Char → Bool) : ∀ (s cur : Str),
    QRelS (cur.reverse ++ s) (aposPass isWord s cur)
  | [], cur => by simpa [aposPass] using fixWord_rel isWord cur.reverse
  | c :: cs, cur => by
    unfold aposPass
    split
    · have h1 := fixWord_rel isWord cur.reverse
      have h2 := aposPass_rel isWord cs []
      simp at h2
      exact h1.append (.cons (QRel.refl c) h2)
    · have := aposPass_rel isWord cs (c :: cur)
      simpa using this

theorem applySmartQuotes_rel (isWord : Char → Bool) (s : Str) :
    QRelS s (applySmartQuotes isWord s) := by
  unfold applySmartQuotes
  have h1 := quotePass_rel s.length true s
  have h2 := aposPass_rel isWord (quotePass s.length true s) []
  simp at h2
  exact h1.trans h2

/-! ### stage 0 -/

theorem tagSegments_concat : ∀ (n : Nat) (s cur : Str),
    ((tagSegments n s cur).map Prod.snd).flatten = cur.reverse ++ s := by
  intro n
  induction n with
  | zero => intro s cur; simp [tagSegments]
  | succ n ih =>
    intro s cur
    cases s with
    | nil => by_cases h : cur = [] <;> simp [tagSegments, h]
    | cons c cs =>
      simp only [tagSegments]
      split
      · rename_i k _
        by_cases h : cur = []
        · simp [h, ih, List.take_append_drop]
        · simp [h, ih, List.take_append_drop]
      · rw [ih]; simp

end FM
