import FM.Model.Render
/-
  State-discipline invariants of the render model, by functional (mutual) induction.
-/
namespace FM

/-- The fields of the renderer state that every block must hand back unchanged. -/
def Frame (a b : RState) : Prop := b.snd = a.snd ∧ b.listTight = a.listTight

theorem frame_all (cfg : RCfg) :
    (∀ (st : RState) (b : Block), Frame st (renderBlock cfg st b).2) ∧
    (∀ (st : RState) (bs : List Block), Frame st (renderBlocks cfg st bs).2) ∧
    (∀ (st : RState) (o : Bool) (s : Nat) (bl : Str) (i : Nat) (bs : List Block),
        Frame st (renderItems cfg st o s bl i bs).2) := by
  apply renderBlock.mutual_induct cfg
    (motive_1 := fun st b => Frame st (renderBlock cfg st b).2)
    (motive_2 := fun st bs => Frame st (renderBlocks cfg st bs).2)
    (motive_3 := fun st o s bl i bs => Frame st (renderItems cfg st o s bl i bs).2)
  all_goals intros
  all_goals simp only [renderBlock, renderBlocks, renderItems, Frame]
  all_goals (try (first | exact ⟨rfl, rfl⟩ | exact ⟨trivial, trivial⟩ | (split <;> exact ⟨rfl, rfl⟩)))
  case case2 ih => exact ⟨ih.1, trivial⟩
  case case4 hE ih => simp only [hE, if_false]; exact ih
  case case5 ih => exact ⟨trivial, ih.2⟩
  case case6 ih => exact ⟨trivial, ih.2⟩
  case case15 ih => exact ⟨trivial, ih.2⟩
  case case18 ih1 ih2 => exact ⟨ih2.1.trans ih1.1, ih2.2.trans ih1.2⟩
  case case20 ih1 ih2 => exact ⟨ih2.1, ih2.2.trans ih1.2⟩
