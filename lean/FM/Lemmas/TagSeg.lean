import FM.Model.FullWrap
/-
  Helper lemmas for C06: unit splitting never breaks a masked run; tag-only lines are
  unindented tag lines that end with a tag.
-/
namespace FM

/-- A run of characters none of which is an unmasked whitespace is absorbed into the current word. -/
theorem unitSplitAux_run : ∀ (xs ys : List (Char × Bool)) (cur : Word),
    (∀ p ∈ xs, (isPySpace p.1 && !p.2) = false) →
    unitSplitAux (xs ++ ys) cur = unitSplitAux ys ((xs.map Prod.fst).reverse ++ cur)
  | [], ys, cur, _ => by simp
  | (c, m) :: xs, ys, cur, h => by
    have h0 : (isPySpace c && !m) = false := h (c, m) (by simp)
    have ht : ∀ p ∈ xs, (isPySpace p.1 && !p.2) = false := fun p hp => h p (by simp [hp])
    simp only [List.cons_append, unitSplitAux, h0, Bool.false_eq_true, if_false]
    rw [unitSplitAux_run xs ys (c :: cur) ht]
    simp

theorem unitSplitAux_nonempty : ∀ (xs : List (Char × Bool)) (cur : Word),
    ∀ w ∈ unitSplitAux xs cur, w ≠ []
  | [], cur, w, hw => by
    unfold unitSplitAux at hw
    split at hw
    · simp at hw
    · rename_i hc; simp at hw; subst hw; simpa using hc
  | (c, m) :: xs, cur, w, hw => by
    unfold unitSplitAux at hw
    split at hw
    · rcases List.mem_append.1 hw with h | h
      · split at h
        · simp at h
        · rename_i hc; simp at h; subst h; simpa using hc
      · exact unitSplitAux_nonempty xs [] w h
    · exact unitSplitAux_nonempty xs (c :: cur) w hw

/-! ### tag-only lines -/

theorem lstrip_of_not_space {l : Str} (h : firstIsSpace l = false) : lstrip l = l := by
  cases l with
  | nil => rfl
  | cons c t => simp [firstIsSpace] at h; simp [lstrip, List.dropWhile, h]

theorem rstrip_isPrefix (s : Str) : (rstrip s).isPrefixOf s = true := by
  unfold rstrip
  have : (s.reverse.dropWhile isPySpace).reverse <+: s := by
    have h1 : s.reverse.dropWhile isPySpace <:+ s.reverse := List.dropWhile_suffix _
    have := List.reverse_prefix.2 h1
    simpa using this
  exact List.isPrefixOf_iff_prefix.2 this

theorem isPrefixOf_trans {a b c : Str} (h1 : a.isPrefixOf b = true) (h2 : b.isPrefixOf c = true) :
    a.isPrefixOf c = true := by
  rw [List.isPrefixOf_iff_prefix] at *
  exact h1.trans h2

theorem tagOnly_unindented {l : Str} (h : isTagOnlyLine l = true) :
    isUnindentedTagLine l = true ∧ lineEndsWithTag l = true := by
  unfold isTagOnlyLine at h
  by_cases hs : firstIsSpace l = true
  · simp [hs] at h
  · have hs' : firstIsSpace l = false := by simpa using hs
    simp only [hs', Bool.false_eq_true, if_false, Bool.and_eq_true, Bool.not_eq_true'] at h
    obtain ⟨⟨hne, hst⟩, hen⟩ := h
    have hstrip : strip l = rstrip l := by simp [strip, lstrip_of_not_space hs']
    rw [hstrip] at hne hst hen
    have hlne : l ≠ [] := by
      intro h0; subst h0; simp [rstrip] at hne
    constructor
    · unfold isUnindentedTagLine lineStartsWithTag
      rw [lstrip_of_not_space hs']
      have : startsWithAny tagOpens l = true := by
        unfold startsWithAny at *
        rw [List.any_eq_true] at *
        obtain ⟨p, hp, hpp⟩ := hst
        exact ⟨p, hp, isPrefixOf_trans hpp (rstrip_isPrefix l)⟩
      cases l with
      | nil => exact absurd rfl hlne
      | cons c t => simp [hs', this]
    · unfold lineEndsWithTag
      simp [hne, hen]

end FM
