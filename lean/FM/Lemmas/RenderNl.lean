import FM.Model.Render
import FM.Model.Transforms
/-
  Every block renders to the empty string or to text ending in a newline.
-/
namespace FM

/-- empty, or ends with a newline -/
def NlOrEmpty (s : Str) : Prop := s = [] ∨ s.getLast? = some '\n'

theorem NlOrEmpty.nil : NlOrEmpty [] := Or.inl rfl

@[simp] theorem getLast?_cons_snoc_nl (c : Char) (s : Str) : (c :: (s ++ ['\n'])).getLast? = some '\n' := by
  rw [← List.cons_append, List.getLast?_append]; rfl

theorem nl_snoc (s : Str) : NlOrEmpty (s ++ ['\n']) := Or.inr (by simp)

theorem NlOrEmpty.append {a b : Str} (ha : NlOrEmpty a) (hb : NlOrEmpty b) : NlOrEmpty (a ++ b) := by
  rcases hb with rfl | hb
  · simpa using ha
  · right
    simp [List.getLast?_append, hb]

theorem nl_append_right (a : Str) {b : Str} (hb : b.getLast? = some '\n') : NlOrEmpty (a ++ b) := by
  right
  simp [List.getLast?_append, hb]

theorem rowLine_nl (cells : List Str) : (rowLine cells).getLast? = some '\n' := by
  unfold rowLine
  have h : (" |\n".toList).getLast? = some '\n' := by decide
  generalize "| ".toList ++ joinWith " | ".toList cells = x
  rw [List.getLast?_append, h]; rfl

theorem renderRows_nl (cfg : RCfg) (snd : Str) : ∀ (rows : List (List (List Inline))) (acc : Str),
    NlOrEmpty (renderRows cfg snd acc rows).1
  | [], _ => Or.inl rfl
  | row :: rest, acc => by
    simp only [renderRows]
    have h1 : NlOrEmpty (snd ++ rowLine (renderRow cfg acc row).1) := nl_append_right _ (rowLine_nl _)
    have := h1.append (renderRows_nl cfg snd rest (renderRow cfg acc row).2)
    simpa [List.append_assoc] using this

theorem joinWith_snoc_nl (ls : List Str) : NlOrEmpty (joinWith ['\n'] ls ++ ['\n']) := nl_snoc _

theorem ends_nl_all (cfg : RCfg) :
    (∀ (st : RState) (b : Block), NlOrEmpty (renderBlock cfg st b).1) ∧
    (∀ (st : RState) (bs : List Block), NlOrEmpty (renderBlocks cfg st bs).1) ∧
    (∀ (st : RState) (o : Bool) (s : Nat) (bl : Str) (i : Nat) (bs : List Block),
        NlOrEmpty (renderItems cfg st o s bl i bs).1) := by
  apply renderBlock.mutual_induct cfg
    (motive_1 := fun st b => NlOrEmpty (renderBlock cfg st b).1)
    (motive_2 := fun st bs => NlOrEmpty (renderBlocks cfg st bs).1)
    (motive_3 := fun st o s bl i bs => NlOrEmpty (renderItems cfg st o s bl i bs).1)
  all_goals intros
  all_goals simp only [renderBlock, renderBlocks, renderItems]
  all_goals (try (first | exact NlOrEmpty.nil | exact nl_snoc _))
  case case6 =>
    split
    · rw [List.append_nil]
      exact nl_append_right _ (by decide)
    · exact nl_append_right _ (by simp [List.getLast?_append])
  case case2 ih => exact ih
  case case3 hE =>
    simp only [hE, if_true]
    exact nl_snoc _
  case case4 hE ih =>
    simp only [hE, if_false]
    refine NlOrEmpty.append ?_ ih
    split
    · exact NlOrEmpty.nil
    · split
      · exact NlOrEmpty.nil
      · exact nl_snoc _
  case case10 h =>
    rename_i st level cs sx r0 r
    have hh : ((unbreak (renderInlines cfg true [] cs).1).getLast? == some '\\') = true := h
    simp only [hh, if_true]
    right; simp [List.getLast?_append]
  case case11 h =>
    rename_i st level cs sx r0 r
    have hh : ((unbreak (renderInlines cfg true [] cs).1).getLast? == some '\\') = false := by simpa using h
    simp only [hh, Bool.false_eq_true, if_false]
    right
    simp only [List.getLast?_append]
    rfl
  case case12 h => simp only [h, if_true]; exact NlOrEmpty.nil
  case case13 h =>
    rename_i st
    have hh : st.skipBlank = false := by simpa using h
    simp only [hh, Bool.false_eq_true, if_false]
    split
    · right; rfl
    · exact nl_snoc _
  case case15 ih => right; simp [List.getLast?_append]
  case case16 =>
    rename_i st head delims rows
    have hd : NlOrEmpty (st.snd ++ ("| ".toList ++ joinWith " | ".toList (delims.map normalizeDelim) ++ " |\n".toList)) :=
      nl_append_right _ (by
        have h : (" |\n".toList).getLast? = some '\n' := by decide
        generalize "| ".toList ++ joinWith " | ".toList (delims.map normalizeDelim) = x
        rw [List.getLast?_append, h]; rfl)
    have h1 : NlOrEmpty (st.pfx ++ rowLine (renderRow cfg st.acc head).1) := nl_append_right _ (rowLine_nl _)
    have := (h1.append hd).append (renderRows_nl cfg st.snd rows (renderRow cfg st.acc head).2)
    simpa [List.append_assoc] using this
  case case18 ih1 ih2 => first | exact ih1.append ih2 | exact ih2.append ih1
  case case20 ih1 ih2 => first | exact ih1.append ih2 | exact ih2.append ih1

end FM
