import FM.Model.Placeholder
/-
  Helper lemmas for the placeholder round trip.
-/
namespace FM

theorem parseDigits_append_singleton (ds : Str) (c : Char) :
    parseDigits (ds ++ [c]) = parseDigits ds * 10 + (c.toNat - 48) := by
  simp [parseDigits, List.foldl_append]

/-- `int(str(n)) = n` -/
theorem parseDigits_toDigits : ∀ (n : Nat), parseDigits (Nat.toDigits 10 n) = n := by
  intro n
  induction n using Nat.strongRecOn with
  | _ n ih =>
    by_cases h : n < 10
    · rw [Nat.toDigits_of_lt_base h]
      simp [parseDigits, Nat.toNat_digitChar_sub_48_of_lt_ten h]
    · have h10 : 10 ≤ n := Nat.le_of_not_lt h
      rw [Nat.toDigits_of_base_le (by decide) h10, parseDigits_append_singleton,
        ih (n / 10) (Nat.div_lt_self (by omega) (by decide)),
        Nat.toNat_digitChar_sub_48_of_lt_ten (Nat.mod_lt _ (by decide))]
      omega

theorem nul_not_digit : nul.isDigit = false := by decide

theorem takeWhile_digits_append (ds : Str) (t : Str) (hd : ∀ c ∈ ds, c.isDigit = true) :
    (ds ++ nul :: t).takeWhile Char.isDigit = ds := by
  induction ds with
  | nil => simp [List.takeWhile, nul_not_digit]
  | cons d ds ih =>
    have h1 : d.isDigit = true := hd d List.mem_cons_self
    simp only [List.cons_append, List.takeWhile_cons, h1, if_true]
    rw [ih (fun c hc => hd c (List.mem_cons_of_mem _ hc))]

/-- the pattern matches a placeholder at the head, with its own index, and stops right behind it -/
theorem matchPH_placeholder (k : Nat) (t : Str) : matchPH (placeholder k ++ t) = some (k, t) := by
  have hd : ∀ c ∈ Nat.toDigits 10 k, c.isDigit = true :=
    fun c hc => Nat.isDigit_of_mem_toDigits (by decide) (by decide) hc
  have hne : (Nat.toDigits 10 k).isEmpty = false := by
    cases h : Nat.toDigits 10 k with
    | nil => exact absurd h Nat.toDigits_ne_nil
    | cons _ _ => rfl
  have hshape : placeholder k ++ t = nul :: 'A' :: 'C' :: (Nat.toDigits 10 k ++ nul :: t) := by
    simp [placeholder]
  rw [hshape]
  simp only [matchPH, beq_self_eq_true, if_true]
  rw [takeWhile_digits_append _ _ hd]
  simp [hne, parseDigits_toDigits]

/-- no match starts at a character other than NUL -/
theorem matchPH_none_of_ne (c : Char) (rest : Str) (h : c ≠ nul) : matchPH (c :: rest) = none := by
  unfold matchPH
  split
  · rename_i n r heq
    have : c = n := by injection heq
    subst this
    simp [h]
  · rfl

theorem placeholder_length_pos (k : Nat) : 0 < (placeholder k).length := by simp [placeholder]

/-- scanning passes over text without NUL unchanged -/
theorem restorePH_text (cs : List Str) : ∀ (s t : Str) (f : Nat), nul ∉ s → s.length ≤ f →
    restorePH cs (f + 0) (s ++ t) = s ++ restorePH cs (f - s.length) t
  | [], t, f, _, _ => by simp
  | c :: s, t, f, hn, hl => by
    have hc : c ≠ nul := fun e => hn (by simp [e])
    have hs : nul ∉ s := fun e => hn (by simp [e])
    obtain ⟨f', rfl⟩ : ∃ f', f = f' + 1 := ⟨f - 1, by simp at hl; omega⟩
    simp only [Nat.add_zero, List.cons_append, restorePH, matchPH_none_of_ne c (s ++ t) hc]
    have := restorePH_text cs s t f' hs (by simp at hl; omega)
    simp only [Nat.add_zero] at this
    rw [this]
    simp

end FM
