import FM.Base.Str
/-
  Line protocol codec: a string is its code points in decimal joined by '.', a list of strings
  is its items each followed by ';', fields are TAB-separated. `none` on any malformed field —
  the driver then answers `bad-op` (never a default).
-/
namespace Driver
open FM

def decStr (s : String) : Option Str :=
  if s.isEmpty then some [] else
  (s.splitOn ".").mapM fun p => do
    let n ← p.toNat?
    if n < 0x110000 && !(0xD800 ≤ n && n ≤ 0xDFFF) then some (Char.ofNat n) else none

def encStr (s : Str) : String := ".".intercalate (s.map fun c => toString c.toNat)

def decList (s : String) : Option (List Str) :=
  if s.isEmpty then some [] else
  let parts := s.splitOn ";"
  -- every item is followed by ';' so the last piece must be empty
  if parts.getLast? != some "" then none else parts.dropLast.mapM decStr

def encList (l : List Str) : String := String.join (l.map fun s => encStr s ++ ";")

def decNat (s : String) : Option Nat := s.toNat?
def decInt (s : String) : Option Int := s.toInt?
def decBool (s : String) : Option Bool :=
  if s == "1" then some true else if s == "0" then some false else none
def encBool (b : Bool) : String := if b then "1" else "0"

end Driver
