import FM.Base.Codec
import FM.Model.Ast
/-
  S-expression transport of Marko ASTs for the `render` / `cleanup` ops.
  Tokens are separated by single spaces; strings are `s<decimal code points joined by '.'>`.
-/
namespace Driver
open FM

inductive Sexp where
  | atom (s : String)
  | list (xs : List Sexp)
deriving Repr, Inhabited

/-- Parse tokens into a forest; returns (items parsed up to the matching `)`, remaining tokens). -/
def parseItems : Nat → List String → Option (List Sexp × List String)
  | 0, _ => none
  | _, [] => some ([], [])
  | n + 1, tok :: rest =>
    if tok == ")" then some ([], rest)
    else if tok == "(" then
      match parseItems n rest with
      | some (inner, rest2) =>
        match parseItems n rest2 with
        | some (more, rest3) => some (Sexp.list inner :: more, rest3)
        | none => none
      | none => none
    else
      match parseItems n rest with
      | some (more, rest2) => some (Sexp.atom tok :: more, rest2)
      | none => none

def parseSexps (s : String) : Option (List Sexp) :=
  let toks := (s.splitOn " ").filter (· != "")
  match parseItems (toks.length + 1) toks with
  | some (xs, []) => some xs
  | _ => none

def decS (t : String) : Option Str :=
  if t.startsWith "s" then decStr (t.drop 1).toString else none

def decOptS (t : String) : Option (Option Str) :=
  if t == "-" then some none
  else if t.startsWith "=" then (decStr (t.drop 1).toString).map some
  else none

mutual
  def toInline : Nat → Sexp → Option Inline
    | 0, _ => none
    | n + 1, .list (.atom k :: args) =>
      match k, args with
      | "raw", [.atom s] => (decS s).map .raw
      | "code", [.atom s] => (decS s).map .code
      | "em", cs => (toInlines n cs).map .em
      | "strong", cs => (toInlines n cs).map .strong
      | "strike", cs => (toInlines n cs).map .strike
      | "link", .atom d :: .atom t :: cs =>
        match decS d, decOptS t, toInlines n cs with
        | some d, some t, some cs => some (.link cs d t)
        | _, _, _ => none
      | "image", .atom d :: .atom t :: cs =>
        match decS d, decOptS t, toInlines n cs with
        | some d, some t, some cs => some (.image cs d t)
        | _, _, _ => none
      | "autolink", [.atom d] => (decS d).map .autolink
      | "url", [.atom d] => (decS d).map .url
      | "br", [.atom b] => (decBool b).map .br
      | "lit", [.atom s] => (decS s).map .lit
      | "html", [.atom s] => (decS s).map .html
      | "fnref", [.atom s] => (decS s).map .fnref
      | _, _ => none
    | _, _ => none

  def toInlines : Nat → List Sexp → Option (List Inline)
    | 0, _ => none
    | _, [] => some []
    | n + 1, x :: xs =>
      match toInline n x, toInlines n xs with
      | some a, some b => some (a :: b)
      | _, _ => none
end

def toCells (n : Nat) : List Sexp → Option (List (List Inline))
  | [] => some []
  | .list (.atom "cell" :: cs) :: rest =>
    match toInlines n cs, toCells n rest with
    | some a, some b => some (a :: b)
    | _, _ => none
  | _ => none

def toRows (n : Nat) : List Sexp → Option (List (List (List Inline)))
  | [] => some []
  | .list (.atom "row" :: cells) :: rest =>
    match toCells n cells, toRows n rest with
    | some a, some b => some (a :: b)
    | _, _ => none
  | _ => none

def decStrs : List Sexp → Option (List Str)
  | [] => some []
  | .atom s :: rest =>
    match decS s, decStrs rest with
    | some a, some b => some (a :: b)
    | _, _ => none
  | _ => none

mutual
  def toBlock : Nat → Sexp → Option Block
    | 0, _ => none
    | n + 1, .list (.atom k :: args) =>
      match k, args with
      | "para", .atom c :: cs =>
        let chk : Option (Option Bool) :=
          if c == "-" then some none else if c == "1" then some (some true)
          else if c == "0" then some (some false) else none
        match chk, toInlines n cs with
        | some chk, some cs => some (.para cs chk)
        | _, _ => none
      | "heading", .atom l :: .atom sx :: cs =>
        match decNat l, decBool sx, toInlines n cs with
        | some l, some sx, some cs => some (.heading l cs sx)
        | _, _, _ => none
      | "list", .atom o :: .atom st :: .atom b :: .atom t :: items =>
        match decBool o, decNat st, decS b, decBool t, toBlocks n items with
        | some o, some st, some b, some t, some items => some (.list o st b t items)
        | _, _, _, _, _ => none
      | "item", bs => (toBlocks n bs).map .item
      | "quote", bs => (toBlocks n bs).map .quote
      | "alert", .atom ty :: bs =>
        match decS ty, toBlocks n bs with
        | some ty, some bs => some (.alert ty bs)
        | _, _ => none
      | "fenced", [.atom l, .atom e, .atom c, .atom ch, .atom len] =>
        match decS l, decS e, decS c, decS ch, decNat len with
        | some l, some e, some c, some [ch], some len => some (.fenced l e c ch len)
        | _, _, _, _, _ => none
      | "indented", [.atom c] => (decS c).map .indented
      | "hr", [] => some .hr
      | "blank", [] => some .blank
      | "linkdef", [.atom l, .atom d, .atom t] =>
        match decS l, decS d, decOptS t with
        | some l, some d, some t => some (.linkdef l d t)
        | _, _, _ => none
      | "fndef", .atom l :: bs =>
        match decS l, toBlocks n bs with
        | some l, some bs => some (.fndef l bs)
        | _, _ => none
      | "table", .list (.atom "row" :: head) :: .list (.atom "delims" :: ds) :: rows =>
        match toCells n head, decStrs ds, toRows n rows with
        | some h, some ds, some rows => some (.table h ds rows)
        | _, _, _ => none
      | _, _ => none
    | _, _ => none

  def toBlocks : Nat → List Sexp → Option (List Block)
    | 0, _ => none
    | _, [] => some []
    | n + 1, x :: xs =>
      match toBlock n x, toBlocks n xs with
      | some a, some b => some (a :: b)
      | _, _ => none
end

/-- `(defs (def LABEL DEST T)...)` -/
def toDefs : List Sexp → Option (List (Str × Str × Option Str))
  | [] => some []
  | .list [.atom "def", .atom l, .atom d, .atom t] :: rest =>
    match decS l, decS d, decOptS t, toDefs rest with
    | some l, some d, some t, some r => some ((l, d, t) :: r)
    | _, _, _, _ => none
  | _ => none

end Driver
