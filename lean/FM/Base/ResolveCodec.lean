import FM.Base.Sexp
import FM.Model.Resolver
/-
  Transport of resolver scenarios for the `resolve` op: trees, argument lists and the answers
  pathspec gave (as finite tables; a missing key answers `false` / `none`).
-/
namespace Driver
open FM FM.Res

def toNats (s : Str) : List Nat := s.map Char.toNat

def decN (t : String) : Option (List Nat) := (decS t).map toNats

def decPath : List Sexp → Option RelPath
  | [] => some []
  | .atom a :: rest =>
    match decN a, decPath rest with
    | some n, some p => some (n :: p)
    | _, _ => none
  | _ => none

/-- `( path s.. s.. )` -/
def toPath : Sexp → Option RelPath
  | .list (.atom "path" :: xs) => decPath xs
  | _ => none

def decBoolTbl : List Sexp → Option (List (List Nat × Bool))
  | [] => some []
  | .list [.atom k, .atom v] :: rest =>
    match decN k, decBool v, decBoolTbl rest with
    | some k, some v, some t => some ((k, v) :: t)
    | _, _, _ => none
  | _ => none

def decOptBool (v : String) : Option (Option Bool) :=
  if v == "n" then some none else (decBool v).map some

def decGiTbl : List Sexp → Option (List (List Nat × Option Bool))
  | [] => some []
  | .list [.atom k, .atom v] :: rest =>
    match decN k, decOptBool v, decGiTbl rest with
    | some k, some v, some t => some ((k, v) :: t)
    | _, _, _ => none
  | _ => none

def lookupB (tbl : List (List Nat × Bool)) (k : List Nat) : Bool := (tbl.lookup k).getD false
def lookupG (tbl : List (List Nat × Option Bool)) (k : List Nat) : Option Bool := (tbl.lookup k).getD none

def decGis : List Sexp → Option (List (RelPath × List (List Nat × Option Bool)))
  | [] => some []
  | .list [p, .list tbl] :: rest =>
    match toPath p, decGiTbl tbl, decGis rest with
    | some p, some t, some r => some ((p, t) :: r)
    | _, _, _ => none
  | _ => none

/-- `( env respectGi ( tool - | ( tbl ) ) ( gi ( ( path ) ( tbl ) ) … ) )` -/
def toEnv (incl excl : List (List Nat × Bool)) (maxSize : Nat) : Sexp → Option Env
  | .list [.atom "env", .atom r, tool, .list (.atom "gi" :: gis)] =>
    let tool' : Option (Option (List (List Nat × Bool))) := match tool with
      | .atom "-" => some none
      | .list t => (decBoolTbl t).map some
      | _ => none
    match decBool r, tool', decGis gis with
    | some r, some tool', some gis =>
      some { incl := lookupB incl, excl := lookupB excl,
             tool := tool'.map lookupB,
             gi := fun p => (gis.lookup p).map lookupG,
             respectGi := r, maxSize := maxSize }
    | _, _, _ => none
  | _ => none

mutual
  def toNode : Nat → Sexp → Option Node
    | 0, _ => none
    | _ + 1, .list [.atom "f", .atom n, .atom sz, .atom l] =>
      match decN n, sz.toNat?, decBool l with
      | some n, some sz, some l => some (.file n sz l)
      | _, _, _ => none
    | k + 1, .list (.atom "d" :: .atom n :: .atom l :: kids) =>
      match decN n, decBool l, toNodes k kids with
      | some n, some l, some kids => some (.dir n l kids)
      | _, _, _ => none
    | _, _ => none
  def toNodes : Nat → List Sexp → Option (List Node)
    | 0, _ => none
    | _, [] => some []
    | k + 1, x :: xs =>
      match toNode k x, toNodes k xs with
      | some a, some b => some (a :: b)
      | _, _ => none
end

def decCands : List Sexp → Option (List (Cand × RelPath))
  | [] => some []
  | .list [.atom "cand", rel, .atom sz, res] :: rest =>
    match toPath rel, sz.toNat?, toPath res, decCands rest with
    | some rel, some sz, some res, some r => some (({ rel := rel, size := sz }, res) :: r)
    | _, _, _, _ => none
  | _ => none

def toArg (incl excl : List (List Nat × Bool)) (maxSize fuel : Nat) : Sexp → Option Arg
  | .list [.atom "file", parts, .atom n, .atom sz, res] =>
    match toPath parts, decN n, sz.toNat?, toPath res with
    | some parts, some n, some sz, some res => some (.file parts n sz res)
    | _, _, _, _ => none
  | .list (.atom "dir" :: root :: env :: kids) =>
    match toPath root, toEnv incl excl maxSize env, toNodes fuel kids with
    | some root, some env, some kids => some (.dir root env kids)
    | _, _, _ => none
  | .list (.atom "glob" :: root :: env :: cands) =>
    match toPath root, toEnv incl excl maxSize env, decCands cands with
    | some root, some env, some cands => some (.glob root env cands)
    | _, _, _ => none
  | _ => none

def toArgs (incl excl : List (List Nat × Bool)) (maxSize fuel : Nat) : List Sexp → Option (List Arg)
  | [] => some []
  | x :: xs =>
    match toArg incl excl maxSize fuel x, toArgs incl excl maxSize fuel xs with
    | some a, some b => some (a :: b)
    | _, _ => none

def encPathN (p : RelPath) : String :=
  String.intercalate "/" (p.map fun n => String.intercalate "." (n.map toString))

/-- the whole op: result paths, one per `;`, components joined by `/`, code points by `.` -/
def resolveOp (force maxSize incl excl args : String) : Option String :=
  match decBool force, maxSize.toNat?, parseSexps incl, parseSexps excl, parseSexps args with
  | some force, some maxSize, some incl, some excl, some args =>
    match decBoolTbl incl, decBoolTbl excl with
    | some incl, some excl =>
      match toArgs incl excl maxSize (args.length + 64) args with
      | some as =>
        some (String.join ((resolveAll (lookupB excl) force maxSize as).map fun p => encPathN p ++ ";"))
      | none => none
    | _, _ => none
  | _, _, _, _, _ => none

end Driver
