/-
  Base string vocabulary of the flowmark model.

  Strings are `List Char` (`Str`); a `Word` is a `Str` the wrapper treats as indivisible.
  Everything here is import-free so that the driver executable links without Mathlib.
-/
namespace FM

abbrev Str := List Char
abbrev Word := List Char
abbrev Line := List Word

/-- Python `str.isspace()` / `re` `\s` for `str` patterns: the code points CPython's
`Py_UNICODE_ISSPACE` accepts.  The harness compares this table with the running interpreter
over all 1 114 112 code points on every run (`codepoints` self-test). -/
def isPySpace (c : Char) : Bool :=
  let n := c.toNat
  (9 ≤ n && n ≤ 13) || (28 ≤ n && n ≤ 32) || n == 133 || n == 160 || n == 5760 ||
  (8192 ≤ n && n ≤ 8202) || n == 8232 || n == 8233 || n == 8239 || n == 8287 || n == 12288

/-- Python `str.splitlines()` boundaries other than the two-character `\r\n`. -/
def isPyLineBreak (c : Char) : Bool :=
  let n := c.toNat
  n == 10 || n == 11 || n == 12 || n == 13 || n == 28 || n == 29 || n == 30 ||
  n == 133 || n == 8232 || n == 8233

/-- `" ".join(ws)` -/
def joinSp : List Word → Str
  | [] => []
  | [w] => w
  | w :: ws => w ++ ' ' :: joinSp ws

/-- `sep.join(xs)` -/
def joinWith (sep : Str) : List Str → Str
  | [] => []
  | [w] => w
  | w :: ws => w ++ sep ++ joinWith sep ws

/-- Length of `" ".join(ws)`. -/
def lineLen : List Word → Nat
  | [] => 0
  | [w] => w.length
  | w :: ws => w.length + 1 + lineLen ws

/-- `text.split()`-style splitting of a character list on a separator predicate
(maximal runs of non-separators). -/
def splitOnP (p : Char → Bool) : Str → Word → List Word
  | [], cur => if cur.isEmpty then [] else [cur.reverse]
  | c :: cs, cur =>
    if p c then
      (if cur.isEmpty then [] else [cur.reverse]) ++ splitOnP p cs []
    else splitOnP p cs (c :: cur)

/-- Python `str.split()` (no argument). -/
def pySplit (s : Str) : List Word := splitOnP isPySpace s []

/-- Python `s.split("\n")`: always at least one piece. -/
def splitNl : Str → Str → List Str
  | [], cur => [cur.reverse]
  | c :: cs, cur => if c == '\n' then cur.reverse :: splitNl cs [] else splitNl cs (c :: cur)

def pySplitNl (s : Str) : List Str := splitNl s []

/-- Python `str.strip()` / `lstrip` / `rstrip` (whitespace). -/
def lstrip (s : Str) : Str := s.dropWhile isPySpace
def rstrip (s : Str) : Str := (s.reverse.dropWhile isPySpace).reverse
def strip (s : Str) : Str := rstrip (lstrip s)

/-- `re.sub(r"\s+", " ", s)` -/
def collapseAux : Bool → Str → Str
  | _, [] => []
  | inSp, c :: cs =>
    if isPySpace c then (if inSp then collapseAux true cs else ' ' :: collapseAux true cs)
    else c :: collapseAux false cs

def collapseWs (s : Str) : Str := collapseAux false s

def startsWith (s p : Str) : Bool := p.isPrefixOf s
def endsWith (s p : Str) : Bool := p.reverse.isPrefixOf s.reverse

end FM
