import FM.Model.Plumbing
/-
  Model of `config.py`: merge_cli_with_config and find_config_file.
  Field/lock tables are parameters (instantiated with the generated tables in Props/C16).
-/
namespace FM.Config
open FM.Plumbing

structure Tables where
  configFields : List String
  optionsFields : List String
  autoLocked : List String

/-- `merge_cli_with_config(cli_opts, config, is_auto, explicit_flags)` — the value of attribute `f`
of the returned options. `cli` holds the argparse values after `--auto` was applied. -/
def merge (t : Tables) (cli : String → Val) (cfg : String → Option Val) (explicit : List String)
    (isAuto : Bool) (f : String) : Val :=
  if f ∈ t.configFields then
    match cfg f with
    | none => cli f
    | some v =>
      if f ∈ explicit then cli f
      else if isAuto = true ∧ f ∈ t.autoLocked then cli f
      else if f ∈ t.optionsFields then v
      else cli f
  else cli f

/-- One directory level on the way up: which candidate files exist. -/
structure Level where
  dotFlowmark : Bool        -- `.flowmark.toml` is a file
  flowmark : Bool           -- `flowmark.toml` is a file
  pyproject : Bool          -- `pyproject.toml` is a file
  pyprojectHasSection : Bool -- … and parses with a [tool.flowmark] table
deriving Repr, DecidableEq

inductive Which where | dot | plain | pyproject
deriving Repr, DecidableEq

def levelPick (l : Level) : Option Which :=
  if l.dotFlowmark then some .dot
  else if l.flowmark then some .plain
  else if l.pyproject && l.pyprojectHasSection then some .pyproject
  else none

/-- `find_config_file`: walk up from the start directory (levels listed nearest first). -/
def findConfig : List Level → Nat → Option (Nat × Which)
  | [], _ => none
  | l :: rest, i =>
    match levelPick l with
    | some w => some (i, w)
    | none => findConfig rest (i + 1)

end FM.Config
