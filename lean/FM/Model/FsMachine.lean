/-
  Model of the file-system side of `reformat_file` / `reformat_files` (with strif's
  `atomic_output_file`): the mutating operations one run issues, in order, over an abstract file
  system.  A crash (the process dies) or a failing operation (an exception: the remaining
  operations of the run are skipped) leaves the state reached by a prefix of that list.
  `rename` is atomic (POSIX rename(2) — a law about the operating system, in the trusted base).
-/
namespace FM.Fs

abbrev Path := Nat
abbrev Content := List Nat
abbrev State := Path → Option Content

inductive Op where
  | create (p : Path)                   -- open(p, O_WRONLY|O_CREAT|O_TRUNC)
  | append (p : Path) (c : Content)     -- one write(2) on the descriptor of p (possibly a part of the data)
  | rename (src dst : Path)             -- rename(2) / os.replace
deriving DecidableEq, Repr

def apply (s : State) : Op → State
  | .create p => fun q => if q = p then some [] else s q
  | .append p c => fun q => if q = p then (s p).map (· ++ c) else s q
  | .rename a b => fun q => if q = b then s a else if q = a then none else s q

def exec (s : State) (ops : List Op) : State := ops.foldl apply s

/-- one file to be written: where, through which temporary name, with which backup name, and how the
operating system happens to split the write of the new content -/
structure Job where
  target : Path
  tmp : Path
  orig : Path
  backup : Bool
  old : Content
  chunks : List Content

def Job.new (j : Job) : Content := j.chunks.flatten

/-- phase 1: the new content goes to the temporary sibling -/
def Job.writeOps (j : Job) : List Op := .create j.tmp :: j.chunks.map (.append j.tmp)

/-- phase 2: the old file is moved to the backup name (if asked), the temporary file over the target -/
def Job.moveOps (j : Job) : List Op :=
  (if j.backup then [.rename j.target j.orig] else []) ++ [.rename j.tmp j.target]

/-- what `reformat_file(inplace=True)` (or `-o target`) issues once reading and formatting succeeded -/
def Job.ops (j : Job) : List Op := j.writeOps ++ j.moveOps

/-- the paths an operation names -/
def Op.paths : Op → List Path
  | .create p => [p]
  | .append p _ => [p]
  | .rename a b => [a, b]

def Job.paths (j : Job) : List Path := [j.target, j.tmp, j.orig]

/-- a whole run over several files, each read and formatted successfully (`reformat_files`) -/
def runOps (jobs : List Job) : List Op := jobs.flatMap Job.ops

/-- the (non-)ops of a file whose reading, decoding or formatting failed: nothing is issued -/
def failedOps : List Op := []

end FM.Fs
