/-
  Model of the routing of `reformat_api.py: reformat_file / reformat_files`: which input is read, where its
  formatted text goes (standard output, or a target file written through `atomic_output_file` with or without a
  backup), in which order, and which argument combinations are refused before anything is read or written.

  Files are identified by what `Path.resolve()` identifies (`id : Nat`): two spellings of one file carry the
  same id.  Formatting itself is a parameter (`Action` only says *whose* text goes *where*).
-/
namespace FM.Route

/-- an input argument: `"-"` or a file -/
inductive Arg where
  | stdin
  | file (id : Nat)
deriving DecidableEq, Repr

/-- the `output` argument: `None`/`""`, `"-"`, or a path -/
inductive Out where
  | none
  | stdout
  | path (id : Nat)
deriving DecidableEq, Repr

inductive Action where
  /-- `sys.stdout.write(format(read src))` -/
  | toStdout (src : Arg)
  /-- `with atomic_output_file(target, backup_suffix=".orig" if backup else "")`: the formatted text of `src` -/
  | toFile (src : Arg) (target : Nat) (backup : Bool)
deriving DecidableEq, Repr

inductive Err where
  | inplaceStdin     -- "Cannot use `inplace` with stdin"
  | outputMulti      -- "Cannot specify output file when processing multiple files"
deriving DecidableEq, Repr

/-- `reformat_file(path, output, inplace=…, nobackup=…)` -/
def reformatFile (path : Arg) (output : Out) (inplace nobackup : Bool) : Except Err Action :=
  match inplace, path with
  | true, .stdin => .error .inplaceStdin
  | true, .file id => .ok (.toFile path id (!nobackup))
  | false, _ =>
    match output with
    | .path o => .ok (.toFile path o false)
    | _ => .ok (.toStdout path)

/-- the in-place loop of `reformat_files`: a file named twice is formatted once (`seen`, by resolved path) -/
def inplaceLoop (nobackup : Bool) : List Arg → List Nat → List Action
  | [], _ => []
  | .stdin :: rest, seen => inplaceLoop nobackup rest seen      -- excluded by the check before the loop
  | .file id :: rest, seen =>
    if seen.contains id then inplaceLoop nobackup rest seen
    else .toFile (.file id) id (!nobackup) :: inplaceLoop nobackup rest (id :: seen)

/-- `reformat_files(files, output, inplace=…, nobackup=…)`: the actions carried out, in order, or the usage error
(raised before any action). -/
def reformatFiles (files : List Arg) (output : Out) (inplace nobackup : Bool) : Except Err (List Action) :=
  if files = [.stdin] then (reformatFile .stdin output inplace nobackup).map ([·])
  else if inplace && files.contains .stdin then .error .inplaceStdin
  else if !inplace && (match output with | .path _ => true | _ => false) then .error .outputMulti
  else if inplace then .ok (inplaceLoop nobackup files [])
  else .ok (files.map .toStdout)

def Action.target? : Action → Option Nat
  | .toStdout _ => none
  | .toFile _ t _ => some t

def Action.src : Action → Arg
  | .toStdout s => s
  | .toFile s _ _ => s

end FM.Route
