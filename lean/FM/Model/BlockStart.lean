import FM.Model.Wrap
/-
  SPEC (not a model of flowmark code): which lines, standing directly below paragraph text, start
  a new block or turn the paragraph into a heading — CommonMark 0.31.2 §4.1–4.5, §5.1–5.2,
  for the constructs property C01 names.  Lines are word lists (single spaces between words), as
  the wrapper emits them after the container prefix.
  Validated against Marko and markdown-it-py by monitor `blockstart` (harness/props/c01.py).
-/
namespace FM

def allCh (ch : Char) (w : Word) : Bool := !w.isEmpty && w.all (· == ch)

/-- ATX heading: 1–6 `#` then a space or the end of the line. -/
def isAtxHead (w : Word) : Bool := allCh '#' w && decide (w.length ≤ 6)

/-- Bullet list item interrupting a paragraph: `-`, `+` or `*` followed by content. -/
def isBulletHead (w : Word) (rest : Line) : Bool :=
  (w == ['-'] || w == ['+'] || w == ['*']) && !rest.isEmpty

/-- Ordered list item interrupting a paragraph: only the number 1 can (`1.` / `1)`) with content. -/
def isOrderedHead (w : Word) (rest : Line) : Bool :=
  (w == ['1', '.'] || w == ['1', ')']) && !rest.isEmpty

/-- Block quote marker. -/
def isQuoteHead (w : Word) : Bool := w.head? == some '>'

/-- The whole line consists of one character `ch` (three or more) and spaces: thematic break. -/
def isRuleLine (ch : Char) (l : Line) : Bool :=
  l.all (fun w => w.all (· == ch)) && decide (3 ≤ (l.map List.length).sum)

/-- Setext underline: a single word of `=` or of `-`. -/
def isSetextLine (l : Line) : Bool :=
  match l with
  | [w] => allCh '=' w || allCh '-' w
  | _ => false

/-- Fenced code start: at least three backticks (no further backtick on the line) or tildes. -/
def isFenceHead (w : Word) (rest : Line) : Bool :=
  let ticks := w.takeWhile (· == '`')
  let tildes := w.takeWhile (· == '~')
  (decide (3 ≤ ticks.length) && !(w.drop ticks.length).contains '`' && rest.all (fun x => !x.contains '`')) ||
  decide (3 ≤ tildes.length)

/-- Does this line, directly below paragraph text, interrupt / retype the paragraph? -/
def interruptsPara : Line → Bool
  | [] => false
  | w :: rest =>
    isAtxHead w || isBulletHead w rest || isOrderedHead w rest || isQuoteHead w ||
    isRuleLine '*' (w :: rest) || isRuleLine '-' (w :: rest) || isRuleLine '_' (w :: rest) ||
    isSetextLine (w :: rest) || isFenceHead w rest

end FM
