import FM.Model.Ast
/-
  Model of `transforms/doc_transforms.py` and `transforms/doc_cleanups.py`:
    coalesce_raw_text_nodes, rewrite_text_content, rewrite_text_across_inlines, unbold_headings.
  The traversal (`transform_tree`) descends into Document, Quote/Alert, List, ListItem, Paragraph,
  Heading, SetextHeading, Emphasis, StrongEmphasis, Link, FootnoteDef, Table/TableRow/TableCell,
  Strikethrough — not into Image.
-/
namespace FM

/-! ### coalesce: RawText, soft LineBreak, RawText, … → one RawText joined by "\n" -/

/-- the look-ahead loop: absorb `(soft break, raw text)` pairs -/
def absorbSoft : Str → List Inline → Str × List Inline
  | acc, .br true :: .raw s :: rest => absorbSoft (acc ++ '\n' :: s) rest
  | acc, rest => (acc, rest)

def coalesceList : Nat → List Inline → List Inline
  | 0, xs => xs
  | _, [] => []
  | n + 1, .raw s :: rest =>
    let r := absorbSoft s rest
    .raw r.1 :: coalesceList n r.2
  | n + 1, x :: rest => x :: coalesceList n rest

mutual
  /-- `coalesce_raw_text_nodes` below an inline node that `transform_tree` descends into -/
  def coalesceInline : Inline → Inline
    | .em cs => .em (coalesceInlines cs)
    | .strong cs => .strong (coalesceInlines cs)
    | .strike cs => .strike (coalesceInlines cs)
    | .link cs d t => .link (coalesceInlines cs) d t
    | i => i
  /-- Python coalesces a node's children and then visits the (new) children; merging siblings and
  processing inside a child are independent, so children are processed first here (structural). -/
  def coalesceInlines (cs : List Inline) : List Inline :=
    coalesceList cs.length (coalesceChildren cs)
  def coalesceChildren : List Inline → List Inline
    | [] => []
    | c :: rest => coalesceInline c :: coalesceChildren rest
end

/-! ### rewrite_text_content (ellipses): apply `f` to every RawText the traversal reaches -/

mutual
  def mapRawInline (f : Str → Str) : Inline → Inline
    | .raw s => .raw (f s)
    | .em cs => .em (mapRawInlines f cs)
    | .strong cs => .strong (mapRawInlines f cs)
    | .strike cs => .strike (mapRawInlines f cs)
    | .link cs d t => .link (mapRawInlines f cs) d t
    | i => i            -- code spans, images, autolinks, HTML, literals, breaks: untouched
  def mapRawInlines (f : Str → Str) : List Inline → List Inline
    | [] => []
    | c :: rest => mapRawInline f c :: mapRawInlines f rest
end

/-! ### rewrite_text_across_inlines (smart quotes): composite text per inline scope -/

mutual
  /-- `_collect_inline_segments`: (text, mutable?) in document order -/
  def collectSegs : Inline → List (Str × Bool)
    | .raw s => [(s, true)]
    | .code s => [(s, false)]
    | .br soft => [(['\n'], false)] ++ (if soft then [] else [])
    | .lit c => [(c, false)]
    | .html s => [(s, false)]
    | .em cs => collectSegsL cs
    | .strong cs => collectSegsL cs
    | .strike cs => collectSegsL cs
    | .link cs _ _ => collectSegsL cs
    | .image cs _ _ => collectSegsL cs
    | .autolink d => [(d, false)]
    | .url d => [(d, false)]
    | .fnref _ => []
  def collectSegsL : List Inline → List (Str × Bool)
    | [] => []
    | c :: rest => collectSegs c ++ collectSegsL rest
end

mutual
  /-- write the converted composite back: every node consumes its own length; only RawText takes
  the new characters. Returns the rebuilt node and the rest of the converted text. -/
  def writeBack : Inline → Str → Inline × Str
    | .raw s, conv => (.raw (conv.take s.length), conv.drop s.length)
    | .code s, conv => (.code s, conv.drop s.length)
    | .br soft, conv => (.br soft, conv.drop 1)
    | .lit c, conv => (.lit c, conv.drop c.length)
    | .html s, conv => (.html s, conv.drop s.length)
    | .em cs, conv => let r := writeBackL cs conv; (.em r.1, r.2)
    | .strong cs, conv => let r := writeBackL cs conv; (.strong r.1, r.2)
    | .strike cs, conv => let r := writeBackL cs conv; (.strike r.1, r.2)
    | .link cs d t, conv => let r := writeBackL cs conv; (.link r.1 d t, r.2)
    | .image cs d t, conv => let r := writeBackL cs conv; (.image r.1 d t, r.2)
    | .autolink d, conv => (.autolink d, conv.drop d.length)
    | .url d, conv => (.url d, conv.drop d.length)
    | .fnref l, conv => (.fnref l, conv)
  def writeBackL : List Inline → Str → List Inline × Str
    | [], conv => ([], conv)
    | c :: rest, conv =>
      let r := writeBack c conv
      let r2 := writeBackL rest r.2
      (r.1 :: r2.1, r2.2)
end

/-- one inline scope (Paragraph / Heading / TableCell children): `Except` = the length assertion -/
def rewriteScope (f : Str → Str) (cs : List Inline) : Except String (List Inline) :=
  let composite := ((collectSegsL cs).map Prod.fst).flatten
  if composite.isEmpty then .ok cs
  else
    let conv := f composite
    if conv.length != composite.length then .error "Rewrite function must be length-preserving"
    else .ok (writeBackL cs conv).1

/-! ### unbold_headings -/

def unboldInl (cs : List Inline) : List Inline :=
  match cs with
  | [.strong inner] => inner
  | [.em [.strong inner]] => [.em inner]
  | _ => cs

mutual
  def unboldBlock : Block → Block
    | .heading l cs sx => .heading l (unboldInl cs) sx     -- ATX and setext headings alike
    | .list o s b t items => .list o s b t (unboldBlocks items)
    | .item bs => .item (unboldBlocks bs)
    | .quote bs => .quote (unboldBlocks bs)
    | .alert ty bs => .alert ty (unboldBlocks bs)
    | .fndef l bs => .fndef l (unboldBlocks bs)
    | b => b       -- all leaf blocks
  def unboldBlocks : List Block → List Block
    | [] => []
    | b :: rest => unboldBlock b :: unboldBlocks rest
end

/-! ### block-level application (the `transform_tree` traversal over blocks) -/

def mapCells (g : List Inline → List Inline) : List (List Inline) → List (List Inline)
  | [] => []
  | c :: rest => g c :: mapCells g rest

def mapRows (g : List Inline → List Inline) : List (List (List Inline)) → List (List (List Inline))
  | [] => []
  | r :: rest => mapCells g r :: mapRows g rest

mutual
  /-- apply `g` to the children of every inline scope the traversal reaches:
  Paragraph, Heading / SetextHeading, TableCell — inside Document, Quote/Alert, List, ListItem, FootnoteDef. -/
  def mapScopes (g : List Inline → List Inline) : Block → Block
    | .para cs chk => .para (g cs) chk
    | .heading l cs sx => .heading l (g cs) sx
    | .table h ds rows => .table (mapCells g h) ds (mapRows g rows)
    | .list o s b t items => .list o s b t (mapScopesL g items)
    | .item bs => .item (mapScopesL g bs)
    | .quote bs => .quote (mapScopesL g bs)
    | .alert ty bs => .alert ty (mapScopesL g bs)
    | .fndef l bs => .fndef l (mapScopesL g bs)
    | b => b
  def mapScopesL (g : List Inline → List Inline) : List Block → List Block
    | [] => []
    | b :: rest => mapScopes g b :: mapScopesL g rest
end

/-- `rewrite_text_content(doc, f, coalesce_lines=True)` -/
def rewriteTextContent (f : Str → Str) (doc : List Block) : List Block :=
  mapScopesL (fun cs => mapRawInlines f (coalesceInlines cs)) doc

/-- `rewrite_text_across_inlines(doc, f)`; a scope whose rewrite violates the length assertion is
left as it is and reported (`Bool` = some assertion failed). -/
def rewriteAcrossInlines (f : Str → Str) (doc : List Block) : List Block :=
  mapScopesL (fun cs =>
    let c := coalesceInlines cs
    match rewriteScope f c with
    | .ok r => r
    | .error _ => c) doc

def anyAssertion (f : Str → Str) : List (List Inline) → Bool
  | [] => false
  | cs :: rest => (match rewriteScope f (coalesceInlines cs) with | .ok _ => false | .error _ => true) || anyAssertion f rest

end FM
