/-
  The regular expressions the hand-written scanner / splitter / wrapper models were written against (a snapshot of
  harness/translate_patterns.py's output, maintained BY HAND together with the models).  Each Props/Cxx.lean states
  `PATTERNS_AS_MODELLED : FM.Gen.patterns_Cxx = FM.Baseline.patterns_Cxx` over the list regenerated from /repo on
  every run: a regular expression edited in the source breaks that obligation.  When a pattern legitimately changes,
  re-validate the model of that scanner (ties) and update this file in the same commit.
-/
namespace FM.Baseline

/-- regular expressions of the source files whose model serves C01: (where, pattern text, flags) -/
def patterns_C01 : List (String × String × String) := [
  ("linewrapping/line_wrappers.py:_line_break_re", "\\\\\\n|  \\n", "32"),
  ("linewrapping/line_wrappers.py:<module>:re.compile", "\\\\\\n|  \\n", "-"),
  ("linewrapping/text_wrapping.py:_PLACEHOLDER_RE", "\x00AC([0-9]+)\x00", "32"),
  ("linewrapping/text_wrapping.py:_md_numeral_pat", "^[0-9]+[.)]$", "32"),
  ("linewrapping/text_wrapping.py:_md_specials_pat", "^([-*+>]|#+)$", "32"),
  ("linewrapping/text_wrapping.py:<module>:re.compile", "^([-*+>]|#+)$", "-"),
  ("linewrapping/text_wrapping.py:<module>:re.compile", "^[0-9]+[.)]$", "-"),
  ("linewrapping/text_wrapping.py:wrap_paragraph_lines:re.sub", "\\s+", "-"),
  ("linewrapping/text_wrapping.py:wrap_paragraph_lines:re.sub", "\\s+", "-")
]

/-- regular expressions of the source files whose model serves C04: (where, pattern text, flags) -/
def patterns_C04 : List (String × String × String) := [
  ("formats/flowmark_markdown.py:_normalize_title_quotes:re.sub", "(?<!\\\\)\"", "-"),
  ("formats/flowmark_markdown.py:CustomStrikethrough:re.compile", "(?<!~)(~{1,2})(?!\\s)([^~]+?)(?<!\\s)\\1(?!~)", "-"),
  ("formats/flowmark_markdown.py:CustomFencedCode.parse:re.match", " {,3}(~+|`+)[^\\n\\S]*$", "re.M"),
  ("formats/flowmark_markdown.py:MarkdownNormalizer.render_heading:re.sub", "\\\\?\\n", "-"),
  ("formats/flowmark_markdown.py:MarkdownNormalizer.render_raw_text:re.sub", "[ \\t]+", "-"),
  ("formats/flowmark_markdown.py:MarkdownNormalizer.render_code_span:re.findall", "`+", "-")
]

/-- regular expressions of the source files whose model serves C05: (where, pattern text, flags) -/
def patterns_C05 : List (String × String × String) := [
  ("linewrapping/text_filling.py:split_paragraphs:re.split", "\\n{2,}", "-")
]

/-- regular expressions of the source files whose model serves C06: (where, pattern text, flags) -/
def patterns_C06 : List (String × String × String) := [
  ("linewrapping/atomic_patterns.py:ATOMIC_CONSTRUCT_PATTERN", "(`+)(?:(?!\\1).)+\\1|\\[[^\\]]*\\](?:\\([^)]*\\)|\\[[^\\]]*\\])?|\\{%(?!\\s*/)[^%]*%\\}\\s*\\{%\\s*/[^%]*%\\}|\\{#(?!\\s*/)[^#]*#\\}\\s*\\{#\\s*/[^#]*#\\}|\\{\\{(?!\\s*/)[^}]*\\}\\}\\s*\\{\\{\\s*/[^}]*\\}\\}|<!--(?!\\s*/)[^-]*(?:-[^-]+)*-->\\s*<!--\\s*/[^-]*(?:-[^-]+)*-->|\\{%.*?%\\}|\\{#.*?#\\}|\\{\\{.*?\\}\\}|<!--.*?-->|<[a-zA-Z][^>]*>|</[a-zA-Z][^>]*>", "48"),
  ("linewrapping/atomic_patterns.py:ATOMIC_PATTERNS.inline_code_span", "(`+)(?:(?!\\1).)+\\1", "-"),
  ("linewrapping/atomic_patterns.py:ATOMIC_PATTERNS.markdown_link", "\\[[^\\]]*\\](?:\\([^)]*\\)|\\[[^\\]]*\\])?", "-"),
  ("linewrapping/atomic_patterns.py:ATOMIC_PATTERNS.paired_jinja_tag", "\\{%(?!\\s*/)[^%]*%\\}\\s*\\{%\\s*/[^%]*%\\}", "-"),
  ("linewrapping/atomic_patterns.py:ATOMIC_PATTERNS.paired_jinja_comment", "\\{#(?!\\s*/)[^#]*#\\}\\s*\\{#\\s*/[^#]*#\\}", "-"),
  ("linewrapping/atomic_patterns.py:ATOMIC_PATTERNS.paired_jinja_var", "\\{\\{(?!\\s*/)[^}]*\\}\\}\\s*\\{\\{\\s*/[^}]*\\}\\}", "-"),
  ("linewrapping/atomic_patterns.py:ATOMIC_PATTERNS.paired_html_comment", "<!--(?!\\s*/)[^-]*(?:-[^-]+)*-->\\s*<!--\\s*/[^-]*(?:-[^-]+)*-->", "-"),
  ("linewrapping/atomic_patterns.py:ATOMIC_PATTERNS.single_jinja_tag", "\\{%.*?%\\}", "-"),
  ("linewrapping/atomic_patterns.py:ATOMIC_PATTERNS.single_jinja_comment", "\\{#.*?#\\}", "-"),
  ("linewrapping/atomic_patterns.py:ATOMIC_PATTERNS.single_jinja_var", "\\{\\{.*?\\}\\}", "-"),
  ("linewrapping/atomic_patterns.py:ATOMIC_PATTERNS.single_html_comment", "<!--.*?-->", "-"),
  ("linewrapping/atomic_patterns.py:ATOMIC_PATTERNS.html_open_tag", "<[a-zA-Z][^>]*>", "-"),
  ("linewrapping/atomic_patterns.py:ATOMIC_PATTERNS.html_close_tag", "</[a-zA-Z][^>]*>", "-"),
  ("linewrapping/tag_handling.py:PAIRED_TAGS_PATTERN", "\\{%(?!\\s*/)[^%]*%\\}\\s*\\{%\\s*/[^%]*%\\}|\\{#(?!\\s*/)[^#]*#\\}\\s*\\{#\\s*/[^#]*#\\}|\\{\\{(?!\\s*/)[^}]*\\}\\}\\s*\\{\\{\\s*/[^}]*\\}\\}|<!--(?!\\s*/)[^-]*(?:-[^-]+)*-->\\s*<!--\\s*/[^-]*(?:-[^-]+)*-->", "48"),
  ("linewrapping/tag_handling.py:TEMPLATE_TAG_PATTERN", "\\{%.*?%\\}|\\{#.*?#\\}|\\{\\{.*?\\}\\}|<!--.*?-->", "48"),
  ("linewrapping/tag_handling.py:_adjacent_tags_re", "(%\\})(\\{%)|(#\\})(\\{#)|(\\}\\})(\\{\\{)|(-->)(<!--)", "32"),
  ("linewrapping/tag_handling.py:_denormalize_tags_re", "(%\\}) (\\{%)|(#\\}) (\\{#)|(\\}\\}) (\\{\\{)|(-->) (<!--)", "32"),
  ("linewrapping/tag_handling.py:_fence_line_re", "^[ ]{0,3}(?:>[ ]?)*[ ]{0,3}(`{3,}|~{3,})(.*)$", "32"),
  ("linewrapping/tag_handling.py:_multiline_closing_pattern", "%\\}\\s*(?P<closing_tag>\\{%\\s*/)|#\\}\\s*(?P<closing_comment>\\{#\\s*/)|\\}\\}\\s*(?P<closing_var>\\{\\{\\s*/)|-->\\s*(?P<closing_html><!--\\s*/)", "32"),
  ("linewrapping/tag_handling.py:_tag_start_re", "(?:\\{%|\\{#|\\{\\{|<!--)\\s*(/?)", "32"),
  ("linewrapping/tag_handling.py:<module>:re.compile", "^[ ]{0,3}(?:>[ ]?)*[ ]{0,3}(`{3,}|~{3,})(.*)$", "-"),
  ("linewrapping/tag_handling.py:<module>:re.compile", "(?:\\{%|\\{#|\\{\\{|<!--)\\s*(/?)", "-")
]

/-- regular expressions of the source files whose model serves C07: (where, pattern text, flags) -/
def patterns_C07 : List (String × String × String) := [
]

/-- regular expressions of the source files whose model serves C08: (where, pattern text, flags) -/
def patterns_C08 : List (String × String × String) := [
  ("typography/smartquotes.py:PARAGRAPH_BREAK_PATTERN", "\\n\\s*\\n", "32"),
  ("typography/smartquotes.py:QUOTE_PATTERN", "(^|\\s|—)(?:\"([^\"\\u201c\\u201d]*)\"|\\'([^\\'\\u2018\\u2019]*)\\')(?=\\s|$|\\.|,|;|:|\\?|!|—|\\))", "40"),
  ("typography/smartquotes.py:<module>:re.compile", "\\n\\s*\\n", "-"),
  ("typography/smartquotes.py:<module>:re.compile", "(^|\\s|—)(?:\"([^\"\\u201c\\u201d]*)\"|\\'([^\\'\\u2018\\u2019]*)\\')(?=\\s|$|\\.|,|;|:|\\?|!|—|\\))", "re.MULTILINE"),
  ("typography/smartquotes.py:_apply_smart_quotes_to_text:re.split", "(\\s+)", "-"),
  ("typography/smartquotes.py:_apply_smart_quotes_to_text:re.sub", "\\'", "-"),
  ("typography/smartquotes.py:_apply_smart_quotes_to_text:re.match", "\\w*[sS]\\'$", "-"),
  ("typography/smartquotes.py:_apply_smart_quotes_to_text:re.sub", "\\'", "-")
]

/-- regular expressions of the source files whose model serves C09: (where, pattern text, flags) -/
def patterns_C09 : List (String × String × String) := [
  ("typography/ellipses.py:ELLIPSIS_PATTERN", "(^|[\\w\\\"\\'“‘”’])(\\s*)(\\.\\.\\.)([.,:;?!)\\-—\\\"\\'”’]?)(\\s*)", "32"),
  ("typography/ellipses.py:<module>:re.compile", "(^|[\\w\\\"\\'“‘”’])(\\s*)(\\.\\.\\.)([.,:;?!)\\-—\\\"\\'”’]?)(\\s*)", "-"),
  ("typography/ellipses.py:ellipses.replace_match:re.match", "\\w|$", "-"),
  ("typography/ellipses.py:ellipses.replace_match:re.match", "\\w", "-"),
  ("typography/ellipses.py:ellipses.replace_match:re.match", "\\w", "-")
]

/-- regular expressions of the source files whose model serves C10: (where, pattern text, flags) -/
def patterns_C10 : List (String × String × String) := [
]

/-- regular expressions of the source files whose model serves C11: (where, pattern text, flags) -/
def patterns_C11 : List (String × String × String) := [
  ("linewrapping/sentence_split_regex.py:SENTENCE_END_RE", "(\\b\\p{L}+[\\p{Ll}])([.?!]['\\\"’”)]?|['\\\"’”)][.?!]) *$", "8224"),
  ("linewrapping/sentence_split_regex.py:<module>:regex.compile", "(\\b\\p{L}+[\\p{Ll}])([.?!]['\\\"’”)]?|['\\\"’”)][.?!]) *$", "-")
]

/-- regular expressions of the source files whose model serves other: (where, pattern text, flags) -/
def patterns_other : List (String × String × String) := [
]

end FM.Baseline
