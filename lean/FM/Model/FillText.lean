import FM.Model.Wrap
/-
  Model of `linewrapping/text_filling.py: fill_text` (the textwrap-replacement API and the
  plaintext mode of `reformat_text`).  The word splitter is a parameter.
-/
namespace FM

inductive WrapMode where
  | none | wrap | wrapFull | wrapIndent | indentOnly | hangingIndent | markdownItem
deriving Repr, DecidableEq

def defaultIndent : Str := [' ', ' ', ' ', ' ']

def WrapMode.initialIndent : WrapMode → Str
  | .indentOnly | .wrapIndent => defaultIndent
  | _ => []

def WrapMode.subsequentIndent : WrapMode → Str
  | .markdownItem => [' ', ' ']
  | .indentOnly | .wrapIndent | .hangingIndent => defaultIndent
  | _ => []

def WrapMode.shouldWrap : WrapMode → Bool
  | .none | .indentOnly => false
  | _ => true

def WrapMode.firstParaOnly : WrapMode → Bool
  | .hangingIndent | .markdownItem => true
  | _ => false

def WrapMode.replaceWhitespace : WrapMode → Bool
  | .wrapFull | .wrapIndent | .hangingIndent => true
  | _ => false

/-- `re.split(r"\n{2,}", text)`; `p` counts pending newlines. -/
def splitParasAux : Str → Str → Nat → List Str
  | [], cur, p =>
    if 2 ≤ p then [cur.reverse, []] else [(if p == 1 then '\n' :: cur else cur).reverse]
  | c :: cs, cur, p =>
    if c == '\n' then splitParasAux cs cur (p + 1)
    else if 2 ≤ p then cur.reverse :: splitParasAux cs [c] 0
    else splitParasAux cs (c :: (if p == 1 then '\n' :: cur else cur)) 0

/-- `split_paragraphs(text) = [p.strip() for p in re.split(r"\n{2,}", text)]` -/
def splitParagraphs (text : Str) : List Str :=
  ((splitParasAux text [] 0).map strip).filter fun p => !p.isEmpty

/-- `wrap_paragraph_lines` with the `replace_whitespace` switch (`drop_whitespace=True`). -/
def wrapLinesRW (split : Str → List Word) (text : Str) (W : Int) (c0 c1 : Nat) (md rw : Bool) :
    List Str :=
  let t := if rw then collapseWs text else text
  if W ≤ 0 then
    let t := strip t
    if t.isEmpty then [] else [t]
  else (fill W.toNat c1 md c0 (split t)).map joinSp

def wrapParagraphRW (split : Str → List Word) (text : Str) (W : Int) (i0 s0 : Str)
    (initCol : Nat) (md rw : Bool) : Str :=
  let ls := wrapLinesRW split text W (initCol + i0.length) s0.length md rw
  denormalizeAdjacentTags (joinWith ['\n'] (addIndents i0 s0 (initCol != 0) ls))

/-- Python `str.splitlines()` (used by the non-wrapping modes). -/
def pySplitlinesAux : Str → Str → List Str
  | [], cur => if cur.isEmpty then [] else [cur.reverse]
  | '\r' :: '\n' :: rest, cur => cur.reverse :: pySplitlinesAux rest []
  | c :: rest, cur =>
    if isPyLineBreak c then cur.reverse :: pySplitlinesAux rest [] else pySplitlinesAux rest (c :: cur)

def pySplitlines (s : Str) : List Str := pySplitlinesAux s []

/-- `fill_text(text, text_wrap, width, extra_indent, empty_indent, initial_column, word_splitter)` -/
def fillText (split : Str → List Word) (text : Str) (mode : WrapMode) (W : Int)
    (extraIndent emptyIndent : Str) (initCol : Nat) : Str :=
  if !mode.shouldWrap then
    let indent := if mode == .indentOnly then extraIndent ++ defaultIndent else extraIndent
    match pySplitlines text with
    | [] => emptyIndent
    | ls => joinWith ['\n'] (ls.map (indent ++ ·))
  else
    let emptyIndent := strip emptyIndent
    let i0 := extraIndent ++ mode.initialIndent
    let s0 := extraIndent ++ mode.subsequentIndent
    let W' : Int := W - s0.length
    let paras := splitParagraphs text
    let wrapped := paras.zipIdx.map fun (p, i) =>
      let i0' := if mode.firstParaOnly && i > 0 then s0 else i0
      wrapParagraphRW split p W' i0' s0 initCol false mode.replaceWhitespace
    joinWith ('\n' :: emptyIndent ++ ['\n']) wrapped

end FM
