import FM.Model.Wrap
/-
  Hand-written scanners for `ATOMIC_CONSTRUCT_PATTERN` (atomic_patterns.py): the alternation, in
  priority order and with `re.DOTALL`, of
    code span  (`+)(?:(?!\1).)+\1          link  \[[^\]]*\](?:\([^)]*\)|\[[^\]]*\])?
    paired tags (4 families)               single tags (4 families, lazy)
    html open  <[a-zA-Z][^>]*>             html close  </[a-zA-Z][^>]*>
  Each scanner answers: length of a match of its pattern at the head of the text, if any.
  Tied to the real regex by bounded-exhaustive comparison (op `atoms`).
-/
namespace FM

/-- index of the first occurrence of `pat` at or after the head (0 = at the head) -/
def indexOf? (pat : Str) : Str → Option Nat
  | [] => if pat.isEmpty then some 0 else none
  | c :: cs =>
    if pat.isPrefixOf (c :: cs) then some 0
    else match indexOf? pat cs with
      | some k => some (k + 1)
      | none => none

/-! ### code span -/

/-- with an opening run of `n` backticks already consumed: `(?:(?!\1).)+\1` on `s`;
returns the length consumed from `s`. Needs at least one content character. -/
def codeSpanBody (n : Nat) (s : Str) : Option Nat :=
  let delim := List.replicate n '`'
  match s with
  | [] => none
  | c :: cs =>
    if delim.isPrefixOf (c :: cs) then none     -- `(?!\1)` fails on the first content character
    else match indexOf? delim cs with
      | some k => some (1 + k + n)
      | none => none

/-- try opening runs of length `n, n-1, …, 1` (regex backtracking of `` `+ ``) -/
def codeSpanTry (s : Str) : Nat → Option Nat
  | 0 => none
  | n + 1 =>
    match codeSpanBody (n + 1) (s.drop (n + 1)) with
    | some k => some (n + 1 + k)
    | none => codeSpanTry s n

def codeSpanAt (s : Str) : Option Nat :=
  let run := (s.takeWhile (· == '`')).length
  codeSpanTry s run

/-! ### markdown link -/

/-- `open [^close]* close`: length including both delimiters -/
def bracketed (op cl : Char) (s : Str) : Option Nat :=
  match s with
  | c :: cs =>
    if c == op then
      let inner := cs.takeWhile (· != cl)
      if (cs.drop inner.length).head? == some cl then some (inner.length + 2) else none
    else none
  | [] => none

def linkAt (s : Str) : Option Nat :=
  match bracketed '[' ']' s with
  | some k =>
    let rest := s.drop k
    match bracketed '(' ')' rest with
    | some k2 => some (k + k2)
    | none =>
      match bracketed '[' ']' rest with
      | some k2 => some (k + k2)
      | none => some k
  | none => none

/-! ### tags -/

/-- `\s*/` at the head -/
def slashAfterWs (s : Str) : Bool := (s.dropWhile isPySpace).head? == some '/'

/-- `open (?!\s*/) [^mid]* close` -/
def openTagAt (o c : Str) (mid : Char) (s : Str) : Option Nat :=
  if o.isPrefixOf s then
    let r := s.drop o.length
    if slashAfterWs r then none
    else
      let body := r.takeWhile (· != mid)
      if c.isPrefixOf (r.drop body.length) then some (o.length + body.length + c.length) else none
  else none

/-- `open \s* / [^mid]* close` -/
def closeTagAt (o c : Str) (mid : Char) (s : Str) : Option Nat :=
  if o.isPrefixOf s then
    let r := s.drop o.length
    let ws := r.takeWhile isPySpace
    let r2 := r.drop ws.length
    if r2.head? == some '/' then
      let body := (r2.drop 1).takeWhile (· != mid)
      if c.isPrefixOf ((r2.drop 1).drop body.length) then
        some (o.length + ws.length + 1 + body.length + c.length)
      else none
    else none
  else none

def pairedTagAt (o c : Str) (mid : Char) (s : Str) : Option Nat :=
  match openTagAt o c mid s with
  | some k =>
    let r := s.drop k
    let ws := r.takeWhile isPySpace
    match closeTagAt o c mid (r.drop ws.length) with
    | some k2 => some (k + ws.length + k2)
    | none => none
  | none => none

/-- HTML comment body `[^-]*(?:-[^-]+)*` followed by `-->`: the body may not contain `--`, and must
stop exactly where `-->` starts. Returns the body length. -/
def commentBody : Str → Nat → Option Nat
  | [], _ => none
  | c :: cs, n =>
    if c == '-' then
      match cs with
      | d :: ds =>
        if d == '-' then (if ds.head? == some '>' then some n else none)
        else commentBody cs (n + 1)
      | [] => none
    else commentBody cs (n + 1)

def htmlCommentOpenAt (s : Str) : Option Nat :=
  let o := "<!--".toList
  if o.isPrefixOf s then
    let r := s.drop 4
    if slashAfterWs r then none
    else match commentBody r 0 with
      | some b => some (4 + b + 3)
      | none => none
  else none

def htmlCommentCloseAt (s : Str) : Option Nat :=
  let o := "<!--".toList
  if o.isPrefixOf s then
    let r := s.drop 4
    let ws := r.takeWhile isPySpace
    let r2 := r.drop ws.length
    if r2.head? == some '/' then
      match commentBody (r2.drop 1) 0 with
      | some b => some (4 + ws.length + 1 + b + 3)
      | none => none
    else none
  else none

def pairedHtmlCommentAt (s : Str) : Option Nat :=
  match htmlCommentOpenAt s with
  | some k =>
    let r := s.drop k
    let ws := r.takeWhile isPySpace
    match htmlCommentCloseAt (r.drop ws.length) with
    | some k2 => some (k + ws.length + k2)
    | none => none
  | none => none

/-- `open .*? close` (lazy, DOTALL) -/
def singleTagAt (o c : Str) (s : Str) : Option Nat :=
  if o.isPrefixOf s then
    match indexOf? c (s.drop o.length) with
    | some k => some (o.length + k + c.length)
    | none => none
  else none

def isAsciiLetter (c : Char) : Bool := ('a' ≤ c && c ≤ 'z') || ('A' ≤ c && c ≤ 'Z')

/-- `<[a-zA-Z][^>]*>` / `</[a-zA-Z][^>]*>` -/
def htmlTagAt (s : Str) : Option Nat :=
  match s with
  | lt :: rest =>
    if lt == '<' then
      let (r, pre) := match rest with
        | sl :: r2 => if sl == '/' then (r2, 2) else (rest, 1)
        | [] => (rest, 1)
      match r with
      | l :: r3 =>
        if isAsciiLetter l then
          let body := r3.takeWhile (· != '>')
          if (r3.drop body.length).head? == some '>' then some (pre + 1 + body.length + 1) else none
        else none
      | [] => none
    else none
  | [] => none

/-- length of an `ATOMIC_CONSTRUCT_PATTERN` match at the head, alternatives in priority order -/
def atomAt (s : Str) : Option Nat :=
  (codeSpanAt s).orElse fun _ =>
  (linkAt s).orElse fun _ =>
  (pairedTagAt "{%".toList "%}".toList '%' s).orElse fun _ =>
  (pairedTagAt "{#".toList "#}".toList '#' s).orElse fun _ =>
  (pairedTagAt "{{".toList "}}".toList '}' s).orElse fun _ =>
  (pairedHtmlCommentAt s).orElse fun _ =>
  (singleTagAt "{%".toList "%}".toList s).orElse fun _ =>
  (singleTagAt "{#".toList "#}".toList s).orElse fun _ =>
  (singleTagAt "{{".toList "}}".toList s).orElse fun _ =>
  (singleTagAt "<!--".toList "-->".toList s).orElse fun _ =>
  htmlTagAt s

/-- `finditer`: spans `(start, end)` of the leftmost non-overlapping matches; fuel = text length -/
def atomSpans : Nat → Str → Nat → List (Nat × Nat)
  | 0, _, _ => []
  | n + 1, s, pos =>
    match s with
    | [] => []
    | c :: cs =>
      match atomAt (c :: cs) with
      | some k =>
        if k == 0 then atomSpans n cs (pos + 1)
        else (pos, pos + k) :: atomSpans n ((c :: cs).drop k) (pos + k)
      | none => atomSpans n cs (pos + 1)

def atomMask (s : Str) : List Bool :=
  let spans := atomSpans s.length s 0
  (List.range s.length).map fun i => spans.any fun (a, b) => a ≤ i && i < b

/-- split at whitespace outside atoms: `_HtmlMdWordSplitter` after `normalize_adjacent_tags`,
given the characteristic function of the atom spans. -/
def unitSplitAux : List (Char × Bool) → Word → List Word
  | [], cur => if cur.isEmpty then [] else [cur.reverse]
  | (c, m) :: rest, cur =>
    if isPySpace c && !m then (if cur.isEmpty then [] else [cur.reverse]) ++ unitSplitAux rest []
    else unitSplitAux rest (c :: cur)

def unitSplit (text : Str) (mask : List Bool) : List Word := unitSplitAux (text.zip mask) []

/-- the Markdown/HTML-aware word splitter -/
def mdSplit (text : Str) : List Word :=
  let t := normalizeAdjacentTags text
  unitSplit t (atomMask t)

end FM
