import FM.Model.Wrap
/-
  Model of the Markdown line-wrapper layers around the base wrapper:
    `_add_markdown_hard_break_handling`  (line_wrappers.py)
    `add_tag_newline_handling`, `_fix_closing_tag_spacing`,
    `_fix_multiline_opening_tag_with_closing`, `preprocess_tag_block_spacing`  (tag_handling.py)
    `line_is_block_content`  (block_heuristics.py)
  The base wrapper is a parameter `base : Str → Str → Str → Str` (text, initial indent, subsequent indent).
-/
namespace FM

abbrev LineWrapper := Str → Str → Str → Str

/-! ### hard breaks -/

/-- `re.split(r"\\\n|  \n", text)` -/
def splitHardBreaks : Str → Str → List Str
  | [], cur => [cur.reverse]
  | c :: cs, cur =>
    -- a hard break ends at a newline preceded by a backslash or by two spaces
    -- (`cur` holds the pending segment reversed, so its head is the previous character)
    if c == '\n' then
      match cur with
      | p :: rest =>
        if p == '\\' then rest.reverse :: splitHardBreaks cs []
        else
          match rest with
          | q :: rest2 =>
            if p == ' ' && q == ' ' then rest2.reverse :: splitHardBreaks cs []
            else splitHardBreaks cs (c :: cur)
          | [] => splitHardBreaks cs (c :: cur)
      | [] => splitHardBreaks cs (c :: cur)
    else splitHardBreaks cs (c :: cur)

/-- wrap segments 1.. with the subsequent indent as first-line indent; all but the last get `\`. -/
def wrapHardSegments (base : LineWrapper) (s0 : Str) : List Str → List Str
  | [] => []
  | [seg] => [base seg s0 s0]
  | seg :: rest => (base seg s0 s0 ++ ['\\']) :: wrapHardSegments base s0 rest

def hardBreakWrapper (base : LineWrapper) : LineWrapper := fun text i0 s0 =>
  match splitHardBreaks text [] with
  | [] => []
  | [_] => base text i0 s0
  | seg :: rest =>
    joinWith ['\n'] ((base seg i0 s0 ++ ['\\']) :: wrapHardSegments base s0 rest)

/-! ### line predicates -/

def tagOpens : List Str := tagFamilies.map (·.1)
def tagCloses : List Str := tagFamilies.map (·.2)

def startsWithAny (ps : List Str) (s : Str) : Bool := ps.any (·.isPrefixOf s)
def endsWithAny (ps : List Str) (s : Str) : Bool := ps.any (endsWith s ·)

/-- `line_ends_with_tag` -/
def lineEndsWithTag (line : Str) : Bool :=
  let st := rstrip line
  !st.isEmpty && endsWithAny tagCloses st

/-- `line_starts_with_tag` -/
def lineStartsWithTag (line : Str) : Bool :=
  let st := lstrip line
  !st.isEmpty && startsWithAny tagOpens st

def firstIsSpace (line : Str) : Bool := match line with | c :: _ => isPySpace c | [] => false

/-- `_is_unindented_tag_line` -/
def isUnindentedTagLine (line : Str) : Bool :=
  !line.isEmpty && !firstIsSpace line && lineStartsWithTag line

/-- `_is_tag_only_line` -/
def isTagOnlyLine (line : Str) : Bool :=
  if firstIsSpace line then false
  else
    let st := strip line
    !st.isEmpty && startsWithAny tagOpens st && endsWithAny tagCloses st

/-- `line_is_table_row` -/
def lineIsTableRow (line : Str) : Bool := (lstrip line).head? == some '|'

def isSpTab (c : Char) : Bool := c == ' ' || c == '\t'

/-- `line_is_list_item` (ASCII digits; `str.isdigit` is broader — harness inputs stay ASCII) -/
def lineIsListItem (line : Str) : Bool :=
  match lstrip line with
  | [] => false
  | c :: rest =>
    if c == '-' || c == '*' || c == '+' then
      match rest with
      | d :: _ => isSpTab d
      | [] => false
    else if c.isDigit then
      -- up to 8 further digits, then `.`/`)` and a space/tab
      let more := (rest.takeWhile Char.isDigit).take 8
      let after := rest.drop more.length
      match after with
      | m :: d :: _ => (m == '.' || m == ')') && isSpTab d
      | _ => false
    else false

/-- `line_is_block_content` -/
def lineIsBlock (line : Str) : Bool := lineIsTableRow line || lineIsListItem line

/-- `_is_closing_tag` -/
def isClosingTag (line : Str) : Bool :=
  let st := lstrip line
  ["{% /".toList, "{# /".toList, "{{ /".toList, "<!-- /".toList].any (·.isPrefixOf st)

def isBlankLine (line : Str) : Bool := (strip line).isEmpty

/-! ### `_fix_closing_tag_spacing` -/

/-- `_tag_start_re = (?:\{%|\{#|\{\{|<!--)\s*(/?)` at the head of `s`:
`(is a closing tag, rest after the match)`. -/
def tagStartAt (s : Str) : Option (Bool × Str) :=
  let k := if "{%".toList.isPrefixOf s || "{#".toList.isPrefixOf s || "{{".toList.isPrefixOf s then 2
           else if "<!--".toList.isPrefixOf s then 4 else 0
  if k == 0 then none
  else
    let rest := (s.drop k).dropWhile isPySpace
    if rest.head? == some '/' then some (true, rest.drop 1) else some (false, rest)

/-- sum over `_tag_start_re.finditer(text)` of +1 (opening) / −1 (closing); fuel = text length -/
def tagDepthGo : Nat → Str → Int → Int
  | 0, _, d => d
  | n + 1, s, d =>
    match s with
    | [] => d
    | c :: cs =>
      match tagStartAt (c :: cs) with
      | some (closing, rest) => tagDepthGo n rest (if closing then d - 1 else d + 1)
      | none => tagDepthGo n cs d

/-- `_has_unclosed_tag(lines)` (`prev` holds the lines in reverse order) -/
def hasUnclosedTag (prev : List Str) : Bool :=
  let text := joinWith ['\n'] prev.reverse
  tagDepthGo text.length text 0 > 0

/-- `prev`: the original lines before this one, reversed; `acc`: output lines, reversed. -/
def fixClosingAux : List Str → List Str → List Str → List Str
  | [], _, acc => acc.reverse
  | line :: rest, prev, acc =>
    if isClosingTag line && !hasUnclosedTag prev then
      let needBlank := match acc with
        | p :: _ => !isBlankLine p && lineIsBlock p
        | [] => false
      let acc1 := if needBlank then [] :: acc else acc
      fixClosingAux rest (line :: prev) (lstrip line :: acc1)
    else fixClosingAux rest (line :: prev) (line :: acc)

def fixClosingTagSpacing (text : Str) : Str :=
  joinWith ['\n'] (fixClosingAux (pySplitNl text) [] [])

/-! ### `_fix_multiline_opening_tag_with_closing` -/

/-- search `close \s* open \s* /` of one family at the head of `s`; returns the offset where the
closing tag (the `open` part) starts and the family, alternatives in family order. -/
def closeOpenSlashAt (s : Str) : Option (Nat × Str × Str) :=
  tagFamilies.findSome? fun (o, c) =>
    if c.isPrefixOf s then
      let r := (s.drop c.length)
      let ws := r.takeWhile isPySpace
      let r2 := r.drop ws.length
      if o.isPrefixOf r2 then
        let r3 := (r2.drop o.length).dropWhile isPySpace
        if r3.head? == some '/' then some (c.length + ws.length, o, c) else none
      else none
    else none

/-- leftmost match in the line: `(match start, start of the closing tag, open, close)` -/
def findCloseOpenSlash : Str → Nat → Option (Nat × Nat × Str × Str)
  | [], _ => none
  | c :: cs, i =>
    match closeOpenSlashAt (c :: cs) with
    | some (k, o, cl) => some (i, i + k, o, cl)
    | none => findCloseOpenSlash cs (i + 1)

/-- `str.rfind`: start index of the last occurrence -/
def lastIndexOf (pat : Str) : Str → Nat → Option Nat → Option Nat
  | [], i, best => if pat.isEmpty then some i else best
  | c :: cs, i, best =>
    lastIndexOf pat cs (i + 1) (if pat.isPrefixOf (c :: cs) then some i else best)

/-- `head.rfind(open) > head.rfind(close)` (−1 when absent) -/
def openedOnThisLine (head o c : Str) : Bool :=
  match lastIndexOf o head 0 none, lastIndexOf c head 0 none with
  | some a, some b => decide (b < a)
  | some _, none => true
  | none, _ => false

def fixMultilineLine (line : Str) : List Str :=
  -- `line.lstrip(" \t>")`: indentation including block quote markers
  let st := line.dropWhile fun c => c == ' ' || c == '\t' || c == '>'
  let linePrefix := line.take (line.length - st.length)
  if startsWithAny tagOpens st then [line]
  else match findCloseOpenSlash line 0 with
    | some (mstart, pos, o, c) =>
      if openedOnThisLine (line.take mstart) o c then [line]
      else [rstrip (line.take pos), linePrefix ++ lstrip (line.drop pos)]
    | none => [line]

def fixMultilineOpening (text : Str) : Str :=
  if !text.contains '\n' then text
  else match pySplitNl text with
    | [] => []
    | first :: rest => joinWith ['\n'] (first :: (rest.map fixMultilineLine).flatten)

/-! ### `preprocess_tag_block_spacing` -/

/-- strip `(?:>[ ]?)*` -/
def stripQuoteMarks : Nat → Str → Str
  | 0, s => s
  | n + 1, s =>
    match s with
    | c :: t =>
      if c == '>' then
        match t with
        | d :: t2 => if d == ' ' then stripQuoteMarks n t2 else stripQuoteMarks n t
        | [] => []
      else s
    | [] => []

/-- `^[ ]{0,3}(?:>[ ]?)*[ ]{0,3}(`{3,}|~{3,})(.*)$`: a fenced-code delimiter line (possibly inside
quotes): `(fence run, rest)`. Without a quote mark the two space groups allow up to six spaces. -/
def fenceLine (line : Str) : Option (Str × Str) :=
  let n := (line.takeWhile (· == ' ')).length
  let r := line.drop n
  let afterQ : Option Str :=
    if r.head? == some '>' then
      (if n ≤ 3 then
        let q := stripQuoteMarks r.length r
        let m := (q.takeWhile (· == ' ')).length
        if m ≤ 3 then some (q.drop m) else none
      else none)
    else if n ≤ 6 then some r else none
  match afterQ with
  | some r =>
    match r.head? with
    | some ch =>
      if ch == '`' || ch == '~' then
        let run := r.takeWhile (· == ch)
        if 3 ≤ run.length then some (run, r.drop run.length) else none
      else none
    | none => none
  | none => none

/-- per line: is it inside (or a delimiter of) a fenced code block -/
def codeMask : List Str → Str → List Bool
  | [], _ => []
  | line :: rest, openF =>
    match openF, fenceLine line with
    | [], some (run, _) => true :: codeMask rest run
    | [], none => false :: codeMask rest []
    | f, some (run, tail) =>
      if run.head? == f.head? && f.length ≤ run.length && (strip tail).isEmpty then true :: codeMask rest []
      else true :: codeMask rest f
    | f, none => true :: codeMask rest f

def preprocessAux : List (Str × Bool) → Option (Str × Bool) → List Str
  | [], _ => []
  | (line, inCode) :: rest, prev =>
    let ins : List Str := match prev with
      | some (p, pCode) =>
        if inCode && pCode then []
        else
          (if !isBlankLine p && isTagOnlyLine p && lineIsBlock line then [[]] else []) ++
          (if !isBlankLine p && lineIsBlock p && isTagOnlyLine line then [[]] else [])
      | none => []
    ins ++ line :: preprocessAux rest (some (line, inCode))

def preprocessTagBlockSpacing (text : Str) : Str :=
  let lines := pySplitNl text
  if !lines.any isTagOnlyLine then text
  else joinWith ['\n'] (preprocessAux (lines.zip (codeMask lines [])) none)

/-! ### `add_tag_newline_handling` -/

/-- group lines into segments -/
def segmentLines (hasTags : Bool) : List Str → Option Str → List Str → List (List Str)
  | [], _, cur => if cur.isEmpty then [] else [cur.reverse]
  | line :: rest, prev, cur =>
    let prevEnds := match prev with | some p => lineEndsWithTag p | none => false
    let prevBlock := match prev with | some p => hasTags && lineIsBlock p | none => false
    let brk := prevEnds || isUnindentedTagLine line || (hasTags && lineIsBlock line) || prevBlock
    if brk && !cur.isEmpty then cur.reverse :: segmentLines hasTags rest (some line) [line]
    else segmentLines hasTags rest (some line) (line :: cur)

/-- the previous segment's last line ends with a tag -/
def lastEndsWithTag (p : List Str) : Bool :=
  match p.getLast? with | some l => lineEndsWithTag l | none => false

/-- the segment's first line is an unindented tag line -/
def headIsTagLine (seg : List Str) : Bool :=
  match seg.head? with | some l => isUnindentedTagLine l | none => false

/-- a blank line is owed between the two segments -/
def needsGap (p seg : List Str) : Bool :=
  (lastEndsWithTag p && seg.any lineIsBlock) || (p.any lineIsBlock && headIsTagLine seg)

def rejoinSegments : List (List Str × Str) → Option (List Str) → List Str
  | [], _ => []
  | (seg, wrapped) :: rest, prev =>
    match prev with
    | none => wrapped :: rejoinSegments rest (some seg)
    | some p =>
      (if needsGap p seg then [[], wrapped] else [wrapped]) ++ rejoinSegments rest (some seg)

def wrapSegs (base : LineWrapper) (i0 s0 : Str) : List (List Str) → Bool → List (List Str × Str)
  | [], _ => []
  | seg :: rest, first =>
    (seg, base (joinWith ['\n'] seg) (if first then i0 else s0) s0) :: wrapSegs base i0 s0 rest false

def tagWrapper (base : LineWrapper) : LineWrapper := fun text i0 s0 =>
  if !text.contains '\n' then fixMultilineOpening (base text i0 s0)
  else
    let lines := pySplitNl text
    let hasTags := lines.any fun l => lineEndsWithTag l || lineStartsWithTag l
    let segs := segmentLines hasTags lines none []
    if segs.length == 1 then fixMultilineOpening (base text i0 s0)
    else
      let parts := rejoinSegments (wrapSegs base i0 s0 segs true) none
      fixMultilineOpening (fixClosingTagSpacing (joinWith ['\n'] parts))

/-- the full Markdown line wrapper around a base wrapper -/
def mdLineWrapper (base : LineWrapper) : LineWrapper := hardBreakWrapper (tagWrapper base)

end FM
