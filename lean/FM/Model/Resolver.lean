/-
  Model of `file_resolver/resolver.py: FileResolver` (after the repairs recorded in KNOWN_FINDINGS).

  File names are lists of code points; a path below a walk root is the list of its components.
  The pattern matchers (pathspec) are parameters: `incl`, `excl`, `tool` answer `match_file` on
  a POSIX path string, a `.gitignore` answers `check_file(...).include` (`some true` = ignored,
  `some false` = re-included by a negation, `none` = no pattern matches).
-/
namespace FM.Res

abbrev Name := List Nat
abbrev RelPath := List Name

/-- POSIX rendering of a relative path (`"/"` = 47) -/
def posix : RelPath → List Nat
  | [] => []
  | [n] => n
  | n :: ns => n ++ 47 :: posix ns

def posixDir (p : RelPath) : List Nat := posix p ++ [47]

inductive Node where
  | file (name : Name) (size : Nat) (link : Bool)
  | dir (name : Name) (link : Bool) (children : List Node)
deriving Inhabited

abbrev GiSpec := List Nat → Option Bool

/-- what one walk (one directory or glob argument) sees -/
structure Env where
  incl : Name → Bool
  excl : List Nat → Bool
  tool : Option (List Nat → Bool)
  gi : RelPath → Option GiSpec          -- the `.gitignore` of the directory at this path, if it has rules
  respectGi : Bool
  maxSize : Nat                         -- 0 = unlimited

/-- `_get_gitignore_chain`: the `.gitignore` files from the walk root down to `dir`, with their directories -/
def gitChain (env : Env) (dir : RelPath) : List (RelPath × GiSpec) :=
  (List.range (dir.length + 1)).filterMap fun k =>
    match env.gi (dir.take k) with
    | some s => some (dir.take k, s)
    | none => none

/-- `_is_gitignored`: each file sees the path relative to its directory; the last verdict wins -/
def lastVerdict (chain : List (RelPath × GiSpec)) (path : RelPath) (isDir : Bool) : Bool :=
  chain.foldl (fun acc (bs : RelPath × GiSpec) =>
    let rel := path.drop bs.1.length
    match bs.2 (if isDir then posixDir rel else posix rel) with
    | some v => v
    | none => acc) false

def toolMatches (env : Env) (s : List Nat) : Bool :=
  match env.tool with
  | some t => t s
  | none => false

/-- `_is_dir_excluded` for the directory `parent ++ [name]` -/
def dirExcluded (env : Env) (parent : RelPath) (name : Name) : Bool :=
  let rel := parent ++ [name]
  env.excl (posixDir rel) ||
  (env.respectGi && lastVerdict (gitChain env parent) rel true) ||
  toolMatches env (posixDir rel)

def tooBig (env : Env) (size : Nat) : Bool := env.maxSize != 0 && size > env.maxSize

/-- the per-file filters of `_walk_directory` -/
def fileOk (env : Env) (parent : RelPath) (name : Name) (size : Nat) (link : Bool) : Bool :=
  env.incl name && !link && !tooBig env size &&
  !(env.respectGi && lastVerdict (gitChain env parent) (parent ++ [name]) false) &&
  !toolMatches env (posix (parent ++ [name]))

mutual
  /-- `_walk_directory` below the directory at `parent` (os.walk does not enter linked directories) -/
  def walkNode (env : Env) (parent : RelPath) : Node → List RelPath
    | .file name size link => if fileOk env parent name size link then [parent ++ [name]] else []
    | .dir name link children =>
      if link || dirExcluded env parent name then [] else walkNodes env (parent ++ [name]) children
  def walkNodes (env : Env) (parent : RelPath) : List Node → List RelPath
    | [] => []
    | n :: ns => walkNode env parent n ++ walkNodes env parent ns
end

/-- `_is_filtered_below` for a glob candidate at `rel` below the glob root -/
def filteredBelow (env : Env) (rel : RelPath) : Bool :=
  (List.range (rel.length - 1)).any (fun k => dirExcluded env (rel.take k) (rel.getD k [])) ||
  (env.respectGi && lastVerdict (gitChain env rel.dropLast) rel false) ||
  toolMatches env (posix rel)

/-- a file that `Path.glob` returned: its path below the glob root and its size -/
structure Cand where
  rel : RelPath
  size : Nat

def globOk (env : Env) (c : Cand) : Bool :=
  env.incl (c.rel.getLast?.getD []) && !tooBig env c.size && !filteredBelow env c.rel

/-- the arguments of `resolve`, with what the file system says about them -/
inductive Arg where
  | file (parts : List Name) (name : Name) (size : Nat) (resolved : RelPath)
  | dir (rootAbs : RelPath) (env : Env) (children : List Node)
  | glob (rootAbs : RelPath) (env : Env) (cands : List (Cand × RelPath))   -- candidate, its resolved path

/-- `_should_include_explicit` -/
def explicitOk (excl : List Nat → Bool) (force : Bool) (maxSize : Nat) (parts : List Name) (name : Name) (size : Nat) : Bool :=
  !(force && (excl name || parts.any fun p => excl (p ++ [47]))) && !(maxSize != 0 && size > maxSize)

def resolveArg (excl : List Nat → Bool) (force : Bool) (maxSize : Nat) : Arg → List RelPath
  | .file parts name size resolved => if explicitOk excl force maxSize parts name size then [resolved] else []
  | .dir rootAbs env children => (walkNodes env [] children).map (rootAbs ++ ·)
  | .glob _ env cands => (cands.filter fun c => globOk env c.1).map (·.2)

/-! ### order of paths: `PurePath.__lt__` compares the component lists, components by code points -/

/-- lexicographic order on lists, a proper prefix being smaller -/
def lex {α : Type} [BEq α] (lt : α → α → Bool) : List α → List α → Bool
  | [], [] => false
  | [], _ :: _ => true
  | _ :: _, [] => false
  | a :: as, b :: bs => lt a b || (a == b && lex lt as bs)

def ltNat (a b : Nat) : Bool := decide (a < b)
def ltName : Name → Name → Bool := lex ltNat
def ltPath : RelPath → RelPath → Bool := lex ltName

/-- insert into a strictly sorted list, dropping a duplicate (`seen` + final `sort`) -/
def insertP (p : RelPath) : List RelPath → List RelPath
  | [] => [p]
  | q :: qs => if ltPath p q then p :: q :: qs else if p == q then q :: qs else q :: insertP p qs

/-- `FileResolver.resolve` -/
def resolveAll (excl : List Nat → Bool) (force : Bool) (maxSize : Nat) (args : List Arg) : List RelPath :=
  (args.flatMap (resolveArg excl force maxSize)).foldl (fun acc p => insertP p acc) []

end FM.Res
