/-
  Abstract model of one Python process running formatting calls, at function-call granularity.

  `S` is everything calls share (module-level objects, caches), `L` everything a call owns (its
  arguments, the parser/renderer objects it builds, its program counter, its result).  A step of a
  thread reads and writes its own `L` and may read and write `S`.  A schedule is the list of thread
  indices in the order in which they take their steps — any interleaving, and any history of earlier
  calls (a thread that finishes before another starts is a particular schedule).
-/
namespace FM.Iso

structure Sys (S L : Type) where
  step : S → L → S × L
  /-- what is true of the shared state at all times (constants keep their value, a cache holds only
  values of the pure function it caches, …) -/
  Inv : S → Prop

def upd {L : Type} (ls : Nat → L) (i : Nat) (l : L) : Nat → L := fun j => if j = i then l else ls j

/-- run the schedule: thread `i` takes one step at each occurrence of `i` -/
def run {S L : Type} (sys : Sys S L) : S → (Nat → L) → List Nat → S × (Nat → L)
  | s, ls, [] => (s, ls)
  | s, ls, i :: sched =>
    let r := sys.step s (ls i)
    run sys r.1 (upd ls i r.2) sched

/-- the same thread running alone for `k` steps from shared state `s` -/
def solo {S L : Type} (sys : Sys S L) : S → L → Nat → L
  | _, l, 0 => l
  | s, l, k + 1 => solo sys (sys.step s l).1 (sys.step s l).2 k

end FM.Iso
