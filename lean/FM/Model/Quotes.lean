import FM.Base.Str
import FM.Model.Wrap
/-
  Model of `typography/smartquotes.py: smart_quotes` (text level).

  Stage 0: segmentation on `TEMPLATE_TAG_PATTERN` (tags are passed through verbatim).
  Stage 1: `QUOTE_PATTERN.sub` — leftmost, non-overlapping quote pairs.
  Stage 2: apostrophe rule per whitespace-delimited word.
  `isWord` is `\w` of Python's `re` (a parameter; the driver gets it per character).
-/
namespace FM

/-! ### stage 1: quote pairs -/

/-- `[^q c1 c2]*` followed by `q`: content up to the next `q`, failing on a forbidden curly. -/
def scanContent (q c1 c2 : Char) : Str → Option (Str × Str)
  | [] => none
  | c :: cs =>
    if c == q then some ([], cs)
    else if c == c1 || c == c2 then none
    else match scanContent q c1 c2 cs with
      | some (a, r) => some (c :: a, r)
      | none => none

def isQuoteSuffixChar (c : Char) : Bool :=
  isPySpace c || c == '.' || c == ',' || c == ';' || c == ':' || c == '?' || c == '!' ||
  c == '—' || c == ')'

/-- the lookahead `(?=\s|$|\.|,|;|:|\?|!|—|\))` holds at the head of the rest (nothing is consumed) -/
def suffixOk : Str → Bool
  | [] => true
  | c :: _ => isQuoteSuffixChar c

/-- `PARAGRAPH_BREAK_PATTERN = \n\s*\n` occurs in the text. -/
def afterWsHasNl : Str → Bool
  | [] => false
  | c :: cs => if c == '\n' then true else if isPySpace c then afterWsHasNl cs else false

def hasParaBreak : Str → Bool
  | [] => false
  | c :: cs => (c == '\n' && afterWsHasNl cs) || hasParaBreak cs

/-- One alternative of the quote alternation, after its opening quote `q`: content, closing `q`,
suffix.  `o`/`cl` are the curly replacements. Returns `(output for the matched span, rest)`. -/
def quoteSpan (q o cl : Char) (cs : Str) : Option (Str × Str) :=
  match scanContent q o cl cs with
  | some (content, rest) =>
    if suffixOk rest then
      if hasParaBreak content then some (q :: content ++ [q], rest)
      else some (o :: content ++ [cl], rest)
    else none
  | none => none

/-- The quote alternation at the head of `s`. -/
def tryQuoteAt : Str → Option (Str × Str)
  | [] => none
  | c :: cs =>
    if c == '"' then quoteSpan '"' '“' '”' cs
    else if c == '\'' then quoteSpan '\'' '‘' '’' cs
    else none

def endsWithNl (s : Str) : Bool := s.getLast? == some '\n'

/-- One scanning step of `QUOTE_PATTERN.sub` at a position whose first character is `c`:
`(output emitted, rest still to scan)`. `ls` = the position is at a line start (`^`).
Alternatives of `(^|\s|—)` are tried in order. -/
def quoteStep (ls : Bool) (c : Char) (cs : Str) : Str × Str :=
  match (if ls then tryQuoteAt (c :: cs) else none) with
  | some (out, rest) => (out, rest)
  | none =>
    match (if isPySpace c || c == '—' then tryQuoteAt cs else none) with
    | some (out, rest) => (c :: out, rest)
    | none => ([c], cs)

/-- `QUOTE_PATTERN.sub(replace_quotes, text)`; the fuel is the text length. -/
def quotePass : Nat → Bool → Str → Str
  | 0, _, s => s
  | n + 1, ls, s =>
    match s with
    | [] => []
    | c :: cs =>
      let r := quoteStep ls c cs
      r.1 ++ quotePass n (endsWithNl r.1) r.2

/-! ### stage 2: apostrophes -/

def countApos (w : Str) : Nat := (w.filter (· == '\'')).length

/-- `re.search(r"(\w)'(\w)", word)` -/
def hasWordAposWord (isWord : Char → Bool) : Str → Bool
  | a :: b :: c :: rest =>
    (isWord a && b == '\'' && isWord c) || hasWordAposWord isWord (b :: c :: rest)
  | _ => false

/-- `re.match(r"\w*[sS]'$", word)` -/
def isPossessive (isWord : Char → Bool) (w : Str) : Bool :=
  match w.reverse with
  | a :: s :: before => a == '\'' && (s == 's' || s == 'S') && before.all isWord
  | _ => false

def curlApos (w : Str) : Str := w.map fun c => if c == '\'' then '’' else c

def fixWord (isWord : Char → Bool) (w : Str) : Str :=
  if countApos w == 1 && (hasWordAposWord isWord w || isPossessive isWord w) then curlApos w else w

/-- `re.split(r"(\s+)", result)`, fix each word, re-join. `cur` is the pending word (reversed). -/
def aposPass (isWord : Char → Bool) : Str → Str → Str
  | [], cur => fixWord isWord cur.reverse
  | c :: cs, cur =>
    if isPySpace c then fixWord isWord cur.reverse ++ c :: aposPass isWord cs []
    else aposPass isWord cs (c :: cur)

/-- `_apply_smart_quotes_to_text` -/
def applySmartQuotes (isWord : Char → Bool) (s : Str) : Str :=
  aposPass isWord (quotePass s.length true s) []

/-! ### stage 0: template-tag segmentation -/

/-- Index just after the first occurrence of `pat` in `s` (searching from the head). -/
def findAfter (pat : Str) : Str → Option Nat
  | [] => if pat.isEmpty then some 0 else none
  | c :: cs =>
    if pat.isPrefixOf (c :: cs) then some pat.length
    else match findAfter pat cs with
      | some k => some (k + 1)
      | none => none

/-- Length of a `TEMPLATE_TAG_PATTERN` match at the head of `s` (`open .*? close`, DOTALL). -/
def tagMatchLen (s : Str) : Option Nat :=
  tagFamilies.findSome? fun (o, c) =>
    if o.isPrefixOf s then
      match findAfter c (s.drop o.length) with
      | some k => some (o.length + k)
      | none => none
    else none

/-- Split into (isTag, segment) pieces; `cur` is the pending non-tag text (reversed). -/
def tagSegments : Nat → Str → Str → List (Bool × Str)
  | 0, s, cur => [(false, cur.reverse ++ s)]
  | n + 1, s, cur =>
    match s with
    | [] => if cur.isEmpty then [] else [(false, cur.reverse)]
    | c :: cs =>
      match tagMatchLen (c :: cs) with
      | some k =>
        (if cur.isEmpty then [] else [(false, cur.reverse)]) ++
          (true, (c :: cs).take k) :: tagSegments n ((c :: cs).drop k) []
      | none => tagSegments n cs (c :: cur)

/-- `smart_quotes(text)` -/
def smartQuotes (isWord : Char → Bool) (s : Str) : Str :=
  ((tagSegments s.length s []).map fun (isTag, seg) =>
    if isTag then seg else applySmartQuotes isWord seg).flatten

end FM
