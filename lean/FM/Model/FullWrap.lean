import FM.Model.TagSeg
import FM.Model.Scan
import FM.Model.Sentence
/-
  The complete Markdown line wrappers as flowmark builds them:
    `line_wrap_to_width(width, is_markdown=True)`      = mdLineWrapper ∘ wrap_paragraph (Markdown splitter)
    `line_wrap_by_sentence(width, min_line_len, is_markdown=True)` = mdLineWrapper ∘ sentence loop
  Everything is executable in Lean; the only parameters are the character classes of
  `SENTENCE_END_RE` (`CharCls`).
-/
namespace FM

/-- base wrapper of `line_wrap_to_width` -/
def fillBase (W : Int) (md : Bool) : LineWrapper := fun text i0 s0 =>
  wrapParagraph mdSplit text W i0 s0 0 md

def mdFillWrapper (W : Int) : LineWrapper := mdLineWrapper (fillBase W true)

/-- base wrapper (the closure `line_wrapper`) of `line_wrap_by_sentence` -/
def sentenceBase (cls : CharCls) (W : Int) (minLen : Nat) (md : Bool) : LineWrapper := fun text i0 s0 =>
  let t := text.map fun c => if c == '\n' then ' ' else c
  if W ≤ 0 then i0 ++ joinSp (pySplit t)
  else
    let words := pySplit t
    let sents := splitSent (words.map fun w => (w, isSentenceEnd cls w)) []
    let cfg : SCfg := { W := W.toNat, i0 := i0.length, s0 := s0.length, minLen := minLen, md := md }
    let ls := foldSent cfg true [] (sents.map fun s => mdSplit (collapseWs (joinSp s)))
    denormalizeAdjacentTags (joinWith ['\n'] (addIndents i0 s0 false (ls.map joinSp)))

def mdSentenceWrapper (cls : CharCls) (W : Int) (minLen : Nat) : LineWrapper :=
  mdLineWrapper (sentenceBase cls W minLen true)

end FM
