import FM.Base.Str
/-
  Model of `flowmark/linewrapping/text_wrapping.py`:
    markdown_escape_word, wrap_paragraph_lines (greedy fill), wrap_paragraph,
    denormalize_adjacent_tags / normalize_adjacent_tags (tag_handling.py).

  The loop of `wrap_paragraph_lines` carries `current_line`, `current_width`, `first_line`;
  `fill` is the same loop as a structural recursion over the word list.
-/
namespace FM

/-- `_md_specials_pat = ^([-*+>]|#+)$` -/
def isSpecialWord (w : Word) : Bool :=
  w == ['-'] || w == ['*'] || w == ['+'] || w == ['>'] || (!w.isEmpty && w.all (· == '#'))

/-- `_md_numeral_pat = ^[0-9]+[.)]$` -/
def isNumeralWord (w : Word) : Bool :=
  match w.getLast? with
  | some l => (l == '.' || l == ')') && !w.dropLast.isEmpty && w.dropLast.all Char.isDigit
  | none => false

/-- `markdown_escape_word` -/
def escapeWord (w : Word) : Word :=
  match w.getLast? with
  | some l =>
    if (l == '.' || l == ')') && !w.dropLast.isEmpty && w.dropLast.all Char.isDigit then
      w.dropLast ++ ['\\', l]
    else if isSpecialWord w then '\\' :: w else w
  | none => w

def sepW (cur : Line) : Nat := if cur.isEmpty then 0 else 1
def emit (cur : Line) : List Line := if cur.isEmpty then [] else [cur]

/-- The word loop of `wrap_paragraph_lines` for `width > 0`, generic in the escape function.
`cur`/`curW`/`first` are `current_line`/`current_width`/`first_line`. -/
def fillG (esc : Word → Word) (W c0 c1 : Nat) :
    (cur : Line) → (curW : Nat) → (first : Bool) → List Word → List Line
  | cur, _, _, [] => emit cur
  | cur, curW, first, w :: ws =>
    if curW + w.length + sepW cur ≤ W then
      fillG esc W c0 c1 (cur ++ [w]) (curW + w.length + sepW cur) first ws
    else
      let first' := first && cur.isEmpty
      let w' := if first' then w else esc w
      -- `line_offset = initial_column if first_line else subsequent_offset`
      emit cur ++ fillG esc W c0 c1 [w'] ((if first' then c0 else c1) + w'.length) first' ws

/-- `is_markdown` selects the escape function. -/
def escOf (md : Bool) : Word → Word := if md then escapeWord else id

def fill (W c1 : Nat) (md : Bool) (c0 : Nat) (ws : List Word) : List Line :=
  fillG (escOf md) W c0 c1 [] c0 true ws

/-- `wrap_paragraph_lines(text, width, initial_column=c0, subsequent_offset=c1,
replace_whitespace=True, drop_whitespace=True, splitter=split, is_markdown=md)`.
The word splitter is a parameter (see `Atoms.lean` for the Markdown-aware one). -/
def wrapLines (split : Str → List Word) (text : Str) (W : Int) (c0 c1 : Nat) (md : Bool) :
    List Str :=
  if W ≤ 0 then
    let t := strip (collapseWs text)
    if t.isEmpty then [] else [t]
  else (fill W.toNat c1 md c0 (split (collapseWs text))).map joinSp

/-- The four tag families `(open, close)` of `tag_handling.py`. -/
def tagFamilies : List (Str × Str) :=
  [ ("{%".toList, "%}".toList), ("{#".toList, "#}".toList),
    ("{{".toList, "}}".toList), ("<!--".toList, "-->".toList) ]

/-- First family whose `close ++ mid ++ open` is a prefix of `s`. -/
def adjMatch (mid : Str) (s : Str) : Option (Str × Str) :=
  tagFamilies.find? (fun (o, c) => (c ++ mid ++ o).isPrefixOf s)

/-- `denormalize_adjacent_tags`: delete the single space in `close␣open` of one family
(leftmost, non-overlapping — `re.sub` semantics). `fuel` is the text length. -/
def denormAux : Nat → Str → Str
  | 0, s => s
  | _, [] => []
  | fuel + 1, c :: cs =>
    match adjMatch [' '] (c :: cs) with
    | some (o, cl) => cl ++ o ++ denormAux fuel ((c :: cs).drop (cl.length + 1 + o.length))
    | none => c :: denormAux fuel cs

def denormalizeAdjacentTags (s : Str) : Str := denormAux s.length s

/-- `normalize_adjacent_tags`: insert a space in `close open`. -/
def normAux : Nat → Str → Str
  | 0, s => s
  | _, [] => []
  | fuel + 1, c :: cs =>
    match adjMatch [] (c :: cs) with
    | some (o, cl) => cl ++ ' ' :: o ++ normAux fuel ((c :: cs).drop (cl.length + o.length))
    | none => c :: normAux fuel cs

def normalizeAdjacentTags (s : Str) : Str := normAux s.length s

/-- Indent insertion of `wrap_paragraph` (and of `line_wrap_by_sentence`). `skipFirst` is
`initial_column != 0` (then the first line gets no indent). -/
def addIndents (i0 s0 : Str) (skipFirst : Bool) : List Str → List Str
  | [] => []
  | l :: ls => (if skipFirst then l else i0 ++ l) :: ls.map (s0 ++ ·)

/-- `wrap_paragraph(text, width, initial_indent, subsequent_indent, initial_column, is_markdown)` -/
def wrapParagraph (split : Str → List Word) (text : Str) (W : Int) (i0 s0 : Str)
    (initCol : Nat) (md : Bool) : Str :=
  let ls := wrapLines split text W (initCol + i0.length) s0.length md
  denormalizeAdjacentTags (joinWith ['\n'] (addIndents i0 s0 (initCol != 0) ls))

end FM
