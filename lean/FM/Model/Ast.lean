import FM.Base.Str
/-
  The Marko node kinds flowmark's renderer handles, as Lean inductive types.
-/
namespace FM

inductive Inline where
  | raw (s : Str)                 -- RawText (Pangu spacing already applied by the harness)
  | code (s : Str)                -- CodeSpan
  | em (cs : List Inline)
  | strong (cs : List Inline)
  | strike (cs : List Inline)
  | link (cs : List Inline) (dest : Str) (title : Option Str)
  | image (cs : List Inline) (dest : Str) (title : Option Str)
  | autolink (dest : Str)
  | url (dest : Str)              -- GFM bare URL
  | br (soft : Bool)              -- LineBreak
  | lit (c : Str)                 -- Literal (backslash-escaped character)
  | html (s : Str)                -- InlineHTML
  | fnref (label : Str)           -- FootnoteRef
deriving Repr, Inhabited

inductive Block where
  | para (cs : List Inline) (checked : Option Bool)
  | heading (level : Nat) (cs : List Inline) (setext : Bool)   -- Heading / SetextHeading
  | list (ordered : Bool) (start : Nat) (bullet : Str) (tight : Bool) (items : List Block)
  | item (bs : List Block)
  | quote (bs : List Block)
  | alert (ty : Str) (bs : List Block)
  | fenced (lang extra content : Str) (fch : Char) (flen : Nat)   -- CustomFencedCode
  | indented (content : Str)                                      -- CodeBlock
  | hr
  | blank
  | linkdef (label dest : Str) (title : Option Str)
  | fndef (label : Str) (bs : List Block)
  | table (head : List (List Inline)) (delims : List Str) (rows : List (List (List Inline)))
deriving Repr, Inhabited

inductive Spacing where | preserve | loose | tight
deriving Repr, DecidableEq

end FM
