import FM.Model.Ast
import FM.Model.FillText
/-
  Model of `formats/flowmark_markdown.py: MarkdownNormalizer` — one function per `render_*`
  method, the renderer's mutable fields threaded explicitly as `RState`.
  The line wrapper and the document's link reference definitions are parameters (`RCfg`).
-/
namespace FM

structure RState where
  pfx : Str            -- `_prefix`
  snd : Str            -- `_second_prefix`
  suppress : Bool      -- `_suppress_item_break`
  skipBlank : Bool     -- `_skip_next_blank_line`
  listTight : Bool     -- `_current_list_tight`
  acc : Str            -- `_current_inline_text`
deriving Repr

def RState.init : RState :=
  { pfx := [], snd := [], suppress := true, skipBlank := false, listTight := false, acc := [] }

structure RCfg where
  wrap : Str → Str → Str → Str
  spacing : Spacing
  defs : List (Str × Str × Option Str)   -- root_node.link_ref_defs: label ↦ (dest, title)

/-! ### inline -/

/-- `_normalize_title_quotes` -/
def stripChar (ch : Char) (s : Str) : Str :=
  ((s.dropWhile (· == ch)).reverse.dropWhile (· == ch)).reverse

def escapeDq : Str → Str
  | [] => []
  | c :: cs => if c == '"' then '\\' :: '"' :: escapeDq cs else c :: escapeDq cs

/-- inline link / image titles: the title text, escaped and double-quoted -/
def normalizeTitle (t : Str) : Str := '"' :: escapeDq t ++ ['"']

/-- `re.sub(r'(?<!\\)"', r'\\"', s)`: escape double quotes not already preceded by a backslash -/
def escapeBareDq : Bool → Str → Str
  | _, [] => []
  | prevBs, c :: cs =>
    if c == '"' && !prevBs then '\\' :: '"' :: escapeBareDq false cs
    else c :: escapeBareDq (c == '\\') cs

/-- link reference definition titles (`raw=True`): exchange `'…'` / `(…)` delimiters for `"…"` -/
def normalizeTitleRaw (t : Str) : Str :=
  match t.head?, t.getLast? with
  | some a, some b =>
    if decide (2 ≤ t.length) && ((a == '\'' && b == '\'') || (a == '(' && b == ')')) then
      '"' :: escapeBareDq false (t.drop 1).dropLast ++ ['"']
    else t
  | _, _ => t

def isAllDigits (s : Str) : Bool := !s.isEmpty && s.all fun c => c.isDigit

/-- `str.isdigit()` is broader than ASCII; the harness never produces non-ASCII digits before an
escaped period, and the correspondence would show a difference. -/
def renderLiteral (inHeading : Bool) (acc : Str) (c : Str) : Str × Str :=
  if c != ['.'] then ('\\' :: c, acc ++ '\\' :: c)
  else if inHeading then (c, acc ++ c)
  else
    let stripped := lstrip acc
    if isAllDigits stripped then ('\\' :: c, acc ++ '\\' :: c) else (c, acc ++ c)

/-- longest run of `ch` in `s` (`cur` = length of the run ending here). -/
def longestRun (ch : Char) : Str → Nat → Nat → Nat
  | [], cur, best => max cur best
  | c :: cs, cur, best => if c == ch then longestRun ch cs (cur + 1) best else longestRun ch cs 0 (max cur best)

def renderCodeSpan (t : Str) : Str :=
  let delim := List.replicate (longestRun '`' t 0 0 + 1) '`'
  if !t.isEmpty && (t.head? == some '`' || t.getLast? == some '`') then
    delim ++ ' ' :: t ++ ' ' :: delim
  else delim ++ t ++ delim

/-- the definition's title as `render_link_ref_def` writes it (`title if title else None`) -/
def defTitle (t : Option Str) : Option Str :=
  match t with
  | some x => if x.isEmpty then none else some (normalizeTitleRaw x)
  | none => none

/-- `re.sub(r"[ \t]+", " ", text)` of `render_raw_text` -/
def collapseSpTabAux : Bool → Str → Str
  | _, [] => []
  | inSp, c :: cs =>
    if c == ' ' || c == '\t' then (if inSp then collapseSpTabAux true cs else ' ' :: collapseSpTabAux true cs)
    else c :: collapseSpTabAux false cs

def collapseSpTab (s : Str) : Str := collapseSpTabAux false s

/-- `re.sub(r"\\?\n", " ", text)` of `render_heading`: line breaks inside a heading become spaces -/
def unbreak : Str → Str
  | [] => []
  | [a] => if a == '\n' then [' '] else [a]
  | a :: b :: rest =>
    if a == '\\' && b == '\n' then ' ' :: unbreak rest
    else if a == '\n' then ' ' :: unbreak (b :: rest)
    else a :: unbreak (b :: rest)

/-- `_bare_destination`: a definition's destination without its pointy brackets -/
def bareDest (d : Str) : Str :=
  if d.length ≥ 2 && d.head? == some '<' && d.getLast? == some '>' then (d.drop 1).dropLast else d

/-- `_written_destination`: a destination that holds blanks is written in pointy brackets -/
def writtenDest (d : Str) : Str :=
  if d.any (fun c => c == ' ' || c == '\t' || c == '\n') then '<' :: d ++ ['>'] else d

def findLabel (defs : List (Str × Str × Option Str)) (dest : Str) (title : Option Str) : Option Str :=
  (defs.find? fun d => bareDest d.2.1 == dest && defTitle d.2.2 == title).map (·.1)

mutual
  /-- returns (rendered text, new `_current_inline_text`) -/
  def renderInline (cfg : RCfg) (inH : Bool) (acc : Str) : Inline → Str × Str
    | .raw s => (collapseSpTab s, acc ++ collapseSpTab s)
    | .code s => (renderCodeSpan s, acc)
    | .em cs => let r := renderInlines cfg inH acc cs; ('*' :: r.1 ++ ['*'], r.2)
    | .strong cs => let r := renderInlines cfg inH acc cs; ("**".toList ++ r.1 ++ "**".toList, r.2)
    | .strike cs => let r := renderInlines cfg inH acc cs; ("~~".toList ++ r.1 ++ "~~".toList, r.2)
    | .link cs dest title =>
      let r := renderInlines cfg inH acc cs
      let t := title.map normalizeTitle
      match findLabel cfg.defs dest t with
      | some label =>
        if label == joinSp (pySplit r.1) then ('[' :: label ++ [']'], r.2)
        else ('[' :: r.1 ++ "][".toList ++ label ++ [']'], r.2)
      | none =>
        let tt : Str := match t with | some x => ' ' :: x | none => []
        ('[' :: r.1 ++ "](".toList ++ writtenDest dest ++ tt ++ [')'], r.2)
    | .image cs dest title =>
      let r := renderInlines cfg inH acc cs
      let tt : Str := match title with | some x => ' ' :: normalizeTitle x | none => []
      ("![".toList ++ r.1 ++ "](".toList ++ writtenDest dest ++ tt ++ [')'], r.2)
    | .autolink dest => ('<' :: dest ++ ['>'], acc)
    | .url dest => (dest, acc)
    | .br soft => (if soft then ['\n'] else ['\\', '\n'], acc)
    | .lit c => renderLiteral inH acc c
    | .html s => (s, acc)
    | .fnref label => ("[^".toList ++ label ++ [']'], acc)

  def renderInlines (cfg : RCfg) (inH : Bool) (acc : Str) : List Inline → Str × Str
    | [] => ([], acc)
    | i :: rest =>
      let r := renderInline cfg inH acc i
      let r2 := renderInlines cfg inH r.2 rest
      (r.1 ++ r2.1, r2.2)
end

/-! ### blocks -/

def natToStr (n : Nat) : Str := (toString n).toList

/-- `_min_fence_length`: longest run (≥3) of the fence character at a line start (after `\n`
only) with at most three spaces of indentation, plus one; at least 3. -/
def fenceRunAtLineStart (ch : Char) (line : Str) : Nat :=
  let sp := line.takeWhile (· == ' ')
  let rest := line.dropWhile (· == ' ')
  -- `^[ ]{0,3}(c{3,})`: with more than 3 leading spaces the run cannot start
  if sp.length ≤ 3 then
    let run := (rest.takeWhile (· == ch)).length
    if 3 ≤ run then run else 0
  else 0

def minFenceLength (content : Str) (ch : Char) : Nat :=
  let m := ((pySplitNl content).map (fenceRunAtLineStart ch)).foldl max 0
  max 3 (if m == 0 then 0 else m + 1)

def rstripNl (s : Str) : Str := (s.reverse.dropWhile (· == '\n')).reverse

/-- `_strip_trailing_blank_lines(text, prefix)`: trailing newlines and trailing lines holding only
`prefix.rstrip()`. `fuel` bounds the loop by the text length. -/
def stripTrailingBlankAux (blank : Str) : Nat → Str → Str
  | 0, t => t
  | n + 1, t =>
    if !blank.isEmpty && endsWith t ('\n' :: blank) then
      stripTrailingBlankAux blank n (rstripNl (t.take (t.length - blank.length)))
    else t

def stripTrailingBlank (text pfx : Str) : Str :=
  let t := rstripNl text
  stripTrailingBlankAux (rstrip pfx) t.length t

def renderCodeLines (st : RState) (content : Str) (lang extra : Str) (isFenced : Bool)
    (fch : Char) (flen : Nat) : Str :=
  let raw := content
  -- `removesuffix("\n")`: only the newline that ends the last line
  let content := if raw.getLast? == some '\n' then raw.dropLast else raw
  let extraText : Str := if extra.isEmpty then [] else ' ' :: extra
  let langText : Str := if !isFenced || lang.isEmpty then [] else lang ++ extraText
  let fence := List.replicate (max flen (minFenceLength content fch)) fch
  let body := (if raw.isEmpty then [] else pySplitNl content).map fun l =>
    if l.isEmpty then rstrip st.snd else st.snd ++ l
  joinWith ['\n'] ([st.pfx ++ fence ++ langText] ++ body ++ [st.snd ++ fence]) ++ ['\n']

def normalizeDelim (d : Str) : Str :=
  let s := d.head? == some ':'
  let e := d.getLast? == some ':'
  if s && e then ":---:".toList else if s then ":---".toList else if e then "---:".toList else "---".toList

def replacePipe : Str → Str
  | [] => []
  | c :: cs => if c == '|' then '\\' :: '|' :: replacePipe cs else c :: replacePipe cs

/-- `render_table_row` (cells share the renderer's `_current_inline_text`). -/
def renderRow (cfg : RCfg) (acc : Str) : List (List Inline) → List Str × Str
  | [] => ([], acc)
  | cell :: rest =>
    let r := renderInlines cfg false acc cell
    let r2 := renderRow cfg r.2 rest
    (replacePipe r.1 :: r2.1, r2.2)

def rowLine (cells : List Str) : Str := "| ".toList ++ joinWith " | ".toList cells ++ " |\n".toList

def renderRows (cfg : RCfg) (snd : Str) (acc : Str) : List (List (List Inline)) → Str × Str
  | [] => ([], acc)
  | row :: rest =>
    let r := renderRow cfg acc row
    let r2 := renderRows cfg snd r.2 rest
    (snd ++ rowLine r.1 ++ r2.1, r2.2)

def canBeTight : List Block → Bool
  | [] => true
  | .item bs :: rest => bs.length ≤ 1 && canBeTight rest
  | _ :: rest => canBeTight rest

def itemPrefix (ordered : Bool) (start i : Nat) (bullet : Str) : Str × Str :=
  if ordered then
    let num := natToStr (i + start)
    (num ++ ['.', ' '], List.replicate (num.length + 2) ' ')
  else (bullet ++ [' '], [' ', ' '])

/-- `render_thematic_break`: `* * *`, except when the innermost marker before it is a `*` bullet (where `* * * *` would itself be a
rule): there `- - -`. -/
def ruleText (pfx : Str) : Str :=
  if (rstrip pfx).getLast? == some '*' then "- - -".toList else "* * *".toList

mutual
  def renderBlock (cfg : RCfg) (st : RState) : Block → Str × RState
    | .para cs checked =>
      let r := renderInlines cfg false [] cs
      let children : Str := match checked with
        | some true => "[x] ".toList ++ lstrip r.1
        | some false => "[ ] ".toList ++ lstrip r.1
        | none => r.1
      (cfg.wrap children st.pfx st.snd ++ ['\n'],
       { st with skipBlank := false, suppress := false, acc := [], pfx := st.snd })
    | .list ordered start bullet tight items =>
      let isTight := match cfg.spacing with
        | .preserve => tight
        | .tight => canBeTight items
        | .loose => false
      let r := renderItems cfg { st with skipBlank := false, listTight := isTight } ordered start bullet 0 items
      (r.1, { r.2 with listTight := st.listTight, pfx := r.2.snd })
    | .item bs =>
      let sep : Str := if st.listTight then [] else if st.suppress then [] else rstrip st.snd ++ ['\n']
      -- `if not tight: if suppress: suppress = False` — i.e. the flag survives only in a tight list
      let st1 := { st with suppress := st.suppress && st.listTight }
      -- an item with nothing in it is still an item: its marker is written
      if bs.isEmpty then (sep ++ rstrip st.pfx ++ ['\n'], { st1 with pfx := st.snd, suppress := false })
      else
        let r := renderBlocks cfg st1 bs
        (sep ++ r.1, r.2)
    | .quote bs =>
      let inner := { st with skipBlank := false, pfx := st.pfx ++ "> ".toList, snd := st.snd ++ "> ".toList }
      let r := renderBlocks cfg inner bs
      (stripTrailingBlank r.1 inner.snd ++ ['\n'],
       { r.2 with pfx := st.snd, snd := st.snd, suppress := false, skipBlank := false })
    | .alert ty bs =>
      -- the header line uses up the first-line prefix
      let inner := { st with skipBlank := false, pfx := st.snd ++ "> ".toList, snd := st.snd ++ "> ".toList }
      let r := renderBlocks cfg inner bs
      let body := stripTrailingBlank r.1 inner.snd
      -- an alert with nothing in it is just its header line
      (st.pfx ++ "> [!".toList ++ ty ++ "]\n".toList ++ (if body.isEmpty then [] else body ++ ['\n']),
       { r.2 with pfx := st.snd, snd := st.snd, suppress := false, skipBlank := false })
    | .fenced lang extra content fch flen =>
      (renderCodeLines st content lang extra true fch flen,
       { st with skipBlank := false, pfx := st.snd, suppress := false })
    | .indented content =>
      (renderCodeLines st content [] [] false '`' 3,
       { st with skipBlank := false, pfx := st.snd, suppress := false })
    | .hr => (st.pfx ++ ruleText st.pfx ++ ['\n'], { st with pfx := st.snd, skipBlank := false, suppress := false })
    | .heading level cs _ =>
      let r0 := renderInlines cfg true [] cs
      let r := (unbreak r0.1, r0.2)
      let head := st.pfx ++ List.replicate level '#' ++ ' ' :: r.1
      if r.1.getLast? == some '\\' then
        (head ++ ['\n'], { st with acc := [], pfx := st.snd })
      else
        (head ++ '\n' :: rstrip st.snd ++ ['\n'],
         { st with acc := [], pfx := st.snd, skipBlank := true, suppress := true })
    | .blank =>
      if st.skipBlank then ([], { st with skipBlank := false })
      else
        ((if (strip st.pfx).isEmpty then ['\n'] else st.pfx ++ ['\n']),
         { st with suppress := true, pfx := st.snd })
    | .linkdef label dest title =>
      let t : Str := match title with | some x => ' ' :: normalizeTitleRaw x | none => []
      (st.pfx ++ '[' :: label ++ "]: ".toList ++ dest ++ t ++ ['\n'],
       { st with pfx := st.snd, suppress := true })
    | .fndef label bs =>
      let inner := { st with pfx := st.pfx ++ "[^".toList ++ label ++ "]: ".toList, snd := st.snd ++ "    ".toList }
      let r := renderBlocks cfg inner bs
      (rstripNl r.1 ++ ['\n', '\n'], { r.2 with pfx := st.snd, snd := st.snd, suppress := true })
    | .table head delims rows =>
      let h := renderRow cfg st.acc head
      let d : Str := "| ".toList ++ joinWith " | ".toList (delims.map normalizeDelim) ++ " |\n".toList
      let b := renderRows cfg st.snd h.2 rows
      (st.pfx ++ rowLine h.1 ++ st.snd ++ d ++ b.1,
       { st with acc := b.2, pfx := st.snd, skipBlank := false, suppress := false })

  def renderBlocks (cfg : RCfg) (st : RState) : List Block → Str × RState
    | [] => ([], st)
    | b :: rest =>
      let r := renderBlock cfg st b
      let r2 := renderBlocks cfg r.2 rest
      (r.1 ++ r2.1, r2.2)

  /-- the item loop of `render_list`: `container(prefix, indent)` around each child; after each
  item the continuation prefix is current (the first-line prefix is used up by the first item). -/
  def renderItems (cfg : RCfg) (st : RState) (ordered : Bool) (start : Nat) (bullet : Str) (i : Nat) :
      List Block → Str × RState
    | [] => ([], st)
    | b :: rest =>
      let p := itemPrefix ordered start i bullet
      -- an item starting on the first line of its container has no line above it to separate from
      let sup := if !st.listTight && st.pfx != st.snd then true else st.suppress
      let r := renderBlock cfg { st with pfx := st.pfx ++ p.1, snd := st.snd ++ p.2, suppress := sup } b
      -- container exit restores the entry prefixes; then `self._prefix = self._second_prefix`
      let r2 := renderItems cfg { r.2 with pfx := st.snd, snd := st.snd } ordered start bullet (i + 1) rest
      (r.1 ++ r2.1, r2.2)
end

/-- `marko.render(document)` -/
def renderDoc (cfg : RCfg) (bs : List Block) : Str := (renderBlocks cfg RState.init bs).1

end FM
