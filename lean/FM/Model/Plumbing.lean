/-
  A tiny dataflow language for option plumbing (DESIGN §3, C15/C16).

  A `Layer` says how each keyword / field of one call or constructor is computed from the names of
  the layer above (`PExpr`).  Composing layers from the argparse namespace down to `fill_markdown`
  gives, per formatting option, the expression that reaches the formatter.
-/
namespace FM.Plumbing

inductive PExpr where
  | var (n : String)
  | notVar (n : String)
  | ctor (c : String) (n : String)
  | const (s : String)
deriving Repr, DecidableEq, Inhabited

abbrev Layer := List (String × PExpr)

structure ArgOpt where
  flags : List String
  dest : String
  action : String
  type : String
  default : String
deriving Repr, DecidableEq

def Layer.get (l : Layer) (k : String) : Option PExpr := (l.find? (·.1 == k)).map (·.2)

/-- Substitute the upper layer into an expression of the lower one. `none` = the lower layer reads
a name the upper layer does not define (a dropped keyword: the callee's default would be used). -/
def subst (upper : Layer) : PExpr → Option PExpr
  | .var n => upper.get n
  | .notVar n => match upper.get n with
      | some (.var m) => some (.notVar m)
      | some (.notVar m) => some (.var m)
      | _ => none
  | .ctor c n => match upper.get n with
      | some (.var m) => some (.ctor c m)
      | _ => none
  | .const s => some (.const s)

/-- Resolve a positional call against the callee's parameter list, then add keywords. -/
def bindCall (params : List String) (positional : List PExpr) (kws : Layer) : Layer :=
  (params.zip positional) ++ kws

/-- What reaches name `k` at the bottom of a chain of layers (top first). -/
def through : List Layer → String → Option PExpr
  | [], k => some (.var k)
  | l :: rest, k =>
    match through rest k with
    | some e => subst l e
    | none => none

/-- Values for the semantics. -/
inductive Val where
  | b (x : Bool)
  | s (x : String)
  | wrapped (c : String) (v : Val)
deriving Repr, DecidableEq, Inhabited

def vnot : Val → Val
  | .b x => .b (!x)
  | v => v

def eval (env : String → Val) : PExpr → Val
  | .var n => env n
  | .notVar n => vnot (env n)
  | .ctor c n => .wrapped c (env n)
  | .const s => .s s

/-- Environment produced by a layer from the environment above it (undefined names keep a
marker value: the callee's own default, which is not the caller's value). -/
def applyLayer (l : Layer) (env : String → Val) : String → Val :=
  fun k => match l.get k with
    | some e => eval env e
    | none => .s ("<default of " ++ k ++ ">")

end FM.Plumbing
