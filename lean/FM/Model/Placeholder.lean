import FM.Base.Str
/-
  Model of the placeholder scheme of `text_wrapping.py` (`_extract_atomic_constructs`, `_restore_atomic_constructs`):
  every atomic construct found by `ATOMIC_CONSTRUCT_PATTERN` is replaced by `"\x00AC" + str(index) + "\x00"` so that it is
  one word for `str.split()`, and put back afterwards by one left-to-right pass of
  `_PLACEHOLDER_RE = \x00AC([0-9]+)\x00` over each word.

  What the regular expression found is a parameter: the text arrives as its segmentation into plain pieces and
  constructs (`Piece`), as `re.sub` sees it.
-/
namespace FM

def nul : Char := Char.ofNat 0

inductive Piece where
  | text (s : Str)
  | atom (s : Str)
deriving Repr, DecidableEq

/-- `f"{_PLACEHOLDER_PREFIX}{idx}{_PLACEHOLDER_SUFFIX}"` -/
def placeholder (i : Nat) : Str := nul :: 'A' :: 'C' :: (Nat.toDigits 10 i ++ [nul])

/-- the text `ATOMIC_CONSTRUCT_PATTERN.sub(replace_construct, text)` returns; constructs are numbered from `k` in text order -/
def extractText : List Piece → Nat → Str
  | [], _ => []
  | .text s :: r, k => s ++ extractText r k
  | .atom _ :: r, k => placeholder k ++ extractText r (k + 1)

/-- the values of `construct_map`, in key order -/
def atomsOf : List Piece → List Str
  | [] => []
  | .text _ :: r => atomsOf r
  | .atom a :: r => a :: atomsOf r

/-- the original text -/
def flattenPieces : List Piece → Str
  | [] => []
  | .text s :: r => s ++ flattenPieces r
  | .atom a :: r => a ++ flattenPieces r

/-- `int(match.group(1))` for a run of ASCII digits -/
def parseDigits (ds : Str) : Nat := ds.foldl (fun a c => a * 10 + (c.toNat - 48)) 0

/-- `_PLACEHOLDER_RE.match` at the head: `\x00AC([0-9]+)\x00` — the index and what follows the match.
(`[0-9]+` is greedy; giving digits back cannot help, the next character would be a digit, not NUL.) -/
def matchPH : Str → Option (Nat × Str)
  | n :: 'A' :: 'C' :: rest =>
    if n == nul then
      let ds := rest.takeWhile Char.isDigit
      match rest.drop ds.length with
      | m :: tail => if m == nul && !ds.isEmpty then some (parseDigits ds, tail) else none
      | [] => none
    else none
  | _ => none

/-- `_PLACEHOLDER_RE.sub(restore, token)`: leftmost matches, left to right, never rescanning what was put back;
`construct_map.get(i, match.group(0))`. -/
def restorePH (cs : List Str) : Nat → Str → Str
  | 0, s => s
  | _ + 1, [] => []
  | f + 1, c :: rest =>
    match matchPH (c :: rest) with
    | some (i, tail) =>
      (match cs[i]? with
        | some a => a
        | none => (c :: rest).take ((c :: rest).length - tail.length)) ++ restorePH cs f tail
    | none => c :: restorePH cs f rest

/-- extract, then restore (on the whole text: `str.split()` cuts between words only at whitespace, and neither a
placeholder nor `restorePH` looks at whitespace) -/
def roundTrip (ps : List Piece) : Str :=
  let t := extractText ps 0
  restorePH (atomsOf ps) (t.length + 1) t

end FM
