import FM.Model.Wrap
/-
  Model of `line_wrap_by_sentence` (line_wrappers.py) and `split_sentences_regex`
  (sentence_split_regex.py, `min_length = 0` as the wrappers use it).

  The sentence-end heuristic (a `regex` pattern) is a parameter: words arrive flagged.
  The carried state of the Python loop is `lines` (and `first_line`); `sentStep` is one
  iteration, `foldSent` the loop.
-/
namespace FM

/-- `split_sentences_regex(text, min_length=0)` over flagged words. -/
def splitSent : List (Word × Bool) → List Word → List (List Word)
  | [], cur => if cur.isEmpty then [] else [cur]
  | (w, e) :: rest, cur =>
    if e then (cur ++ [w]) :: splitSent rest [] else splitSent rest (cur ++ [w])

structure SCfg where
  W : Nat
  i0 : Nat
  s0 : Nat
  minLen : Nat
  md : Bool

/-- The wrapped sentence: filled from `col` (after the short last line); if its first word does
not fit there, filled from the start of a new line instead. -/
def pickWrapped (c : SCfg) (col : Nat) (sent : List Word) : List Line :=
  match fill c.W c.s0 c.md col sent with
  | w0 :: rest => if c.W < col + lineLen w0 then fill c.W c.s0 c.md c.s0 sent else w0 :: rest
  | [] => []

/-- Merge the first wrapped line into the short last line when `len(last) + 1 + len(w0) <= width`. -/
def mergeLast (c : SCfg) (lines : List Line) (last : Line) : List Line → List Line
  | w0 :: rest =>
    if lineLen last + 1 + lineLen w0 ≤ c.W then lines.dropLast ++ (last ++ w0) :: rest
    else lines ++ w0 :: rest
  | [] => lines

/-- One iteration of the sentence loop. -/
def sentStep (c : SCfg) (first : Bool) (lines : List Line) (sent : List Word) : List Line :=
  match lines.getLast? with
  | none => lines ++ fill c.W c.s0 c.md (if first then c.i0 else c.s0) sent
  | some last =>
    if lineLen last < c.minLen then
      mergeLast c lines last (pickWrapped c ((if first then c.i0 else c.s0) + lineLen last) sent)
    else lines ++ fill c.W c.s0 c.md (if first then c.i0 else c.s0) sent

def foldSent (c : SCfg) : Bool → List Line → List (List Word) → List Line
  | _, lines, [] => lines
  | first, lines, s :: ss => foldSent c false (sentStep c first lines s) ss

/-- The word-level result of `line_wrap_by_sentence` for `width > 0`. -/
def wrapBySentence (c : SCfg) (ws : List (Word × Bool)) : List Line :=
  foldSent c true [] (splitSent ws [])

/-- String-level result (indents, join, adjacent-tag denormalisation), `width > 0`. -/
def sentWrapStr (W : Nat) (i0 s0 : Str) (minLen : Nat) (md : Bool) (ws : List (Word × Bool)) : Str :=
  let c : SCfg := { W := W, i0 := i0.length, s0 := s0.length, minLen := minLen, md := md }
  let ls := (wrapBySentence c ws).map joinSp
  denormalizeAdjacentTags (joinWith ['\n'] (addIndents i0 s0 false ls))

/-- `width <= 0`: `initial_indent + " ".join(text.replace("\n", " ").split())`. -/
def sentNoWrap (i0 text : Str) : Str :=
  i0 ++ joinSp (pySplit (text.map fun ch => if ch == '\n' then ' ' else ch))


/-! ### `SENTENCE_END_RE` as a scanner

`(\b\p{L}+[\p{Ll}])([.?!]['"’”)]?|['"’”)][.?!]) *$` searched in a word.  Character classes are a
parameter (`CharCls`): the driver receives them per character from `unicodedata`. -/

structure CharCls where
  letter : Char → Bool   -- \p{L}
  lower : Char → Bool    -- \p{Ll}
  word : Char → Bool     -- \w

def isEndPunct (c : Char) : Bool := c == '.' || c == '?' || c == '!'
def isCloser (c : Char) : Bool := c == '\'' || c == '"' || c == '’' || c == '”' || c == ')'

/-- `\b\p{L}+[\p{Ll}]` ending exactly where the (reversed) remainder starts: a maximal run of at
least two letters whose last one is lowercase, preceded by a non-word character or the start. -/
def lettersBefore (cls : CharCls) (rev : Str) : Bool :=
  match rev with
  | l :: _ =>
    cls.lower l &&
    (let run := rev.takeWhile cls.letter
     let before := rev.dropWhile cls.letter
     decide (2 ≤ run.length) &&
     (match before with
      | [] => true
      | c :: _ => !cls.word c))
  | [] => false

def isSentenceEnd (cls : CharCls) (w : Word) : Bool :=
  match w.reverse.dropWhile (· == ' ') with
  | a :: rest =>
    (isEndPunct a && lettersBefore cls rest) ||
    (match rest with
     | b :: rest2 =>
       (isCloser a && isEndPunct b && lettersBefore cls rest2) ||
       (isEndPunct a && isCloser b && lettersBefore cls rest2)
     | [] => false)
  | [] => false

end FM
