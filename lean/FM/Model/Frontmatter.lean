import FM.Base.Str
/-
  Model of `formats/frontmatter.py: split_frontmatter` and of the frontmatter shell of
  `markdown_filling.py: fill_markdown` (with the Markdown formatter of the body as a parameter `F`).
-/
namespace FM

/-- `text.replace("\r\n", "\n")` -/
def replaceCRLF : Str → Str
  | '\r' :: '\n' :: rest => '\n' :: replaceCRLF rest
  | c :: rest => c :: replaceCRLF rest
  | [] => []

/-- `lines = text.replace("\r\n", "\n").split("\n"); if lines[-1] == "": lines.pop()` -/
def fmLines (text : Str) : List Str :=
  let ls := pySplitNl (replaceCRLF text)
  if ls.getLast? == some [] then ls.dropLast else ls

def dashes : Str := ['-', '-', '-']
def isDelim (l : Str) : Bool := strip l == dashes
def isBlank (l : Str) : Bool := (strip l).isEmpty

/-- Scan for the closing delimiter: `(lines before it, the delimiter line, lines after it)`. -/
def findClose : List Str → List Str → Option (List Str × Str × List Str)
  | [], _ => none
  | l :: rest, acc => if isDelim l then some (acc.reverse, l, rest) else findClose rest (l :: acc)

inductive FMSplit where
  | none
  | unclosed
  | closed (fm : List Str) (body : List Str)
deriving Repr, DecidableEq

def splitFrontmatterLines (ls : List Str) : FMSplit :=
  match ls.dropWhile isBlank with
  | [] => .none
  | o :: rest =>
    if isDelim o then
      match findClose rest [] with
      | some (mid, c, body) => .closed (o :: mid ++ [c]) body
      | none => .unclosed
    else .none

/-- `split_frontmatter(text) -> (frontmatter, content)` -/
def splitFrontmatter (text : Str) : Str × Str :=
  match splitFrontmatterLines (fmLines text) with
  | .none => ([], text)
  | .unclosed => (text, [])
  | .closed fm body => (joinWith ['\n'] fm ++ ['\n'], joinWith ['\n'] body)

/-- number of `---` delimiter lines, as counted by fill_markdown's unclosed test -/
def delimCount (fm : Str) : Nat := ((pySplitNl fm).filter isDelim).length

def ensureFinalNl (s : Str) : Str := if s.getLast? == some '\n' then s else s ++ ['\n']

/-- The frontmatter shell of `fill_markdown`; `F` is everything applied to the body text
(dedent, strip, tag-block preprocessing, parse, transforms, render). -/
def fillShell (F : Str → Str) (text : Str) : Str :=
  let (fm, content) := splitFrontmatter text
  if fm.isEmpty then F text
  else if content.isEmpty && delimCount fm < 2 then ensureFinalNl fm
  else fm ++ F content

end FM
