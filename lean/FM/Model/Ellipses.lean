import FM.Base.Str
import FM.Model.Quotes
/-
  Model of `typography/ellipses.py: ellipses`:
    ELLIPSIS_PATTERN = (^|[\w"'“‘”’])(\s*)(\.\.\.)([.,:;?!)\-—"'”’]?)(\s*)   (no MULTILINE: `^` = start of text)
  substituted leftmost, non-overlapping, with the replacement function's boundary test.
  `isWord` is `\w` of Python's `re` (a parameter).
-/
namespace FM

def threeDots : Str := ['.', '.', '.']
def ellipsisChar : Char := '…'

def isEllPrefixChar (isWord : Char → Bool) (c : Char) : Bool :=
  isWord c || c == '"' || c == '\'' || c == '“' || c == '‘' || c == '”' || c == '’'

def isEllPunct (c : Char) : Bool :=
  c == '.' || c == ',' || c == ':' || c == ';' || c == '?' || c == '!' || c == ')' || c == '-' ||
  c == '—' || c == '"' || c == '\'' || c == '”' || c == '’'

/-- `[.,:;?!)\-—"'”’]?` at the head (greedy optional). -/
def punctPrefix : Str → Str
  | c :: _ => if isEllPunct c then [c] else []
  | [] => []

def headIs (p : Char → Bool) : Str → Bool
  | c :: _ => p c
  | [] => false

/-- `(\s*)(\.\.\.)(punct?)(\s*)` at the head of `s`: `(spaces before, punct, spaces after, rest)`. -/
def ellBody (s : Str) : Option (Str × Str × Str × Str) :=
  let r := s.dropWhile isPySpace
  if threeDots.isPrefixOf r then
    let r2 := r.drop 3
    let r3 := r2.drop (punctPrefix r2).length
    some (s.takeWhile isPySpace, punctPrefix r2, r3.takeWhile isPySpace, r3.dropWhile isPySpace)
  else none

/-- `replace_match`: `pre` is group 1 (empty for `^`, else one character). -/
def ellReplace (isWord : Char → Bool) (pre sb p sa rest : Str) : Str :=
  if rest.isEmpty || headIs isWord rest then
    pre ++ (if headIs isWord pre && sb.isEmpty then [' '] else sb) ++ [ellipsisChar] ++ p ++
      (if headIs isWord rest && sa.isEmpty && p.isEmpty then [' '] else sa)
  else pre ++ sb ++ threeDots ++ p ++ sa

/-- One scanning step at a position whose first character is `c`: `(emitted, rest)`.
`ls` = the position is the start of the text (`^`); `inTag` = the position lies inside a
`TEMPLATE_TAG_PATTERN` span (then a match is consumed but left as it is). -/
def ellStep (isWord : Char → Bool) (ls inTag : Bool) (c : Char) (cs : Str) : Str × Str :=
  match (if ls then ellBody (c :: cs) else none) with
  | some (sb, p, sa, rest) =>
    (if inTag then (c :: cs).take ((c :: cs).length - rest.length) else ellReplace isWord [] sb p sa rest, rest)
  | none =>
    match (if isEllPrefixChar isWord c then ellBody cs else none) with
    | some (sb, p, sa, rest) =>
      (if inTag then (c :: cs).take ((c :: cs).length - rest.length) else ellReplace isWord [c] sb p sa rest, rest)
    | none => ([c], cs)

/-- Scan; `pos` is the index of the head of `s` in the whole text, `tagAt` says whether an index
lies inside a template-tag span. -/
def ellPass (isWord : Char → Bool) (tagAt : Nat → Bool) : Nat → Bool → Nat → Str → Str
  | 0, _, _, s => s
  | n + 1, ls, pos, s =>
    match s with
    | [] => []
    | c :: cs =>
      let r := ellStep isWord ls (tagAt pos) c cs
      r.1 ++ ellPass isWord tagAt n false (pos + ((c :: cs).length - r.2.length)) r.2

/-- Characteristic function of the tag spans of `s`, from the segmentation shared with smart quotes. -/
def tagMask (s : Str) : List Bool :=
  ((tagSegments s.length s []).map fun p => List.replicate p.2.length p.1).flatten

/-- `ellipses(text)` -/
def ellipses (isWord : Char → Bool) (s : Str) : Str :=
  let mask := tagMask s
  ellPass isWord (fun i => mask.getD i false) s.length true 0 s

end FM
