import FM.Generated.Patterns
import FM.Model.PatternBaseline
import FM.Lemmas.RenderPD
import FM.Model.Render
import FM.Model.Transforms
/-
  C04 — Code, tags, URLs and other non-prose spans are reproduced verbatim.

  Theorems on the render model (tied by op `render`) and the transform models (tied by op
  `transform`).  Which spans are template tags is the scanners' business (C06/C08 ties).
-/
namespace FM.C04
open FM

/-! ### a fence is always long enough to contain its content -/

theorem foldl_max_ge (l : List Nat) (a : Nat) : a ≤ l.foldl max a := by
  induction l generalizing a with
  | nil => exact Nat.le_refl _
  | cons x t ih => exact Nat.le_trans (Nat.le_max_left a x) (ih (max a x))

theorem le_foldl_max_of_mem (l : List Nat) (a x : Nat) (h : x ∈ l) : x ≤ l.foldl max a := by
  induction l generalizing a with
  | nil => cases h
  | cons y t ih =>
    rcases List.mem_cons.1 h with rfl | h
    · exact Nat.le_trans (Nat.le_max_right a x) (foldl_max_ge t (max a x))
    · exact ih (max a y) h

/-- FENCE_SAFE: for every content and both fence characters, every content line's fence-like run
at its start (≤ 3 spaces of indentation — the only place a closing fence can stand) is strictly
shorter than the fence the renderer emits, whatever the original fence length was. So no line of
the code can close the block early; `minFenceLength` is "one more than the longest run, at least 3". -/
theorem FENCE_SAFE (content : Str) (ch : Char) (flen : Nat) :
    ∀ l ∈ pySplitNl content, fenceRunAtLineStart ch l < max flen (minFenceLength content ch) := by
  intro l hl
  have hmem : fenceRunAtLineStart ch l ∈ (pySplitNl content).map (fenceRunAtLineStart ch) :=
    List.mem_map.2 ⟨l, hl, rfl⟩
  have hle := le_foldl_max_of_mem _ 0 _ hmem
  have hmin : fenceRunAtLineStart ch l < minFenceLength content ch := by
    unfold minFenceLength
    simp only
    generalize ((pySplitNl content).map (fenceRunAtLineStart ch)).foldl max 0 = m at hle
    have hr : fenceRunAtLineStart ch l = 0 ∨ 3 ≤ fenceRunAtLineStart ch l := by
      unfold fenceRunAtLineStart; simp only; split
      · split
        · right; assumption
        · left; rfl
      · left; rfl
    by_cases hm : m = 0
    · subst hm
      have : fenceRunAtLineStart ch l = 0 := Nat.le_zero.1 hle
      simp [this]
    · have : (m == 0) = false := by simpa using hm
      simp only [this, Bool.false_eq_true, if_false]
      omega
  exact Nat.lt_of_lt_of_le hmin (Nat.le_max_right _ _)

/-- and the emitted fence is never shorter than the original one -/
theorem FENCE_KEEPS_LENGTH (content : Str) (ch : Char) (flen : Nat) :
    flen ≤ max flen (minFenceLength content ch) ∧ 3 ≤ max flen (minFenceLength content ch) := by
  constructor
  · exact Nat.le_max_left _ _
  · have : 3 ≤ minFenceLength content ch := by unfold minFenceLength; exact Nat.le_max_left _ _
    exact Nat.le_trans this (Nat.le_max_right _ _)

/-! ### text rewrites are confined to RawText payloads -/

mutual
  /-- forget the text of RawText nodes, keep everything else -/
  def shape : Inline → Inline
    | .raw _ => .raw []
    | .em cs => .em (shapes cs)
    | .strong cs => .strong (shapes cs)
    | .strike cs => .strike (shapes cs)
    | .link cs d t => .link (shapes cs) d t
    | .image cs d t => .image (shapes cs) d t
    | i => i
  def shapes : List Inline → List Inline
    | [] => []
    | c :: rest => shape c :: shapes rest
end

mutual
  /-- REWRITE_CONFINED (ellipses path): `rewrite_text_content` with any `f` changes RawText payloads
  only — every code span, HTML, literal, autolink, URL, image, link destination and title is
  syntactically identical before and after. -/
  theorem REWRITE_CONFINED (f : Str → Str) : ∀ (i : Inline), shape (mapRawInline f i) = shape i
    | .raw _ => by simp [mapRawInline, shape]
    | .code _ => by simp [mapRawInline]
    | .em cs => by simp [mapRawInline, shape, REWRITE_CONFINED_list f cs]
    | .strong cs => by simp [mapRawInline, shape, REWRITE_CONFINED_list f cs]
    | .strike cs => by simp [mapRawInline, shape, REWRITE_CONFINED_list f cs]
    | .link cs d t => by simp [mapRawInline, shape, REWRITE_CONFINED_list f cs]
    | .image _ _ _ => by simp [mapRawInline]
    | .autolink _ => by simp [mapRawInline]
    | .url _ => by simp [mapRawInline]
    | .br _ => by simp [mapRawInline]
    | .lit _ => by simp [mapRawInline]
    | .html _ => by simp [mapRawInline]
    | .fnref _ => by simp [mapRawInline]
  theorem REWRITE_CONFINED_list (f : Str → Str) : ∀ (cs : List Inline), shapes (mapRawInlines f cs) = shapes cs
    | [] => by simp [mapRawInlines, shapes]
    | c :: rest => by simp [mapRawInlines, shapes, REWRITE_CONFINED f c, REWRITE_CONFINED_list f rest]
end

mutual
  /-- REWRITE_CONFINED (smart-quotes path): writing a converted composite back changes RawText
  payloads only, for every converted text (even one of the wrong length). -/
  theorem WRITEBACK_CONFINED : ∀ (i : Inline) (conv : Str), shape (writeBack i conv).1 = shape i
    | .raw _, _ => by simp [writeBack, shape]
    | .code _, _ => by simp [writeBack]
    | .em cs, conv => by simp [writeBack, shape, WRITEBACK_CONFINED_list cs conv]
    | .strong cs, conv => by simp [writeBack, shape, WRITEBACK_CONFINED_list cs conv]
    | .strike cs, conv => by simp [writeBack, shape, WRITEBACK_CONFINED_list cs conv]
    | .link cs d t, conv => by simp [writeBack, shape, WRITEBACK_CONFINED_list cs conv]
    | .image cs d t, conv => by simp [writeBack, shape, WRITEBACK_CONFINED_list cs conv]
    | .autolink _, _ => by simp [writeBack]
    | .url _, _ => by simp [writeBack]
    | .br _, _ => by simp [writeBack]
    | .lit _, _ => by simp [writeBack]
    | .html _, _ => by simp [writeBack]
    | .fnref _, _ => by simp [writeBack]
  theorem WRITEBACK_CONFINED_list : ∀ (cs : List Inline) (conv : Str), shapes (writeBackL cs conv).1 = shapes cs
    | [], _ => by simp [writeBackL, shapes]
    | c :: rest, conv => by
      simp [writeBackL, shapes, WRITEBACK_CONFINED c conv, WRITEBACK_CONFINED_list rest (writeBack c conv).2]
end

/-! ### destinations and code spans are emitted as they are -/

/-- how a reader takes the container prefix off a code line again -/
def unprefixCode (snd line : Str) : Str := if line == rstrip snd then [] else line.drop snd.length

/-- CODE_LINES_VERBATIM: every line of a code block's content is written as the continuation prefix
followed by the line itself (a blank line as the prefix without its trailing whitespace), so taking
the prefix off again gives back exactly the content lines — for every content, prefix and fence. -/
theorem CODE_LINES_VERBATIM (snd : Str) (ls : List Str) :
    (ls.map fun l => if l.isEmpty then rstrip snd else snd ++ l).map (unprefixCode snd) = ls := by
  induction ls with
  | nil => rfl
  | cons l ls ih =>
    simp only [List.map_cons, ih]
    congr 1
    by_cases hl : l = []
    · subst hl; simp [unprefixCode]
    · have hne : l.isEmpty = false := by cases l <;> simp_all
      have hlen : (snd ++ l).length ≠ (rstrip snd).length := by
        have h1 : (rstrip snd).length ≤ snd.length := (rstrip_prefix snd).length_le
        have h2 : 0 < l.length := List.length_pos_iff.mpr hl
        simp; omega
      have hneq : (snd ++ l == rstrip snd) = false := by
        apply beq_false_of_ne
        intro e; exact hlen (by rw [e])
      simp [unprefixCode, hne, hneq]

/-- a link without a matching reference definition is written `[text](dest)` with `dest` unchanged — inside pointy brackets
exactly when it holds blanks (the only way such a destination can be written; before the repair
C04-destination-with-blanks it was written bare, which is no link at all) -/
theorem DEST_VERBATIM (cfg : RCfg) (inH : Bool) (acc : Str) (cs : List Inline) (dest : Str)
    (h : findLabel cfg.defs dest none = none) :
    (renderInline cfg inH acc (.link cs dest none)).1 =
      '[' :: (renderInlines cfg inH acc cs).1 ++ "](".toList ++ writtenDest dest ++ [')'] ∧
    (writtenDest dest = dest ∨ writtenDest dest = '<' :: dest ++ ['>']) ∧
    ((dest.any fun c => c == ' ' || c == '\t' || c == '\n') = false → writtenDest dest = dest) := by
  refine ⟨by simp [renderInline, h], ?_, ?_⟩
  · unfold writtenDest; split
    · right; rfl
    · left; rfl
  · intro hb; unfold writtenDest; simp [hb]

example : writtenDest "http://x.y/a b".toList = "<http://x.y/a b>".toList ∧ writtenDest "http://x".toList = "http://x".toList := by decide

/-- code span content is emitted unchanged between delimiters longer than any backtick run in it -/
theorem SPAN_VERBATIM (t : Str) :
    ∃ d pad, renderCodeSpan t = d ++ pad ++ t ++ pad ++ d ∧ d = List.replicate (longestRun '`' t 0 0 + 1) '`' := by
  unfold renderCodeSpan
  simp only
  split
  · exact ⟨_, [' '], by simp, rfl⟩
  · exact ⟨_, [], by simp, rfl⟩

/-- non-vacuity: fence-like content forces a longer fence -/
example : minFenceLength "a\n````\n  ```\nb".toList '`' = 5 := by decide
example : minFenceLength "a\n    ````\nb".toList '`' = 3 := by decide


/-- PATTERNS_AS_MODELLED: the regular expressions of the source files this property's models were written against
(regenerated from /repo's working tree on every run by harness/translate_patterns.py) are the recorded ones. -/
theorem PATTERNS_AS_MODELLED : FM.Gen.patterns_C04 = FM.Baseline.patterns_C04 := by decide

end FM.C04
