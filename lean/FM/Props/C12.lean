import FM.Lemmas.RenderNl
import FM.Lemmas.Quotes
/-
  C12 — Formatting always terminates with well-formed output.

  What a theorem can carry: totality and output shape of everything flowmark owns (every model
  function is a total Lean definition by structural recursion or explicit fuel — there is no
  `partial` in the model). What it cannot: exceptions inside Marko, regex running time, wall
  clock — those are monitored at run time (harness/props/c12.py) and the property is partial there.
-/
namespace FM.C12
open FM

/-- ENDS_NL_partial: for every tree, wrapper, spacing mode and link table, the rendered document is
empty or ends with a newline. -/
theorem ENDS_NL_partial (cfg : RCfg) (bs : List Block) :
    renderDoc cfg bs = [] ∨ (renderDoc cfg bs).getLast? = some '\n' :=
  (ends_nl_all cfg).2.1 RState.init bs

/-- The empty case is real but confined to trees Marko never builds (a document with no block at
all, a list with no item): since the repair of the empty list item (flowmark 7e35b65) a document
that is a single empty item renders as its marker line, not as the empty string. -/
theorem EMPTY_ITEM_RENDERED :
    renderDoc { wrap := fun t _ _ => t, spacing := .preserve, defs := [] }
      [.list false 1 ['+'] true [.item []]] = "+\n".toList := by decide

/-- every list item writes at least its own line -/
theorem ITEM_NONEMPTY_OUTPUT (cfg : RCfg) (st : RState) :
    (renderBlock cfg st (.item [])).1.getLast? = some '\n' := by
  simp [renderBlock, List.getLast?_append]

/-- NO_ASSERT: the length assertion of `rewrite_text_across_inlines` cannot fire for a
length-preserving rewrite … -/
theorem NO_ASSERT (f : Str → Str) (hf : ∀ s, (f s).length = s.length) (cs : List Inline) :
    ∃ r, rewriteScope f cs = .ok r := by
  unfold rewriteScope
  simp only
  split
  · exact ⟨_, rfl⟩
  · simp [hf]

/-- … and smart quotes are length-preserving for every text and every `\w` class (C08.Q_LENGTH). -/
theorem NO_ASSERT_smartquotes (isWord : Char → Bool) (cs : List Inline) :
    ∃ r, rewriteScope (smartQuotes isWord) cs = .ok r := by
  apply NO_ASSERT
  intro s
  have h := segments_rel_len isWord s
  exact h
where
  segments_rel_len (isWord : Char → Bool) (s : Str) : (smartQuotes isWord s).length = s.length := by
    have hseg : ∀ (segs : List (Bool × Str)),
        QRelS (segs.map Prod.snd).flatten
          (segs.map fun p => if p.1 then p.2 else applySmartQuotes isWord p.2).flatten := by
      intro segs
      induction segs with
      | nil => exact .nil
      | cons p rest ih =>
        obtain ⟨b, seg⟩ := p
        cases b
        · simpa using (applySmartQuotes_rel isWord seg).append ih
        · simpa using (QRelS.refl seg).append ih
    have h := hseg (tagSegments s.length s [])
    rw [tagSegments_concat] at h
    have : QRelS s (smartQuotes isWord s) := by simpa [smartQuotes] using h
    exact this.length.symm

/-- CODE_BLANK: an empty line of code is emitted as the continuation prefix with its trailing
whitespace removed — so it ends in a non-space character or is empty. -/
theorem dropWhile_head_not (p : Char → Bool) : ∀ (l : Str) (a : Char),
    (l.dropWhile p).head? = some a → p a = false
  | [], a, h => by simp at h
  | c :: cs, a, h => by
    by_cases hc : p c = true
    · simp [List.dropWhile, hc] at h
      exact dropWhile_head_not p cs a h
    · simp [List.dropWhile, hc] at h
      subst h; simpa using hc

theorem CODE_BLANK (s : Str) : ∀ c, (rstrip s).getLast? = some c → isPySpace c = false := by
  intro c h
  unfold rstrip at h
  rw [List.getLast?_reverse] at h
  exact dropWhile_head_not isPySpace _ c h

end FM.C12
