import FM.Lemmas.RenderNl
import FM.Lemmas.Quotes
import FM.Lemmas.Placeholder
/-
  C12 — Formatting always terminates with well-formed output.

  What a theorem can carry: totality and output shape of everything flowmark owns (every model
  function is a total Lean definition by structural recursion or explicit fuel — there is no
  `partial` in the model). What it cannot: exceptions inside Marko, regex running time, wall
  clock — those are monitored at run time (harness/props/c12.py) and the property is partial there.
-/
namespace FM.C12
open FM

/-- ENDS_NL_partial: for every tree, wrapper, spacing mode and link table, the rendered document is
empty or ends with a newline. -/
theorem ENDS_NL_partial (cfg : RCfg) (bs : List Block) :
    renderDoc cfg bs = [] ∨ (renderDoc cfg bs).getLast? = some '\n' :=
  (ends_nl_all cfg).2.1 RState.init bs

/-- The empty case is real but confined to trees Marko never builds (a document with no block at
all, a list with no item): since the repair of the empty list item (flowmark 7e35b65) a document
that is a single empty item renders as its marker line, not as the empty string. -/
theorem EMPTY_ITEM_RENDERED :
    renderDoc { wrap := fun t _ _ => t, spacing := .preserve, defs := [] }
      [.list false 1 ['+'] true [.item []]] = "+\n".toList := by decide

/-- every list item writes at least its own line -/
theorem ITEM_NONEMPTY_OUTPUT (cfg : RCfg) (st : RState) :
    (renderBlock cfg st (.item [])).1.getLast? = some '\n' := by
  simp [renderBlock, List.getLast?_append]

/-- NO_ASSERT: the length assertion of `rewrite_text_across_inlines` cannot fire for a
length-preserving rewrite … -/
theorem NO_ASSERT (f : Str → Str) (hf : ∀ s, (f s).length = s.length) (cs : List Inline) :
    ∃ r, rewriteScope f cs = .ok r := by
  unfold rewriteScope
  simp only
  split
  · exact ⟨_, rfl⟩
  · simp [hf]

/-- … and smart quotes are length-preserving for every text and every `\w` class (C08.Q_LENGTH). -/
theorem NO_ASSERT_smartquotes (isWord : Char → Bool) (cs : List Inline) :
    ∃ r, rewriteScope (smartQuotes isWord) cs = .ok r := by
  apply NO_ASSERT
  intro s
  have h := segments_rel_len isWord s
  exact h
where
  segments_rel_len (isWord : Char → Bool) (s : Str) : (smartQuotes isWord s).length = s.length := by
    have hseg : ∀ (segs : List (Bool × Str)),
        QRelS (segs.map Prod.snd).flatten
          (segs.map fun p => if p.1 then p.2 else applySmartQuotes isWord p.2).flatten := by
      intro segs
      induction segs with
      | nil => exact .nil
      | cons p rest ih =>
        obtain ⟨b, seg⟩ := p
        cases b
        · simpa using (applySmartQuotes_rel isWord seg).append ih
        · simpa using (QRelS.refl seg).append ih
    have h := hseg (tagSegments s.length s [])
    rw [tagSegments_concat] at h
    have : QRelS s (smartQuotes isWord s) := by simpa [smartQuotes] using h
    exact this.length.symm

/-- CODE_BLANK: an empty line of code is emitted as the continuation prefix with its trailing
whitespace removed — so it ends in a non-space character or is empty. -/
theorem dropWhile_head_not (p : Char → Bool) : ∀ (l : Str) (a : Char),
    (l.dropWhile p).head? = some a → p a = false
  | [], a, h => by simp at h
  | c :: cs, a, h => by
    by_cases hc : p c = true
    · simp [List.dropWhile, hc] at h
      exact dropWhile_head_not p cs a h
    · simp [List.dropWhile, hc] at h
      subst h; simpa using hc

theorem CODE_BLANK (s : Str) : ∀ c, (rstrip s).getLast? = some c → isPySpace c = false := by
  intro c h
  unfold rstrip at h
  rw [List.getLast?_reverse] at h
  exact dropWhile_head_not isPySpace _ c h

/-! ### placeholders (model `FM/Model/Placeholder.lean`, tied by op `placeholder`) -/

/-- RESTORE_EXTRACT: whatever the regular expression marked as constructs, and whatever the constructs contain, putting the
placeholders in and restoring them by one left-to-right pass gives back the text — provided the text OUTSIDE the constructs
holds no NUL (`all` is the whole construct map; the pieces are a tail of the text whose constructs are numbered from `k`). -/
theorem RESTORE_EXTRACT (all : List Str) : ∀ (ps : List Piece) (k f : Nat),
    (∀ s, Piece.text s ∈ ps → nul ∉ s) → atomsOf ps = all.drop k → (extractText ps k).length ≤ f →
    restorePH all f (extractText ps k) = flattenPieces ps
  | [], k, f, _, _, _ => by cases f <;> simp [extractText, flattenPieces, restorePH]
  | .text s :: r, k, f, hn, ha, hl => by
    have hs : nul ∉ s := hn s List.mem_cons_self
    simp only [extractText, List.length_append] at hl
    have h1 := restorePH_text all s (extractText r k) f hs (by omega)
    simp only [Nat.add_zero] at h1
    simp only [extractText, flattenPieces]
    rw [h1, RESTORE_EXTRACT all r k (f - s.length) (fun x hx => hn x (List.mem_cons_of_mem _ hx)) ha (by omega)]
  | .atom a :: r, k, f, hn, ha, hl => by
    simp only [atomsOf] at ha
    have hk : all[k]? = some a := by
      have := congrArg List.head? ha
      simpa [List.head?_drop] using this.symm
    have hr : atomsOf r = all.drop (k + 1) := by
      have := congrArg List.tail ha
      simpa [List.tail_drop] using this
    simp only [extractText, List.length_append] at hl
    have hp := placeholder_length_pos k
    obtain ⟨f', rfl⟩ : ∃ f', f = f' + 1 := ⟨f - 1, by omega⟩
    have hsh : placeholder k ++ extractText r (k + 1)
        = nul :: ('A' :: 'C' :: (Nat.toDigits 10 k ++ [nul]) ++ extractText r (k + 1)) := by simp [placeholder]
    simp only [extractText, flattenPieces]
    rw [hsh]
    simp only [restorePH]
    rw [← hsh, matchPH_placeholder]
    simp only [hk]
    rw [RESTORE_EXTRACT all r (k + 1) f' (fun x hx => hn x (List.mem_cons_of_mem _ hx)) hr (by omega)]

/-- ROUND_TRIP: `restore(extract(text)) = text` for every segmentation of a text whose plain pieces hold no NUL. -/
theorem ROUND_TRIP (ps : List Piece) (hn : ∀ s, Piece.text s ∈ ps → nul ∉ s) :
    roundTrip ps = flattenPieces ps := by
  unfold roundTrip
  exact RESTORE_EXTRACT (atomsOf ps) ps 0 _ hn (by simp) (by omega)

theorem mem_flattenPieces : ∀ (ps : List Piece) (c : Char), c ∈ flattenPieces ps →
    (∃ s, Piece.text s ∈ ps ∧ c ∈ s) ∨ (∃ a, Piece.atom a ∈ ps ∧ c ∈ a)
  | [], c, h => by simp [flattenPieces] at h
  | .text s :: r, c, h => by
    simp only [flattenPieces, List.mem_append] at h
    rcases h with h | h
    · exact Or.inl ⟨s, List.mem_cons_self, h⟩
    · rcases mem_flattenPieces r c h with ⟨x, hx, hc⟩ | ⟨x, hx, hc⟩
      · exact Or.inl ⟨x, List.mem_cons_of_mem _ hx, hc⟩
      · exact Or.inr ⟨x, List.mem_cons_of_mem _ hx, hc⟩
  | .atom a :: r, c, h => by
    simp only [flattenPieces, List.mem_append] at h
    rcases h with h | h
    · exact Or.inr ⟨a, List.mem_cons_self, h⟩
    · rcases mem_flattenPieces r c h with ⟨x, hx, hc⟩ | ⟨x, hx, hc⟩
      · exact Or.inl ⟨x, List.mem_cons_of_mem _ hx, hc⟩
      · exact Or.inr ⟨x, List.mem_cons_of_mem _ hx, hc⟩

/-- NO_PLACEHOLDER_LEAK ("contains no internal placeholder or control bytes that were not in the input"): for a text
without NUL, what the splitter hands back after restoring holds no NUL either — every placeholder was put back. -/
theorem NO_PLACEHOLDER_LEAK (ps : List Piece) (hn : nul ∉ flattenPieces ps)
    (ht : ∀ s, Piece.text s ∈ ps → nul ∉ s) : nul ∉ roundTrip ps := by
  rw [ROUND_TRIP ps ht]; exact hn

/-- the repaired regression: `` `a` `b`AC0`c` `` — restoring index by index matched "\0AC0\0" across the placeholders of
`` `b` `` and `` `c` `` and left NUL bytes in the output; one left-to-right pass gives the text back. -/
example : roundTrip [.atom "`a`".toList, .text " ".toList, .atom "`b`".toList, .text "AC0".toList, .atom "`c`".toList]
    = "`a` `b`AC0`c`".toList := by decide

/-- ROUND_TRIP's hypothesis is necessary: a NUL outside the constructs can forge a placeholder (P-nul). -/
theorem ROUND_TRIP_false : ∃ ps, roundTrip ps ≠ flattenPieces ps :=
  ⟨[.atom "`a`".toList, .text [nul, 'A', 'C', '0', nul]], by decide⟩


end FM.C12
