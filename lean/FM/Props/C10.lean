import FM.Lemmas.Render
import FM.Model.Transforms
/-
  C10 — Cleanups and list-spacing options do exactly what they say and nothing else.

  Theorems on the transform model (`unboldBlocks`, tied by op `transform`) and on the render
  model (`renderBlock`, tied by op `render` in all three spacing modes).
-/
namespace FM.C10
open FM

/-! ### cleanups -/

/-- UNBOLD_EXACT (headings): the only two shapes that change, and what they become. -/
theorem UNBOLD_STRONG (inner : List Inline) : unboldInl [.strong inner] = inner := rfl
theorem UNBOLD_EM_STRONG (inner : List Inline) : unboldInl [.em [.strong inner]] = [.em inner] := rfl

/-- a heading with two or more inline children (e.g. partly bold) is untouched -/
theorem UNBOLD_PARTLY (a b : Inline) (rest : List Inline) : unboldInl (a :: b :: rest) = a :: b :: rest := by
  simp [unboldInl]

/-- a heading whose single child is neither Strong nor Emphasis[Strong] is untouched -/
theorem UNBOLD_OTHER_raw (s : Str) : unboldInl [.raw s] = [.raw s] := rfl
theorem UNBOLD_OTHER_em_raw (s : Str) : unboldInl [.em [.raw s]] = [.em [.raw s]] := rfl
theorem UNBOLD_OTHER_code (s : Str) : unboldInl [.code s] = [.code s] := rfl

/-- UNBOLD_EXACT (everything else): paragraphs, code, rules, blank lines, link definitions and tables
are returned as they are; containers are traversed and rebuilt with the same attributes. -/
theorem UNBOLD_LEAVES :
    (∀ cs chk, unboldBlock (.para cs chk) = .para cs chk) ∧
    (∀ l e c ch n, unboldBlock (.fenced l e c ch n) = .fenced l e c ch n) ∧
    (∀ c, unboldBlock (.indented c) = .indented c) ∧
    unboldBlock .hr = .hr ∧ unboldBlock .blank = .blank ∧
    (∀ l d t, unboldBlock (.linkdef l d t) = .linkdef l d t) ∧
    (∀ h ds rows, unboldBlock (.table h ds rows) = .table h ds rows) := by
  refine ⟨?_, ?_, ?_, ?_, ?_, ?_, ?_⟩ <;> intros <;> simp [unboldBlock]

theorem UNBOLD_CONTAINERS :
    (∀ o s b t items, unboldBlock (.list o s b t items) = .list o s b t (unboldBlocks items)) ∧
    (∀ bs, unboldBlock (.quote bs) = .quote (unboldBlocks bs)) ∧
    (∀ ty bs, unboldBlock (.alert ty bs) = .alert ty (unboldBlocks bs)) ∧
    (∀ l bs, unboldBlock (.fndef l bs) = .fndef l (unboldBlocks bs)) ∧
    (∀ lvl cs sx, unboldBlock (.heading lvl cs sx) = .heading lvl (unboldInl cs) sx) := by
  refine ⟨?_, ?_, ?_, ?_, ?_⟩ <;> intros <;> simp [unboldBlock]

theorem unboldBlocks_length : ∀ (bs : List Block), (unboldBlocks bs).length = bs.length
  | [] => rfl
  | _ :: rest => by simp [unboldBlocks, unboldBlocks_length rest]

/-- unbolding is NOT idempotent (relevant to C02): `# ****x****` needs two passes. -/
theorem UNBOLD_IDEM_false :
    unboldInl (unboldInl [.strong [.strong [.raw ['x']]]]) = [.raw ['x']] ∧
    unboldInl [.strong [.strong [.raw ['x']]]] = [.strong [.raw ['x']]] := ⟨rfl, rfl⟩

/-! ### list spacing -/

/-- ITEM_TIGHT: in a list rendered tight, an item emits no separator at all. -/
theorem ITEM_TIGHT (cfg : RCfg) (st : RState) (bs : List Block) (h : st.listTight = true) (hne : bs ≠ []) :
    (renderBlock cfg st (.item bs)).1 = (renderBlocks cfg st bs).1 := by
  cases st with
  | mk pfx snd suppress skipBlank listTight acc =>
    simp only at h
    subst h
    simp [renderBlock, hne]

/-- ITEM_LOOSE: in a list rendered loose, an item that is not the first thing after a separator
already emitted (`suppress = false`) starts with exactly one separator line: the container's
continuation prefix stripped (empty at top level, `>` in a quote) and a newline. -/
theorem ITEM_LOOSE (cfg : RCfg) (st : RState) (bs : List Block) (h : st.listTight = false)
    (hs : st.suppress = false) (hne : bs ≠ []) :
    (renderBlock cfg st (.item bs)).1 =
      rstrip st.snd ++ '\n' :: (renderBlocks cfg { st with suppress := false } bs).1 := by
  simp [renderBlock, h, hs, hne]

/-- ITEM_EMPTY: an item with nothing in it is written as its marker (the first-line prefix without its
trailing space) on a line of its own, after the same separator as any other item. -/
theorem ITEM_EMPTY (cfg : RCfg) (st : RState) :
    (renderBlock cfg st (.item [])).1 =
      (if st.listTight then [] else if st.suppress then [] else rstrip st.snd ++ ['\n']) ++ rstrip st.pfx ++ ['\n'] := by
  simp [renderBlock]

/-- … and right after a heading / blank line / definition (which already separated), none. -/
theorem ITEM_LOOSE_suppressed (cfg : RCfg) (st : RState) (bs : List Block) (h : st.listTight = false)
    (hs : st.suppress = true) (hne : bs ≠ []) :
    (renderBlock cfg st (.item bs)).1 = (renderBlocks cfg { st with suppress := false } bs).1 := by
  simp [renderBlock, h, hs, hne]

/-- ITEM_FIRST_IN_CONTAINER: in a loose list, an item that starts on the first line of its container
(the first-line prefix — an enclosing item's marker, a footnote label — has not been used yet) is
written without a separator line in front of it, whatever the suppress flag said. -/
theorem ITEM_FIRST_IN_CONTAINER (cfg : RCfg) (st : RState) (o : Bool) (s : Nat) (b : Str) (i : Nat)
    (bs : List Block) (rest : List Block) (h : st.listTight = false) (hp : st.pfx ≠ st.snd) (hne : bs ≠ []) :
    (renderBlocks cfg { st with pfx := st.pfx ++ (itemPrefix o s i b).1, snd := st.snd ++ (itemPrefix o s i b).2,
                                suppress := false } bs).1 <+: (renderItems cfg st o s b i (.item bs :: rest)).1 := by
  have hc : (¬st.pfx = st.snd ∨ st.suppress = true) := Or.inl hp
  simp [renderItems, renderBlock, h, hp, hc, hne]

/-- MODE: which tightness a list's items are rendered with. -/
theorem MODE_loose (cfg : RCfg) (st : RState) (o : Bool) (s : Nat) (b : Str) (t : Bool) (items : List Block)
    (h : cfg.spacing = .loose) :
    (renderBlock cfg st (.list o s b t items)).1 =
      (renderItems cfg { st with skipBlank := false, listTight := false } o s b 0 items).1 := by
  simp [renderBlock, h]

theorem MODE_preserve (cfg : RCfg) (st : RState) (o : Bool) (s : Nat) (b : Str) (t : Bool) (items : List Block)
    (h : cfg.spacing = .preserve) :
    (renderBlock cfg st (.list o s b t items)).1 =
      (renderItems cfg { st with skipBlank := false, listTight := t } o s b 0 items).1 := by
  simp [renderBlock, h]

theorem MODE_tight (cfg : RCfg) (st : RState) (o : Bool) (s : Nat) (b : Str) (t : Bool) (items : List Block)
    (h : cfg.spacing = .tight) :
    (renderBlock cfg st (.list o s b t items)).1 =
      (renderItems cfg { st with skipBlank := false, listTight := canBeTight items } o s b 0 items).1 := by
  simp [renderBlock, h]

/-- the tightness chosen for a list is what each of its items sees, however deeply the items'
own content nests other lists (FRAME: every block hands `_current_list_tight` back). -/
theorem ITEMS_SEE_LIST_TIGHTNESS (cfg : RCfg) (st : RState) (o : Bool) (s : Nat) (b : Str) (i : Nat)
    (item : Block) :
    let r := renderBlock cfg { st with pfx := st.pfx ++ (itemPrefix o s i b).1, snd := st.snd ++ (itemPrefix o s i b).2 } item
    r.2.listTight = st.listTight := by
  intro r
  exact ((frame_all cfg).1 _ item).2

/-- `canBeTight`: exactly the lists whose items each hold at most one block. -/
theorem CAN_BE_TIGHT_items : ∀ (items : List Block),
    canBeTight items = true → ∀ bs, Block.item bs ∈ items → bs.length ≤ 1
  | [], _, _, h => by cases h
  | .item bs0 :: rest, h, bs, hm => by
    simp only [canBeTight, Bool.and_eq_true, decide_eq_true_eq] at h
    rcases List.mem_cons.1 hm with heq | hm
    · cases heq; exact h.1
    · exact CAN_BE_TIGHT_items rest h.2 bs hm
  | .para _ _ :: rest, h, bs, hm => by
    simp only [canBeTight] at h
    rcases List.mem_cons.1 hm with heq | hm
    · cases heq
    · exact CAN_BE_TIGHT_items rest h bs hm
  | .heading _ _ _ :: rest, h, bs, hm => by
    simp only [canBeTight] at h
    rcases List.mem_cons.1 hm with heq | hm
    · cases heq
    · exact CAN_BE_TIGHT_items rest h bs hm
  | .list _ _ _ _ _ :: rest, h, bs, hm => by
    simp only [canBeTight] at h
    rcases List.mem_cons.1 hm with heq | hm
    · cases heq
    · exact CAN_BE_TIGHT_items rest h bs hm
  | .quote _ :: rest, h, bs, hm => by
    simp only [canBeTight] at h
    rcases List.mem_cons.1 hm with heq | hm
    · cases heq
    · exact CAN_BE_TIGHT_items rest h bs hm
  | .alert _ _ :: rest, h, bs, hm => by
    simp only [canBeTight] at h
    rcases List.mem_cons.1 hm with heq | hm
    · cases heq
    · exact CAN_BE_TIGHT_items rest h bs hm
  | .fenced _ _ _ _ _ :: rest, h, bs, hm => by
    simp only [canBeTight] at h
    rcases List.mem_cons.1 hm with heq | hm
    · cases heq
    · exact CAN_BE_TIGHT_items rest h bs hm
  | .indented _ :: rest, h, bs, hm => by
    simp only [canBeTight] at h
    rcases List.mem_cons.1 hm with heq | hm
    · cases heq
    · exact CAN_BE_TIGHT_items rest h bs hm
  | .hr :: rest, h, bs, hm => by
    simp only [canBeTight] at h
    rcases List.mem_cons.1 hm with heq | hm
    · cases heq
    · exact CAN_BE_TIGHT_items rest h bs hm
  | .blank :: rest, h, bs, hm => by
    simp only [canBeTight] at h
    rcases List.mem_cons.1 hm with heq | hm
    · cases heq
    · exact CAN_BE_TIGHT_items rest h bs hm
  | .linkdef _ _ _ :: rest, h, bs, hm => by
    simp only [canBeTight] at h
    rcases List.mem_cons.1 hm with heq | hm
    · cases heq
    · exact CAN_BE_TIGHT_items rest h bs hm
  | .fndef _ _ :: rest, h, bs, hm => by
    simp only [canBeTight] at h
    rcases List.mem_cons.1 hm with heq | hm
    · cases heq
    · exact CAN_BE_TIGHT_items rest h bs hm
  | .table _ _ _ :: rest, h, bs, hm => by
    simp only [canBeTight] at h
    rcases List.mem_cons.1 hm with heq | hm
    · cases heq
    · exact CAN_BE_TIGHT_items rest h bs hm

end FM.C10
