import FM.Lemmas.Frontmatter
/-
  C07 — YAML frontmatter is passed through exactly and does not influence the body.

  Theorems about the model `splitFrontmatter` / `fillShell` (tied by equality on ops
  `frontmatter`, `fmshell`).  The Markdown formatter of the body is a parameter `F`.
-/
namespace FM.C07
open FM

/-- FM_NONE: a document whose first non-blank line is not a `---` line has no frontmatter:
the whole text is content. -/
theorem FM_NONE (text : Str) (h : splitFrontmatterLines (fmLines text) = .none) (F : Str → Str) :
    splitFrontmatter text = ([], text) ∧ fillShell F text = F text := by
  simp [splitFrontmatter, fillShell, h]

/-- FM_PARTITION (exactness at line level): when a closed block is found, the document's lines are
`blank lines ++ frontmatter lines ++ body lines`; no line is altered, dropped or invented; the
block is `---`, lines that are not delimiters, `---`. -/
theorem FM_PARTITION (ls fm body : List Str) (h : splitFrontmatterLines ls = .closed fm body) :
    ∃ pre o mid c, ls = pre ++ fm ++ body ∧ fm = o :: mid ++ [c] ∧
      (∀ l ∈ pre, isBlank l = true) ∧ isDelim o = true ∧ isDelim c = true ∧
      ∀ l ∈ mid, isDelim l = false := by
  unfold splitFrontmatterLines at h
  have hsplit := (List.takeWhile_append_dropWhile (p := isBlank) (l := ls)).symm
  cases hd : ls.dropWhile isBlank with
  | nil => simp [hd] at h
  | cons o rest =>
    rw [hd] at h hsplit
    simp only at h
    split at h
    · rename_i ho
      cases hf : findClose rest [] with
      | none => simp [hf] at h
      | some t =>
        obtain ⟨mid, c, body'⟩ := t
        simp [hf] at h
        obtain ⟨rfl, rfl⟩ := h
        have hc := findClose_some rest [] mid c body' hf
        refine ⟨ls.takeWhile isBlank, o, mid, c, ?_, rfl, ?_, ho, hc.2.1, ?_⟩
        · have h1 : rest = mid ++ c :: body' := by simpa using hc.1
          conv => lhs; rw [hsplit, h1]
          simp
        · intro l hl; exact mem_takeWhile_imp' isBlank ls l hl
        · intro l hl
          rcases hc.2.2 l hl with h2 | h2
          · cases h2
          · exact h2
    · simp at h

/-- The lines the splitter works on are the text itself (CRLF → LF), up to one final newline. -/
theorem LINES_FAITHFUL (text : Str) :
    joinWith ['\n'] (fmLines text) = replaceCRLF text ∨
    joinWith ['\n'] (fmLines text) ++ ['\n'] = replaceCRLF text := by
  unfold fmLines
  have hj := join_pySplitNl (replaceCRLF text)
  generalize pySplitNl (replaceCRLF text) = ls at hj
  simp only
  split
  · rename_i hl
    have hne : ls ≠ [] := by intro h0; simp [h0] at hl
    have hlast : ls.getLast hne = [] := by
      have := List.getLast?_eq_some_getLast hne
      simp only [beq_iff_eq] at hl
      rw [hl] at this; exact (Option.some.inj this).symm
    have hs : ls = ls.dropLast ++ [[]] := by
      rw [← hlast]; exact (List.dropLast_concat_getLast hne).symm
    generalize ls.dropLast = init at hs
    subst hs
    cases init with
    | nil => left; simpa [joinWith] using hj
    | cons a t =>
      right
      rw [← hj]
      clear hj hl hne hlast
      induction t generalizing a with
      | nil => simp [joinWith]
      | cons b t ih =>
        simp only [List.cons_append, joinWith_cons_cons] at ih ⊢
        rw [← ih b]; simp [List.append_assoc]
  · left; exact hj

/-- FM_UNCLOSED (result): a document whose opening `---` is never closed is returned as is, with a
final newline ensured — provided the text has at most one delimiter line, which `UNCLOSED_COUNT`
shows is the case for CR-free text. -/
theorem FM_UNCLOSED (text : Str) (F : Str → Str)
    (h : splitFrontmatterLines (fmLines text) = .unclosed) (hne : text ≠ [])
    (hc : delimCount text < 2) :
    fillShell F text = ensureFinalNl text := by
  have he : text.isEmpty = false := by cases text <;> simp_all
  unfold fillShell splitFrontmatter
  rw [h]
  simp [he, hc]

theorem ensureFinalNl_idem (s : Str) : ensureFinalNl (ensureFinalNl s) = ensureFinalNl s := by
  unfold ensureFinalNl
  split
  · rename_i h; simp
  · simp [List.getLast?_append]

/-- UNCLOSED_COUNT: for CR-free text, an unclosed block has exactly one delimiter line, so the
`< 2` test of `fill_markdown` recognises it. -/
theorem UNCLOSED_COUNT (text : Str) (hcr : '\r' ∉ text)
    (h : splitFrontmatterLines (fmLines text) = .unclosed) : delimCount text = 1 := by
  unfold delimCount
  rw [← filter_delim_fmLines text hcr]
  exact unclosed_count _ h

/-- FM_UNCLOSED_FIX: "however often it is formatted" — for CR-free text with an unclosed block the
shell is idempotent: `format (format x) = format x = x` plus a final newline. -/
theorem FM_UNCLOSED_FIX (text : Str) (F : Str → Str) (hcr : '\r' ∉ text)
    (h : splitFrontmatterLines (fmLines text) = .unclosed) :
    fillShell F text = ensureFinalNl text ∧
    fillShell F (fillShell F text) = fillShell F text := by
  have hne : text ≠ [] := by
    intro h0; subst h0
    have : splitFrontmatterLines (fmLines []) = .none := by decide
    rw [this] at h; cases h
  have h1 := FM_UNCLOSED text F h hne (by rw [UNCLOSED_COUNT text hcr h]; decide)
  refine ⟨h1, ?_⟩
  rw [h1]
  by_cases hl : text.getLast? = some '\n'
  · have : ensureFinalNl text = text := by simp [ensureFinalNl, hl]
    rw [this]; rw [this] at h1; exact h1
  · have he : ensureFinalNl text = text ++ ['\n'] := by simp [ensureFinalNl, hl]
    rw [he]
    have hcr' : '\r' ∉ text ++ ['\n'] := by simp [hcr]
    have hu : splitFrontmatterLines (fmLines (text ++ ['\n'])) = .unclosed := by
      rw [fmLines_snoc text hcr hne hl]; exact h
    have h2 := FM_UNCLOSED (text ++ ['\n']) F hu (by simp)
      (by rw [UNCLOSED_COUNT _ hcr' hu]; decide)
    rw [h2]
    simp [ensureFinalNl, List.getLast?_append]

/-- the split of a text that, after CRLF → LF, is a delimited block written line by line followed by `body` -/
theorem split_block (text o c : Str) (mid : List Str) (body : Str)
    (ht : replaceCRLF text = unlines (o :: mid ++ [c]) ++ body)
    (ho : isDelim o = true) (hc : isDelim c = true)
    (hnl : ∀ l ∈ o :: mid ++ [c], '\n' ∉ l)
    (hmid : ∀ l ∈ mid, isDelim l = false) :
    splitFrontmatterLines (fmLines text)
      = .closed (o :: mid ++ [c]) (popEmptyLast (pySplitNl body)) := by
  rw [fmLines_eq_pop, ht, pySplitNl_unlines _ _ hnl,
    popEmptyLast_append _ _ (by unfold pySplitNl; exact splitNl_ne_nil body [])]
  unfold splitFrontmatterLines
  have hb : isBlank o = false := not_blank_of_delim ho
  simp only [List.cons_append, List.dropWhile_cons, hb, Bool.false_eq_true, if_false, ho, if_true]
  rw [List.append_assoc, List.singleton_append, findClose_append mid c _ [] hmid hc]
  simp

/-- FM_EXACT_STRING (the property's first sentence, at string level): if the document — after CRLF → LF,
the one rewriting the property allows — is a block `o⏎ mid… ⏎c⏎` whose first and last lines are `---`
lines and whose inner lines are not, followed by any `body`, then the frontmatter handed back is that
block **character for character** (every other character, including lone CR, U+2028, form feeds, trailing
spaces of the delimiter lines, is kept; nothing else is a line end), and the content is `body`, at most
shortened by its final newline. -/
theorem FM_EXACT_STRING (text o c : Str) (mid : List Str) (body : Str)
    (ht : replaceCRLF text = unlines (o :: mid ++ [c]) ++ body)
    (ho : isDelim o = true) (hc : isDelim c = true)
    (hnl : ∀ l ∈ o :: mid ++ [c], '\n' ∉ l)
    (hmid : ∀ l ∈ mid, isDelim l = false) :
    ∃ content, splitFrontmatter text = (unlines (o :: mid ++ [c]), content) ∧
      (content = body ∨ content ++ ['\n'] = body) := by
  refine ⟨joinWith ['\n'] (popEmptyLast (pySplitNl body)), ?_, join_popped body⟩
  unfold splitFrontmatter
  rw [split_block text o c mid body ht ho hc hnl hmid]
  simp only
  rw [List.cons_append, joinWith_unlines]

/-- a written-out block has at least two delimiter lines (so `fill_markdown`'s unclosed test does not fire) -/
theorem delimCount_block (o c : Str) (mid : List Str) (ho : isDelim o = true) (hc : isDelim c = true)
    (hnl : ∀ l ∈ o :: mid ++ [c], '\n' ∉ l) : 2 ≤ delimCount (unlines (o :: mid ++ [c])) := by
  unfold delimCount
  have := pySplitNl_unlines (o :: mid ++ [c]) [] hnl
  rw [List.append_nil] at this
  rw [this]
  simp only [List.cons_append, List.filter_cons, ho, if_true, List.filter_append, hc, List.length_cons,
    List.length_append]
  omega

/-- FM_INDEP (the property's equation `format(frontmatter + body) = frontmatter + format(body)`), for every
formatter `F` of the body that does not depend on one final newline (Marko's does not: the body is stripped
first — `fill_markdown` hands `F` the text before `strip`), and every body that does not itself open with a
`---` line (see known finding C07-body-starts-with-dashes for that case). -/
theorem FM_INDEP (text o c : Str) (mid : List Str) (body : Str) (F : Str → Str)
    (ht : replaceCRLF text = unlines (o :: mid ++ [c]) ++ body)
    (ho : isDelim o = true) (hc : isDelim c = true)
    (hnl : ∀ l ∈ o :: mid ++ [c], '\n' ∉ l)
    (hmid : ∀ l ∈ mid, isDelim l = false)
    (hF : ∀ s, F (s ++ ['\n']) = F s)
    (hb : splitFrontmatterLines (fmLines body) = .none) :
    fillShell F text = unlines (o :: mid ++ [c]) ++ fillShell F body := by
  obtain ⟨content, hs, hcont⟩ := FM_EXACT_STRING text o c mid body ht ho hc hnl hmid
  rw [(FM_NONE body hb F).2]
  have hne : (unlines (o :: mid ++ [c])).isEmpty = false := by simp [unlines]
  have hcnt := delimCount_block o c mid ho hc hnl
  unfold fillShell
  rw [hs]
  simp only [hne, Bool.false_eq_true, if_false]
  have h2 : ¬ (delimCount (unlines (o :: mid ++ [c])) < 2) := by omega
  simp only [h2, decide_false, Bool.and_false, Bool.false_eq_true, if_false]
  rcases hcont with rfl | rfl
  · rfl
  · rw [hF]

/-- non-vacuity of FM_EXACT_STRING / FM_INDEP: CRLF input, a lone CR, U+2028 and trailing blanks inside the block -/
example : ∃ content, splitFrontmatter "--- \r\na: 1\u2028b\rc\n---\nbody\n".toList
      = (unlines ["--- ".toList, "a: 1\u2028b\rc".toList, "---".toList], content) ∧
      (content = "body\n".toList ∨ content ++ ['\n'] = "body\n".toList) :=
  FM_EXACT_STRING _ "--- ".toList "---".toList ["a: 1\u2028b\rc".toList] "body\n".toList
    (by decide) (by decide) (by decide) (by decide) (by decide)

/-- non-vacuity and the repaired regression: `---\nfoo: bar\n` is a fixed point of the shell. -/
example : fillShell (fun _ => ['\n']) "---\nfoo: bar\n".toList = "---\nfoo: bar\n".toList := by decide
example : fillShell (fun _ => ['\n']) "---\nfoo: bar".toList = "---\nfoo: bar\n".toList := by decide

/-- a closed block: frontmatter reproduced, body handed to `F`. -/
example : fillShell (fun b => 'B' :: b) "\n---\na: 1\r\n---\nbody\n".toList
    = "---\na: 1\n---\nBbody".toList := by decide

/-- exotic separators are not line ends (the repaired regression of `str.splitlines`). -/
example : splitFrontmatter "---\na b\n---\nx\u001cy".toList
    = ("---\na b\n---\n".toList, "x\u001cy".toList) := by decide

end FM.C07
