import FM.Model.Config
import FM.Generated.Plumbing
import FM.Generated.Consts
/-
  C16 — Configuration precedence: explicit flag over config file over default.

  Table theorems are about the regenerated `FM/Generated/*.lean`; `merge`/`findConfig` are
  hand-written models tied by ops `merge` / `findconfig`.
-/
namespace FM.C16
open FM.Plumbing FM.Config FM.Gen

def tables : Tables :=
  { configFields := configFields, optionsFields := optionsFields, autoLocked := autoLocked }

/-- MERGE_PRECEDENCE: flag over config over default (and the `--auto` lock), for arbitrary values. -/
theorem MERGE_PRECEDENCE (t : Tables) (cli : String → Val) (cfg : String → Option Val)
    (explicit : List String) (isAuto : Bool) (f : String) :
    (f ∈ explicit → merge t cli cfg explicit isAuto f = cli f) ∧
    (cfg f = none → merge t cli cfg explicit isAuto f = cli f) ∧
    (isAuto = true → f ∈ t.autoLocked → merge t cli cfg explicit isAuto f = cli f) ∧
    (∀ v, cfg f = some v → f ∉ explicit → ¬ (isAuto = true ∧ f ∈ t.autoLocked) →
        f ∈ t.configFields → f ∈ t.optionsFields →
        merge t cli cfg explicit isAuto f = v) := by
  refine ⟨?_, ?_, ?_, ?_⟩
  · intro h; unfold merge; split
    · cases cfg f <;> simp [h]
    · rfl
  · intro h; unfold merge; split
    · simp [h]
    · rfl
  · intro h1 h2; unfold merge; split
    · cases cfg f with
      | none => rfl
      | some v => simp only; split; rfl; simp [h1, h2]
    · rfl
  · intro v h1 h2 h3 h4 h5; unfold merge
    simp only [h4, if_true, h1, h2, if_false, h3, h5]

/-- The Options field a config field is set through on the command line, if any
(via the regenerated `Options(...)` construction). -/
def cliDestOf (f : String) : Option String :=
  match optionsCtor.get f with
  | some (.var d) => some d
  | some (.notVar d) => some d
  | some (.ctor _ d) => some d
  | _ => none

/-- EXPLICIT_DETECTION: every setting that can be given both ways is tracked by the sentinel
parser: same flags as the real option, a sentinel default (so "passed with its default value"
still counts), and `_tracked_flags` maps its dest to the Options field. -/
theorem EXPLICIT_DETECTION :
    (configFields.all fun f =>
      match cliDestOf f with
      | none => true   -- config-only setting
      | some d =>
        trackedFlags.contains (d, f) &&
        sentinelOptions.any (fun s => s.dest == d &&
          (s.default == "_SENTINEL" || (appendDests.contains d && s.default == "None")) &&
          cliOptions.any (fun c => c.dest == d && c.flags == s.flags &&
            c.action == s.action && (c.type == s.type || c.type == "str")))) = true := by decide

/-- AUTO_LOCK: `--auto` fixes exactly the formatting switches; width and every file-discovery
setting still come from the config file. -/
theorem AUTO_LOCK :
    (configFields.filter autoLocked.contains).Perm ["semantic", "cleanups", "smartquotes", "ellipses"] ∧
    autoLocked.contains "width" = false ∧
    (["include", "extend_include", "exclude", "extend_exclude", "files_max_size",
      "respect_gitignore", "force_exclude", "list_spacing"].all fun f => !autoLocked.contains f) = true ∧
    (autoAssignments.map (·.1)).all (fun f => autoLocked.contains f) = true := by decide

/-- EVERY_KEY_EFFECTIVE: every key a config file accepts without warning is an attribute of
`Options` (so the merge can set it) and flows from there into `reformat_files(...)` or
`FileResolverConfig(...)`. -/
theorem EVERY_KEY_EFFECTIVE :
    (configFields.all fun f =>
      optionsFields.contains f &&
      (mainCall.any (fun p => p.2 == .var f) || resolverConfigCall.any (fun p => p.2 == .var f))) = true := by
  decide

/-- KEYS: the kebab-case table maps onto real fields and agrees with the generic `-`→`_` rule,
and the three config file names are searched in the documented order. -/
theorem KEYS :
    (kebabToSnake.all fun p => configFields.contains p.2 &&
      p.1.toList.map (fun c => if c == '-' then '_' else c) == p.2.toList) = true ∧
    configFilenames = [".flowmark.toml", "flowmark.toml", "pyproject.toml"] := by decide

/-- FIND_NEAREST: the nearest level that has a qualifying file wins, and inside it
`.flowmark.toml` > `flowmark.toml` > `pyproject.toml` with a [tool.flowmark] table. -/
theorem FIND_NEAREST : ∀ (ls : List Level) (i k : Nat) (w : Which),
    findConfig ls i = some (k, w) →
    ∃ j, k = i + j ∧ (∃ l, ls[j]? = some l ∧ levelPick l = some w) ∧
      ∀ j' < j, ∀ l', ls[j']? = some l' → levelPick l' = none := by
  intro ls
  induction ls with
  | nil => intro i k w h; simp [findConfig] at h
  | cons l rest ih =>
    intro i k w h
    unfold findConfig at h
    cases hp : levelPick l with
    | some w' =>
      simp [hp] at h
      obtain ⟨rfl, rfl⟩ := h
      exact ⟨0, rfl, ⟨l, rfl, hp⟩, fun j' hj' => absurd hj' (Nat.not_lt_zero _)⟩
    | none =>
      simp [hp] at h
      obtain ⟨j, hk, hl, hbefore⟩ := ih (i + 1) k w h
      refine ⟨j + 1, by omega, by simpa using hl, ?_⟩
      intro j' hj' l' hl'
      cases j' with
      | zero => simp at hl'; subst hl'; exact hp
      | succ n => exact hbefore n (by omega) l' (by simpa using hl')

theorem FIND_NONE : ∀ (ls : List Level) (i : Nat),
    findConfig ls i = none → ∀ l ∈ ls, levelPick l = none := by
  intro ls
  induction ls with
  | nil => intro i _ l hl; cases hl
  | cons a rest ih =>
    intro i h l hl
    unfold findConfig at h
    cases hp : levelPick a with
    | some w => simp [hp] at h
    | none =>
      simp [hp] at h
      rcases List.mem_cons.1 hl with rfl | hl
      · exact hp
      · exact ih (i + 1) h l hl

theorem PICK_ORDER (l : Level) :
    (l.dotFlowmark = true → levelPick l = some .dot) ∧
    (l.dotFlowmark = false → l.flowmark = true → levelPick l = some .plain) ∧
    (l.dotFlowmark = false → l.flowmark = false → l.pyproject = true → l.pyprojectHasSection = false →
      levelPick l = none) := by
  refine ⟨?_, ?_, ?_⟩ <;> intros <;> simp_all [levelPick]

/-- non-vacuity -/
example : findConfig [⟨false, false, true, false⟩, ⟨false, true, true, true⟩, ⟨true, false, false, false⟩] 0
    = some (1, .plain) := by decide

end FM.C16
