import FM.Lemmas.Plumbing
import FM.Generated.Plumbing
/-
  C15 — All entry points agree: CLI, file API and text API give the same bytes.

  The theorems are about `FM/Generated/Plumbing.lean`, which the translator regenerates from the
  `ast` of /repo's cli.py / reformat_api.py on every run: so they are re-checked against what the
  code says now.  The formatter itself is a parameter — C15 is about plumbing.
-/
namespace FM.C15
open FM.Plumbing FM.Gen

def formattingOptions : List String :=
  ["width", "plaintext", "semantic", "cleanups", "smartquotes", "ellipses", "list_spacing"]

/-- What must reach the text API for option `f`, in terms of the argparse namespace. -/
def expected (f : String) : PExpr :=
  if f == "list_spacing" then .ctor "ListSpacing" "list_spacing" else .var f

/-- argparse namespace → Options → reformat_files(...) → reformat_file(...) at one call site →
positional slots of reformat_text resolved against its parameter list. -/
def chainToText (site : Layer) : List Layer :=
  [optionsCtor, mainCall, site, bindCall reformatTextParams reformatTextPositional reformatTextKeywords]

/-- … → fill_markdown(...) keywords. -/
def chainToMarkdown (site : Layer) : List Layer :=
  chainToText site ++ [bindCall fillMarkdownParams fillMarkdownPositional fillMarkdownKeywords]

/-- PASS_THROUGH (syntactic, on the regenerated tables): at *both* call sites of `reformat_file`
in `reformat_files`, every formatting option reaches `reformat_text` as the identity dataflow of
the CLI value of the same option. A swapped positional argument, a dropped keyword or a crossed
field changes a generated table and this `decide` fails. -/
theorem PASS_THROUGH_text :
    reformatFileCalls.length = 2 ∧
    ∀ site ∈ reformatFileCalls, ∀ f ∈ formattingOptions,
      through (chainToText site) f = some (expected f) := by decide

/-- … and from there into `fill_markdown` for the Markdown options (plaintext selects the branch). -/
theorem PASS_THROUGH_markdown :
    reformatTextBranch = "plaintext" ∧
    ∀ site ∈ reformatFileCalls,
      ∀ f ∈ ["width", "semantic", "cleanups", "smartquotes", "ellipses", "list_spacing"],
        through (chainToMarkdown site) f = some (expected f) := by decide

/-- … and into `fill_text` for plaintext mode: the width. -/
theorem PASS_THROUGH_plaintext :
    ∀ site ∈ reformatFileCalls,
      through (chainToText site ++ [fillTextKeywords]) "width" = some (.var "width") := by decide

/-- PASS_THROUGH (semantic): for every valuation of the command-line namespace, the value that
reaches `reformat_text`'s parameter `f` is the CLI value of `f` (wrapped in `ListSpacing` for
list_spacing) — at both call sites. -/
theorem PASS_THROUGH (env : String → Val) :
    ∀ site ∈ reformatFileCalls, ∀ f ∈ formattingOptions,
      applyAll (chainToText site) env f = eval env (expected f) := by
  intro site hs f hf
  exact through_sound _ env f _ (PASS_THROUGH_text.2 site hs f hf)

/-- Every formatting option is a command-line option whose dest is the option's name. -/
theorem CLI_HAS_OPTIONS : ∀ f ∈ formattingOptions, (cliOptions.any (·.dest == f)) = true := by decide

/-- AUTO_EXPANSION: `--auto` sets exactly inplace, nobackup, semantic, cleanups, smartquotes,
ellipses to True and nothing else. -/
theorem AUTO_EXPANSION :
    (autoAssignments.all fun p => p.2 == "True") = true ∧
    (autoAssignments.map (·.1)).Perm
      ["inplace", "nobackup", "semantic", "cleanups", "smartquotes", "ellipses"] := by decide

/-- `Options` is constructed field by field from the argparse dest of the same name (the only
rewrites: ListSpacing(list_spacing), respect_gitignore = not no_respect_gitignore). -/
theorem OPTIONS_CTOR_COMPLETE :
    (optionsFields.all fun f => (optionsCtor.get f).isSome) = true ∧
    (optionsCtor.all fun p =>
      p.2 == .var p.1 || p.2 == .ctor "ListSpacing" p.1 ||
      (p.1 == "respect_gitignore" && p.2 == .notVar "no_respect_gitignore") ||
      -- config-only setting: no command-line flag, starts as None
      (p.1 == "include" && p.2 == .const "None")) = true := by decide

/-- non-vacuity: the semantic statement instantiated on a concrete valuation. -/
example : applyAll (chainToText (reformatFileCalls.getD 1 []))
    (fun k => if k == "semantic" then .b true else .s k) "semantic" = .b true := by decide

end FM.C15
