import FM.Lemmas.Plumbing
import FM.Lemmas.Route
import FM.Generated.Plumbing
/-
  C15 — All entry points agree: CLI, file API and text API give the same bytes.

  The theorems are about `FM/Generated/Plumbing.lean`, which the translator regenerates from the
  `ast` of /repo's cli.py / reformat_api.py on every run: so they are re-checked against what the
  code says now.  The formatter itself is a parameter — C15 is about plumbing.
-/
namespace FM.C15
open FM.Plumbing FM.Gen

def formattingOptions : List String :=
  ["width", "plaintext", "semantic", "cleanups", "smartquotes", "ellipses", "list_spacing"]

/-- What must reach the text API for option `f`, in terms of the argparse namespace. -/
def expected (f : String) : PExpr :=
  if f == "list_spacing" then .ctor "ListSpacing" "list_spacing" else .var f

/-- argparse namespace → Options → reformat_files(...) → reformat_file(...) at one call site →
positional slots of reformat_text resolved against its parameter list. -/
def chainToText (site : Layer) : List Layer :=
  [optionsCtor, mainCall, site, bindCall reformatTextParams reformatTextPositional reformatTextKeywords]

/-- … → fill_markdown(...) keywords. -/
def chainToMarkdown (site : Layer) : List Layer :=
  chainToText site ++ [bindCall fillMarkdownParams fillMarkdownPositional fillMarkdownKeywords]

/-- PASS_THROUGH (syntactic, on the regenerated tables): at *both* call sites of `reformat_file`
in `reformat_files`, every formatting option reaches `reformat_text` as the identity dataflow of
the CLI value of the same option. A swapped positional argument, a dropped keyword or a crossed
field changes a generated table and this `decide` fails. -/
theorem PASS_THROUGH_text :
    reformatFileCalls.length = 2 ∧
    ∀ site ∈ reformatFileCalls, ∀ f ∈ formattingOptions,
      through (chainToText site) f = some (expected f) := by decide

/-- … and from there into `fill_markdown` for the Markdown options (plaintext selects the branch). -/
theorem PASS_THROUGH_markdown :
    reformatTextBranch = "plaintext" ∧
    ∀ site ∈ reformatFileCalls,
      ∀ f ∈ ["width", "semantic", "cleanups", "smartquotes", "ellipses", "list_spacing"],
        through (chainToMarkdown site) f = some (expected f) := by decide

/-- … and into `fill_text` for plaintext mode: the width. -/
theorem PASS_THROUGH_plaintext :
    ∀ site ∈ reformatFileCalls,
      through (chainToText site ++ [fillTextKeywords]) "width" = some (.var "width") := by decide

/-- PASS_THROUGH (semantic): for every valuation of the command-line namespace, the value that
reaches `reformat_text`'s parameter `f` is the CLI value of `f` (wrapped in `ListSpacing` for
list_spacing) — at both call sites. -/
theorem PASS_THROUGH (env : String → Val) :
    ∀ site ∈ reformatFileCalls, ∀ f ∈ formattingOptions,
      applyAll (chainToText site) env f = eval env (expected f) := by
  intro site hs f hf
  exact through_sound _ env f _ (PASS_THROUGH_text.2 site hs f hf)

/-- Every formatting option is a command-line option whose dest is the option's name. -/
theorem CLI_HAS_OPTIONS : ∀ f ∈ formattingOptions, (cliOptions.any (·.dest == f)) = true := by decide

/-- AUTO_EXPANSION: `--auto` sets exactly inplace, nobackup, semantic, cleanups, smartquotes,
ellipses to True and nothing else. -/
theorem AUTO_EXPANSION :
    (autoAssignments.all fun p => p.2 == "True") = true ∧
    (autoAssignments.map (·.1)).Perm
      ["inplace", "nobackup", "semantic", "cleanups", "smartquotes", "ellipses"] := by decide

/-- `Options` is constructed field by field from the argparse dest of the same name (the only
rewrites: ListSpacing(list_spacing), respect_gitignore = not no_respect_gitignore). -/
theorem OPTIONS_CTOR_COMPLETE :
    (optionsFields.all fun f => (optionsCtor.get f).isSome) = true ∧
    (optionsCtor.all fun p =>
      p.2 == .var p.1 || p.2 == .ctor "ListSpacing" p.1 ||
      (p.1 == "respect_gitignore" && p.2 == .notVar "no_respect_gitignore") ||
      -- config-only setting: no command-line flag, starts as None
      (p.1 == "include" && p.2 == .const "None")) = true := by decide

/-- non-vacuity: the semantic statement instantiated on a concrete valuation. -/
example : applyAll (chainToText (reformatFileCalls.getD 1 []))
    (fun k => if k == "semantic" then .b true else .s k) "semantic" = .b true := by decide

/-! ### routing (model `FM/Model/Route.lean` of reformat_file / reformat_files, tied by op `route`) -/
section Routing
open FM.Route

/-- ROUTE_ERRORS ("usage errors … without writing anything"): a run is refused — as a whole, before any action: the
result type carries either the error or the actions, never both — exactly when `--inplace` meets stdin, or an
output path is given without `--inplace` for anything but the single stdin input. -/
theorem ROUTE_ERRORS (files : List Arg) (output : Out) (inplace nobackup : Bool) :
    (∃ e, reformatFiles files output inplace nobackup = .error e) ↔
      ((inplace = true ∧ Arg.stdin ∈ files) ∨
       (inplace = false ∧ (∃ o, output = .path o) ∧ files ≠ [.stdin])) := by
  unfold reformatFiles
  by_cases h1 : files = [.stdin]
  · subst h1
    cases inplace <;> cases output <;> simp [reformatFile, Except.map]
  · simp only [h1, if_false]
    cases inplace
    · cases output <;> simp [h1]
    · by_cases hs : Arg.stdin ∈ files <;> simp [hs]

/-- ROUTE_STDOUT_EACH_ALONE: without `--inplace`, the standard output of a run over several inputs is the
concatenation, in argument order, of what each input gives alone. -/
theorem ROUTE_STDOUT_EACH_ALONE (files : List Arg) (output : Out) (nobackup : Bool) (acts : List Action)
    (h : reformatFiles files output false nobackup = .ok acts) (hm : files ≠ [.stdin]) :
    acts = files.map .toStdout ∧
    ∀ f ∈ files, reformatFiles [f] .stdout false nobackup = .ok [.toStdout f] := by
  constructor
  · unfold reformatFiles at h
    simp only [hm, if_false, Bool.false_and, Bool.false_eq_true, Bool.not_false, Bool.true_and] at h
    split at h
    · cases h
    · simpa using h.symm
  · intro f _
    cases f <;> simp [reformatFiles, reformatFile, Except.map]

/-- ROUTE_INPLACE_OWN_TEXT ("each file gets exactly the result it would get alone"; "never mixed"): with
`--inplace` every action writes a file's own formatted text over that same file, with a backup unless
`--nobackup`; every file argument is written; none twice. -/
theorem ROUTE_INPLACE_OWN_TEXT (files : List Arg) (output : Out) (nobackup : Bool) (acts : List Action)
    (h : reformatFiles files output true nobackup = .ok acts) :
    (∀ a ∈ acts, ∃ id, a = .toFile (.file id) id (!nobackup) ∧ Arg.file id ∈ files) ∧
    (∀ id, Arg.file id ∈ files → Action.toFile (.file id) id (!nobackup) ∈ acts) ∧
    (acts.filterMap Action.target?).Nodup := by
  unfold reformatFiles at h
  by_cases h1 : files = [.stdin]
  · subst h1; simp [reformatFile, Except.map] at h
  · simp only [h1, if_false, Bool.true_and] at h
    split at h
    · cases h
    · simp only [Bool.not_true, Bool.false_and, Bool.false_eq_true, if_false, if_true] at h
      have : acts = inplaceLoop nobackup files [] := by cases h; rfl
      subst this
      refine ⟨?_, ?_, inplaceLoop_nodup nobackup files []⟩
      · intro a ha
        obtain ⟨id, h1, h2, _⟩ := inplaceLoop_shape nobackup files [] a ha
        exact ⟨id, h1, h2⟩
      · intro id hid
        exact inplaceLoop_complete nobackup files [] id hid (by simp)

/-- ROUTE_STDIN_TO_OUTPUT: the single stdin input goes to the output path when one is given (no backup), else to
standard output; `--inplace` is refused. -/
theorem ROUTE_STDIN_TO_OUTPUT (output : Out) (nobackup : Bool) :
    reformatFiles [.stdin] output false nobackup =
      .ok [match output with | .path o => .toFile .stdin o false | _ => .toStdout .stdin] ∧
    reformatFiles [.stdin] output true nobackup = .error .inplaceStdin := by
  cases output <;> simp [reformatFiles, reformatFile, Except.map]

/-- non-vacuity: `a.md ./a.md b.md` in place with backups — two actions, `a.md` once. -/
example : reformatFiles [.file 0, .file 0, .file 1] .none true false
    = .ok [.toFile (.file 0) 0 true, .toFile (.file 1) 1 true] := by rfl
example : reformatFiles [.file 0, .stdin] .none true false = .error .inplaceStdin := by rfl
example : reformatFiles [.file 0] (.path 5) false false = .error .outputMulti := by rfl

end Routing

end FM.C15
