import FM.Model.Isolation
import FM.Generated.State
/-
  C13 — Each formatting call is isolated from other calls.

  ISO: in a process whose shared state keeps an invariant that every step preserves, and whose steps
  compute the same new local state whatever invariant-satisfying shared state they see (shared cells
  are constants, or caches of pure functions), every thread ends, under every schedule — every
  interleaving and every history of earlier calls — with exactly the local state (hence the result)
  it reaches when it runs alone.
  INVENTORY_CLEAN: the inventory of shared cells that the translator regenerates from
  /repo/src/flowmark on every run holds no cell of kind `mutable`, and the per-call construction
  facts hold.  What ties the two is the reading of the kinds (a constant is never written; a cached
  function returns what it would compute): Python's semantics, part of the trusted base.
-/
namespace FM.C13
open FM.Iso FM.Gen

variable {S L : Type}

/-- the result of running alone does not depend on which invariant-satisfying shared state it starts from -/
theorem solo_indep (sys : Sys S L)
    (hinv : ∀ s l, sys.Inv s → sys.Inv (sys.step s l).1)
    (hloc : ∀ s s' l, sys.Inv s → sys.Inv s' → (sys.step s l).2 = (sys.step s' l).2) :
    ∀ (k : Nat) (s s' : S) (l : L), sys.Inv s → sys.Inv s' → solo sys s l k = solo sys s' l k
  | 0, _, _, _, _, _ => rfl
  | k + 1, s, s', l, h, h' => by
    simp only [solo]
    rw [hloc s s' l h h']
    exact solo_indep sys hinv hloc k _ _ _ (hinv s l h) (hinv s' l h')

/-- ISO -/
theorem ISO (sys : Sys S L)
    (hinv : ∀ s l, sys.Inv s → sys.Inv (sys.step s l).1)
    (hloc : ∀ s s' l, sys.Inv s → sys.Inv s' → (sys.step s l).2 = (sys.step s' l).2) :
    ∀ (sched : List Nat) (s s0 : S) (ls : Nat → L) (i : Nat), sys.Inv s → sys.Inv s0 →
      (run sys s ls sched).2 i = solo sys s0 (ls i) (sched.count i)
  | [], _, _, _, _, _, _ => by simp [run, solo]
  | j :: sched, s, s0, ls, i, h, h0 => by
    simp only [run]
    have ih := ISO sys hinv hloc sched (sys.step s (ls j)).1 (sys.step s0 (ls i)).1
      (upd ls j (sys.step s (ls j)).2) i (hinv _ _ h) (hinv _ _ h0)
    by_cases hij : j = i
    · subst hij
      rw [ih]
      simp only [upd, if_true, List.count_cons_self, solo]
      rw [hloc s0 s (ls j) h0 h]
    · rw [ISO sys hinv hloc sched (sys.step s (ls j)).1 s0 (upd ls j (sys.step s (ls j)).2) i (hinv _ _ h) h0]
      have hne : i ≠ j := fun e => hij e.symm
      simp [upd, hne, hij]

/-- the shared state itself satisfies the invariant at every point of every schedule -/
theorem INV_ALWAYS (sys : Sys S L) (hinv : ∀ s l, sys.Inv s → sys.Inv (sys.step s l).1) :
    ∀ (sched : List Nat) (s : S) (ls : Nat → L), sys.Inv s → sys.Inv (run sys s ls sched).1
  | [], _, _, h => h
  | j :: sched, s, ls, h => by
    simp only [run]
    exact INV_ALWAYS sys hinv sched _ _ (hinv _ _ h)

/-- INVENTORY_CLEAN: no shared cell of the package is mutable state (regenerated table). -/
theorem INVENTORY_CLEAN : ∀ c ∈ stateCells, c.2.2 ≠ CellKind.mutable := by
  have h : (stateCells.all fun c => decide (c.2.2 ≠ CellKind.mutable)) = true := by decide +kernel
  intro c hc
  have := List.all_eq_true.mp h c hc
  simpa using this

/-- CALL_PATH_FRESH: the parser, the renderer and the Markdown object are built inside each call. -/
theorem CALL_PATH_FRESH : ∀ f ∈ callPathFacts, f.2 = true := by decide

/-! ### non-vacuity: a process with a constant and a cache of a pure function meets ISO's hypotheses -/

/-- shared: a constant and a memo table for `f n = 2 * n + const` -/
structure Shared where
  const : Nat
  memo : Nat → Option Nat

/-- local: the argument, and the result once computed -/
structure Local where
  arg : Nat
  result : Option Nat

def exSys : Sys Shared Local where
  step s l :=
    match s.memo l.arg with
    | some v => (s, { l with result := some v })
    | none =>
      let v := 2 * l.arg + 7
      ({ s with memo := fun k => if k = l.arg then some v else s.memo k }, { l with result := some v })
  Inv s := s.const = 7 ∧ ∀ k v, s.memo k = some v → v = 2 * k + 7

theorem exSys_inv : ∀ s l, exSys.Inv s → exSys.Inv (exSys.step s l).1 := by
  intro s l h
  simp only [exSys]
  split
  · exact h
  · refine ⟨h.1, ?_⟩
    intro k v hk
    by_cases hka : k = l.arg
    · simp [hka] at hk; omega
    · simp [hka] at hk; exact h.2 k v hk

theorem exSys_loc : ∀ s s' l, exSys.Inv s → exSys.Inv s' → (exSys.step s l).2 = (exSys.step s' l).2 := by
  intro s s' l h h'
  simp only [exSys]
  cases hm : s.memo l.arg <;> cases hm' : s'.memo l.arg <;> simp
  · exact (h'.2 _ _ hm').symm
  · exact h.2 _ _ hm
  · rw [h.2 _ _ hm, h'.2 _ _ hm']

/-- every thread of the example process computes its own result under every schedule -/
example (sched : List Nat) (s : Shared) (ls : Nat → Local) (i : Nat) (h : exSys.Inv s) :
    (run exSys s ls sched).2 i = solo exSys s (ls i) (sched.count i) :=
  ISO exSys exSys_inv exSys_loc sched s s ls i h h

end FM.C13
