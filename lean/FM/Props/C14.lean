import FM.Lemmas.FsMachine
import FM.Lemmas.Route
/-
  C14 — In-place formatting never leaves a damaged or half-written file.

  Every crash point and every failing operation of a run leaves the file system in the state reached
  by a PREFIX of the run's operation list; the theorems quantify over all prefixes, all ways the
  operating system may split the write, all initial file systems.
-/
namespace FM.C14
open FM.Fs

/-- the acceptable states of a target: the complete old content; the complete new content (with the
old one in the backup file if backups are on); or — with backups on, between the two renames — no
file at the target and the complete old content in the backup file. -/
def Whole (s : State) (j : Job) : Prop :=
  s j.target = some j.old ∨
  (s j.target = some j.new ∧ (j.backup = true → s j.orig = some j.old)) ∨
  (j.backup = true ∧ s j.target = none ∧ s j.orig = some j.old)

/-- TARGET_WHOLE: whatever prefix of a file's operations has been carried out — the process may
have died, or an operation may have failed, at any point, in the middle of the write included — the
target is whole. -/
theorem TARGET_WHOLE (j : Job) (s : State) (k : Nat)
    (hd1 : j.target ≠ j.tmp) (hd2 : j.target ≠ j.orig) (hd3 : j.tmp ≠ j.orig)
    (hold : s j.target = some j.old) :
    Whole (exec s (j.ops.take k)) j := by
  unfold Job.ops
  by_cases hk : k ≤ j.writeOps.length
  · -- still writing the temporary file: the target has not been named yet
    rw [take_prefix_of_le _ _ _ hk]
    left
    rw [exec_frame j.target _ s]
    · exact hold
    · intro op hop
      rw [writeOps_paths j op (List.mem_of_mem_take hop)]
      simpa using hd1
  · have hk' : j.writeOps.length ≤ k := by omega
    rw [take_of_gt _ _ _ hk', exec_append]
    generalize hm : k - j.writeOps.length = m
    -- the state after phase 1
    have htmp := exec_writeOps_tmp j s
    have htgt : exec s j.writeOps j.target = some j.old := by
      rw [exec_frame j.target _ s]; exact hold
      intro op hop; rw [writeOps_paths j op hop]; simpa using hd1
    have horig : exec s j.writeOps j.orig = s j.orig := by
      apply exec_frame
      intro op hop; rw [writeOps_paths j op hop]; simpa using hd3.symm
    generalize exec s j.writeOps = s1 at htmp htgt horig
    unfold Job.moveOps
    cases hb : j.backup
    · -- no backup: one rename
      simp only [Bool.false_eq_true, if_false, List.nil_append]
      match m with
      | 0 => left; simpa [exec] using htgt
      | m + 1 =>
        right; left
        simp [exec, apply, htmp, hb]
    · simp only [if_true, List.singleton_append]
      match m with
      | 0 => left; simpa [exec] using htgt
      | 1 =>
        right; right
        simp [exec, apply, htgt, hd2, hb]
      | m + 2 =>
        right; left
        simp [exec, apply, htmp, htgt, hd1.symm, hd2.symm, hd3, hd3.symm, hb]

/-- COMPLETE: a run that is not interrupted ends with the new content in place. -/
theorem COMPLETE (j : Job) (s : State)
    (hd1 : j.target ≠ j.tmp) (hd2 : j.target ≠ j.orig) (hd3 : j.tmp ≠ j.orig)
    (hold : s j.target = some j.old) :
    exec s j.ops j.target = some j.new ∧ (j.backup = true → exec s j.ops j.orig = some j.old) := by
  have h := TARGET_WHOLE j s (j.ops.length + 2) hd1 hd2 hd3 hold
  rw [List.take_of_length_le (by omega)] at h
  -- the last operation puts the temporary file at the target
  have hlast : exec s j.ops j.target = some j.new := by
    unfold Job.ops Job.moveOps
    rw [exec_append, exec_append]
    have htmp := exec_writeOps_tmp j s
    generalize exec s j.writeOps = s1 at htmp
    cases hb : j.backup <;> simp [exec, apply, htmp, hd1.symm, hd3]
  refine ⟨hlast, ?_⟩
  intro hb
  rcases h with h | ⟨_, h⟩ | ⟨_, h, _⟩
  · -- target = old and target = new: then old = new and the backup still holds it
    unfold Job.ops Job.moveOps
    rw [exec_append]
    have htgt : exec s j.writeOps j.target = some j.old := by
      rw [exec_frame j.target _ s]; exact hold
      intro op hop; rw [writeOps_paths j op hop]; simpa using hd1
    generalize exec s j.writeOps = s1 at htgt
    simp [hb, exec, apply, htgt, hd2.symm, hd3.symm, hd3]
  · exact h hb
  · rw [hlast] at h; cases h

/-- INPUT_UNTOUCHED: a path that is neither the target, nor its temporary sibling, nor the backup
name is never changed by the run — in particular the input file when writing to another output. -/
theorem INPUT_UNTOUCHED (j : Job) (s : State) (k : Nat) (input : Path)
    (h1 : input ≠ j.target) (h2 : input ≠ j.tmp) (h3 : input ≠ j.orig) :
    exec s (j.ops.take k) input = s input := by
  apply exec_frame
  intro op hop
  have hop' := List.mem_of_mem_take hop
  simp only [Job.ops, Job.moveOps, Job.writeOps, List.mem_append, List.mem_cons, List.mem_map] at hop'
  rcases hop' with (rfl | ⟨c, _, rfl⟩) | hop'
  · simpa [Op.paths] using h2
  · simpa [Op.paths] using h2
  · cases hb : j.backup <;> simp [hb] at hop'
    · subst hop'; simp [Op.paths, h1, h2]
    · rcases hop' with rfl | rfl <;> simp [Op.paths, h1, h2, h3]

/-- FAIL_NOTHING: when reading, decoding or formatting fails no operation is issued at all. -/
theorem FAIL_NOTHING (s : State) (k : Nat) : exec s (failedOps.take k) = s := by
  simp [failedOps, exec]

/-- MULTI: in a run over several files stopped anywhere, every file is whole — fully formatted, or
untouched, or in one of the backup states — never a mixture, provided no two files share a path
(targets, temporary names and backup names are pairwise distinct). -/
theorem MULTI : ∀ (jobs : List Job) (s : State) (k : Nat),
    (jobs.flatMap Job.paths).Nodup → (∀ j ∈ jobs, s j.target = some j.old) →
    ∀ j ∈ jobs, Whole (exec s ((runOps jobs).take k)) j
  | [], _, _, _, _, j, hj => by simp at hj
  | j0 :: rest, s, k, hnd, hold, j, hj => by
    have hnd' : (j0.paths ++ rest.flatMap Job.paths).Nodup := by simpa [List.flatMap_cons] using hnd
    rw [List.nodup_append] at hnd'
    obtain ⟨hnd0, hndr, hdisj⟩ := hnd'
    have hd : j0.target ≠ j0.tmp ∧ j0.target ≠ j0.orig ∧ j0.tmp ≠ j0.orig := by
      simp [Job.paths] at hnd0; exact ⟨hnd0.1.1, hnd0.1.2, hnd0.2⟩
    have hother : ∀ j' ∈ rest, ∀ q ∈ j'.paths, q ∉ j0.paths := by
      intro j' hj' q hq hq0
      exact hdisj q hq0 q (List.mem_flatMap.2 ⟨j', hj', hq⟩) rfl
    simp only [runOps, List.flatMap_cons]
    by_cases hk : k ≤ j0.ops.length
    · rw [take_prefix_of_le _ _ _ hk]
      rcases List.mem_cons.1 hj with rfl | hjr
      · exact TARGET_WHOLE j s k hd.1 hd.2.1 hd.2.2 (hold j (by simp))
      · -- a later file: untouched so far
        left
        rw [exec_frame j.target _ s]
        · exact hold j (by simp [hjr])
        · intro op hop hq
          exact hother j hjr j.target (by simp [Job.paths]) (ops_paths j0 op (List.mem_of_mem_take hop) _ hq)
    · have hk' : j0.ops.length ≤ k := by omega
      rw [take_of_gt _ _ _ hk', exec_append]
      rcases List.mem_cons.1 hj with rfl | hjr
      · -- the first file is done; the others do not name its paths
        have hdone := COMPLETE j s hd.1 hd.2.1 hd.2.2 (hold j (by simp))
        have hfr : ∀ q ∈ j.paths, exec (exec s j.ops) ((rest.flatMap Job.ops).take (k - j.ops.length)) q = exec s j.ops q := by
          intro q hq
          apply exec_frame
          intro op hop hqo
          have hop' := List.mem_of_mem_take hop
          obtain ⟨j', hj', hop''⟩ := List.mem_flatMap.1 hop'
          exact hother j' hj' q (ops_paths j' op hop'' q hqo) hq
        right; left
        rw [hfr j.target (by simp [Job.paths]), hfr j.orig (by simp [Job.paths])]
        exact hdone
      · have := MULTI rest (exec s j0.ops) (k - j0.ops.length) hndr
          (fun j' hj' => by
            rw [exec_frame j'.target _ s]
            · exact hold j' (by simp [hj'])
            · intro op hop hq
              exact hother j' hj' j'.target (by simp [Job.paths]) (ops_paths j0 op hop _ hq))
          j hjr
        simpa [runOps] using this

/-- MULTI's distinctness hypothesis is necessary (known finding C14-backup-name-is-another-argument):
when the backup name of the first file IS the second file, the second file's original content is gone
after the first file has been processed — it is neither its old nor its new content, nor recoverable. -/
theorem MULTI_false :
    let j1 : Job := { target := 0, tmp := 1, orig := 2, backup := true, old := [1], chunks := [[7]] }
    let j2 : Job := { target := 2, tmp := 3, orig := 4, backup := true, old := [5], chunks := [[8]] }
    let s0 : State := fun p => if p = 0 then some [1] else if p = 2 then some [5] else none
    let s := exec s0 ((runOps [j1, j2]).take j1.ops.length)
    s j2.target ≠ some j2.old ∧ s j2.target ≠ some j2.new ∧ s j2.orig ≠ some j2.old := by
  decide

/-- non-vacuity: a backup run, the write split in two, stopped between the two renames -/
example : Whole (exec (fun p => if p = 1 then some [9, 9] else none)
    ((Job.ops { target := 1, tmp := 2, orig := 3, backup := true, old := [9, 9], chunks := [[7], [8]] }).take 4))
    { target := 1, tmp := 2, orig := 3, backup := true, old := [9, 9], chunks := [[7], [8]] } := by
  right; right; decide

/-! ### which files a run may write at all (model `FM/Model/Route.lean`, tied by op `route`) -/
section Routing
open FM.Route

/-- ROUTE_INPUT_UNTOUCHED ("the input file is never touched unless --inplace is given"): without `--inplace`
the only file a run writes is the output path. -/
theorem ROUTE_INPUT_UNTOUCHED (files : List Arg) (output : Out) (nobackup : Bool) (acts : List Action)
    (h : reformatFiles files output false nobackup = .ok acts) :
    ∀ a ∈ acts, ∀ t, a.target? = some t → output = .path t := by
  unfold reformatFiles at h
  by_cases h1 : files = [.stdin]
  · subst h1
    cases output <;> simp [reformatFile, Except.map] at h <;> subst h <;> simp [Action.target?]
  · simp only [h1, if_false, Bool.false_and, Bool.false_eq_true, Bool.not_false, Bool.true_and] at h
    split at h
    · cases h
    · have : acts = files.map .toStdout := by simpa using h.symm
      subst this
      intro a ha t ht
      obtain ⟨f, _, rfl⟩ := List.mem_map.1 ha
      simp [Action.target?] at ht

/-- ROUTE_TARGETS_DISTINCT: an in-place run writes no target twice, however the arguments repeat a file — so the
jobs of `MULTI` have pairwise distinct targets (its hypothesis on the *backup* names remains: known finding
C14-backup-name-is-another-argument). -/
theorem ROUTE_TARGETS_DISTINCT (files : List Arg) (output : Out) (nobackup : Bool) (acts : List Action)
    (h : reformatFiles files output true nobackup = .ok acts) :
    (acts.filterMap Action.target?).Nodup := by
  unfold reformatFiles at h
  by_cases h1 : files = [.stdin]
  · subst h1; simp [reformatFile, Except.map] at h
  · simp only [h1, if_false, Bool.true_and] at h
    split at h
    · cases h
    · simp only [Bool.not_true, Bool.false_and, Bool.false_eq_true, if_false, if_true] at h
      cases h
      exact inplaceLoop_nodup nobackup files []

/-- the file-system jobs of the actions of a run: the file with identity `t` lives at path `3t`, its temporary sibling at
`3t+1`, its backup at `3t+2` (names derived from the target's name, distinct for distinct files — the case where a backup name
IS another argument is the recorded finding) -/
def jobsOf (old : Nat → Content) (new : Nat → List Content) (acts : List Action) : List Job :=
  acts.filterMap fun a => match a with
    | .toFile _ t b => some { target := 3 * t, tmp := 3 * t + 1, orig := 3 * t + 2, backup := b, old := old t, chunks := new t }
    | .toStdout _ => none

theorem div3 (t : Nat) : (3 * t) / 3 = t ∧ (3 * t + 1) / 3 = t ∧ (3 * t + 2) / 3 = t := by omega

theorem paths_nodup_of_targets : ∀ (old : Nat → Content) (new : Nat → List Content) (acts : List Action),
    (acts.filterMap Action.target?).Nodup → ((jobsOf old new acts).flatMap Job.paths).Nodup ∧
      ∀ q ∈ (jobsOf old new acts).flatMap Job.paths, ∃ t ∈ acts.filterMap Action.target?, q / 3 = t
  | _, _, [], _ => by simp [jobsOf]
  | old, new, .toStdout _ :: rest, h => by
    have h' : (rest.filterMap Action.target?).Nodup := by
      simpa [List.filterMap_cons, Action.target?] using h
    have := paths_nodup_of_targets old new rest h'
    simpa [jobsOf, List.filterMap_cons, Action.target?] using this
  | old, new, .toFile src t b :: rest, h => by
    simp only [List.filterMap_cons, Action.target?, List.nodup_cons] at h
    obtain ⟨ih1, ih2⟩ := paths_nodup_of_targets old new rest h.2
    have hj : jobsOf old new (.toFile src t b :: rest)
        = { target := 3 * t, tmp := 3 * t + 1, orig := 3 * t + 2, backup := b, old := old t, chunks := new t } :: jobsOf old new rest := by
      simp [jobsOf]
    rw [hj]
    simp only [List.flatMap_cons, Job.paths, List.filterMap_cons, Action.target?]
    constructor
    · rw [List.nodup_append]
      refine ⟨by simp, ih1, ?_⟩
      intro a ha b' hb hab
      obtain ⟨t', ht', hq⟩ := ih2 b' hb
      subst hab
      have : a / 3 = t := by
        simp only [List.mem_cons, List.not_mem_nil, or_false] at ha
        rcases ha with rfl | rfl | rfl
        · exact (div3 t).1
        · exact (div3 t).2.1
        · exact (div3 t).2.2
      rw [this] at hq
      exact h.1 (hq ▸ ht')
    · intro q hq
      rcases List.mem_append.1 hq with hq | hq
      · refine ⟨t, List.mem_cons_self, ?_⟩
        simp only [List.mem_cons, List.not_mem_nil, or_false] at hq
        rcases hq with rfl | rfl | rfl
        · exact (div3 t).1
        · exact (div3 t).2.1
        · exact (div3 t).2.2
      · obtain ⟨t', ht', h3⟩ := ih2 q hq
        exact ⟨t', List.mem_cons_of_mem _ ht', h3⟩

/-- ROUTE_MULTI (the two models composed): however the arguments of an in-place run repeat files, a run stopped after any
number of file-system operations — a crash, a failing operation, the write split arbitrarily — leaves every file it was
going to write whole. -/
theorem ROUTE_MULTI (files : List Arg) (output : Out) (nobackup : Bool) (acts : List Action)
    (old : Nat → Content) (new : Nat → List Content) (s : State) (k : Nat)
    (h : reformatFiles files output true nobackup = .ok acts)
    (hs : ∀ t, s (3 * t) = some (old t)) :
    ∀ j ∈ jobsOf old new acts, Whole (exec s ((runOps (jobsOf old new acts)).take k)) j := by
  have hnd := (paths_nodup_of_targets old new acts (ROUTE_TARGETS_DISTINCT files output nobackup acts h)).1
  refine MULTI (jobsOf old new acts) s k hnd ?_
  intro j hj
  obtain ⟨a, _, ha⟩ := List.mem_filterMap.1 hj
  cases a with
  | toStdout _ => simp at ha
  | toFile src t b =>
    simp only [Option.some.injEq] at ha
    subst ha
    exact hs t

/-- the repaired regression: a file named twice is one job, not two (the second would move the formatted file
over the backup of the original). -/
example : reformatFiles [.file 0, .file 0] .none true false = .ok [.toFile (.file 0) 0 true] := by rfl

end Routing

end FM.C14
