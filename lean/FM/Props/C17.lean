import FM.Lemmas.Resolver
/-
  C17 — File discovery returns exactly the wanted files, deterministically.

  Theorems about the resolver model (FM/Model/Resolver.lean), for every tree, every answer the
  pattern matchers may give (they are parameters), every setting and every argument list.
-/
namespace FM.C17
open FM.Res

/-- EXACT (soundness and completeness of directory traversal): a path is listed iff it is a file of
the tree that matches an include pattern, is not a link, is within the size limit, is not ignored,
and every directory on the way down to it is a real (non-link) directory that is not excluded or
ignored — `Kept` says exactly that, by membership in the children lists only. -/
theorem EXACT (env : Env) (parent : RelPath) (cs : List Node) (p : RelPath) :
    p ∈ walkNodes env parent cs ↔ Kept env parent cs p := mem_walkNodes_iff env parent cs p

/-- SOUND, spelled out: whatever is listed is `dir ++ [name]` for a directory path `dir` at or
below the start, and the file passes the include pattern, is no link, is within the size limit and
is neither gitignored (when that is on) nor matched by the tool's ignore file. -/
theorem SOUND (env : Env) (parent : RelPath) (cs : List Node) (p : RelPath) (h : p ∈ walkNodes env parent cs) :
    ∃ (mid : RelPath) (name : Name) (size : Nat),
      p = parent ++ mid ++ [name] ∧ env.incl name = true ∧ tooBig env size = false ∧
      (env.respectGi = true → lastVerdict (gitChain env (parent ++ mid)) (parent ++ mid ++ [name]) false = false) ∧
      toolMatches env (posix (parent ++ mid ++ [name])) = false := by
  rw [EXACT] at h
  induction h with
  | @file parent cs name size link _ hok =>
    refine ⟨[], name, size, by simp, ?_⟩
    simp [fileOk] at hok
    obtain ⟨⟨⟨⟨h1, _⟩, h3⟩, h4⟩, h5⟩ := hok
    refine ⟨h1, h3, ?_, by simpa using h5⟩
    intro hr
    rcases h4 with h4 | h4
    · rw [hr] at h4; cases h4
    · simpa using h4
  | @dir parent cs name kids p _ _ _ ih =>
    obtain ⟨mid, nm, size, hp, rest⟩ := ih
    refine ⟨name :: mid, nm, size, by simp [hp], ?_⟩
    simpa using rest

/-- NO_LINKS: nothing below a linked directory is listed, and no linked file is listed. -/
theorem NO_LINKS (env : Env) (parent : RelPath) (name : Name) (kids : List Node) (size : Nat) :
    walkNode env parent (.dir name true kids) = [] ∧ walkNode env parent (.file name size true) = [] := by
  simp [walkNode, fileOk]

/-- PRUNED: nothing below an excluded or ignored directory is listed. -/
theorem PRUNED (env : Env) (parent : RelPath) (name : Name) (link : Bool) (kids : List Node)
    (h : dirExcluded env parent name = true) : walkNode env parent (.dir name link kids) = [] := by
  simp [walkNode, h]

/-- LISTING_ORDER: the result of a traversal depends only on which entries a directory has, not
on the order in which the file system lists them. -/
theorem LISTING_ORDER (env : Env) (parent : RelPath) (cs cs' : List Node) (h : ∀ n, n ∈ cs ↔ n ∈ cs')
    (p : RelPath) : p ∈ walkNodes env parent cs ↔ p ∈ walkNodes env parent cs' := by
  rw [EXACT, EXACT]
  exact ⟨fun k => k.mono fun n hn => (h n).1 hn, fun k => k.mono fun n hn => (h n).2 hn⟩

/-- EXPLICIT: a file named on the command line bypasses every rule except the size limit, and with
`force_exclude` the exclusion patterns (on its name and on the directory parts it was given with). -/
theorem EXPLICIT (excl : List Nat → Bool) (force : Bool) (maxSize : Nat) (parts : List Name) (name : Name)
    (size : Nat) (resolved : RelPath) :
    resolveArg excl force maxSize (.file parts name size resolved) =
      if (force = true ∧ (excl name = true ∨ ∃ p ∈ parts, excl (p ++ [47]) = true)) ∨ (maxSize ≠ 0 ∧ size > maxSize)
      then [] else [resolved] := by
  simp only [resolveArg, explicitOk]
  by_cases h1 : force = true <;> by_cases h2 : excl name = true <;>
    by_cases h3 : (parts.any fun p => excl (p ++ [47])) = true <;>
    by_cases h4 : maxSize = 0 <;> by_cases h5 : size > maxSize <;>
    simp_all [List.any_eq_true]

/-- GLOB_FILTERED: a file found by glob expansion is listed only if it passes the include pattern,
the size limit, and the same directory and ignore filters as traversal. -/
theorem GLOB_FILTERED (excl : List Nat → Bool) (force : Bool) (maxSize : Nat) (root : RelPath) (env : Env)
    (cands : List (Cand × RelPath)) (p : RelPath) (h : p ∈ resolveArg excl force maxSize (.glob root env cands)) :
    ∃ c ∈ cands, c.2 = p ∧ env.incl (c.1.rel.getLast?.getD []) = true ∧ tooBig env c.1.size = false ∧
      filteredBelow env c.1.rel = false := by
  simp only [resolveArg, List.mem_map, List.mem_filter] at h
  obtain ⟨c, ⟨hc, hok⟩, rfl⟩ := h
  simp [globOk] at hok
  exact ⟨c, hc, rfl, hok.1.1, hok.1.2, hok.2⟩

/-- MEMBERS: the result holds exactly the files the arguments yield. -/
theorem MEMBERS (excl : List Nat → Bool) (force : Bool) (maxSize : Nat) (args : List Arg) (p : RelPath) :
    p ∈ resolveAll excl force maxSize args ↔ ∃ a ∈ args, p ∈ resolveArg excl force maxSize a := by
  unfold resolveAll
  rw [(foldl_insertP_spec _ [] (by simp [Sorted])).2 p]
  simp [List.mem_flatMap]

/-- SORTED_NODUP: the result is strictly increasing in the path order (hence duplicate-free). -/
theorem SORTED (excl : List Nat → Bool) (force : Bool) (maxSize : Nat) (args : List Arg) :
    Sorted (resolveAll excl force maxSize args) :=
  (foldl_insertP_spec _ [] (by simp [Sorted])).1

theorem NODUP (excl : List Nat → Bool) (force : Bool) (maxSize : Nat) (args : List Arg) :
    (resolveAll excl force maxSize args).Nodup := by
  have h := SORTED excl force maxSize args
  unfold Sorted at h
  exact h.imp (fun {a b} hlt heq => by subst heq; rw [ltPath_irrefl] at hlt; cases hlt)

/-- ARG_ORDER: the result does not depend on the order of the arguments (nor on repeating one). -/
theorem ARG_ORDER (excl : List Nat → Bool) (force : Bool) (maxSize : Nat) (args args' : List Arg)
    (h : ∀ a, a ∈ args ↔ a ∈ args') :
    resolveAll excl force maxSize args = resolveAll excl force maxSize args' := by
  apply sorted_ext _ _ (SORTED ..) (SORTED ..)
  intro q
  rw [MEMBERS, MEMBERS]
  constructor
  · rintro ⟨a, ha, hq⟩; exact ⟨a, (h a).1 ha, hq⟩
  · rintro ⟨a, ha, hq⟩; exact ⟨a, (h a).2 ha, hq⟩

/-- non-vacuity: a small tree with an excluded directory, a linked file and an oversized file -/
def exEnv : Env :=
  { incl := fun n => n.getLast? == some 100,           -- names ending in 'd' (…".md")
    excl := fun s => s == [98, 47],                     -- "b/"
    tool := none, gi := fun _ => none, respectGi := true, maxSize := 10 }

example : walkNodes exEnv [] [.file [97, 100] 3 false, .file [99, 100] 30 false, .file [101, 100] 1 true,
    .dir [98] false [.file [120, 100] 1 false], .dir [122] false [.file [121, 100] 1 false]]
    = [[[97, 100]], [[122], [121, 100]]] := by decide

end FM.C17
