import FM.Generated.Patterns
import FM.Model.PatternBaseline
import FM.Lemmas.Ellipses
/-
  C09 — Ellipsis conversion touches only three-dot runs in prose.

  Theorems about the text-level model `ellipses` (tied to `typography.ellipses.ellipses` by
  equality on op `ellipses`: all short strings over a 10-symbol alphabet plus sampled longer
  ones).  `isWord` (`\w`) is a parameter.
-/
namespace FM.C09
open FM

/-- E_SHAPE: after deleting whitespace and spelling `…` as `...`, output and input are the same
string — so the only edits are `...`→`…` and inserted spaces; no other character is dropped,
added or reordered, for every `\w` class and every text. -/
theorem E_SHAPE (isWord : Char → Bool) (s : Str) : squashE (ellipses isWord s) = squashE s := by
  unfold ellipses
  exact ellPass_squash isWord _ _ _ _ _

/-- No three-dot run, no change: a step whose `ellBody` does not match copies one character. -/
theorem ellBody_none_of_no_dot (s : Str) (h : '.' ∉ s) : ellBody s = none := by
  unfold ellBody
  simp only
  split
  · rename_i hp
    have h2 := isPrefixOf_split hp
    have : '.' ∈ s.dropWhile isPySpace := by rw [h2]; simp [threeDots]
    exact absurd (List.dropWhile_sublist _ |>.subset this) h
  · rfl

theorem ellPass_no_dot (isWord : Char → Bool) (tagAt : Nat → Bool) :
    ∀ (n : Nat) (ls : Bool) (pos : Nat) (s : Str), '.' ∉ s → ellPass isWord tagAt n ls pos s = s := by
  intro n
  induction n with
  | zero => intros; rfl
  | succ n ih =>
    intro ls pos s h
    cases s with
    | nil => rfl
    | cons c cs =>
      have hcs : '.' ∉ cs := fun hm => h (by simp [hm])
      have h1 : ellBody (c :: cs) = none := ellBody_none_of_no_dot _ h
      have h2 : ellBody cs = none := ellBody_none_of_no_dot _ hcs
      have hstep : ellStep isWord ls (tagAt pos) c cs = ([c], cs) := by
        unfold ellStep; simp [h1, h2]
      show (ellStep isWord ls (tagAt pos) c cs).1 ++ ellPass isWord tagAt n false _ (ellStep isWord ls (tagAt pos) c cs).2 = _
      rw [hstep]
      simp [ih false _ cs hcs]

/-- E_NO_DOTS: text without a full stop character is returned unchanged. -/
theorem E_NO_DOTS (isWord : Char → Bool) (s : Str) (h : '.' ∉ s) : ellipses isWord s = s := by
  unfold ellipses
  exact ellPass_no_dot isWord _ _ _ _ _ h

/-- E_TAGS: a match that starts inside a template-tag span is consumed but emitted verbatim. -/
theorem E_TAGS (isWord : Char → Bool) (ls : Bool) (c : Char) (cs : Str) :
    ∃ consumed, c :: cs = consumed ++ (ellStep isWord ls true c cs).2 ∧
      (ellStep isWord ls true c cs).1 = consumed := by
  unfold ellStep
  cases h1 : (if ls then ellBody (c :: cs) else none) with
  | some t =>
    obtain ⟨sb, p, sa, rest⟩ := t
    have h1' : ellBody (c :: cs) = some (sb, p, sa, rest) := by
      cases ls <;> simp at h1; exact h1
    obtain ⟨hs, _, _⟩ := ellBody_spec _ _ _ _ _ h1'
    refine ⟨sb ++ threeDots ++ p ++ sa, by simpa [List.append_assoc] using hs, ?_⟩
    simp only [if_true]
    rw [hs]; exact take_consumed _ _
  | none =>
    simp only
    cases h2 : (if isEllPrefixChar isWord c then ellBody cs else none) with
    | some t =>
      obtain ⟨sb, p, sa, rest⟩ := t
      have h2' : ellBody cs = some (sb, p, sa, rest) := by
        split at h2
        · exact h2
        · simp at h2
      obtain ⟨hs, _, _⟩ := ellBody_spec _ _ _ _ _ h2'
      have hc : c :: cs = (c :: (sb ++ threeDots ++ p ++ sa)) ++ rest := by simp [hs, List.append_assoc]
      refine ⟨c :: (sb ++ threeDots ++ p ++ sa), hc, ?_⟩
      simp only [if_true]
      rw [hc]; exact take_consumed _ _
    | none => exact ⟨[c], by simp, rfl⟩

def asciiWord (c : Char) : Bool := c.isAlphanum || c == '_'

/-- non-vacuity: spacing rules, the boundary test, and a protected tag. -/
example : ellipses asciiWord "wait...and then... done....".toList
    = "wait … and then … done ….".toList := by decide
example : ellipses asciiWord "x...(y) {% t a...b %} \"...\"".toList
    = "x...(y) {% t a...b %} \"…\"".toList := by decide


/-- PATTERNS_AS_MODELLED: the regular expressions of the source files this property's models were written against
(regenerated from /repo's working tree on every run by harness/translate_patterns.py) are the recorded ones. -/
theorem PATTERNS_AS_MODELLED : FM.Gen.patterns_C09 = FM.Baseline.patterns_C09 := by decide

end FM.C09
