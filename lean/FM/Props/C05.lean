import FM.Generated.Patterns
import FM.Model.PatternBaseline
import FM.Lemmas.Wrap
import FM.Lemmas.Sentence
/-
  C05 — Wrapping is lossless, width-bounded and maximal.

  Theorems about the exact model `fill` / `wrapLines` of `wrap_paragraph_lines`
  (tied to the code by equality on ops `fill`, `wrapLines`, `wrapPara`).
  Sentence-mode statements are in `Props/C11.lean` (shared fold) and re-exported below.
-/
namespace FM.C05
open FM

/-- LOSSLESS + NONEMPTY + escape discipline: the output lines are a partition of the word
sequence into non-empty lines; only heads of lines after the first are rewritten, by the
Markdown escape (and by nothing when `is_markdown` is off). -/
theorem LOSSLESS (W c0 c1 : Nat) (md : Bool) (ws : List Word) :
    LinesOf (escOf md) true ws (fill W c1 md c0 ws) :=
  (fillG_linesFrom (escOf md) W c0 c1 ws [] c0 true (fun _ => rfl)).1 rfl

theorem LOSSLESS_words (W c0 c1 : Nat) (md : Bool) (ws : List Word) :
    EscRel (escOf md) (fill W c1 md c0 ws).flatten ws :=
  (LOSSLESS W c0 c1 md ws).flatten_rel

theorem LOSSLESS_plain (W c0 c1 : Nat) (ws : List Word) :
    (fill W c1 false c0 ws).flatten = ws :=
  LinesOf.flatten_id (by simpa [escOf] using LOSSLESS W c0 c1 false ws)

theorem NONEMPTY (W c0 c1 : Nat) (md : Bool) (ws : List Word) :
    ∀ l ∈ fill W c1 md c0 ws, l ≠ [] :=
  (LOSSLESS W c0 c1 md ws).nonempty

/-- BOUND, full strength: every line, measured from its *true* starting column (`c0` for the
first line, `c1` for the others), is within the width or is a single unbreakable word.
(Before the repair `fix: account the first word … at the initial column` this was false of the
code: `[^longlabel12]: aaaaaaa bb cc dd` at width 20 gave a 32-column breakable first line; the
proof attempt forced the hypothesis `c0 ≤ c1 ∨ first word fits`, see KNOWN_FINDINGS.json.) -/
theorem BOUND (W c0 c1 : Nat) (md : Bool) (ws : List Word) :
    BoundFrom W c0 c1 (fill W c1 md c0 ws) := by
  unfold fill
  cases ws with
  | nil => simp [fillG, emit, BoundFrom]
  | cons w ws =>
    unfold fillG
    split
    · exact fillG_bound _ W c0 c1 ws _ _ c0 true (by simp) (by simp [lineLen, sepW]) (Or.inr (by simp))
    · simp only [List.isEmpty_nil, Bool.and_self, if_true, emit_nil, List.nil_append]
      exact fillG_bound _ W c0 c1 ws [w] (c0 + w.length) c0 true (by simp) (by simp [lineLen])
        (Or.inr rfl)

/-- The regression witness of the repaired defect, now within bounds on the model. -/
example : BoundFrom 20 16 4 (fill 20 4 false 16
    ["aaaaaaa".toList, "bb".toList, "cc".toList, "dd".toList]) := by
  unfold BoundFrom LineOK; decide

/-- MAXIMAL: for consecutive lines the head of the next line (as emitted) would not have fit
on the previous line (accounting column `c0` for the first line, `c1` afterwards). -/
theorem MAXIMAL (W c0 c1 : Nat) (md : Bool) (ws : List Word) :
    MaxChain W c1 c0 (fill W c1 md c0 ws) := by
  have hesc : ∀ w, w.length ≤ (escOf md w).length := by
    intro w; cases md <;> simp [escOf, escapeWord_length]
  have hs : sepW ([] : Line) = 0 := rfl
  unfold fill
  cases ws with
  | nil => simp [fillG, emit, MaxChain]
  | cons w ws =>
    unfold fillG
    rw [hs, Nat.add_zero]
    by_cases hfit : c0 + w.length ≤ W
    · simp only [hfit, if_true]
      exact fillG_maximal _ hesc W c0 c1 ws _ _ c0 true (by simp) (by simp [lineLen])
    · simp only [hfit, if_false, List.isEmpty_nil, Bool.and_self, if_true, emit_nil, List.nil_append]
      exact fillG_maximal _ hesc W c0 c1 ws _ _ c0 true (by simp) (by simp [lineLen])

/-- non-vacuity / sanity: a concrete wrap. -/
example : (fill 10 2 true 0 ["aaaa".toList, "bbbb".toList, "-".toList, "x".toList]).map joinSp
    = ["aaaa bbbb".toList, "\\- x".toList] := by decide

/-- NOWRAP: `width ≤ 0` yields exactly one line per paragraph segment (or none if blank). -/
theorem NOWRAP (split : Str → List Word) (text : Str) (W : Int) (c0 c1 : Nat) (md : Bool)
    (h : W ≤ 0) :
    wrapLines split text W c0 c1 md =
      (if (strip (collapseWs text)).isEmpty then [] else [strip (collapseWs text)]) := by
  simp [wrapLines, h]

theorem NOWRAP_le_one (split : Str → List Word) (text : Str) (W : Int) (c0 c1 : Nat) (md : Bool)
    (h : W ≤ 0) : (wrapLines split text W c0 c1 md).length ≤ 1 := by
  rw [NOWRAP split text W c0 c1 md h]; split <;> simp

/-! ### The rendered lines (`wrap_paragraph`: indents put in front of the filled lines) -/

theorem joinSp_length : ∀ (l : Line), (joinSp l).length = lineLen l
  | [] => rfl
  | [w] => rfl
  | w :: v :: rest => by
    simp only [joinSp, lineLen, List.length_append, List.length_cons]
    rw [joinSp_length (v :: rest)]; omega

theorem indented_of_bound (W : Nat) (i0 s0 : Str) (filled : List Line)
    (hb : BoundFrom W i0.length s0.length filled) :
    (addIndents i0 s0 false (filled.map joinSp)).length = filled.length ∧
    (∀ L ∈ (addIndents i0 s0 false (filled.map joinSp)).head?,
      ∃ l ∈ filled.head?, L = i0 ++ joinSp l ∧ (L.length ≤ W ∨ l.length = 1)) ∧
    (∀ L ∈ (addIndents i0 s0 false (filled.map joinSp)).tail,
      ∃ l ∈ filled.tail, L = s0 ++ joinSp l ∧ (L.length ≤ W ∨ l.length = 1)) := by
  cases filled with
  | nil => simp [addIndents]
  | cons l rest =>
    simp only [List.map_cons, addIndents, Bool.false_eq_true, if_false, List.length_cons, List.length_map,
      List.head?_cons, Option.mem_def, Option.some.injEq, List.tail_cons, true_and]
    refine ⟨?_, ?_⟩
    · intro L hL
      subst hL
      refine ⟨l, rfl, rfl, ?_⟩
      have := hb.1 l (by simp)
      unfold LineOK at this
      rcases this with h | h
      · left; simp only [List.length_append, joinSp_length]; omega
      · right; exact h
    · intro L hL
      obtain ⟨l', hl', rfl⟩ := List.mem_map.1 hL
      obtain ⟨l'', hl'', rfl⟩ := List.mem_map.1 hl'
      refine ⟨l'', hl'', rfl, ?_⟩
      have := hb.2 l'' (by simpa using hl'')
      unfold LineOK at this
      rcases this with h | h
      · left; simp only [List.length_append, joinSp_length]; omega
      · right; exact h

/-- INDENTED_LINES (the property's sentence "every line carries the configured first-line or continuation
indent, and no wrapped line is longer than the width unless it cannot be shortened by breaking at a space"),
on the text lines `wrap_paragraph` hands back: the first is `initial_indent ++ words`, every other one is
`subsequent_indent ++ words`, and each is at most `W` characters long **as a string, indent included**, or
consists of its indent and one single word. -/
theorem INDENTED_LINES (W : Nat) (i0 s0 : Str) (md : Bool) (ws : List Word) :
    (addIndents i0 s0 false ((fill W s0.length md i0.length ws).map joinSp)).length
      = (fill W s0.length md i0.length ws).length ∧
    (∀ L ∈ (addIndents i0 s0 false ((fill W s0.length md i0.length ws).map joinSp)).head?,
      ∃ l ∈ (fill W s0.length md i0.length ws).head?, L = i0 ++ joinSp l ∧ (L.length ≤ W ∨ l.length = 1)) ∧
    (∀ L ∈ (addIndents i0 s0 false ((fill W s0.length md i0.length ws).map joinSp)).tail,
      ∃ l ∈ (fill W s0.length md i0.length ws).tail, L = s0 ++ joinSp l ∧ (L.length ≤ W ∨ l.length = 1)) :=
  indented_of_bound W i0 s0 _ (BOUND W i0.length s0.length md ws)

/-- non-vacuity: list-item indents, width 12. -/
example : addIndents "- ".toList "  ".toList false
    ((fill 12 2 true 2 ["aaaa".toList, "bbbb".toList, "cc".toList, "dddddddddddddd".toList]).map joinSp)
    = ["- aaaa bbbb".toList, "  cc".toList, "  dddddddddddddd".toList] := by decide

/-! ### Sentence mode (`line_wrap_by_sentence`) -/

/-- True-column bound of a list of output lines: line 0 starts at `i0`, the others at `s0`. -/
def SBound (W i0 s0 : Nat) (out : List Line) : Prop :=
  (∀ l ∈ out.head?, LineOK W i0 l) ∧ ∀ l ∈ out.tail, LineOK W s0 l

/-- S_BOUND at full strength is FALSE of the code and of its model: the merge of a sentence into
a short last line tests `len(last) + 1 + len(first wrapped line) <= width` without the line's
indent.  Witness: `- Go on. xxxxxxxxxxxxxxxxxxxxxx efgh ijkl` at width 30 gives a 31-column line.
(Not repaired: the repository's reference documents pin such lines; see KNOWN_FINDINGS.json.) -/
theorem S_BOUND_false :
    ¬ SBound 30 2 2 (foldSent { W := 30, i0 := 2, s0 := 2, minLen := 20, md := false } true []
      [["Go".toList, "on.".toList],
       ["xxxxxxxxxxxxxxxxxxxxxx".toList, "efgh".toList, "ijkl".toList]]) := by
  unfold SBound LineOK; decide

/-- S_BOUND_partial: measured *without* its indent every line is within the width or is a single
unbreakable word, and no line is empty — for every configuration.  With zero indents this is the
full bound. -/
theorem S_BOUND_partial (c : SCfg) : ∀ (ss : List (List Word)) (first : Bool) (lines : List Line),
    (∀ l ∈ lines, LineOK0 c.W l ∧ l ≠ []) →
    ∀ l ∈ foldSent c first lines ss, LineOK0 c.W l ∧ l ≠ [] := by
  intro ss
  induction ss with
  | nil => intro first lines h; simpa [foldSent] using h
  | cons s rest ih =>
    intro first lines h
    simp only [foldSent]
    exact ih false _ (sentStep_ok0 c first lines s h)

theorem S_BOUND_noindent (c : SCfg) (ws : List (Word × Bool)) :
    ∀ l ∈ wrapBySentence c ws, LineOK0 c.W l ∧ l ≠ [] :=
  S_BOUND_partial c _ true [] (by simp)


/-- PATTERNS_AS_MODELLED: the regular expressions of the source files this property's models were written against
(regenerated from /repo's working tree on every run by harness/translate_patterns.py) are the recorded ones. -/
theorem PATTERNS_AS_MODELLED : FM.Gen.patterns_C05 = FM.Baseline.patterns_C05 := by decide

end FM.C05
