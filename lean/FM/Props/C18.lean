import FM.Lemmas.Resolver
/-
  C18 — gitignore handling agrees with git.

  git's rule (gitignore(5)), as a specification over the same parameters as the model: every
  `.gitignore` from the traversal root down to a path's directory sees that path relative to its own
  directory; the last pattern that matches decides, files deeper down being read later; and a path
  below an ignored directory is ignored whatever the patterns say about it ("it is not possible to
  re-include a file if a parent directory of that file is excluded").  What a single pattern list
  answers for a relative path is the parameter `GiSpec` (pathspec in the code, validated against git
  itself by the harness).
-/
namespace FM.C18
open FM.Res

/-- SPEC: the path `parent ++ rest` is ignored: the last-match verdict is "ignored" for it, or for
one of the directories between `parent` and it. -/
def ignoredAlong (env : Env) : RelPath → RelPath → Bool
  | _, [] => false
  | parent, [name] => lastVerdict (gitChain env parent) (parent ++ [name]) false
  | parent, name :: rest =>
    lastVerdict (gitChain env parent) (parent ++ [name]) true || ignoredAlong env (parent ++ [name]) rest

/-- a regular file at `rest` below children `cs`, reached through regular directories -/
inductive FileAt : List Node → RelPath → Prop
  | file {cs : List Node} {name : Name} {size : Nat} : Node.file name size false ∈ cs → FileAt cs [name]
  | dir {cs kids : List Node} {name : Name} {rest : RelPath} :
      Node.dir name false kids ∈ cs → FileAt kids rest → FileAt cs (name :: rest)

theorem FileAt.ne_nil {cs : List Node} {rest : RelPath} (h : FileAt cs rest) : rest ≠ [] := by
  cases h <;> simp

/-- only gitignore is at work: every name is included, nothing is excluded, no tool ignore file, no size limit -/
structure OnlyGit (env : Env) : Prop where
  incl : ∀ n, env.incl n = true
  excl : ∀ s, env.excl s = false
  tool : env.tool = none
  size : env.maxSize = 0
  on : env.respectGi = true

theorem fileOk_onlyGit {env : Env} (h : OnlyGit env) (parent : RelPath) (name : Name) (size : Nat) (link : Bool) :
    fileOk env parent name size link = (!link && !lastVerdict (gitChain env parent) (parent ++ [name]) false) := by
  simp [fileOk, h.incl, tooBig, h.size, h.on, toolMatches, h.tool]

theorem dirExcluded_onlyGit {env : Env} (h : OnlyGit env) (parent : RelPath) (name : Name) :
    dirExcluded env parent name = lastVerdict (gitChain env parent) (parent ++ [name]) true := by
  simp [dirExcluded, h.excl, h.on, toolMatches, h.tool]

/-- AGREES: with only gitignore at work, a path is listed by traversal iff it is a regular file of
the tree (reached through regular directories) that git's rule does not ignore. -/
theorem AGREES (env : Env) (h : OnlyGit env) (parent : RelPath) (cs : List Node) (p : RelPath) :
    p ∈ walkNodes env parent cs ↔
      ∃ rest, p = parent ++ rest ∧ FileAt cs rest ∧ ignoredAlong env parent rest = false := by
  rw [mem_walkNodes_iff]
  constructor
  · intro hk
    induction hk with
    | @file parent cs name size link hm hok =>
      rw [fileOk_onlyGit h] at hok
      simp at hok
      obtain ⟨rfl, hv⟩ := hok
      exact ⟨[name], rfl, .file hm, by simpa [ignoredAlong] using hv⟩
    | @dir parent cs name kids p hm hex _ ih =>
      obtain ⟨rest, rfl, hf, hi⟩ := ih
      rw [dirExcluded_onlyGit h] at hex
      refine ⟨name :: rest, by simp, .dir hm hf, ?_⟩
      cases rest with
      | nil => exact absurd rfl hf.ne_nil
      | cons r rs => simp [ignoredAlong, hex, hi]
  · rintro ⟨rest, rfl, hf, hi⟩
    induction hf generalizing parent with
    | @file cs name size hm =>
      refine .file hm ?_
      rw [fileOk_onlyGit h]
      simpa [ignoredAlong] using hi
    | @dir cs kids name rest hm hf ih =>
      cases rest with
      | nil => exact absurd rfl hf.ne_nil
      | cons r rs =>
        simp only [ignoredAlong, Bool.or_eq_false_iff] at hi
        have := ih (parent ++ [name]) hi.2
        refine .dir hm (by rw [dirExcluded_onlyGit h]; exact hi.1) ?_
        simpa using this

/-- LAST_MATCH: the verdict along a chain is the verdict of the deepest `.gitignore` that has a
matching pattern (`none` answers are skipped), `false` if none has. -/
theorem LAST_MATCH (chain : List (RelPath × GiSpec)) (b : RelPath × GiSpec) (path : RelPath) (isDir : Bool) :
    lastVerdict (chain ++ [b]) path isDir =
      match b.2 (if isDir then posixDir (path.drop b.1.length) else posix (path.drop b.1.length)) with
      | some v => v
      | none => lastVerdict chain path isDir := by
  unfold lastVerdict
  rw [List.foldl_append]
  simp only [List.foldl_cons, List.foldl_nil]
  split <;> (rename_i hb; simp [hb])

/-- OFF: with `respect_gitignore` off, no `.gitignore` has any influence on a traversal. -/
theorem OFF (env : Env) (gi' : RelPath → Option GiSpec) (h : env.respectGi = false) :
    ∀ (cs : List Node) (parent : RelPath), walkNodes env parent cs = walkNodes { env with gi := gi' } parent cs := by
  have hf : ∀ parent name size link, fileOk env parent name size link = fileOk { env with gi := gi' } parent name size link := by
    intro parent name size link; simp [fileOk, h, tooBig, toolMatches]
  have hd : ∀ parent name, dirExcluded env parent name = dirExcluded { env with gi := gi' } parent name := by
    intro parent name; simp [dirExcluded, h, toolMatches]
  have key : ∀ (p q : RelPath) (cs : List Node), Kept env p cs q → Kept { env with gi := gi' } p cs q := by
    intro p q cs hk
    induction hk with
    | file hm hok => exact .file hm (by rw [← hf]; exact hok)
    | dir hm hex _ ih => exact .dir hm (by rw [← hd]; exact hex) ih
  -- equality of the lists themselves, by the same structural recursion as the definition
  let rec go : ∀ (cs : List Node) (parent : RelPath), walkNodes env parent cs = walkNodes { env with gi := gi' } parent cs
    | [], _ => by simp [walkNodes]
    | .file name size link :: ns, parent => by
      simp only [walkNodes, walkNode]
      rw [hf, go ns parent]
    | .dir name link kids :: ns, parent => by
      simp only [walkNodes, walkNode]
      rw [hd, go ns parent, go kids (parent ++ [name])]
  exact go

/-- non-vacuity and the two behaviours the repair introduced: an anchored pattern applies only at
its own level, and a nested `!pattern` re-includes what the parent ignores. -/
def giRoot : GiSpec := fun s => if s == [97] then some true else if s == [100, 47, 107] then none else
  if s.getLast? == some 109 then some true else none            -- "/a" anchored; "*m" everywhere
def giSub : GiSpec := fun s => if s == [107, 109] then some false else none   -- "!km" in d/
def exEnv : Env :=
  { incl := fun _ => true, excl := fun _ => false, tool := none, respectGi := true, maxSize := 0,
    gi := fun p => if p == [] then some giRoot else if p == [[100]] then some giSub else none }

example : walkNodes exEnv [] [.file [97] 1 false, .file [120, 109] 1 false,
    .dir [100] false [.file [97] 1 false, .file [107, 109] 1 false, .file [122, 109] 1 false]]
    = [[[100], [97]], [[100], [107, 109]]] := by decide

end FM.C18
