import FM.Lemmas.Render
namespace FM.C01
open FM

/-- FRAME: every block hands `_second_prefix` and `_current_list_tight` back unchanged,
for every tree, wrapper and state (so nesting state cannot leak out of a container). -/
theorem FRAME (cfg : RCfg) (st : RState) (b : Block) : Frame st (renderBlock cfg st b).2 :=
  (frame_all cfg).1 st b

end FM.C01
