import FM.Generated.Patterns
import FM.Model.PatternBaseline
import FM.Lemmas.Render
import FM.Lemmas.RenderPD
import FM.Lemmas.BlockStart
import FM.Lemmas.Sentence
/-
  C01 — Formatting preserves the meaning of the document.

  (i) position-dependent part: a word that wrapping puts at a line start must not start a block —
      theorems over the greedy fill / sentence fold and the SPEC `interruptsPara`;
  (ii) position-independent part: renderer state discipline on the render model
      (tied to MarkdownNormalizer by op `render`).
  Marko's parser is a parameter (see DESIGN §4.3); the end-to-end reading oracle covers it.
-/
namespace FM.C01
open FM

/-! ### (ii) renderer state discipline -/

/-- FRAME: every block hands `_second_prefix` and `_current_list_tight` back unchanged,
for every tree, wrapper and state (so nesting state cannot leak out of a container). -/
theorem FRAME (cfg : RCfg) (st : RState) (b : Block) : Frame st (renderBlock cfg st b).2 :=
  (frame_all cfg).1 st b

theorem FRAME_blocks (cfg : RCfg) (st : RState) (bs : List Block) : Frame st (renderBlocks cfg st bs).2 :=
  (frame_all cfg).2.1 st bs

/-- PREFIX_DISCIPLINE_partial: every line the renderer writes for a document — at any nesting of
lists, quotes, alerts and footnotes, for every tree, list-spacing mode and wrapper that keeps its
own contract (`WrapPD`: the lines it returns start with the prefixes it was given) — is empty or
starts with the prefix of the container it is in (first-line or continuation form, trailing
whitespace aside).  A line that lost its `  > ` or its indentation would end the enclosing
container when the output is read back; stating this theorem is what exposed two such lines in
flowmark (the separator between loose items, the empty alert).  Partial: link reference
definitions and tables are emitted as written and excluded (`plainBlocks`); bare empty lines are
allowed by `PfxOK`. -/
theorem PREFIX_DISCIPLINE_partial (cfg : RCfg) (hw : WrapPD cfg) (bs : List Block) (h : plainBlocks bs = true) :
    AllLines (PfxOK [] []) (renderDoc cfg bs) :=
  ((pd_all cfg hw).2.1 RState.init bs h (by simp [RState.init]) (by simp [RState.init])).1

/-- the same inside any container: a block rendered under prefixes `(p, s)` writes only lines that
start with `p` or `s` (or are empty), and hands back `s` as both prefixes' continuation -/
theorem PREFIX_DISCIPLINE_block (cfg : RCfg) (hw : WrapPD cfg) (st : RState) (b : Block) (h : plainBlock b = true)
    (hp : '\n' ∉ st.pfx) (hs : '\n' ∉ st.snd) :
    AllLines (PfxOK st.pfx st.snd) (renderBlock cfg st b).1 :=
  ((pd_all cfg hw).1 st b h hp hs).1

/-- ADD_INDENTS_PD: the indent insertion shared by both real wrappers keeps the contract: the lines
it produces, joined by newlines, start with the first-line prefix and then the continuation prefix
(this is the wrappers' own last step before the adjacent-tag fix-up; the tag layers may afterwards
move a block-level closing tag to column 0 on purpose, which is why `WrapPD` is a hypothesis of
PREFIX_DISCIPLINE_partial and not a theorem about the complete wrappers). -/
theorem ADD_INDENTS_PD (p s : Str) (ls : List Str) (hne : ls ≠ []) (hls : ∀ l ∈ ls, '\n' ∉ l)
    (hp : '\n' ∉ p) (hs : '\n' ∉ s) :
    AllLines (PfxOK p s) (joinWith ['\n'] (addIndents p s false ls) ++ ['\n']) := by
  cases ls with
  | nil => exact absurd rfl hne
  | cons l rest =>
    apply allLines_joinWith _ (by simp [addIndents])
    intro x hx
    simp only [addIndents, Bool.false_eq_true, if_false, List.mem_cons, List.mem_map] at hx
    rcases hx with rfl | ⟨y, hy, rfl⟩
    · exact ⟨by simp [hp, hls l (by simp)], PfxOK.of_pfx _ _ _⟩
    · exact ⟨by simp [hs, hls y (by simp [hy])], PfxOK.of_snd _ _ _⟩

/-- non-vacuity of the wrapper contract: the wrapper that writes the text on one line satisfies it -/
example : WrapPD { wrap := fun t p _ => p ++ t.filter (· != '\n'), spacing := .preserve, defs := [] } := by
  intro t p s hp _
  exact .single (by simp [hp]) (PfxOK.of_pfx _ _ _)

/-! ### (i) no hazard at introduced line heads -/

/-- The set of head words the escape covers. -/
def EscCovers (w : Word) : Prop := isSpecialWord w = true ∨ isNumeralWord w = true

/-- NH_handled: wherever the escape applies, the escaped line cannot start a list, heading,
quote, rule, setext underline or fence — for every rest of the line. -/
theorem NH_handled (w : Word) (rest : Line) (h : EscCovers w) :
    interruptsPara (escapeWord w :: rest) = false :=
  escaped_head_safe w rest h

/-- NH_classify: a line that interrupts a paragraph has a head the escape covers, or is one of the
kinds it does not cover (quote marker glued to text, rule / setext line, fence). -/
theorem NH_classify (w : Word) (rest : Line) (h : interruptsPara (w :: rest) = true) :
    EscCovers w ∨ isQuoteHead w = true ∨ isRuleLine '*' (w :: rest) = true ∨
      isRuleLine '-' (w :: rest) = true ∨ isRuleLine '_' (w :: rest) = true ∨
      isSetextLine (w :: rest) = true ∨ isFenceHead w rest = true := by
  simp only [interruptsPara, Bool.or_eq_true] at h
  rcases h with ((((((((h | h) | h) | h) | h) | h) | h) | h) | h)
  · left; left
    simp only [isAtxHead, allCh, Bool.and_eq_true] at h
    simp [isSpecialWord, h.1.1, h.1.2]
  · left; left
    simp only [isBulletHead, Bool.and_eq_true, Bool.or_eq_true] at h
    rcases h.1 with ((h1 | h1) | h1) <;> simp [isSpecialWord, h1]
  · left; right
    simp only [isOrderedHead, Bool.and_eq_true, Bool.or_eq_true, beq_iff_eq] at h
    rcases h.1 with h1 | h1 <;> subst h1 <;> decide
  · right; left; exact h
  · right; right; left; exact h
  · right; right; right; left; exact h
  · right; right; right; right; left; exact h
  · right; right; right; right; right; left; exact h
  · right; right; right; right; right; right; exact h

/-- NH for the greedy fill (Markdown mode): in every output line after the first, the head went
through the escape; if that line still interrupts the paragraph, the escape did not apply to it. -/
theorem NH_fill (W c0 c1 : Nat) (ws : List Word) :
    ∀ l ∈ (fill W c1 true c0 ws).tail, ∃ h t, l = escapeWord h :: t ∧
      (EscCovers h → interruptsPara l = false) := by
  have hl := fill_linesOf W c0 c1 true ws
  generalize fill W c1 true c0 ws = out at hl
  have key : ∀ (first : Bool) (ws : List Word) (out : List Line), LinesOf escapeWord first ws out →
      ∀ l ∈ (if first then out.tail else out), ∃ h t, l = escapeWord h :: t ∧
        (EscCovers h → interruptsPara l = false) := by
    intro first ws out h
    induction h with
    | nil first => intro l hl; cases first <;> simp at hl
    | cons first h t rest ls _ ih =>
      intro l hl
      cases first with
      | true => simpa using ih l (by simpa using hl)
      | false =>
        simp only [Bool.false_eq_true, if_false] at hl ih
        rcases List.mem_cons.1 hl with rfl | hl
        · exact ⟨h, t, rfl, fun hc => NH_handled h t hc⟩
        · exact ih l hl
  exact key true ws out (by simpa [escOf] using hl)

/-- The full-strength statement is FALSE of the code and of its model: `---` is not covered.
`aaaa bbbb ---` at width 10 puts `---` alone on the second line — a setext underline. -/
theorem NH_false :
    ∃ l ∈ (fill 10 0 true 0 ["aaaa".toList, "bbbb".toList, "---".toList]).tail,
      interruptsPara l = true := by decide

/-- … and in sentence mode the first word of a sentence is never escaped, even when it starts a
line: `… here. - and then` becomes a list item. -/
theorem NH_sentence_false :
    ∃ l ∈ (wrapBySentence { W := 88, i0 := 0, s0 := 0, minLen := 20, md := true }
        [("This".toList, false), ("is".toList, false), ("a".toList, false), ("long".toList, false),
         ("enough".toList, false), ("sentence".toList, false), ("here.".toList, true),
         ("-".toList, false), ("and".toList, false), ("then".toList, true)]).tail,
      interruptsPara l = true := by decide

/-- non-vacuity of NH_handled: a covered word. -/
example : (isSpecialWord "12)".toList || isNumeralWord "12)".toList) = true ∧
    interruptsPara (escapeWord "1.".toList :: ["x".toList]) = false := by decide


/-- PATTERNS_AS_MODELLED: the regular expressions of the source files this property's models were written against
(regenerated from /repo's working tree on every run by harness/translate_patterns.py) are the recorded ones. -/
theorem PATTERNS_AS_MODELLED : FM.Gen.patterns_C01 = FM.Baseline.patterns_C01 := by decide

end FM.C01
