import FM.Lemmas.Layout
import FM.Model.Render
/-
  C03 — Output is a canonical form independent of the input's line layout.

  What the wrappers can see of the layout of a paragraph's text:
    * the base wrappers (fill and sentence, every width, both escape modes) are functions of the
      text after whitespace collapsing (LAYOUT_FN_*), and the two elementary re-layout moves —
      exchanging one whitespace character for another (a line break moved to another space) and
      multiplying whitespace (runs of spaces, re-indented continuation lines) — do not change the
      collapsed text (RELAYOUT_*);
    * the layers around them (hard breaks, tag newlines) hand the text through untouched unless a
      line starts or ends with a tag or the text holds a hard break (LAYERS_TRANSPARENT): the
      deliberate exception of the property and nothing else;
    * formatting at another width first changes nothing for the wrapper provided no Markdown escape
      was introduced (REWIDTH_partial); with an introduced escape it does (REWIDTH_false, a known
      finding: the parser hands the escape back as a literal).
  Marko's side (soft breaks, continuation indentation, lazy continuation) is covered by the
  re-layout oracle in harness/props/c03.py.
-/
namespace FM.C03
open FM

/-- RELAYOUT_break: a line break moved to another space (any whitespace for any other). -/
theorem RELAYOUT_break (a r : Str) (w1 w2 : Char) (h1 : isPySpace w1 = true) (h2 : isPySpace w2 = true) :
    collapseWs (a ++ w1 :: r) = collapseWs (a ++ w2 :: r) := collapseWs_swap a r w1 w2 h1 h2

/-- RELAYOUT_spaces: a run of whitespace made longer (or shorter). -/
theorem RELAYOUT_spaces (a r : Str) (w1 w2 : Char) (h1 : isPySpace w1 = true) (h2 : isPySpace w2 = true) :
    collapseWs (a ++ w1 :: w2 :: r) = collapseWs (a ++ w1 :: r) := collapseWs_dup a r w1 w2 h1 h2

/-- LAYOUT_FN_fill: `line_wrap_to_width`'s base wrapper, any width (≤ 0 included), any indents. -/
theorem LAYOUT_FN_fill (W : Int) (md : Bool) (t1 t2 i0 s0 : Str) (h : collapseWs t1 = collapseWs t2) :
    fillBase W md t1 i0 s0 = fillBase W md t2 i0 s0 := by
  simp [fillBase, wrapParagraph, wrapLines, h]

/-- LAYOUT_FN_sentence: `line_wrap_by_sentence`'s base wrapper, any width (≤ 0 included since the
repair of the no-wrap branch), any `min_line_len`, any character classes. -/
theorem LAYOUT_FN_sentence (cls : CharCls) (W : Int) (minLen : Nat) (md : Bool) (t1 t2 i0 s0 : Str)
    (h : collapseWs t1 = collapseWs t2) :
    sentenceBase cls W minLen md t1 i0 s0 = sentenceBase cls W minLen md t2 i0 s0 := by
  have e : (fun c : Char => if c == '\n' then ' ' else c) = nlToSp := rfl
  have hw : pySplit (t1.map nlToSp) = pySplit (t2.map nlToSp) := by
    rw [pySplit_nlToSp, pySplit_nlToSp, ← pySplit_collapse t1, ← pySplit_collapse t2, h]
  simp only [sentenceBase, e, hw]

/-- LAYERS_TRANSPARENT: on a text without a hard break in which no line starts or ends with a tag,
the hard-break and tag-newline layers do nothing but the multi-line-tag fix on the base result. -/
theorem LAYERS_TRANSPARENT (base : LineWrapper) (text i0 s0 : Str)
    (hhb : (splitHardBreaks text []).length = 1)
    (htag : ∀ l ∈ pySplitNl text, lineEndsWithTag l = false ∧ lineStartsWithTag l = false) :
    mdLineWrapper base text i0 s0 = fixMultilineOpening (base text i0 s0) := by
  unfold mdLineWrapper
  rw [hardBreakWrapper_single _ _ _ _ hhb, tagWrapper_tagfree base text i0 s0 htag]

/-- the one-line case needs no hypothesis on tags -/
theorem SINGLE_LINE (base : LineWrapper) (text i0 s0 : Str) (h : '\n' ∉ text) :
    mdLineWrapper base text i0 s0 = fixMultilineOpening (base text i0 s0) := by
  unfold mdLineWrapper
  rw [hardBreakWrapper_no_nl _ _ _ _ h, tagWrapper_no_nl base text i0 s0 h]

/-- LAYOUT_FN: the complete Markdown wrappers give the same result on two layouts of the same text,
outside the deliberate exception. -/
theorem LAYOUT_FN (W : Int) (t1 t2 i0 s0 : Str) (h : collapseWs t1 = collapseWs t2)
    (hb1 : (splitHardBreaks t1 []).length = 1) (hb2 : (splitHardBreaks t2 []).length = 1)
    (ht1 : ∀ l ∈ pySplitNl t1, lineEndsWithTag l = false ∧ lineStartsWithTag l = false)
    (ht2 : ∀ l ∈ pySplitNl t2, lineEndsWithTag l = false ∧ lineStartsWithTag l = false) :
    mdFillWrapper W t1 i0 s0 = mdFillWrapper W t2 i0 s0 := by
  unfold mdFillWrapper
  rw [LAYERS_TRANSPARENT _ _ _ _ hb1 ht1, LAYERS_TRANSPARENT _ _ _ _ hb2 ht2, LAYOUT_FN_fill W true t1 t2 i0 s0 h]

theorem LAYOUT_FN_semantic (cls : CharCls) (W : Int) (minLen : Nat) (t1 t2 i0 s0 : Str)
    (h : collapseWs t1 = collapseWs t2)
    (hb1 : (splitHardBreaks t1 []).length = 1) (hb2 : (splitHardBreaks t2 []).length = 1)
    (ht1 : ∀ l ∈ pySplitNl t1, lineEndsWithTag l = false ∧ lineStartsWithTag l = false)
    (ht2 : ∀ l ∈ pySplitNl t2, lineEndsWithTag l = false ∧ lineStartsWithTag l = false) :
    mdSentenceWrapper cls W minLen t1 i0 s0 = mdSentenceWrapper cls W minLen t2 i0 s0 := by
  unfold mdSentenceWrapper
  rw [LAYERS_TRANSPARENT _ _ _ _ hb1 ht1, LAYERS_TRANSPARENT _ _ _ _ hb2 ht2,
    LAYOUT_FN_sentence cls W minLen true t1 t2 i0 s0 h]

/-- SOFTBREAK: a soft line break of the source reaches the wrapper as a newline and nothing else
(no state is touched), so it is one more whitespace character for the theorems above. -/
theorem SOFTBREAK (cfg : RCfg) (inH : Bool) (acc : Str) :
    renderInline cfg inH acc (.br true) = (['\n'], acc) := by
  simp [renderInline]

/-- HEADING_ONE_LINE: whatever line breaks (soft or hard) the source had inside a heading's text —
a setext heading may span several lines — none reaches the ATX heading that is written. -/
theorem HEADING_ONE_LINE : ∀ (s : Str), '\n' ∉ unbreak s
  | [] => by simp [unbreak]
  | [a] => by
    simp only [unbreak]
    split
    · simp
    · rename_i ha
      have hne : a ≠ '\n' := by simpa using ha
      simpa using fun e : '\n' = a => hne e.symm
  | a :: b :: rest => by
    have h1 := HEADING_ONE_LINE rest
    have h2 := HEADING_ONE_LINE (b :: rest)
    simp only [unbreak]
    split
    · simpa using h1
    · split
      · simpa using h2
      · rename_i hb ha
        have : a ≠ '\n' := by simpa using ha
        simp [this.symm, h2]

/-- REWIDTH_partial: the words of a fill at any width `W1`, filled again at `W2`, give what filling
the original words at `W2` gives — provided the escape is the identity on every word (no word that
would be escaped at a line start). -/
theorem REWIDTH_partial (W1 W2 c0 c1 c0' c1' : Nat) (md : Bool) (ws : List Word)
    (h : ∀ w ∈ ws, escOf md w = w) :
    fill W2 c1' md c0' (fill W1 c1 md c0 ws).flatten = fill W2 c1' md c0' ws := by
  rw [(fill_linesOf W1 c0 c1 md ws).flatten_fix h]

/-- plain-text mode introduces no escapes at all -/
theorem REWIDTH_plain (W1 W2 c0 c1 c0' c1' : Nat) (ws : List Word) :
    fill W2 c1' false c0' (fill W1 c1 false c0 ws).flatten = fill W2 c1' false c0' ws :=
  REWIDTH_partial W1 W2 c0 c1 c0' c1' false ws (fun _ _ => by simp [escOf])

/-- REWIDTH is FALSE in Markdown mode in general: an escape introduced at the first width is a
literal word at the second (known finding C03-introduced-escape-persists). -/
theorem REWIDTH_false :
    fill 80 0 true 0 (fill 10 0 true 0 ["aaaa".toList, "bbbb".toList, "-".toList, "x".toList]).flatten
      ≠ fill 80 0 true 0 ["aaaa".toList, "bbbb".toList, "-".toList, "x".toList] := by decide

/-- non-vacuity: two layouts of one sentence, equal after collapsing, meeting LAYOUT_FN's hypotheses -/
example : collapseWs "so much\n  text here".toList = collapseWs "so   much text\nhere".toList ∧
    (splitHardBreaks "so much\n  text here".toList []).length = 1 ∧
    (∀ l ∈ pySplitNl "so much\n  text here".toList, lineEndsWithTag l = false ∧ lineStartsWithTag l = false) := by
  decide

end FM.C03
